package main

import (
	"fmt"
	"go/ast"
	"go/token"
	"go/types"
	"sort"
	"strings"
)

func init() {
	register(&Property{
		ID:  "C14",
		Run: runC14,
		Decided: "Walk's type switch has a case for every node type the parser can construct (R14a); each case passes every child and comment field " +
			"of its node type to a visiting helper exactly once on every path, nil guards aside (R14b); f(node) is called first and its false result " +
			"returns before any child, f(nil) is called exactly once after the children on every normal path (R14c); Preorder is one Walk whose callback " +
			"never yields after the consumer stopped (R14d).",
		NotDecided: "" +
			"the dynamic order of visits relative to source order.",
		Assumptions: []string{"nodes are only built by code in package syntax; trees contain no cycles or shared sub-nodes (parser invariant, not checked)"},
		Controls:    c14Controls,
	})
}

// parserReach returns the functions reachable from any method of *Parser.
func parserReach(p *Prog, g *refGraph) map[*types.Func]bool {
	pt := lookupType(p.Pkg("syntax"), "Parser")
	if pt == nil {
		return nil
	}
	return g.reachable(g.methodsOf(pt)...)
}

// parserConstructible reports the parser-reachable functions constructing n.
func parserConstructible(g *refGraph, reach map[*types.Func]bool, n *types.Named) []string {
	var out []string
	for fo := range g.constructionSites(n) {
		if reach[fo] {
			out = append(out, funcObjKey(fo))
		}
	}
	sort.Strings(out)
	return out
}

type walkHelpers struct {
	walk, list, nilable, comments *types.Func
	// derived: package functions that are a straight line of calls of the helpers above, each on a distinct parameter,
	// with the callback handed through; the value lists the parameters visited (each exactly once).
	derived map[*types.Func][]int
}

func (w walkHelpers) is(f *types.Func) bool {
	return f != nil && (f == w.walk || f == w.list || f == w.nilable || f == w.comments)
}

// deriveWalkHelpers finds helper functions built from the four basic ones (e.g. walkStmts(stmts, last, f)).
func deriveWalkHelpers(p *Prog, info *types.Info, wh walkHelpers) map[*types.Func][]int {
	out := map[*types.Func][]int{}
	for _, fd := range p.AllFuncDecls("syntax") {
		if fd.Recv != nil || fd.Body == nil || fd.Type.Params == nil {
			continue
		}
		fo, _ := info.Defs[fd.Name].(*types.Func)
		if fo == nil || wh.is(fo) {
			continue
		}
		var params []types.Object
		for _, f := range fd.Type.Params.List {
			for _, nm := range f.Names {
				params = append(params, info.Defs[nm])
			}
		}
		if len(params) < 2 {
			continue
		}
		cb := params[len(params)-1]
		if _, ok := cb.Type().Underlying().(*types.Signature); !ok {
			continue
		}
		counts := make([]int, len(params)-1)
		ok := len(fd.Body.List) > 0
		for _, st := range fd.Body.List {
			es, isExpr := st.(*ast.ExprStmt)
			if !isExpr {
				ok = false
				break
			}
			call, isCall := es.X.(*ast.CallExpr)
			if !isCall || !wh.is(calleeOf(info, call)) || len(call.Args) != 2 {
				ok = false
				break
			}
			a0, _ := ast.Unparen(call.Args[0]).(*ast.Ident)
			a1, _ := ast.Unparen(call.Args[1]).(*ast.Ident)
			if a0 == nil || a1 == nil || info.Uses[a1] != cb {
				ok = false
				break
			}
			hit := false
			for i, po := range params[:len(params)-1] {
				if info.Uses[a0] == po {
					counts[i]++
					hit = true
				}
			}
			if !hit {
				ok = false
				break
			}
		}
		if !ok {
			continue
		}
		var visited []int
		for i, c := range counts {
			if c == 1 {
				visited = append(visited, i)
			} else if c > 1 {
				ok = false
			}
		}
		if ok && len(visited) > 0 {
			out[fo] = visited
		}
	}
	return out
}

func runC14(p *Prog, r *Result) {
	si, err := newSyntaxInfo(p)
	if err != nil {
		r.Fatalf("%v", err)
		return
	}
	pkg := si.pkg
	info := pkg.TypesInfo
	r.Rule("R14a", "every Node implementor constructible from Parser methods has a case in Walk's type switch", 43)
	r.Rule("R14b", "each Walk case visits every child/comment field of its type exactly once on every path (nil guards on a prefix of the field excepted)", 91)
	r.Rule("R14c", "Walk protocol: f(node) first, false returns before children; single f(nil) after the switch on every normal path; no other call of f", 5)
	r.Rule("R14d", "Preorder: one Walk call; callback yields only non-nil nodes under ok&&yield and returns ok; the iterator keeps no state between iterations", 5)
	r.Rule("R14h", "visiting helpers walkList/walkNilable/walkComments visit every (non-nil) element exactly once", 3)

	walkFD := p.FuncDecl("syntax", "Walk")
	if walkFD == nil || walkFD.Body == nil {
		r.Fatalf("anchor syntax.Walk not found")
		return
	}
	wh := walkHelpers{
		walk:     lookupFunc(pkg, "Walk"),
		list:     lookupFunc(pkg, "walkList"),
		nilable:  lookupFunc(pkg, "walkNilable"),
		comments: lookupFunc(pkg, "walkComments"),
	}
	if wh.walk == nil {
		r.Fatalf("anchor syntax.Walk object not found")
		return
	}
	wh.derived = deriveWalkHelpers(p, info, wh)
	for fo, vis := range wh.derived {
		r.Notef("R14h: derived helper %s visits its parameters %v once each", fo.Name(), vis)
	}
	// Locate the type switch on the node parameter.
	params := walkFD.Type.Params.List
	if len(params) < 2 && !(len(params) == 1 && len(params[0].Names) == 2) {
		r.Fatalf("syntax.Walk: unexpected signature")
		return
	}
	var paramObjs []types.Object
	for _, f := range params {
		for _, nm := range f.Names {
			paramObjs = append(paramObjs, info.Defs[nm])
		}
	}
	nodeParam, fParam := paramObjs[0], paramObjs[1]

	var ts *ast.TypeSwitchStmt
	for _, s := range walkFD.Body.List {
		if t, ok := s.(*ast.TypeSwitchStmt); ok {
			ts = t
		}
	}
	if ts == nil {
		r.Fatalf("syntax.Walk: no top-level type switch found")
		return
	}
	sc := typeSwitchCases(info, ts)

	g := buildRefGraph(p)
	reach := parserReach(p, g)

	// R14a
	for _, n := range si.nodes {
		name := n.Obj().Name()
		key := "syntax.Walk#case *" + name
		if cc, ok := sc.Clauses[name]; ok {
			r.OK("R14a", key, cc.Pos(), "case present")
			continue
		}
		cons := parserConstructible(g, reach, n)
		if len(cons) == 0 {
			r.OK("R14a", key, ts.Pos(), "no case, but no construction site reachable from Parser methods (who-may-construct)")
			r.Except("syntax."+name, "not constructible by the parser; Walk's default panics for it")
		} else {
			r.Bad("R14a", key, ts.Pos(), fmt.Sprintf("node type %s is built by %s but Walk has no case for it: such trees are not walked (default panics)", name, strings.Join(cons, ", ")))
		}
	}

	// R14b
	for _, n := range si.nodes {
		name := n.Obj().Name()
		cc := sc.Clauses[name]
		if cc == nil {
			continue
		}
		if len(cc.List) != 1 {
			r.Undecided("R14b", "syntax.Walk#case *"+name, cc.Pos(), "case lists several types; field paths are not attributable")
			continue
		}
		nodeObj := info.Implicits[cc]
		want := expectedChildPaths(si, n, "")
		paths := enumVisitPaths(info, cc.Body, nodeObj, wh, fParam)
		if paths.undecided != "" {
			r.Undecided("R14b", "syntax.Walk#case *"+name, paths.pos, paths.undecided)
			continue
		}
		for _, w := range want {
			key := fmt.Sprintf("syntax.Walk#case *%s/field %s", name, w)
			verdict, why := paths.judge(w)
			switch verdict {
			case 0:
				r.OK("R14b", key, cc.Pos(), why)
			default:
				r.Bad("R14b", key, cc.Pos(), why)
			}
		}
		// visits of things that are not child fields
		for _, extra := range paths.allVisited() {
			found := false
			for _, w := range want {
				if w == extra {
					found = true
				}
			}
			if !found {
				r.Bad("R14b", fmt.Sprintf("syntax.Walk#case *%s/visit %s", name, extra), cc.Pos(),
					"visits an expression that is not a child field of this node type (a node reached this way is visited from two parents or is not part of the tree)")
			}
		}
	}

	// R14h helpers
	checkWalkHelper(p, r, info, "walkList", wh, false)
	checkWalkHelper(p, r, info, "walkNilable", wh, true)
	checkWalkHelper(p, r, info, "walkComments", wh, false)

	// R14c protocol
	checkWalkProtocol(p, r, info, walkFD, ts, nodeParam, fParam, wh)

	// R14d Preorder
	checkPreorder(p, r, info, wh)
}

// expectedChildPaths lists the field paths Walk must visit for node type n.
func expectedChildPaths(si *syntaxInfo, n *types.Named, prefix string) []string {
	var out []string
	for _, f := range si.fields(n) {
		switch f.Kind {
		case fkChild, fkComments:
			out = append(out, prefix+f.Var.Name())
		case fkHelper:
			out = append(out, expectedChildPaths(si, f.Helper, prefix+f.Var.Name()+".")...)
		}
	}
	return out
}

// A visitPath is one control path through a case body: what it visited and
// which nil tests it assumed.
type visitPath struct {
	visits map[string]int
	nilOf  map[string]bool // field paths assumed nil on this path
	other  []string        // non-nil conditions assumed (rendered)
	ended  string          // "", "break", "return"
}

type visitPaths struct {
	paths     []visitPath
	undecided string
	pos       token.Pos
}

func (vp *visitPaths) allVisited() []string {
	set := map[string]bool{}
	for _, p := range vp.paths {
		for k := range p.visits {
			set[k] = true
		}
	}
	var out []string
	for k := range set {
		out = append(out, k)
	}
	sort.Strings(out)
	return out
}

// judge returns 0 when field path w is visited exactly once on every path,
// except paths that assumed a prefix of w to be nil.
func (vp *visitPaths) judge(w string) (int, string) {
	guarded := false
	for _, p := range vp.paths {
		c := p.visits[w]
		if c > 1 {
			return 1, fmt.Sprintf("field %s is visited %d times on one path: its nodes would be reported more than once", w, c)
		}
		if c == 0 {
			ok := false
			for nf := range p.nilOf {
				if w == nf || strings.HasPrefix(w, nf+".") {
					ok = true
				}
			}
			if !ok {
				extra := ""
				if len(p.other) > 0 {
					extra = " (path condition: " + strings.Join(p.other, ", ") + ")"
				}
				if p.ended != "" {
					extra += " (path ends in " + p.ended + ")"
				}
				return 1, fmt.Sprintf("field %s is never passed to Walk/walkList/walkNilable/walkComments on some path%s: nodes stored there are not visited", w, extra)
			}
			guarded = true
		}
	}
	if guarded {
		return 0, "visited once; skipped only under a nil test of the field"
	}
	return 0, "visited once on every path"
}

// fieldPathOf renders node.A.B rooted at obj as "A.B"; "" if not such a chain.
func fieldPathOf(info *types.Info, e ast.Expr, root types.Object) string {
	e = ast.Unparen(e)
	var parts []string
	for {
		switch x := e.(type) {
		case *ast.SelectorExpr:
			if selectorField(info, x) == nil {
				return ""
			}
			parts = append([]string{x.Sel.Name}, parts...)
			e = ast.Unparen(x.X)
			continue
		case *ast.Ident:
			if info.Uses[x] == root && len(parts) > 0 {
				return strings.Join(parts, ".")
			}
			return ""
		}
		return ""
	}
}

// enumVisitPaths enumerates the control paths of a Walk case body.
func enumVisitPaths(info *types.Info, body []ast.Stmt, node types.Object, wh walkHelpers, fParam types.Object) *visitPaths {
	vp := &visitPaths{}
	start := []visitPath{{visits: map[string]int{}, nilOf: map[string]bool{}}}
	out := vp.stmts(info, body, start, node, wh, fParam, nil, "")
	vp.paths = out
	return vp
}

func clonePath(p visitPath) visitPath {
	q := visitPath{visits: map[string]int{}, nilOf: map[string]bool{}, ended: p.ended}
	for k, v := range p.visits {
		q.visits[k] = v
	}
	for k := range p.nilOf {
		q.nilOf[k] = true
	}
	q.other = append(q.other, p.other...)
	return q
}

// visitArg interprets the first argument of a visiting call. rangeVar/
// rangePath describe an enclosing `for _, c := range node.F` loop.
// currentRangeKey is the key variable of the range statement whose body is being analysed (ranges do not nest here).
var currentRangeKey types.Object

func visitArg(info *types.Info, arg ast.Expr, node types.Object, rangeVar types.Object, rangePath string) string {
	arg = ast.Unparen(arg)
	if u, ok := arg.(*ast.UnaryExpr); ok && u.Op == token.AND {
		arg = ast.Unparen(u.X)
	}
	if id, ok := arg.(*ast.Ident); ok && rangeVar != nil && info.Uses[id] == rangeVar {
		return rangePath
	}
	// node.F[i:] with i the key of the enclosing range over node.F: the rest of the list from this element on
	if se, ok := arg.(*ast.SliceExpr); ok && rangeVar != nil && currentRangeKey != nil && se.High == nil && se.Max == nil && se.Low != nil {
		if id, ok := ast.Unparen(se.Low).(*ast.Ident); ok && info.Uses[id] == currentRangeKey && fieldPathOf(info, se.X, node) == rangePath {
			return rangePath + "[rest]"
		}
	}
	return fieldPathOf(info, arg, node)
}

func (vp *visitPaths) fail(pos token.Pos, msg string) {
	if vp.undecided == "" {
		vp.undecided, vp.pos = msg, pos
	}
}

func (vp *visitPaths) stmts(info *types.Info, list []ast.Stmt, in []visitPath, node types.Object, wh walkHelpers, fParam types.Object, rangeVar types.Object, rangePath string) []visitPath {
	cur := in
	for _, s := range list {
		var live, dead []visitPath
		for _, p := range cur {
			if p.ended != "" {
				dead = append(dead, p)
			} else {
				live = append(live, p)
			}
		}
		if len(live) == 0 {
			return cur
		}
		live = vp.stmt(info, s, live, node, wh, fParam, rangeVar, rangePath)
		cur = append(dead, live...)
		if len(cur) > 4096 {
			vp.fail(s.Pos(), "too many paths")
			return cur
		}
	}
	return cur
}

func (vp *visitPaths) call(info *types.Info, call *ast.CallExpr, in []visitPath, node types.Object, wh walkHelpers, rangeVar types.Object, rangePath string) ([]visitPath, bool) {
	callee := calleeOf(info, call)
	if vis, ok := wh.derived[callee]; ok && callee != nil {
		for _, ai := range vis {
			if ai >= len(call.Args) {
				return in, false
			}
			path := visitArg(info, call.Args[ai], node, rangeVar, rangePath)
			if path == "" {
				path = "<" + exprString(call.Args[ai]) + ">"
			}
			for i := range in {
				in[i].visits[path]++
			}
		}
		return in, true
	}
	if !wh.is(callee) {
		return in, false
	}
	if len(call.Args) < 1 {
		return in, false
	}
	path := visitArg(info, call.Args[0], node, rangeVar, rangePath)
	if path == "" {
		path = "<" + exprString(call.Args[0]) + ">"
	}
	for i := range in {
		in[i].visits[path]++
	}
	return in, true
}

func (vp *visitPaths) stmt(info *types.Info, s ast.Stmt, in []visitPath, node types.Object, wh walkHelpers, fParam types.Object, rangeVar types.Object, rangePath string) []visitPath {
	switch s := s.(type) {
	case *ast.ExprStmt:
		if call, ok := s.X.(*ast.CallExpr); ok {
			if out, ok := vp.call(info, call, in, node, wh, rangeVar, rangePath); ok {
				return out
			}
			if isBuiltinCall(info, call, "panic") {
				for i := range in {
					in[i].ended = "panic"
				}
				// a panicking path is not a traversal; drop it
				return nil
			}
		}
		vp.fail(s.Pos(), "statement in a Walk case that the rule does not understand: "+exprStringStmt(s))
		return in
	case *ast.DeferStmt:
		// a deferred visit still happens exactly once (after f(nil); see R14c note)
		if out, ok := vp.call(info, s.Call, in, node, wh, rangeVar, rangePath); ok {
			return out
		}
		vp.fail(s.Pos(), "deferred call that is not a visit")
		return in
	case *ast.BranchStmt:
		if s.Tok == token.BREAK && s.Label == nil && rangeVar != nil {
			for i := range in {
				in[i].ended = "break"
			}
			return in
		}
		vp.fail(s.Pos(), "branch statement "+s.Tok.String()+" in a Walk case")
		return in
	case *ast.ReturnStmt:
		for i := range in {
			in[i].ended = "return"
		}
		return in
	case *ast.BlockStmt:
		return vp.stmts(info, s.List, in, node, wh, fParam, rangeVar, rangePath)
	case *ast.IfStmt:
		if s.Init != nil {
			vp.fail(s.Pos(), "if with init statement in a Walk case")
			return in
		}
		var thenIn, elseIn []visitPath
		for _, p := range in {
			t, e := clonePath(p), clonePath(p)
			nilPath, isNilTest, nonNilOnTrue := nilTest(info, s.Cond, node)
			switch {
			case isNilTest && nonNilOnTrue:
				e.nilOf[nilPath] = true
			case isNilTest:
				t.nilOf[nilPath] = true
			default:
				c := exprString(s.Cond)
				t.other = append(t.other, c)
				e.other = append(e.other, "!("+c+")")
			}
			thenIn = append(thenIn, t)
			elseIn = append(elseIn, e)
		}
		out := vp.stmts(info, s.Body.List, thenIn, node, wh, fParam, rangeVar, rangePath)
		if s.Else != nil {
			out = append(out, vp.stmt(info, s.Else, elseIn, node, wh, fParam, rangeVar, rangePath)...)
		} else {
			out = append(out, elseIn...)
		}
		return out
	case *ast.SwitchStmt:
		// switch { case c1: … case c2: … default: … } is an if / else-if chain
		if s.Tag != nil || s.Init != nil {
			vp.fail(s.Pos(), "switch with a tag or init statement in a Walk case")
			return in
		}
		var chain ast.Stmt
		var def *ast.CaseClause
		var clauses []*ast.CaseClause
		for _, c := range s.Body.List {
			cc := c.(*ast.CaseClause)
			if cc.List == nil {
				def = cc
			} else {
				clauses = append(clauses, cc)
			}
		}
		if def != nil {
			chain = &ast.BlockStmt{Lbrace: def.Pos(), List: def.Body, Rbrace: def.End()}
		}
		for i := len(clauses) - 1; i >= 0; i-- {
			cc := clauses[i]
			if len(cc.List) != 1 {
				vp.fail(cc.Pos(), "case with several conditions in a Walk case")
				return in
			}
			for _, b := range cc.Body {
				if br, ok := b.(*ast.BranchStmt); ok && br.Tok == token.FALLTHROUGH {
					vp.fail(br.Pos(), "fallthrough in a Walk case")
					return in
				}
			}
			chain = &ast.IfStmt{If: cc.Pos(), Cond: cc.List[0], Body: &ast.BlockStmt{Lbrace: cc.Pos(), List: cc.Body, Rbrace: cc.End()}, Else: chain}
		}
		if chain == nil {
			return in
		}
		return vp.stmt(info, chain, in, node, wh, fParam, rangeVar, rangePath)
	case *ast.RangeStmt:
		// for _, c := range node.F { ... visit(&c) ... }
		path := fieldPathOf(info, s.X, node)
		var rv types.Object
		if id, ok := s.Value.(*ast.Ident); ok && s.Value != nil {
			rv = info.Defs[id]
		}
		if path == "" || rv == nil || rangeVar != nil {
			vp.fail(s.Pos(), "range statement the rule does not understand: range "+exprString(s.X))
			return in
		}
		// Analyse one iteration from an empty path: every way through the
		// body must visit the element exactly once.
		currentRangeKey = nil
		if id, ok := s.Key.(*ast.Ident); ok && s.Key != nil && id.Name != "_" {
			currentRangeKey = info.Defs[id]
		}
		iter := vp.stmts(info, s.Body.List, []visitPath{{visits: map[string]int{}, nilOf: map[string]bool{}}}, node, wh, fParam, rv, path)
		currentRangeKey = nil
		ok := true
		for _, ip := range iter {
			// an iteration that goes on to the next element visits this one exactly once; one that leaves the loop
			// visits the rest of the list from this element on (node.F[i:]) exactly once, and nothing else
			want := path
			if ip.ended == "break" {
				want = path + "[rest]"
			}
			if ip.ended == "return" {
				ok = false
			}
			for k, c := range ip.visits {
				if k != want || c != 1 {
					ok = false
				}
			}
			if ip.visits[want] != 1 {
				ok = false
			}
		}
		if !ok {
			// leave the field unvisited on these paths: judge() reports it
			for i := range in {
				in[i].other = append(in[i].other, "some iteration of range "+path+" does not visit its element exactly once")
			}
			return in
		}
		for i := range in {
			in[i].visits[path]++
		}
		return in
	}
	vp.fail(s.Pos(), fmt.Sprintf("statement kind %T in a Walk case", s))
	return in
}

func exprStringStmt(s ast.Stmt) string {
	if es, ok := s.(*ast.ExprStmt); ok {
		return exprString(es.X)
	}
	return fmt.Sprintf("%T", s)
}

// nilTest recognises `node.A.B != nil` / `== nil` rooted at node.
func nilTest(info *types.Info, cond ast.Expr, node types.Object) (path string, ok bool, nonNilOnTrue bool) {
	be, isBin := ast.Unparen(cond).(*ast.BinaryExpr)
	if !isBin || (be.Op != token.NEQ && be.Op != token.EQL) {
		return "", false, false
	}
	x, y := be.X, be.Y
	if isNilIdent(info, x) {
		x, y = y, x
	}
	if !isNilIdent(info, y) {
		return "", false, false
	}
	path = fieldPathOf(info, x, node)
	if path == "" {
		return "", false, false
	}
	return path, true, be.Op == token.NEQ
}

func isNilIdent(info *types.Info, e ast.Expr) bool {
	id, ok := ast.Unparen(e).(*ast.Ident)
	if !ok {
		return false
	}
	_, isNil := info.Uses[id].(*types.Nil)
	return isNil
}

// checkWalkHelper verifies that walkList / walkComments call Walk once per
// element and walkNilable once when the argument is not the zero value.
func checkWalkHelper(p *Prog, r *Result, info *types.Info, name string, wh walkHelpers, nilable bool) {
	fd := p.FuncDecl("syntax", name)
	key := "syntax." + name
	if fd == nil || fd.Body == nil {
		r.Fatalf("anchor syntax.%s not found", name)
		return
	}
	var first types.Object
	for _, f := range fd.Type.Params.List {
		for _, nm := range f.Names {
			if first == nil {
				first = info.Defs[nm]
			}
		}
	}
	isWalkOf := func(s ast.Stmt, match func(ast.Expr) bool) bool {
		es, ok := s.(*ast.ExprStmt)
		if !ok {
			return false
		}
		call, ok := es.X.(*ast.CallExpr)
		if !ok || calleeOf(info, call) != wh.walk || len(call.Args) != 2 {
			return false
		}
		return match(call.Args[0])
	}
	stmts := fd.Body.List
	if nilable {
		// optional `var zero N`, then `if node != zero { Walk(node, f) }`
		var ifs *ast.IfStmt
		for _, s := range stmts {
			switch x := s.(type) {
			case *ast.DeclStmt:
			case *ast.IfStmt:
				if ifs != nil {
					ifs = nil
					break
				}
				ifs = x
			default:
				r.Undecided("R14h", key, s.Pos(), "unexpected statement in walkNilable")
				return
			}
		}
		ok := ifs != nil && ifs.Else == nil && len(ifs.Body.List) == 1 &&
			isWalkOf(ifs.Body.List[0], func(e ast.Expr) bool {
				id, ok := ast.Unparen(e).(*ast.Ident)
				return ok && info.Uses[id] == first
			})
		if ok {
			be, isBin := ast.Unparen(ifs.Cond).(*ast.BinaryExpr)
			ok = isBin && be.Op == token.NEQ
			if ok {
				xi, _ := ast.Unparen(be.X).(*ast.Ident)
				yi, _ := ast.Unparen(be.Y).(*ast.Ident)
				ok = xi != nil && yi != nil && (info.Uses[xi] == first || info.Uses[yi] == first)
				// the other operand must be a zero-valued variable (declared with var, never assigned) or nil
				other := yi
				if info.Uses[yi] == first {
					other = xi
				}
				if ok {
					if _, isNil := info.Uses[other].(*types.Nil); !isNil {
						ok = isZeroVar(info, fd, info.Uses[other])
					}
				}
			}
		}
		r.Check(ok, "R14h", key, fd.Pos(), "Walk(node) under node != zero value", "walkNilable does not visit its argument exactly when it is non-nil")
		return
	}
	// range helpers: single RangeStmt over the first parameter
	if len(stmts) != 1 {
		r.Undecided("R14h", key, fd.Pos(), "helper body is not a single range loop")
		return
	}
	rs, ok := stmts[0].(*ast.RangeStmt)
	if !ok {
		r.Undecided("R14h", key, fd.Pos(), "helper body is not a single range loop")
		return
	}
	xid, _ := ast.Unparen(rs.X).(*ast.Ident)
	if xid == nil || info.Uses[xid] != first || len(rs.Body.List) != 1 {
		r.Bad("R14h", key, rs.Pos(), "helper does not range over its list parameter with a single visit per element")
		return
	}
	var keyObj, valObj types.Object
	if id, ok := rs.Key.(*ast.Ident); ok && rs.Key != nil {
		keyObj = info.Defs[id]
	}
	if rs.Value != nil {
		if id, ok := rs.Value.(*ast.Ident); ok {
			valObj = info.Defs[id]
		}
	}
	good := isWalkOf(rs.Body.List[0], func(e ast.Expr) bool {
		e = ast.Unparen(e)
		if id, ok := e.(*ast.Ident); ok {
			return valObj != nil && info.Uses[id] == valObj
		}
		if u, ok := e.(*ast.UnaryExpr); ok && u.Op == token.AND {
			if ix, ok := ast.Unparen(u.X).(*ast.IndexExpr); ok {
				li, _ := ast.Unparen(ix.X).(*ast.Ident)
				ii, _ := ast.Unparen(ix.Index).(*ast.Ident)
				return li != nil && ii != nil && info.Uses[li] == first && keyObj != nil && info.Uses[ii] == keyObj
			}
			if id, ok := ast.Unparen(u.X).(*ast.Ident); ok {
				return valObj != nil && info.Uses[id] == valObj
			}
		}
		return false
	})
	r.Check(good, "R14h", key, fd.Pos(), "one Walk per element of the list parameter", "helper does not call Walk on each element exactly once")
}

// isZeroVar: obj is a local declared by `var x T` without initialiser and
// never assigned or address-taken in fd.
func isZeroVar(info *types.Info, fd *ast.FuncDecl, obj types.Object) bool {
	if obj == nil {
		return false
	}
	declared, clean := false, true
	ast.Inspect(fd.Body, func(n ast.Node) bool {
		switch x := n.(type) {
		case *ast.ValueSpec:
			for _, nm := range x.Names {
				if info.Defs[nm] == obj {
					declared = len(x.Values) == 0
				}
			}
		case *ast.AssignStmt:
			for _, l := range x.Lhs {
				if id, ok := ast.Unparen(l).(*ast.Ident); ok && (info.Uses[id] == obj || (info.Defs[id] == obj && x.Tok == token.DEFINE)) {
					clean = false
				}
			}
		case *ast.UnaryExpr:
			if x.Op == token.AND {
				if id, ok := ast.Unparen(x.X).(*ast.Ident); ok && info.Uses[id] == obj {
					clean = false
				}
			}
		case *ast.IncDecStmt:
			if id, ok := ast.Unparen(x.X).(*ast.Ident); ok && info.Uses[id] == obj {
				clean = false
			}
		}
		return true
	})
	return declared && clean
}

func checkWalkProtocol(p *Prog, r *Result, info *types.Info, fd *ast.FuncDecl, ts *ast.TypeSwitchStmt, nodeParam, fParam types.Object, wh walkHelpers) {
	g := NewFGraph(info, fd.Body, nil)
	// all direct calls of the callback parameter
	type fcall struct {
		call *ast.CallExpr
		kind string // "node", "nil", "other"
	}
	var calls []fcall
	inspectNoLit(fd.Body, func(n ast.Node) bool {
		call, ok := n.(*ast.CallExpr)
		if !ok {
			return true
		}
		id, ok := ast.Unparen(call.Fun).(*ast.Ident)
		if !ok || info.Uses[id] != fParam {
			return true
		}
		k := "other"
		if len(call.Args) == 1 {
			if isNilIdent(info, call.Args[0]) {
				k = "nil"
			} else if aid, ok := ast.Unparen(call.Args[0]).(*ast.Ident); ok && info.Uses[aid] == nodeParam {
				k = "node"
			}
		}
		calls = append(calls, fcall{call, k})
		return true
	})
	var pre, post *ast.CallExpr
	nOther := 0
	nPre, nPost := 0, 0
	for _, c := range calls {
		switch c.kind {
		case "node":
			pre = c.call
			nPre++
		case "nil":
			post = c.call
			nPost++
		default:
			nOther++
		}
	}
	// function literals calling f would be outside our view: forbid them
	hasLit := false
	ast.Inspect(fd.Body, func(n ast.Node) bool {
		if _, ok := n.(*ast.FuncLit); ok {
			hasLit = true
		}
		return true
	})
	r.Check(nPre == 1 && nPost == 1 && nOther == 0 && !hasLit, "R14c", "syntax.Walk#callback calls", fd.Pos(),
		"exactly one f(node) and one f(nil), no other direct call of f",
		fmt.Sprintf("Walk calls its callback %d times with the node, %d times with nil, %d times otherwise (want 1,1,0)", nPre, nPost, nOther))
	if pre == nil || post == nil {
		return
	}
	// f(node) is evaluated in the entry block before any visit, and its
	// false edge reaches Exit without passing any visit or f(nil).
	preBlk, preIdx := g.BlockOf(pre)
	isVisit := func(n ast.Node) bool {
		for _, c := range nodeCalls(n) {
			if wh.is(calleeOf(info, c)) {
				return true
			}
		}
		return false
	}
	isPost := func(n ast.Node) bool {
		found := false
		inspectNoLit(n, func(x ast.Node) bool {
			if x == ast.Node(post) {
				found = true
			}
			return true
		})
		return found
	}
	okFirst := preBlk == g.Entry
	if okFirst {
		for _, n := range preBlk.Nodes[:preIdx] {
			if isVisit(n) || isPost(n) {
				okFirst = false
			}
		}
	}
	r.Check(okFirst, "R14c", "syntax.Walk#f(node) first", pre.Pos(), "f(node) is evaluated in the entry block before any child visit",
		"f(node) is not the first thing Walk does: children may be visited before their parent")

	// false edge: the condition node is the call's enclosing cond; find edges
	// out of preBlk with Cond containing pre.
	var falseEdge *FEdge
	for _, e := range preBlk.Succs {
		if e.Cond != nil && containsNode(e.Cond, pre) && !e.Pol {
			falseEdge = e
		}
	}
	okPrune := false
	why := "the result of f(node) is not tested as a branch condition"
	if falseEdge != nil {
		// from the false edge no visit and no f(nil) may be reachable
		reach := g.Reachable(falseEdge.To, nil)
		okPrune = true
		for b := range reach {
			for _, n := range b.Nodes {
				if isVisit(n) || isPost(n) {
					okPrune = false
					why = "when f(node) returns false, Walk still reaches a child visit or f(nil)"
				}
			}
		}
	}
	r.Check(okPrune, "R14c", "syntax.Walk#prune on false", pre.Pos(), "false edge of f(node) reaches the exit without any visit or f(nil)", why)

	// f(nil) post-dominates every visit: from each visit node every path to
	// Exit passes the f(nil) node; and no visit is reachable after f(nil)
	// (deferred visits aside, which run after by construction).
	okPost := true
	whyPost := ""
	for _, b := range g.Blocks {
		for i, n := range b.Nodes {
			if _, isDefer := n.(*ast.DeferStmt); isDefer {
				continue
			}
			if !isVisit(n) {
				continue
			}
			if ok, _ := g.MustPass(b, i, g.Exit, isPost, nil); !ok {
				okPost = false
				whyPost = "a path from the child visit at " + p.Position(n.Pos()) + " returns without calling f(nil)"
			}
		}
	}
	// also: entering the switch at all must lead to f(nil): from the true edge of f(node)
	for _, e := range preBlk.Succs {
		if e.Cond != nil && containsNode(e.Cond, pre) && e.Pol {
			// treat e.To start: idx -1
			if ok, _ := g.MustPass(e.To, -1, g.Exit, isPost, nil); !ok {
				okPost = false
				whyPost = "after f(node) returned true some path returns without calling f(nil)"
			}
		}
	}
	r.Check(okPost, "R14c", "syntax.Walk#f(nil) after children", post.Pos(), "every normal path from f(node)==true and from every child visit passes the single f(nil)", whyPost)

	postBlk, postIdx := g.BlockOf(post)
	okAfter := true
	if postBlk != nil {
		for _, n := range postBlk.Nodes[postIdx+1:] {
			if isVisit(n) {
				okAfter = false
			}
		}
		for _, e := range postBlk.Succs {
			for b := range g.Reachable(e.To, nil) {
				for _, n := range b.Nodes {
					if isVisit(n) {
						okAfter = false
					}
				}
			}
		}
	}
	r.Check(okAfter, "R14c", "syntax.Walk#no visit after f(nil)", post.Pos(), "no non-deferred child visit is reachable after f(nil)", "a child is visited after f(nil) was called for its parent")
	nDefer := 0
	ast.Inspect(fd.Body, func(n ast.Node) bool {
		if _, ok := n.(*ast.DeferStmt); ok {
			nDefer++
		}
		return true
	})
	if nDefer > 0 {
		r.Notef("R14c: %d deferred visits of a trailing comment run after f(nil) of the owning node (allowed by the statement: each node is still visited once, parent first)", nDefer)
	}
}

func containsNode(root ast.Node, target ast.Node) bool {
	found := false
	ast.Inspect(root, func(n ast.Node) bool {
		if n == target {
			found = true
		}
		return !found
	})
	return found
}

func checkPreorder(p *Prog, r *Result, info *types.Info, wh walkHelpers) {
	fd := p.FuncDecl("syntax", "Preorder")
	if fd == nil || fd.Body == nil {
		r.Fatalf("anchor syntax.Preorder not found")
		return
	}
	// count traversal calls anywhere in Preorder (incl. literals)
	var walkCalls []*ast.CallExpr
	ast.Inspect(fd.Body, func(n ast.Node) bool {
		if c, ok := n.(*ast.CallExpr); ok && wh.is(calleeOf(info, c)) {
			walkCalls = append(walkCalls, c)
		}
		return true
	})
	r.Check(len(walkCalls) == 1 && calleeOf(info, walkCalls[0]) == wh.walk, "R14d", "syntax.Preorder#single Walk", fd.Pos(),
		"exactly one traversal call, to Walk", fmt.Sprintf("Preorder contains %d traversal calls (want exactly one Walk)", len(walkCalls)))
	if len(walkCalls) != 1 || len(walkCalls[0].Args) != 2 {
		return
	}
	// The Walk root must be Preorder's parameter.
	var rootParam types.Object
	for _, f := range fd.Type.Params.List {
		for _, nm := range f.Names {
			rootParam = info.Defs[nm]
		}
	}
	rid, _ := ast.Unparen(walkCalls[0].Args[0]).(*ast.Ident)
	r.Check(rid != nil && info.Uses[rid] == rootParam, "R14d", "syntax.Preorder#root", walkCalls[0].Pos(), "Walk is applied to Preorder's argument", "Walk is not applied to the node given to Preorder")

	// R14d (re-iterable): the returned iterator writes no variable of the enclosing function, so every
	// iteration of the same Seq starts from the same state
	for _, st := range fd.Body.List {
		rs, isRet := st.(*ast.ReturnStmt)
		if !isRet || len(rs.Results) != 1 {
			continue
		}
		lit, isLit := ast.Unparen(rs.Results[0]).(*ast.FuncLit)
		if !isLit {
			r.Undecided("R14d", "syntax.Preorder#iterator", rs.Pos(), "Preorder does not return a function literal")
			continue
		}
		var shared []string
		ast.Inspect(lit.Body, func(n ast.Node) bool {
			var targets []ast.Expr
			switch x := n.(type) {
			case *ast.AssignStmt:
				if x.Tok != token.DEFINE {
					targets = x.Lhs
				}
			case *ast.IncDecStmt:
				targets = []ast.Expr{x.X}
			}
			for _, t := range targets {
				if id, ok := ast.Unparen(t).(*ast.Ident); ok {
					if o := info.ObjectOf(id); o != nil && o.Pos() >= fd.Body.Pos() && o.Pos() < lit.Pos() {
						shared = append(shared, id.Name)
					}
				}
			}
			return true
		})
		r.Check(len(shared) == 0, "R14d", "syntax.Preorder#iterator keeps no state between iterations", lit.Pos(), "the returned function only writes its own variables",
			fmt.Sprintf("the returned iterator writes %v, declared outside it: a second iteration over the same sequence starts from the state the first one left (e.g. an early break makes every later iteration yield nothing)", shared))
	}

	cb, ok := ast.Unparen(walkCalls[0].Args[1]).(*ast.FuncLit)
	if !ok {
		r.Undecided("R14d", "syntax.Preorder#callback", walkCalls[0].Pos(), "the Walk callback is not a function literal")
		return
	}
	// find yield param of the enclosing literal: the func literal returned by Preorder
	var yieldObj types.Object
	ast.Inspect(fd.Body, func(n ast.Node) bool {
		if fl, ok := n.(*ast.FuncLit); ok && fl != cb && yieldObj == nil {
			for _, f := range fl.Type.Params.List {
				for _, nm := range f.Names {
					if _, isSig := info.Defs[nm].Type().Underlying().(*types.Signature); isSig {
						yieldObj = info.Defs[nm]
					}
				}
			}
		}
		return true
	})
	var cbNode types.Object
	for _, f := range cb.Type.Params.List {
		for _, nm := range f.Names {
			cbNode = info.Defs[nm]
		}
	}
	if yieldObj == nil || cbNode == nil {
		r.Undecided("R14d", "syntax.Preorder#callback", cb.Pos(), "cannot identify yield / node parameters")
		return
	}
	// Every yield call must (1) pass the callback's node, (2) be the right
	// operand of `ok && yield(node)` assigned to ok, (3) sit under node != nil.
	var yields []*ast.CallExpr
	ast.Inspect(cb.Body, func(n ast.Node) bool {
		if c, ok := n.(*ast.CallExpr); ok {
			if id, ok := ast.Unparen(c.Fun).(*ast.Ident); ok && info.Uses[id] == yieldObj {
				yields = append(yields, c)
			}
		}
		return true
	})
	okYield := len(yields) == 1
	why := fmt.Sprintf("callback calls yield %d times (want 1)", len(yields))
	var okVar types.Object
	if okYield {
		y := yields[0]
		okYield = false
		why = "yield is not called as `ok = ok && yield(node)` under `node != nil`"
		// find the assignment
		ast.Inspect(cb.Body, func(n ast.Node) bool {
			ifs, isIf := n.(*ast.IfStmt)
			if !isIf {
				return true
			}
			path, isNil, nonNilOnTrue := nilTestIdent(info, ifs.Cond, cbNode)
			if !isNil || !nonNilOnTrue || !path {
				return true
			}
			for _, s := range ifs.Body.List {
				as, ok := s.(*ast.AssignStmt)
				if !ok || len(as.Lhs) != 1 || len(as.Rhs) != 1 || as.Tok != token.ASSIGN {
					continue
				}
				be, ok := ast.Unparen(as.Rhs[0]).(*ast.BinaryExpr)
				if !ok || be.Op != token.LAND || ast.Unparen(be.Y) != ast.Expr(y) {
					continue
				}
				l, _ := ast.Unparen(as.Lhs[0]).(*ast.Ident)
				x, _ := ast.Unparen(be.X).(*ast.Ident)
				if l == nil || x == nil || info.Uses[l] != info.Uses[x] {
					continue
				}
				if len(y.Args) == 1 {
					if a, ok := ast.Unparen(y.Args[0]).(*ast.Ident); ok && info.Uses[a] == cbNode {
						okYield = true
						okVar = info.Uses[l]
					}
				}
			}
			return true
		})
	}
	r.Check(okYield, "R14d", "syntax.Preorder#yield guarded", cb.Pos(), "single `ok = ok && yield(node)` under node != nil", why)

	// callback returns ok on every return; ok initialised true and assigned only there
	okRet := okVar != nil
	if okRet {
		ast.Inspect(cb.Body, func(n ast.Node) bool {
			if rs, ok := n.(*ast.ReturnStmt); ok {
				if len(rs.Results) != 1 {
					okRet = false
				} else if id, ok := ast.Unparen(rs.Results[0]).(*ast.Ident); !ok || info.Uses[id] != okVar {
					okRet = false
				}
			}
			return true
		})
		// writes to ok anywhere in Preorder: the define `ok := true` and the && assignment
		writes := 0
		initTrue := false
		ast.Inspect(fd.Body, func(n ast.Node) bool {
			as, ok := n.(*ast.AssignStmt)
			if !ok {
				return true
			}
			for i, l := range as.Lhs {
				id, _ := ast.Unparen(l).(*ast.Ident)
				if id == nil {
					continue
				}
				if info.Defs[id] == okVar {
					writes++
					if i < len(as.Rhs) {
						if tv, ok := info.Types[as.Rhs[i]]; ok && tv.Value != nil && tv.Value.String() == "true" {
							initTrue = true
						}
					}
				} else if info.Uses[id] == okVar {
					writes++
				}
			}
			return true
		})
		if writes != 2 || !initTrue {
			okRet = false
		}
	}
	r.Check(okRet, "R14d", "syntax.Preorder#returns ok", cb.Pos(), "callback returns the sticky ok flag (initialised true, only and-ed with yield's result)",
		"the Walk callback does not return the sticky `ok` flag: traversal continues, or yield may be called, after the consumer stopped")
}

func nilTestIdent(info *types.Info, cond ast.Expr, obj types.Object) (match bool, ok bool, nonNilOnTrue bool) {
	be, isBin := ast.Unparen(cond).(*ast.BinaryExpr)
	if !isBin || (be.Op != token.NEQ && be.Op != token.EQL) {
		return false, false, false
	}
	x, y := be.X, be.Y
	if isNilIdent(info, x) {
		x, y = y, x
	}
	if !isNilIdent(info, y) {
		return false, false, false
	}
	id, isId := ast.Unparen(x).(*ast.Ident)
	if !isId {
		return false, false, false
	}
	return info.Uses[id] == obj, true, be.Op == token.NEQ
}

var c14Controls = []Control{
	{Name: "case-item-only-first-trailing-comment", Rule: "R14b", WantKey: "case *CaseItem/field Comments", File: "syntax/walk.go",
		Mutate: ctlReplaceAnywhere("defer walkComments(node.Comments[i:], f)\n\t\t\t\tbreak\n\t\t\t}\n\t\t\tWalk(&c, f)\n\t\t}\n\t\twalkList(node.Patterns, f)", "defer walkComments(node.Comments[i:i+1], f)\n\t\t\t\tbreak\n\t\t\t}\n\t\t\tWalk(&c, f)\n\t\t}\n\t\twalkList(node.Patterns, f)")},
	{Name: "preorder-stop-flag-shared", Rule: "R14d", WantKey: "iterator keeps no state", File: "syntax/walk.go",
		Mutate: ctlReplaceAnywhere("\treturn func(yield func(Node) bool) {\n\t\tok := true\n", "\tok := true\n\treturn func(yield func(Node) bool) {\n")},
	{Name: "drop-visit-Stmt.Redirs", Rule: "R14b", WantKey: "*Stmt/field Redirs", File: "syntax/walk.go",
		Mutate: ctlReplace("Walk", "walkList(node.Redirs, f)", "", 0)},
	{Name: "double-visit-ParenTest.X", Rule: "R14b", WantKey: "*ParenTest/field X", File: "syntax/walk.go",
		Mutate: ctlReplace("Walk", "case *ParenTest:\n\t\tWalk(node.X, f)", "case *ParenTest:\n\t\tWalk(node.X, f)\n\t\tWalk(node.X, f)", 0)},
	{Name: "conditional-visit-CallExpr.Args", Rule: "R14b", WantKey: "*CallExpr/field Args", File: "syntax/walk.go",
		Mutate: ctlReplace("Walk", "walkList(node.Args, f)", "if len(node.Assigns) == 0 {\n\t\t\twalkList(node.Args, f)\n\t\t}", 1)},
	{Name: "drop-case-TestDecl", Rule: "R14a", WantKey: "*TestDecl", File: "syntax/walk.go",
		Mutate: ctlReplace("Walk", "case *TestDecl:\n\t\tWalk(node.Description, f)\n\t\tWalk(node.Body, f)", "", 0)},
	{Name: "no-prune-on-false", Rule: "R14c", WantKey: "prune on false", File: "syntax/walk.go",
		Mutate: ctlReplace("Walk", "if !f(node) {\n\t\treturn\n\t}", "if !f(node) {\n\t}", 0)},
	{Name: "early-return-skips-f(nil)", Rule: "R14c", WantKey: "f(nil) after children", File: "syntax/walk.go",
		Mutate: ctlReplace("Walk", "case *Lit:", "case *Lit:\n\t\treturn", 0)},
	{Name: "preorder-returns-true", Rule: "R14d", WantKey: "returns ok", File: "syntax/walk.go",
		Mutate: ctlReplace("Preorder", "return ok", "return true", 0)},
	{Name: "walkNilable-unconditional-skip", Rule: "R14h", WantKey: "walkNilable", File: "syntax/walk.go",
		Mutate: ctlReplace("walkNilable", "node != zero", "node == zero", 0)},
}
