package main

import (
	"fmt"
	"go/ast"
	"go/types"
	"sort"
	"strings"

	"golang.org/x/tools/go/packages"
)

// R10p: the parser keeps the first error. A LangError reported just before a ParseError — with no token read in
// between — therefore replaces it, and IsIncomplete only knows ParseErrors: a "did you mean …" hint placed ahead of
// "reached EOF without closing quote" turns an incomplete input into a hard error. Every pair (call that reports a
// LangError without reading input, later call that always reports a ParseError, no lexer advance on the path between
// them) is allowed only where the token in hand cannot be _EOF: the pair, or every call of the function holding it,
// sits in the default clause of a switch over p.tok that lists _EOF in another clause, or past `p.tok != _EOF`.
func checkLangErrorDoesNotShadow(p *Prog, r *Result, pkg *packages.Package, rule string) {
	info := pkg.TypesInfo
	checkLang := lookupFunc(pkg, "Parser.checkLang")
	errPass := lookupFunc(pkg, "Parser.errPass")
	nextFn := lookupFunc(pkg, "Parser.next")
	runeFn := lookupFunc(pkg, "Parser.rune")
	eofC, _ := pkg.Types.Scope().Lookup("_EOF").(*types.Const)
	runeEOFC, _ := pkg.Types.Scope().Lookup("runeEOF").(*types.Const)
	if checkLang == nil || errPass == nil || nextFn == nil || runeFn == nil || eofC == nil {
		r.Fatalf("anchors Parser.checkLang / errPass / next / rune / _EOF not found")
		return
	}
	fgs := newFuncGraphs(pkg)
	reporters := computeMustError(fgs, errPass)
	// functions that can read input
	adv := map[*types.Func]bool{nextFn: true, runeFn: true}
	for changed := true; changed; {
		changed = false
		for fo, fd := range fgs.decls {
			if adv[fo] {
				continue
			}
			inspectNoLit(fd.Body, func(m ast.Node) bool {
				if c, ok := m.(*ast.CallExpr); ok && !adv[fo] {
					if callee := calleeOf(info, c); callee != nil && adv[callee.Origin()] {
						adv[fo] = true
						changed = true
					}
				}
				return true
			})
		}
	}
	// functions that report a LangError without reading input: checkLang and helpers around it
	lang := map[*types.Func]bool{checkLang: true}
	for changed := true; changed; {
		changed = false
		for fo, fd := range fgs.decls {
			if lang[fo] || adv[fo] || reporters[fo] {
				continue
			}
			inspectNoLit(fd.Body, func(m ast.Node) bool {
				if c, ok := m.(*ast.CallExpr); ok && !lang[fo] {
					if callee := calleeOf(info, c); callee != nil && lang[callee.Origin()] {
						lang[fo] = true
						changed = true
					}
				}
				return true
			})
		}
	}
	calls := func(n ast.Node, set map[*types.Func]bool) *ast.CallExpr {
		var out *ast.CallExpr
		inspectNoLit(n, func(m ast.Node) bool {
			if c, ok := m.(*ast.CallExpr); ok && out == nil {
				if callee := calleeOf(info, c); callee != nil && set[callee.Origin()] {
					out = c
				}
			}
			return true
		})
		return out
	}
	isEOFConst := func(e ast.Expr) bool {
		tv, ok := info.Types[e]
		return ok && tv.Value != nil && types.Identical(tv.Type, eofC.Type()) && tv.Value.ExactString() == eofC.Val().ExactString()
	}
	tokNotEOF := func(e *FEdge) bool {
		if e.Tag != nil {
			fv := selectorField(info, e.Tag)
			if fv == nil || fv.Name() != "tok" {
				return false
			}
			// entering a clause by matching a token other than _EOF
			if e.Cond != nil && e.Pol && !isEOFConst(e.Cond) {
				if tv, ok := info.Types[e.Cond]; ok && tv.Value != nil {
					return true
				}
			}
			// failing the comparison with _EOF on the way to later clauses or the default
			return e.Cond != nil && !e.Pol && isEOFConst(e.Cond)
		}
		if e.Cond == nil {
			return false
		}
		be, ok := ast.Unparen(e.Cond).(*ast.BinaryExpr)
		if !ok {
			return false
		}
		fv := selectorField(info, be.X)
		if fv == nil {
			return false
		}
		tv, isC := info.Types[be.Y]
		if !isC || tv.Value == nil {
			return false
		}
		switch fv.Name() {
		case "tok":
			if isEOFConst(be.Y) {
				return (be.Op.String() == "!=" && e.Pol) || (be.Op.String() == "==" && !e.Pol)
			}
			// equal to some other token
			return (be.Op.String() == "==" && e.Pol) || (be.Op.String() == "!=" && !e.Pol)
		case "r":
			// the current rune equals a character: the input has not ended
			if runeEOFC != nil && tv.Value.ExactString() == runeEOFC.Val().ExactString() {
				return (be.Op.String() == "!=" && e.Pol) || (be.Op.String() == "==" && !e.Pol)
			}
			return (be.Op.String() == "==" && e.Pol) || (be.Op.String() == "!=" && !e.Pol)
		}
		return false
	}
	// knownNotEOF: forward dataflow of "p.tok is known not to be _EOF": established by a test of p.tok, lost when a
	// token is read. With atEntry the fact holds on entry (the caller's knowledge) and only reading a token loses it.
	knownNotEOF := func(g *FGraph, at ast.Node, atEntry bool) bool {
		res := runForward(g, flowSpec[bool]{
			Init:  atEntry,
			Join:  func(a, b bool) bool { return a && b },
			Equal: func(a, b bool) bool { return a == b },
			Node: func(f bool, n ast.Node) bool {
				if calls(n, adv) != nil {
					return false
				}
				return f
			},
			Edge: func(f bool, e *FEdge) bool {
				if tokNotEOF(e) {
					return true
				}
				return f
			},
		})
		if b := blockContaining(g, at); b != nil {
			for i, nd := range b.Nodes {
				if nd.Pos() <= at.Pos() && at.End() <= nd.End() {
					f, ok := res.At(b, i)
					return ok && f
				}
			}
		}
		return false
	}
	type callSite struct {
		in   *types.Func
		call *ast.CallExpr
	}
	sites := map[*types.Func][]callSite{}
	var fos []*types.Func
	for fo, fd := range fgs.decls {
		if strings.HasSuffix(p.Position(fd.Pos()), "_test.go") {
			continue
		}
		fos = append(fos, fo)
		inspectNoLit(fd.Body, func(m ast.Node) bool {
			if c, ok := m.(*ast.CallExpr); ok {
				if callee := calleeOf(info, c); callee != nil {
					sites[callee.Origin()] = append(sites[callee.Origin()], callSite{fo, c})
				}
			}
			return true
		})
	}
	sort.Slice(fos, func(i, j int) bool { return fgs.decls[fos[i]].Pos() < fgs.decls[fos[j]].Pos() })
	n := 0
	for _, fo := range fos {
		fd := fgs.decls[fo]
		if recvTypeName(fd) != "Parser" || lang[fo] && fo == checkLang {
			continue
		}
		g := fgs.graph(fo)
		seen := map[string]int{}
		for _, b := range g.Blocks {
			for i, nd := range b.Nodes {
				lc := calls(nd, lang)
				if lc == nil {
					continue
				}
				// is an always-reporting call reachable from here with no lexer advance in between?
				var hit *ast.CallExpr
				visited := map[*FBlock]bool{}
				var walk func(blk *FBlock, from int)
				walk = func(blk *FBlock, from int) {
					for _, x := range blk.Nodes[from:] {
						if hit != nil {
							return
						}
						if rc := calls(x, reporters); rc != nil {
							hit = rc
							return
						}
						if calls(x, adv) != nil {
							return
						}
					}
					for _, e := range blk.Succs {
						if !visited[e.To] {
							visited[e.To] = true
							walk(e.To, 0)
						}
					}
				}
				walk(b, i+1)
				if hit == nil {
					continue
				}
				n++
				key := fmt.Sprintf("%s#%s then %s with no token read in between", funcKey("syntax", fd), exprString(lc.Fun), exprString(hit.Fun))
				seen[key]++
				if seen[key] > 1 {
					key += fmt.Sprintf("#%d", seen[key])
				}
				safe := knownNotEOF(g, lc, false)
				how := "the token in hand is known not to be _EOF here (tested since the last token was read)"
				if !safe && len(sites[fo]) > 0 && knownNotEOF(g, lc, true) {
					// nothing was read between the function's entry and this point: what the callers know still holds
					all := true
					var names []string
					for _, cs := range sites[fo] {
						if !knownNotEOF(fgs.graph(cs.in), cs.call, false) {
							all = false
							break
						}
						names = append(names, cs.in.Name())
					}
					if all {
						safe = true
						how = "no token is read between the entry of " + fo.Name() + " and this point, and every call of it (" + strings.Join(names, ", ") + ") is made where the token is known not to be _EOF"
					}
				}
				r.Check(safe, rule, key, lc.Pos(), how,
					"a LangError can be reported and then, with no token read in between, a ParseError that may be the incomplete one (the token may be _EOF here): the parser keeps the first error and IsIncomplete only knows ParseErrors, so an input that merely stops too early is reported as a hard error")
			}
		}
	}
	r.Notef("%s: %d places report a LangError and then always a ParseError without reading a token; %d functions report LangErrors without reading input", rule, n, len(lang))
}
