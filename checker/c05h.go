package main

import (
	"fmt"
	"go/ast"
	"go/token"
	"go/types"
	"strings"
)

// R05h: the printer splits a node's comments at a position — those before it are queued now, the rest later. A loop
// that finds the first comment past the position, keeps that one (`left = append(left, c)`) and breaks has dropped
// every comment after it; the form that keeps them all is `left = list[i:]`. Two comments can be past the position
// whenever the lexer reads them in one go (a comment ending in backslash-newline continues onto the next line).
//
// R05j: a printer function that is handed a comment list as a parameter queues it (or hands it on) on every path to
// its exit: a `return` added in front of `p.comments(last...)` drops the comments after the last statement of a list.
func checkCommentSplits(p *Prog, r *Result, rule string, exceptions map[string]string) int {
	pkg := p.Pkg("syntax")
	info := pkg.TypesInfo
	isComments := func(t types.Type) bool {
		sl, ok := t.Underlying().(*types.Slice)
		return ok && typeName(sl.Elem()) == "Comment"
	}
	n := 0
	for _, fd := range p.AllFuncDecls("syntax") {
		if fd.Body == nil || !strings.HasSuffix(p.Fset.Position(fd.Pos()).Filename, "/printer.go") {
			continue
		}
		k := 0
		ast.Inspect(fd.Body, func(m ast.Node) bool {
			rs, ok := m.(*ast.RangeStmt)
			if !ok || rs.Value == nil || !isComments(info.TypeOf(rs.X)) {
				return true
			}
			val, ok := rs.Value.(*ast.Ident)
			if !ok {
				return true
			}
			// breaks that belong to this loop
			var visit func(list []ast.Stmt)
			visit = func(list []ast.Stmt) {
				for i, st := range list {
					switch x := st.(type) {
					case *ast.BranchStmt:
						if x.Tok != token.BREAK || x.Label != nil {
							continue
						}
						// what the statements before it in this block keep
						keepsOne, keepsRest := false, false
						for _, prev := range list[:i] {
							as, ok := prev.(*ast.AssignStmt)
							if !ok || len(as.Rhs) != 1 {
								continue
							}
							rhs := ast.Unparen(as.Rhs[0])
							if c, ok := rhs.(*ast.CallExpr); ok && isBuiltinCall(info, c, "append") && len(c.Args) == 2 && !c.Ellipsis.IsValid() {
								if id, ok := ast.Unparen(c.Args[1]).(*ast.Ident); ok && info.ObjectOf(id) == info.ObjectOf(val) {
									keepsOne = true
								}
							}
							if se, ok := rhs.(*ast.SliceExpr); ok && exprString(se.X) == exprString(rs.X) && se.High == nil && se.Low != nil {
								keepsRest = true
							}
						}
						// `defer f(list[i:])` and the like also keep the rest
						for _, prev := range list[:i] {
							ast.Inspect(prev, func(q ast.Node) bool {
								if se, ok := q.(*ast.SliceExpr); ok && exprString(se.X) == exprString(rs.X) && se.High == nil && se.Low != nil {
									keepsRest = true
								}
								return true
							})
						}
						if !keepsOne && !keepsRest {
							continue
						}
						k++
						n++
						key := fmt.Sprintf("%s#split %d of %s keeps every comment past the position", funcKey("syntax", fd), k, exprString(rs.X))
						if why, ok := exceptions[funcKey("syntax", fd)+"#"+exprString(rs.X)]; ok && !keepsRest {
							r.OK(rule, key, x.Pos(), "reasoned: "+why)
							r.Except(funcKey("syntax", fd)+"#"+exprString(rs.X), why)
							continue
						}
						r.Check(keepsRest, rule, key, x.Pos(), "keeps the rest of the list ("+exprString(rs.X)+"[i:])",
							fmt.Sprintf("the loop over %s keeps the first comment past the position and leaves: every comment after that one is neither queued nor kept — two comments are past the position when the lexer read them in one go (`# a \\` followed by `# b` on the next line), and the second is dropped from the output", exprString(rs.X)))
					case *ast.IfStmt:
						visit(x.Body.List)
						if eb, ok := x.Else.(*ast.BlockStmt); ok {
							visit(eb.List)
						}
					case *ast.BlockStmt:
						visit(x.List)
					}
				}
			}
			visit(rs.Body.List)
			return true
		})
	}
	return n
}

func checkCommentParamsSunk(p *Prog, r *Result, rule string) int {
	pkg := p.Pkg("syntax")
	info := pkg.TypesInfo
	isComments := func(t types.Type) bool {
		sl, ok := t.Underlying().(*types.Slice)
		return ok && typeName(sl.Elem()) == "Comment"
	}
	n := 0
	for _, fd := range p.AllFuncDecls("syntax") {
		if fd.Body == nil || recvTypeName(fd) != "Printer" || fd.Type.Params == nil {
			continue
		}
		for _, fl := range fd.Type.Params.List {
			if !isComments(info.TypeOf(fl.Type)) {
				continue
			}
			if _, variadic := fl.Type.(*ast.Ellipsis); variadic {
				continue // comments(...) itself and its like: the sink
			}
			for _, nm := range fl.Names {
				obj := info.ObjectOf(nm)
				n++
				key := fmt.Sprintf("%s#the comments in %s are queued or handed on, on every path", funcKey("syntax", fd), nm.Name)
				g := NewFGraph(info, fd.Body, nil)
				uses := func(nd ast.Node) bool {
					hit := false
					for _, c := range nodeCalls(nd) {
						for _, a := range c.Args {
							ast.Inspect(a, func(q ast.Node) bool {
								if id, ok := q.(*ast.Ident); ok && info.ObjectOf(id) == obj {
									hit = true
								}
								return true
							})
						}
					}
					// ranged over, element by element
					if rs, ok := nd.(*ast.RangeStmt); ok {
						if id, ok := ast.Unparen(rs.X).(*ast.Ident); ok && info.ObjectOf(id) == obj {
							hit = true
						}
					}
					return hit
				}
				ok, _ := g.MustPass(g.Entry, -1, g.Exit, uses, nil)
				r.Check(ok, rule, key, nm.Pos(), "every path from the entry to a return passes a call that is given the list (or a loop over it)",
					fmt.Sprintf("%s returns on some path without having queued or handed on the comment list %s it was given: those comments are missing from the output", fd.Name.Name, nm.Name))
			}
		}
	}
	return n
}
