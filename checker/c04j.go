package main

import (
	"fmt"
	"go/ast"
	"go/token"
	"go/types"
	"sort"
	"strings"
)

// R04j: inlineSimpleParams turns `$name` into `name` inside arithmetic. That is only sound where the expansion is
// read: to the left of an assignment operator, or under ++/--, `$ref = 5` assigns to the variable ref names and
// `ref = 5` to ref itself. Today the parser refuses a `$name` in those places (isArithName), which is the only thing
// that keeps the rewrite — applied to both operands of every binary operator — right. So the shapes of ParamExp that
// isArithName accepts and the shape the rewrite applies to (ParamExp.simple) must exclude each other: every way of
// answering true contains a test that contradicts one of simple's conjuncts (nakedIndex wants an Index, simple none).
func checkInliningAvoidsTargets(p *Prog, r *Result, si *syntaxInfo, rule string) {
	pkg := si.pkg
	info := pkg.TypesInfo
	pred := p.FuncDecl("syntax", "isArithName")
	simple := p.FuncDecl("syntax", "ParamExp.simple")
	inl := p.FuncDecl("syntax", "simplifier.inlineSimpleParams")
	if pred == nil || simple == nil || inl == nil {
		r.Undecided(rule, "syntax#isArithName / ParamExp.simple / inlineSimpleParams", token.NoPos, "anchors not found: the rule cannot compare what the parser accepts as an assignment target with what the simplifier rewrites")
		return
	}
	// the rewrite is still gated by simple()
	usesSimple := false
	ast.Inspect(inl.Body, func(n ast.Node) bool {
		if c, ok := n.(*ast.CallExpr); ok {
			if callee := calleeOf(info, c); callee != nil && callee.Name() == "simple" {
				usesSimple = true
			}
		}
		return true
	})
	if !usesSimple {
		r.Undecided(rule, "syntax.(simplifier).inlineSimpleParams#gated by ParamExp.simple", inl.Pos(), "the rewrite is no longer gated by ParamExp.simple: the rule does not know which shapes it applies to")
		return
	}
	// atoms: field -> "set" / "unset" (nil, false, zero, invalid are "unset")
	type atoms map[string]string
	var atomsOf func(e ast.Expr, recv string, neg bool, depth int) ([]atoms, bool)
	methodBody := func(c *ast.CallExpr) (ast.Expr, string, bool) {
		callee := calleeOf(info, c)
		if callee == nil || callee.Pkg() != pkg.Types {
			return nil, "", false
		}
		se, ok := ast.Unparen(c.Fun).(*ast.SelectorExpr)
		if !ok {
			return nil, "", false
		}
		var fd *ast.FuncDecl
		for _, d := range p.AllFuncDecls("syntax") {
			if info.Defs[d.Name] == types.Object(callee) {
				fd = d
			}
		}
		if fd == nil || fd.Recv == nil || len(fd.Recv.List[0].Names) != 1 || len(fd.Body.List) != 1 {
			return nil, "", false
		}
		rs, ok := fd.Body.List[0].(*ast.ReturnStmt)
		if !ok || len(rs.Results) != 1 {
			return nil, "", false
		}
		_ = se
		return rs.Results[0], fd.Recv.List[0].Names[0].Name, true
	}
	// DNF of a boolean expression over the receiver's fields; unknown atoms are kept as opaque facts
	atomsOf = func(e ast.Expr, recv string, neg bool, depth int) ([]atoms, bool) {
		e = ast.Unparen(e)
		one := func(k, v string) ([]atoms, bool) { return []atoms{{k: v}}, true }
		flip := func(v string) string {
			if v == "set" {
				return "unset"
			}
			return "set"
		}
		switch x := e.(type) {
		case *ast.UnaryExpr:
			if x.Op == token.NOT {
				return atomsOf(x.X, recv, !neg, depth)
			}
		case *ast.BinaryExpr:
			and := x.Op == token.LAND
			if x.Op == token.LAND || x.Op == token.LOR {
				a, ok1 := atomsOf(x.X, recv, neg, depth)
				b, ok2 := atomsOf(x.Y, recv, neg, depth)
				if !ok1 || !ok2 {
					return nil, false
				}
				if and != neg { // conjunction: cross product
					var out []atoms
					for _, p1 := range a {
						for _, p2 := range b {
							m := atoms{}
							contra := false
							for k, v := range p1 {
								m[k] = v
							}
							for k, v := range p2 {
								if w, has := m[k]; has && w != v {
									contra = true
								}
								m[k] = v
							}
							if !contra {
								out = append(out, m)
							}
						}
					}
					return out, true
				}
				return append(a, b...), true
			}
			if x.Op == token.EQL || x.Op == token.NEQ {
				l, rr := x.X, x.Y
				if _, ok := ast.Unparen(l).(*ast.SelectorExpr); !ok {
					l, rr = rr, l
				}
				if se, ok := ast.Unparen(l).(*ast.SelectorExpr); ok && exprString(se.X) == recv {
					zero := isNilIdent(info, rr)
					if tv, ok := info.Types[rr]; ok && tv.Value != nil {
						s := tv.Value.ExactString()
						zero = s == "0" || s == "false" || s == `""`
					}
					if zero {
						v := "unset"
						if (x.Op == token.NEQ) != neg {
							v = "set"
						}
						return one(se.Sel.Name, v)
					}
				}
				// len(p.F) == 0
				if c, ok := ast.Unparen(l).(*ast.CallExpr); ok && len(c.Args) == 1 && exprString(c.Fun) == "len" {
					if se, ok := ast.Unparen(c.Args[0]).(*ast.SelectorExpr); ok && exprString(se.X) == recv {
						if tv, ok := info.Types[rr]; ok && tv.Value != nil && tv.Value.ExactString() == "0" {
							v := "unset"
							if (x.Op == token.NEQ) != neg {
								v = "set"
							}
							return one(se.Sel.Name, v)
						}
					}
				}
			}
		case *ast.SelectorExpr:
			if exprString(x.X) == recv {
				v := "set"
				if neg {
					v = "unset"
				}
				return one(x.Sel.Name, v)
			}
		case *ast.CallExpr:
			// p.F.IsValid()
			if se, ok := ast.Unparen(x.Fun).(*ast.SelectorExpr); ok && se.Sel.Name == "IsValid" {
				if f, ok := ast.Unparen(se.X).(*ast.SelectorExpr); ok && exprString(f.X) == recv {
					v := "set"
					if neg {
						v = "unset"
					}
					return one(f.Sel.Name, v)
				}
			}
			// a predicate method of the same receiver, one statement long
			if se, ok := ast.Unparen(x.Fun).(*ast.SelectorExpr); ok && exprString(se.X) == recv && depth < 2 {
				if body, r2, ok := methodBody(x); ok {
					res, ok := atomsOf(body, r2, neg, depth+1)
					return res, ok
				}
			}
		}
		// an opaque fact: it constrains nothing this rule knows about
		v := "set"
		if neg {
			v = flip(v)
		}
		return one("?"+exprString(e), v)
	}
	// simple(): one conjunction
	rsS, ok := simple.Body.List[0].(*ast.ReturnStmt)
	if !ok || len(simple.Body.List) != 1 || len(rsS.Results) != 1 {
		r.Undecided(rule, "syntax.(ParamExp).simple#one returned conjunction", simple.Pos(), "ParamExp.simple is no longer a single returned expression")
		return
	}
	sRecv := simple.Recv.List[0].Names[0].Name
	sDNF, ok := atomsOf(rsS.Results[0], sRecv, false, 0)
	if !ok || len(sDNF) != 1 {
		r.Undecided(rule, "syntax.(ParamExp).simple#one returned conjunction", simple.Pos(), "ParamExp.simple is not a conjunction of field tests")
		return
	}
	want := sDNF[0]
	// isArithName: the clause for *ParamExp
	n := 0
	ast.Inspect(pred.Body, func(m ast.Node) bool {
		ts, ok := m.(*ast.TypeSwitchStmt)
		if !ok {
			return true
		}
		for _, c := range ts.Body.List {
			cc := c.(*ast.CaseClause)
			isPE := false
			for _, t := range cc.List {
				if nt := namedOf(info.TypeOf(t)); nt != nil && nt.Obj().Name() == "ParamExp" {
					isPE = true
				}
			}
			if !isPE {
				continue
			}
			bound := ""
			if as, ok := ts.Assign.(*ast.AssignStmt); ok && len(as.Lhs) == 1 {
				bound = exprString(as.Lhs[0])
			}
			ast.Inspect(cc, func(k ast.Node) bool {
				rs, ok := k.(*ast.ReturnStmt)
				if !ok || len(rs.Results) != 1 {
					return true
				}
				if tv, ok := info.Types[rs.Results[0]]; ok && tv.Value != nil && tv.Value.ExactString() == "false" {
					return true
				}
				n++
				key := fmt.Sprintf("%s#a ParamExp accepted as an assignment target is not one the `$name` inlining applies to #%d", funcKey("syntax", pred), n)
				dnf, ok := atomsOf(rs.Results[0], bound, false, 0)
				if !ok {
					r.Undecided(rule, key, rs.Pos(), "the returned condition is not a combination of field tests")
					return true
				}
				var overlap []string
				for _, d := range dnf {
					contra := false
					for k, v := range d {
						if w, has := want[k]; has && w != v {
							contra = true
						}
					}
					if !contra {
						var parts []string
						for k, v := range d {
							parts = append(parts, strings.TrimPrefix(k, "?")+" "+v)
						}
						sort.Strings(parts)
						overlap = append(overlap, "{"+strings.Join(parts, ", ")+"}")
					}
				}
				r.Check(len(overlap) == 0, rule, key, rs.Pos(),
					fmt.Sprintf("each of the %d ways of answering true contradicts a conjunct of ParamExp.simple, which gates the rewrite", len(dnf)),
					fmt.Sprintf("the parser accepts, to the left of an assignment operator and under ++/--, a parameter expansion that ParamExp.simple also accepts (%s): Simplify's inlineSimpleParams, which runs on both operands of every binary arithmetic operator, strips its `$` — `$(( $ref = 5 ))` becomes `$((ref = 5))` and assigns to another variable", strings.Join(overlap, " or ")))
				return true
			})
		}
		return true
	})
	if n == 0 {
		r.Undecided(rule, funcKey("syntax", pred)+"#ParamExp clause", pred.Pos(), "isArithName has no clause for *ParamExp that can answer true: the rule no longer sees what the parser accepts as a target")
	}
}
