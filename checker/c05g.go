package main

import (
	"fmt"
	"go/ast"
	"go/token"
	"go/types"
	"sort"
	"strings"
)

// R05g: must-sink. In every printer function, for every node-typed expression B (a parameter, a type-switch or
// range variable, a local, or a field path off one such as cmd.Y) through which the function queues one comment
// field, every comment field of B's type is queued on *every* path through the scope in which B is bound — by a
// sink call, by a loop that feeds the elements to comments(), or by handing B to a printer method that itself
// must-sinks that field. Paths on which B is nil or the field is tested to be empty are exempt.
func checkCommentMustSink(p *Prog, r *Result, si *syntaxInfo, rule string, exceptions map[string]string) {
	pkg := si.pkg
	info := pkg.TypesInfo
	g := buildRefGraph(p)
	printFn := lookupFunc(pkg, "Printer.Print")
	commentsFn := lookupFunc(pkg, "Printer.comments")
	if printFn == nil || commentsFn == nil {
		r.Fatalf("anchors Printer.Print / Printer.comments not found")
		return
	}
	reach := g.reachable(printFn)
	printerT := lookupType(pkg, "Printer")
	var decls []*ast.FuncDecl
	declOf := map[*types.Func]*ast.FuncDecl{}
	for fo, fd := range g.decl {
		if g.pkgOf[fo] == pkg && reach[fo] && fd.Body != nil {
			if s := fo.Type().(*types.Signature); s.Recv() != nil && namedOf(s.Recv().Type()) == printerT {
				decls = append(decls, fd)
				declOf[fo] = fd
			}
		}
	}
	sort.Slice(decls, func(i, j int) bool { return decls[i].Pos() < decls[j].Pos() })

	commentFields := func(t types.Type) []*types.Var {
		n := namedOf(t)
		if n == nil || !si.isNode[n.Obj()] {
			return nil
		}
		var out []*types.Var
		for _, f := range si.fields(n) {
			if f.Kind == fkComments {
				out = append(out, f.Var)
			}
		}
		return out
	}
	strip := func(e ast.Expr) ast.Expr {
		e = ast.Unparen(e)
		for {
			if se, ok := e.(*ast.SliceExpr); ok {
				e = ast.Unparen(se.X)
				continue
			}
			return e
		}
	}
	// parameter sinks (as in R05a) and must-sink summaries per (method, param index, field)
	type psKey struct {
		fn *types.Func
		i  int
	}
	paramSink := map[psKey]bool{}
	paramIndex := func(fd *ast.FuncDecl, o types.Object) int {
		i := 0
		for _, f := range fd.Type.Params.List {
			for _, nm := range f.Names {
				if info.Defs[nm] == o {
					return i
				}
				i++
			}
		}
		return -1
	}
	for changed := true; changed; {
		changed = false
		for _, fd := range decls {
			fo := info.Defs[fd.Name].(*types.Func)
			ast.Inspect(fd.Body, func(n ast.Node) bool {
				c, ok := n.(*ast.CallExpr)
				if !ok {
					return true
				}
				fn := calleeOf(info, c)
				for ai, a := range c.Args {
					id, ok := strip(a).(*ast.Ident)
					if !ok || !isCommentSlice(si, info.TypeOf(id)) {
						continue
					}
					pi := paramIndex(fd, info.ObjectOf(id))
					if pi < 0 || paramSink[psKey{fo, pi}] {
						continue
					}
					if fn == commentsFn || (fn != nil && paramSink[psKey{fn, ai}]) {
						paramSink[psKey{fo, pi}] = true
						changed = true
					}
				}
				return true
			})
		}
	}
	// does node nd sink access path `path` (text)? also: delegate base to a must-sinking method
	type msKey struct {
		fn    *types.Func
		i     int
		field string
	}
	mustSink := map[msKey]bool{} // filled by fixpoint below
	sinksPath := func(nd ast.Node, base string, field string) bool {
		path := base + "." + field
		hit := false
		check := func(n ast.Node) bool {
			switch x := n.(type) {
			case *ast.FuncLit:
				return false
			case *ast.CallExpr:
				fn := calleeOf(info, x)
				for ai, a := range x.Args {
					if exprString(strip(a)) == path && (fn == commentsFn || (fn != nil && paramSink[psKey{fn, ai}])) {
						hit = true
					}
					// delegation of the node itself
					if exprString(ast.Unparen(a)) == base && fn != nil && mustSink[msKey{fn, ai, field}] {
						hit = true
					}
				}
			}
			return !hit
		}
		switch x := nd.(type) {
		case *ast.RangeStmt:
			// for _, c := range B.F { … p.comments(c) … }
			if exprString(strip(x.X)) == path && x.Value != nil {
				if vid, ok := x.Value.(*ast.Ident); ok {
					vobj := info.ObjectOf(vid)
					ast.Inspect(x.Body, func(m ast.Node) bool {
						if c, ok := m.(*ast.CallExpr); ok && calleeOf(info, c) == commentsFn {
							for _, a := range c.Args {
								if id, ok := ast.Unparen(a).(*ast.Ident); ok && info.ObjectOf(id) == vobj {
									hit = true
								}
							}
						}
						return true
					})
				}
			}
			return hit
		}
		ast.Inspect(nd, check)
		if !hit {
			// the inline-comment special case writes the text itself: p.w.WriteString(cs.Last[0].Text)
			ast.Inspect(nd, func(n ast.Node) bool {
				if se, ok := n.(*ast.SelectorExpr); ok && se.Sel.Name == "Text" {
					if ix, ok := ast.Unparen(se.X).(*ast.IndexExpr); ok && exprString(ix.X) == path {
						hit = true
					}
				}
				return !hit
			})
		}
		return hit
	}
	exemptEdge := func(e *FEdge, base, field string) bool {
		if e.Cond == nil {
			return false
		}
		be, ok := ast.Unparen(e.Cond).(*ast.BinaryExpr)
		if !ok {
			return false
		}
		l, rr := exprString(be.X), exprString(be.Y)
		// base == nil (true edge) / base != nil (false edge)
		if l == base && rr == "nil" {
			return (be.Op == token.EQL && e.Pol) || (be.Op == token.NEQ && !e.Pol)
		}
		// len(base.field) == 0 true / > 0 false / != 0 false
		if l == "len("+base+"."+field+")" && rr == "0" {
			return (be.Op == token.EQL && e.Pol) || (be.Op == token.GTR && !e.Pol) || (be.Op == token.NEQ && !e.Pol)
		}
		return false
	}
	// scope of a root variable inside a function graph
	type scope struct {
		start *FBlock
		idx   int
		ends  map[*FBlock]bool
		what  string
	}
	scopeOf := func(fd *ast.FuncDecl, fg *FGraph, root types.Object) (scope, bool) {
		sc := scope{ends: map[*FBlock]bool{fg.Exit: true}}
		// parameter
		if paramIndex(fd, root) >= 0 {
			sc.start, sc.idx, sc.what = fg.Entry, -1, "the function"
			return sc, true
		}
		found := false
		ast.Inspect(fd.Body, func(n ast.Node) bool {
			if found {
				return false
			}
			switch x := n.(type) {
			case *ast.CaseClause:
				if info.Implicits[x] == root {
					for _, b := range fg.Blocks {
						if b.Stmt == ast.Stmt(x) && (b.Kind == "tswitch.body" || b.Kind == "tswitch.default") {
							sc.start, sc.idx, sc.what = b, -1, "the case clause"
						}
					}
					// the enclosing type switch's done block
					ast.Inspect(fd.Body, func(m ast.Node) bool {
						if ts, ok := m.(*ast.TypeSwitchStmt); ok && ts.Pos() <= x.Pos() && x.End() <= ts.End() {
							for _, b := range fg.Blocks {
								if b.Stmt == ast.Stmt(ts) && b.Kind == "tswitch.done" {
									sc.ends[b] = true
								}
							}
						}
						return true
					})
					found = sc.start != nil
				}
			case *ast.RangeStmt:
				for _, v := range []ast.Expr{x.Key, x.Value} {
					if id, ok := v.(*ast.Ident); ok && info.Defs[id] == root {
						for _, b := range fg.Blocks {
							if b.Stmt == ast.Stmt(x) {
								switch b.Kind {
								case "range.body":
									sc.start, sc.idx, sc.what = b, -1, "the loop body"
								case "range.loop", "range.done":
									sc.ends[b] = true
								}
							}
						}
						found = sc.start != nil
					}
				}
			case *ast.AssignStmt:
				for _, l := range x.Lhs {
					if id, ok := l.(*ast.Ident); ok && info.Defs[id] == root && x.Tok == token.DEFINE {
						if b, i := fg.BlockOf(x); b != nil {
							sc.start, sc.idx, sc.what = b, i, "the rest of the function"
							found = true
						}
					}
				}
			}
			return true
		})
		return sc, found
	}
	rootOf := func(e ast.Expr) types.Object {
		e = ast.Unparen(e)
		for {
			switch x := e.(type) {
			case *ast.SelectorExpr:
				e = ast.Unparen(x.X)
				continue
			case *ast.Ident:
				return info.ObjectOf(x)
			}
			return nil
		}
	}
	// escapes without sinking: from the scope start, can a scope end be reached avoiding sink nodes and exempt edges?
	escapes := func(fg *FGraph, sc scope, base, field string) *FBlock {
		seen := map[*FBlock]bool{}
		var walk func(b *FBlock, from int) *FBlock
		walk = func(b *FBlock, from int) *FBlock {
			if sc.ends[b] && !(b == sc.start && from >= 0) {
				return b
			}
			for k := max(from, 0); k < len(b.Nodes); k++ {
				if sinksPath(b.Nodes[k], base, field) {
					return nil
				}
			}
			for _, e := range b.Succs {
				if exemptEdge(e, base, field) || seen[e.To] {
					continue
				}
				if e.To == fg.Abort {
					continue
				}
				seen[e.To] = true
				if w := walk(e.To, 0); w != nil {
					return w
				}
			}
			return nil
		}
		if sc.start == nil {
			return nil
		}
		return walk(sc.start, sc.idx+1)
	}
	graphs := map[*ast.FuncDecl]*FGraph{}
	graphOf := func(fd *ast.FuncDecl) *FGraph {
		if gg, ok := graphs[fd]; ok {
			return gg
		}
		gg := NewFGraph(info, fd.Body, nil)
		graphs[fd] = gg
		return gg
	}
	// must-sink summaries for parameters (fixpoint)
	for changed := true; changed; {
		changed = false
		for _, fd := range decls {
			fo := info.Defs[fd.Name].(*types.Func)
			i := 0
			for _, f := range fd.Type.Params.List {
				for _, nm := range f.Names {
					po := info.Defs[nm]
					for _, cf := range commentFields(po.Type()) {
						k := msKey{fo, i, cf.Name()}
						if mustSink[k] {
							continue
						}
						fg := graphOf(fd)
						sc := scope{start: fg.Entry, idx: -1, ends: map[*FBlock]bool{fg.Exit: true}}
						if escapes(fg, sc, nm.Name, cf.Name()) == nil {
							// it must actually sink it somewhere
							sinksSomewhere := false
							for _, b := range fg.Blocks {
								for _, nd := range b.Nodes {
									if sinksPath(nd, nm.Name, cf.Name()) {
										sinksSomewhere = true
									}
								}
							}
							if sinksSomewhere {
								mustSink[k] = true
								changed = true
							}
						}
					}
					i++
				}
			}
		}
	}

	// obligations
	for _, fd := range decls {
		fg := graphOf(fd)
		// bases through which some comment field is sunk in this function
		type baseInfo struct {
			expr ast.Expr
			t    types.Type
		}
		bases := map[string]baseInfo{}
		baseText := map[string]string{}
		ast.Inspect(fd.Body, func(n ast.Node) bool {
			se, ok := n.(*ast.SelectorExpr)
			if !ok {
				return true
			}
			fv := selectorField(info, se)
			if fv == nil || !isCommentSlice(si, fv.Type()) {
				return true
			}
			if nt := namedOf(info.TypeOf(se.X)); nt == nil || !si.isNode[nt.Obj()] {
				return true
			}
			k := exprString(se.X)
			if ro := rootOf(se.X); ro != nil {
				k = fmt.Sprintf("%s@%p", k, ro)
			}
			bases[k] = baseInfo{se.X, info.TypeOf(se.X)}
			baseText[k] = exprString(se.X)
			return true
		})
		// a statement handed to Printer.stmt — the low-level statement printer, which leaves the statement's own comments
		// to its caller — is a base too, whether or not this function queues any of its comments
		handedToStmt := map[string]bool{}
		if stmtFn := lookupFunc(pkg, "Printer.stmt"); stmtFn != nil {
			ast.Inspect(fd.Body, func(n ast.Node) bool {
				c, ok := n.(*ast.CallExpr)
				if !ok || calleeOf(info, c) != stmtFn || len(c.Args) < 1 {
					return true
				}
				arg := ast.Unparen(c.Args[0])
				if nt := namedOf(info.TypeOf(arg)); nt == nil || !si.isNode[nt.Obj()] {
					return true
				}
				if _, isSel := arg.(*ast.SelectorExpr); !isSel {
					if _, isID := arg.(*ast.Ident); !isID {
						return true
					}
				}
				k := exprString(arg)
				if ro := rootOf(arg); ro != nil {
					k = fmt.Sprintf("%s@%p", k, ro)
				}
				if _, have := bases[k]; !have {
					bases[k] = baseInfo{arg, info.TypeOf(arg)}
					baseText[k] = exprString(arg)
				}
				handedToStmt[k] = true
				return true
			})
		}
		var names []string
		for b := range bases {
			names = append(names, b)
		}
		sort.Slice(names, func(i, j int) bool {
			if baseText[names[i]] != baseText[names[j]] {
				return baseText[names[i]] < baseText[names[j]]
			}
			return bases[names[i]].expr.Pos() < bases[names[j]].expr.Pos()
		})
		for _, bkey := range names {
			bi := bases[bkey]
			base := baseText[bkey]
			root := rootOf(bi.expr)
			if root == nil {
				continue
			}
			// only bases through which this function sinks at least one field
			sinksAny := false
			for _, cf := range commentFields(bi.t) {
				for _, b := range fg.Blocks {
					for _, nd := range b.Nodes {
						if sinksPath(nd, base, cf.Name()) {
							sinksAny = true
						}
					}
				}
			}
			if !sinksAny && !handedToStmt[bkey] {
				continue
			}
			sc, ok := scopeOf(fd, fg, root)
			tn := typeName(bi.t)
			for _, cf := range commentFields(bi.t) {
				key := fmt.Sprintf("%s#%s.%s queued on every path", funcKey("syntax", fd), base, cf.Name())
				if why, isEx := exceptions[funcKey("syntax", fd)+"#"+base+"."+cf.Name()]; isEx {
					r.OK(rule, key, bi.expr.Pos(), "exception: "+why)
					r.Except(funcKey("syntax", fd)+"#"+base+"."+cf.Name(), why)
					continue
				}
				if !ok {
					r.Undecided(rule, key, bi.expr.Pos(), "the scope in which "+root.Name()+" is bound was not recognised")
					continue
				}
				w := escapes(fg, sc, base, cf.Name())
				if w != nil {
					// a field the parser empties at every construction site holds no comments in any parsed tree
					if se, isSel := ast.Unparen(bi.expr).(*ast.SelectorExpr); isSel {
						if owner := namedOf(info.TypeOf(se.X)); owner != nil && si.isNode[owner.Obj()] {
							if cleared, n, _ := producerClears(si, owner, se.Sel.Name, cf.Name()); cleared {
								r.OK(rule, key, bi.expr.Pos(), fmt.Sprintf("the parser sets %s.%s.%s to nil at each of its %d construction sites of a %s, in the statement list that hands the node on: no parsed tree has comments there", owner.Obj().Name(), se.Sel.Name, cf.Name(), n, owner.Obj().Name()))
								continue
							}
						}
					}
				}
				where := ""
				if w != nil && len(w.Nodes) > 0 {
					where = " (reaching " + p.Position(w.Nodes[0].Pos()) + ")"
				} else if w == fg.Exit {
					where = " (reaching a return)"
				}
				r.Check(w == nil, rule, key, bi.expr.Pos(), fmt.Sprintf("every path through %s queues %s.%s, hands %s to a method that does, or has tested it empty", sc.what, base, cf.Name(), base),
					fmt.Sprintf("this function prints %s (a %s) and queues some of its comments, but a path through %s%s leaves without queuing %s.%s: those comments are dropped by the printer", base, strings.TrimPrefix(tn, "*"), sc.what, where, base, cf.Name()))
			}
		}
	}
}

// producerClears reports whether every construction of a T in the (non-test) package is followed, in the statement
// list that hands the new node on, by an assignment that sets <node>.<field>.<comments> to nil: the parser moves those
// comments elsewhere, so no parsed tree has any there and a printer path that does not queue them drops nothing.
// It returns the number of construction sites seen; zero sites never discharges.
func producerClears(si *syntaxInfo, t *types.Named, field, comments string) (bool, int, string) {
	pkg := si.pkg
	info := pkg.TypesInfo
	sites := 0
	for _, f := range pkg.Syntax {
		if strings.HasSuffix(pkg.Fset.Position(f.Pos()).Filename, "_test.go") {
			continue
		}
		for _, d := range f.Decls {
			fd, ok := d.(*ast.FuncDecl)
			if !ok || fd.Body == nil {
				continue
			}
			// construction sites: b := &T{...} / b = &T{...}
			type site struct {
				obj types.Object
				lit *ast.CompositeLit
			}
			var found []site
			bad := ""
			ast.Inspect(fd.Body, func(n ast.Node) bool {
				switch n := n.(type) {
				case *ast.AssignStmt:
					for i, rhs := range n.Rhs {
						lit := compositeOf(rhs)
						if lit == nil || namedOf(info.TypeOf(lit)) != t || i >= len(n.Lhs) {
							continue
						}
						id, ok := n.Lhs[i].(*ast.Ident)
						if !ok {
							continue
						}
						o := info.ObjectOf(id)
						if o != nil {
							found = append(found, site{o, lit})
						}
					}
				}
				return true
			})
			nLits := 0
			ast.Inspect(fd.Body, func(n ast.Node) bool {
				if lit, ok := n.(*ast.CompositeLit); ok && namedOf(info.TypeOf(lit)) == t {
					nLits++
				}
				return true
			})
			if nLits != len(found) {
				return false, sites + nLits, funcKey("syntax", fd) + " builds a " + t.Obj().Name() + " that is not bound to a local"
			}
			for _, s := range found {
				sites++
				// the clearing assignment
				var clear *ast.AssignStmt
				ast.Inspect(fd.Body, func(n ast.Node) bool {
					as, ok := n.(*ast.AssignStmt)
					if !ok || as.Pos() < s.lit.End() || len(as.Lhs) != len(as.Rhs) {
						return true
					}
					for i, lhs := range as.Lhs {
						se, ok := ast.Unparen(lhs).(*ast.SelectorExpr)
						if !ok || se.Sel.Name != comments || !isNilIdent(info, as.Rhs[i]) {
							continue
						}
						in, ok := ast.Unparen(se.X).(*ast.SelectorExpr)
						if !ok || in.Sel.Name != field {
							continue
						}
						if id, ok := ast.Unparen(in.X).(*ast.Ident); ok && info.ObjectOf(id) == s.obj && clear == nil {
							clear = as
						}
					}
					return true
				})
				if clear == nil {
					return false, sites, fmt.Sprintf("%s builds a %s and never empties its %s.%s", funcKey("syntax", fd), t.Obj().Name(), field, comments)
				}
				// every use of the new node as a value (the points at which it is handed on) sits in the statement list that holds the clearing
				var list []ast.Stmt
				ast.Inspect(fd.Body, func(n ast.Node) bool {
					if bs, ok := n.(*ast.BlockStmt); ok {
						for _, st := range bs.List {
							if st == clear {
								list = bs.List
							}
						}
					}
					return true
				})
				inList := func(pos token.Pos) bool {
					for _, st := range list {
						if st.Pos() <= pos && pos < st.End() {
							_, isAssign := st.(*ast.AssignStmt)
							return isAssign
						}
					}
					return false
				}
				selBase := map[*ast.Ident]bool{}
				ast.Inspect(fd.Body, func(n ast.Node) bool {
					if se, ok := n.(*ast.SelectorExpr); ok {
						if id, ok := ast.Unparen(se.X).(*ast.Ident); ok {
							selBase[id] = true
						}
					}
					return true
				})
				ast.Inspect(fd.Body, func(n ast.Node) bool {
					id, ok := n.(*ast.Ident)
					if !ok || info.Uses[id] != s.obj || selBase[id] || id.Pos() < s.lit.End() {
						return true
					}
					if !inList(id.Pos()) {
						bad = fmt.Sprintf("%s hands the new %s on at %s, outside the statement list that empties its %s.%s", funcKey("syntax", fd), t.Obj().Name(), pkg.Fset.Position(id.Pos()), field, comments)
					}
					return true
				})
				if bad != "" {
					return false, sites, bad
				}
			}
		}
	}
	return sites > 0, sites, ""
}

func compositeOf(e ast.Expr) *ast.CompositeLit {
	e = ast.Unparen(e)
	if u, ok := e.(*ast.UnaryExpr); ok && u.Op == token.AND {
		e = ast.Unparen(u.X)
	}
	lit, _ := e.(*ast.CompositeLit)
	return lit
}
