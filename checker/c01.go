package main

import (
	"fmt"
	"go/ast"
	"go/token"
	"go/types"
	"sort"
	"strings"
)

func init() {
	register(&Property{
		ID:  "C01",
		Run: runC01,
		Decided: "the printer cannot lose a part of the tree by construction: every type switch over a sealed syntax interface in code reachable from Print has a case for " +
			"every parser-constructible implementor or a non-panicking default (R01a); every non-position, non-comment field of every parser-constructible node type is read " +
			"by printer code, the documented cosmetic rewrites excepted one symbol each (R01b); Print returns a non-nil error only for the Minify+SingleLine refusal, an unsupported root node and writer flush errors (R01c). No printer queue is truncated in place while a saved alias is still read (R01d).",
		NotDecided:  "quoting, spacing, separators, heredoc placement: that what is printed re-parses to the same tree.",
		Assumptions: []string{"a field the printer never reads cannot influence its output (no reflection in package syntax's printer: checked by R01b's import test)"},
		Controls:    c01Controls,
	})
}

// fieldUse is one selector expression resolving to a struct field.
type fieldUse struct {
	Field *types.Var
	Fn    *types.Func
	Pos   token.Pos
	Write bool
}

// collectFieldUses finds every field selection in the given declared
// functions, classifying plain assignment targets and inc/dec as writes.
func collectFieldUses(g *refGraph, fns map[*types.Func]bool) []fieldUse {
	var out []fieldUse
	for fo := range fns {
		fd := g.decl[fo]
		if fd == nil || fd.Body == nil {
			continue
		}
		info := g.pkgOf[fo].TypesInfo
		writes := map[ast.Expr]bool{}
		ast.Inspect(fd.Body, func(n ast.Node) bool {
			switch x := n.(type) {
			case *ast.AssignStmt:
				if x.Tok == token.ASSIGN || x.Tok == token.DEFINE {
					for _, l := range x.Lhs {
						writes[ast.Unparen(l)] = true
					}
				}
			}
			return true
		})
		ast.Inspect(fd.Body, func(n ast.Node) bool {
			se, ok := n.(*ast.SelectorExpr)
			if !ok {
				return true
			}
			if f := selectorField(info, se); f != nil {
				out = append(out, fieldUse{Field: f.Origin(), Fn: fo, Pos: se.Pos(), Write: writes[se]})
			}
			return true
		})
		// composite literal keys are writes of a fresh value, not reads
	}
	return out
}

func runC01(p *Prog, r *Result) {
	r.Rule("R01d", "printer queues (pending here-documents, comments, levels) are not truncated in place while a local saved from them is still read: a clobbered queue prints another here-document's body", 2)
	if pk := p.Pkg("syntax"); pk != nil {
		if printerT := lookupType(pk, "Printer"); printerT != nil {
			pst := printerT.Underlying().(*types.Struct)
			isPrinterField := map[*types.Var]bool{}
			for i := 0; i < pst.NumFields(); i++ {
				isPrinterField[pst.Field(i)] = true
			}
			checkTruncationAliasing(p, r, pk, "syntax", "R01d", func(fv *types.Var) bool { return isPrinterField[fv] })
		}
	}
	si, err := newSyntaxInfo(p)
	if err != nil {
		r.Fatalf("%v", err)
		return
	}
	r.Rule("R01e", "tree text reaches the tabwriter only through the escaping writer, and every escaping decision covers \\t, \\v and \\f", 8)
	checkTabwriterEscaping(p, r, si.pkg, si, "R01e")
	r.Rule("R01f", "in arithmetic, between the text of an operator and the operand printed after it a space is written or a predicate over that operand is consulted: signs are not fused into another operator", 3)
	checkArithmOperatorsKeptApart(p, r, "R01f")
	r.Rule("R01g", "a word part whose printing can write a space on request sees no such request unless it is the first part of its word", 1)
	checkNoSpaceInsideWord(p, r, "R01g")
	r.Rule("R01h", "every command type whose printing can begin with \"(\" has a case in startsWithLparen, which is what keeps \"( (\" from being printed as \"((\"", 3)
	checkLparenStartersListed(p, r, "R01h")
	r.Rule("R01i", "the separator flag that Printer.command sets to keep a `;` away from a construct's closing word is cleared before the command ends: what follows on the same line gets its separator", 12)
	checkSeparatorFlagCleared(p, r, "R01i")
	r.Rule("R01j", "whatever root Print is given, every path from the call that writes it to Print's return passes flushHeredocs: a queued body is not left unwritten", 4)
	checkPrintFlushesHeredocs(p, r, "R01j")
	r.Rule("R01m", "wherever a redirection operator is tested against `<<`, the same if chain or switch mentions `<<-` as well", 3)
	checkHeredocOperatorsTogether(p, r, "R01m")
	r.Rule("R01n", "inside flushHeredocs the printer indents a closing line only where the indentation is tabs (p.indentSpaces == 0): <<- strips nothing else", 1)
	checkHeredocCloserIndentedWithTabs(p, r, "R01n")
	r.Rule("R01l", "every unary arithmetic operator whose text begins with + or - gets a space before it at the start of a slice offset: `${a: --b}` is not `${a:--b}`", 4)
	checkSliceSignsSpaced(p, r, "R01l")
	r.Rule("R01k", "the printer sets pending here-documents aside around a nested statement list exactly for the node types whose statements the parser reads with the pending list buried", 6)
	checkHeredocBuryingAgrees(p, r, "R01k")
	pkg := si.pkg
	info := pkg.TypesInfo
	g := buildRefGraph(p)
	printFn := lookupFunc(pkg, "Printer.Print")
	if printFn == nil {
		r.Fatalf("anchor (*Printer).Print not found")
		return
	}
	r.Rule("R01a", "type switches over sealed syntax interfaces in code reachable from Print cover every parser-constructible implementor (or have a non-panicking default)", 88)
	r.Rule("R01b", "every non-position, non-comment field of a parser-constructible node type is read by printer code reachable from Print (cosmetic-rewrite exceptions listed)", 120)
	r.Rule("R01c", "non-nil error returns of Print are exactly: Minify+SingleLine refusal, unsupported root node, writer flush errors", 4)

	reach := g.reachable(printFn)
	preach := parserReach(p, g)

	// printer code proper: reachable functions that are not methods of node types
	printerFns := map[*types.Func]bool{}
	for fo := range reach {
		if g.decl[fo] == nil || fo.Pkg() != pkg.Types {
			continue
		}
		sig := fo.Type().(*types.Signature)
		if sig.Recv() != nil {
			if n := namedOf(sig.Recv().Type()); n != nil && si.isNode[n.Obj()] {
				continue
			}
		}
		printerFns[fo] = true
	}

	ifaces := map[string]*types.Interface{}
	for _, name := range []string{"Node", "Command", "WordPart", "ArithmExpr", "TestExpr", "Loop"} {
		if t := lookupType(pkg, name); t != nil {
			ifaces[name], _ = t.Underlying().(*types.Interface)
		}
	}
	constructible := map[*types.Named]bool{}
	for _, n := range si.nodes {
		constructible[n] = len(parserConstructible(g, preach, n)) > 0
	}

	// ---- R01a
	var fns []*types.Func
	for fo := range printerFns {
		fns = append(fns, fo)
	}
	sort.Slice(fns, func(i, j int) bool { return funcObjKey(fns[i]) < funcObjKey(fns[j]) })
	for _, fo := range fns {
		fd := g.decl[fo]
		if fd.Body == nil {
			continue
		}
		// only switches that emit output are in scope: methods of Printer.
		// Predicates over nodes (startsWithLparen, endsWithRparen) answer
		// false for every type they do not list and print nothing.
		if sig := fo.Type().(*types.Signature); sig.Recv() == nil || typeName(sig.Recv().Type()) != "Printer" {
			continue
		}
		nsw := 0
		ast.Inspect(fd.Body, func(n ast.Node) bool {
			ts, ok := n.(*ast.TypeSwitchStmt)
			if !ok {
				return true
			}
			tag := typeSwitchTag(info, ts)
			if tag == nil {
				return true
			}
			tn := namedOf(tag)
			if tn == nil || tn.Obj().Pkg() != pkg.Types {
				return true
			}
			ifc, isIfc := tn.Underlying().(*types.Interface)
			if !isIfc || ifaces[tn.Obj().Name()] == nil {
				return true
			}
			nsw++
			swKey := fmt.Sprintf("%s#switch %s", funcObjKey(fo), tn.Obj().Name())
			if nsw > 1 {
				swKey = fmt.Sprintf("%s#%d", swKey, nsw)
			}
			sc := typeSwitchCases(info, ts)
			if sc.HasDefault && !clausePanics(info, sc.Default) {
				r.Notef("R01a: %s has a non-panicking default; implementors without a case take it (listed, not an obligation)", swKey)
				// Still record which constructible implementors fall to the default.
			}
			for _, n := range si.nodes {
				pn := types.NewPointer(n)
				if !types.Implements(pn, ifc) {
					continue
				}
				covered := false
				for _, ct := range sc.Types {
					if ct == nil {
						continue
					}
					if types.Identical(ct, pn) {
						covered = true
					} else if ci, ok := ct.Underlying().(*types.Interface); ok && types.Implements(pn, ci) {
						covered = true
					}
				}
				key := swKey + "/" + n.Obj().Name()
				switch {
				case covered:
					r.OK("R01a", key, ts.Pos(), "case present")
				case sc.HasDefault && !clausePanics(info, sc.Default):
					r.OK("R01a", key, ts.Pos(), "falls to the non-panicking default")
				case siblingAgrees(p, g, info, fo, tn, sc) != "":
					r.OK("R01a", key, ts.Pos(), siblingAgrees(p, g, info, fo, tn, sc))
				case !constructible[n]:
					r.OK("R01a", key, ts.Pos(), "no case, but the type has no construction site reachable from Parser methods")
					r.Except("syntax."+n.Obj().Name(), "not constructible by the parser; "+swKey+" has no case for it")
				default:
					what := "prints nothing for it"
					if sc.HasDefault {
						what = "panics on it"
					}
					r.Bad("R01a", key, ts.Pos(), fmt.Sprintf("%s is built by the parser (%s) but this switch has no case for it and %s",
						n.Obj().Name(), strings.Join(parserConstructible(g, preach, n), ", "), what))
				}
			}
			return true
		})
	}

	// ---- R01b
	// the printer must not use reflection (a field could be read invisibly)
	usesReflect := false
	for fo := range printerFns {
		for c := range g.edges[fo] {
			if c.Pkg() != nil && (c.Pkg().Path() == "reflect" || c.Pkg().Path() == "unsafe") {
				usesReflect = true
			}
		}
	}
	if usesReflect {
		r.Undecided("R01b", "syntax.Printer#reflection", printFn.Pos(), "printer code uses reflect/unsafe: field reads are not visible to this rule")
	}
	uses := collectFieldUses(g, printerFns)
	readBy := map[*types.Var][]fieldUse{}
	for _, u := range uses {
		if !u.Write {
			readBy[u.Field] = append(readBy[u.Field], u)
		}
	}
	exceptions := map[string]string{
		"ArithmExp.Bracket": "documented cosmetic rewrite: $[ ] is printed as $(( ))",
		"ForClause.Braces":  "documented cosmetic rewrite: brace-style for loops are printed as do/done",
		"CaseClause.Braces": "mksh `case x {` is printed in the in/esac form (same family of rewrite as ForClause.Braces)",
		"File.Name":         "file name is metadata, not program text",
	}
	usedExc := map[string]bool{}
	var structs []*types.Named
	seenS := map[*types.Named]bool{}
	for _, n := range si.nodes {
		if !constructible[n] {
			continue
		}
		structs = append(structs, n)
		seenS[n] = true
	}
	// helper structs reachable from constructible nodes
	for i := 0; i < len(structs); i++ {
		for _, f := range si.fields(structs[i]) {
			if f.Kind == fkHelper && !seenS[f.Helper] {
				seenS[f.Helper] = true
				structs = append(structs, f.Helper)
			}
		}
	}
	for _, n := range structs {
		for _, f := range si.fields(n) {
			if f.Kind == fkPos || f.Kind == fkComments {
				continue
			}
			name := n.Obj().Name() + "." + f.Var.Name()
			key := "syntax." + name
			if rs := readBy[f.Var]; len(rs) > 0 {
				sort.Slice(rs, func(i, j int) bool { return rs[i].Pos < rs[j].Pos })
				r.OK("R01b", key, rs[0].Pos, "read in "+funcObjKey(rs[0].Fn))
				if _, isExc := exceptions[name]; isExc {
					r.Notef("R01b: exception %s is stale: the printer now reads the field", name)
				}
				continue
			}
			if why, ok := exceptions[name]; ok {
				usedExc[name] = true
				r.OK("R01b", key, f.Var.Pos(), "exception: "+why)
				r.Except("syntax."+name, why)
				continue
			}
			r.Bad("R01b", key, f.Var.Pos(), "no printer code reachable from Print reads this field: two trees differing only in it print identically, so Parse∘Print cannot preserve it")
		}
	}

	// ---- R01c
	checkPrintErrors(p, r, info, pkg.Types)
}

// printerSiblings pairs a printer switch with the parser switch that decides
// the same thing about the same words. The heredoc closing delimiter the
// printer writes (unquotedWord) must be the stop word the parser derived
// (unquotedWordPart): both look only at the part types they list, and the
// parser rejects every other part type in heredoc words at run time
// (ensureNoNested), which a who-may-construct argument cannot see. The
// mechanical part checked here: the two case sets are equal.
var printerSiblings = map[string]string{
	"Printer.unquotedWord": "Parser.unquotedWordPart",
}

func siblingAgrees(p *Prog, g *refGraph, info *types.Info, fo *types.Func, iface *types.Named, sc switchCases) string {
	sib, ok := printerSiblings["Printer."+fo.Name()]
	if !ok || typeName(fo.Type().(*types.Signature).Recv().Type()) != "Printer" {
		return ""
	}
	sfd := p.FuncDecl("syntax", sib)
	if sfd == nil || sfd.Body == nil {
		return ""
	}
	var sibSet []string
	found := false
	ast.Inspect(sfd.Body, func(n ast.Node) bool {
		ts, ok := n.(*ast.TypeSwitchStmt)
		if !ok || found {
			return true
		}
		if t := typeSwitchTag(info, ts); t != nil && namedOf(t) == iface {
			found = true
			for _, ct := range typeSwitchCases(info, ts).Types {
				if ct != nil {
					sibSet = append(sibSet, typeName(ct))
				}
			}
		}
		return true
	})
	if !found {
		return ""
	}
	var mine []string
	for _, ct := range sc.Types {
		if ct != nil {
			mine = append(mine, typeName(ct))
		}
	}
	sort.Strings(sibSet)
	sort.Strings(mine)
	if strings.Join(sibSet, ",") != strings.Join(mine, ",") {
		return ""
	}
	return "sibling agreement: same case set {" + strings.Join(mine, ",") + "} as " + sib + ", which derives the heredoc stop word from the same parts"
}

func checkPrintErrors(p *Prog, r *Result, info *types.Info, pkg *types.Package) {
	fd := p.FuncDecl("syntax", "Printer.Print")
	if fd == nil || fd.Body == nil {
		r.Fatalf("anchor (*Printer).Print declaration not found")
		return
	}
	g := NewFGraph(info, fd.Body, nil)
	var recv types.Object
	if fd.Recv != nil && len(fd.Recv.List[0].Names) == 1 {
		recv = info.Defs[fd.Recv.List[0].Names[0]]
	}
	kinds := map[string]int{}
	for _, b := range g.Blocks {
		for _, n := range b.Nodes {
			rs, ok := n.(*ast.ReturnStmt)
			if !ok || len(rs.Results) != 1 {
				continue
			}
			res := ast.Unparen(rs.Results[0])
			if isNilIdent(info, res) {
				continue
			}
			key := "syntax.(Printer).Print#return " + shortExpr(res)
			// (1) an `err` from a Flush() call tested != nil in the enclosing if
			if id, ok := res.(*ast.Ident); ok {
				if src := errSourceCall(info, fd.Body, info.Uses[id]); src != nil {
					if fn := calleeOf(info, src); fn != nil && fn.Name() == "Flush" {
						kinds["flush"]++
						r.OK("R01c", key, rs.Pos(), "error of a writer Flush()")
						continue
					}
				}
			}
			// (2) fmt.Errorf under a recognised condition
			if call, ok := res.(*ast.CallExpr); ok {
				if fn := calleeOf(info, call); fn != nil && fn.Pkg() != nil && fn.Pkg().Path() == "fmt" && fn.Name() == "Errorf" {
					// which condition guards it?
					if guardedByMinifySingleLine(info, g, b, recv) {
						kinds["refusal"]++
						r.OK("R01c", key, rs.Pos(), "the documented Minify+SingleLine refusal (guarded by p.minify && p.singleLine)")
						continue
					}
					if inDefaultOfRootSwitch(g, b) {
						kinds["unsupported"]++
						r.OK("R01c", key, rs.Pos(), "default arm of the root-node type switch (unsupported node type)")
						continue
					}
				}
			}
			r.Bad("R01c", key, rs.Pos(), "Print returns a non-nil error that is neither the Minify+SingleLine refusal, the unsupported-root default, nor a flush error: printing a parsed tree can fail")
		}
	}
	if kinds["refusal"] != 1 {
		r.Notef("R01c: %d Minify+SingleLine refusal returns found (documentation says one)", kinds["refusal"])
	}
}

// errSourceCall: the call whose result initialises obj in `if obj := call(); ...` or `obj := call()`.
func errSourceCall(info *types.Info, body ast.Node, obj types.Object) *ast.CallExpr {
	if obj == nil {
		return nil
	}
	var found *ast.CallExpr
	n := 0
	ast.Inspect(body, func(nd ast.Node) bool {
		as, ok := nd.(*ast.AssignStmt)
		if !ok {
			return true
		}
		for i, l := range as.Lhs {
			id, ok := ast.Unparen(l).(*ast.Ident)
			if !ok || (info.Defs[id] != obj && info.Uses[id] != obj) {
				continue
			}
			n++
			if len(as.Rhs) == len(as.Lhs) {
				found, _ = ast.Unparen(as.Rhs[i]).(*ast.CallExpr)
			} else if len(as.Rhs) == 1 {
				found, _ = ast.Unparen(as.Rhs[0]).(*ast.CallExpr)
			}
		}
		return true
	})
	if n != 1 {
		return nil
	}
	return found
}

// guardedByMinifySingleLine: block b is only reachable through true edges of
// conditions selecting the receiver's minify and singleLine fields.
func guardedByMinifySingleLine(info *types.Info, g *FGraph, b *FBlock, recv types.Object) bool {
	need := map[string]bool{"minify": false, "singleLine": false}
	cur := b
	for steps := 0; steps < 8; steps++ {
		if len(cur.Preds) != 1 {
			break
		}
		e := cur.Preds[0]
		if e.Cond != nil && e.Pol {
			if f := selectorField(info, e.Cond); f != nil {
				if se, ok := ast.Unparen(e.Cond).(*ast.SelectorExpr); ok {
					if id, ok := ast.Unparen(se.X).(*ast.Ident); ok && info.Uses[id] == recv {
						if _, ok := need[f.Name()]; ok {
							need[f.Name()] = true
						}
					}
				}
			}
		}
		cur = e.From
	}
	return need["minify"] && need["singleLine"]
}

func inDefaultOfRootSwitch(g *FGraph, b *FBlock) bool {
	cur := b
	for steps := 0; steps < 4; steps++ {
		if len(cur.Preds) != 1 {
			return false
		}
		e := cur.Preds[0]
		if e.Default && e.TSwitch != nil {
			return true
		}
		cur = e.From
	}
	return false
}

var c01Controls = []Control{
	{Name: "dash-heredoc-closer-indented-with-spaces", Rule: "R01n", WantKey: "flushHeredocs#indentation 1", File: "syntax/printer.go",
		Mutate: ctlReplaceAnywhere("\t\tif r.Op == DashHdoc && p.indentSpaces == 0 && !p.minify {", "\t\tif r.Op == DashHdoc && !p.minify {")},
	{Name: "early-redirects-stop-at-plain-heredocs-only", Rule: "R01m", WantKey: "printRedirsUntil#test", File: "syntax/printer.go",
		Mutate: ctlReplaceAnywhere("\t\tif r.Pos().After(pos) || r.Op == Hdoc || r.Op == DashHdoc {", "\t\tif r.Pos().After(pos) || r.Op == Hdoc {")},
	{Name: "slice-offset-increment-glued-to-the-colon", Rule: "R01l", WantKey: "arithmExprRecurse#a leading Dec", File: "syntax/printer.go",
		Mutate: ctlReplaceAnywhere("\t\t\t\tcase Plus, Minus, Inc, Dec:\n", "\t\t\t\tcase Plus, Minus:\n")},
	{Name: "process-substitution-flushes-outer-heredocs", Rule: "R01k", WantKey: "wordPart#statements of ProcSubst", File: "syntax/printer.go",
		Mutate: ctlReplaceAnywhere("\t\t// See the same in cmdSubst.\n\t\thdocs := p.pendingHdocs\n\t\tp.pendingHdocs = nil\n", "\t\thdocs := p.pendingHdocs[:0:0]\n")},
	{Name: "subshell-buries-pending-heredocs", Rule: "R01k", WantKey: "command#statements of Subshell", File: "syntax/parser.go",
		Mutate: ctlReplaceAnywhere("\t// such as in \"cat <<EOF | (\\nbody\\nEOF\\n tr a-z A-Z)\".\n\tp.buriedHdocs = old.buriedHdocs\n", "\t// such as in \"cat <<EOF | (\\nbody\\nEOF\\n tr a-z A-Z)\".\n")},
	{Name: "closing-parenthesis-keeps-the-inner-separator", Rule: "R01i", WantKey: "wordPart#nested statement list 1", File: "syntax/printer.go",
		Mutate: ctlReplaceAnywhere("\t// Any separator written within the parentheses, like the & in \"(foo &)\",\n\t// does not stand in for the one before what follows them.\n\tp.wroteSemi = false\n", "")},
	{Name: "here-documents-flushed-for-files-and-statements-only", Rule: "R01j", WantKey: "Print#after command", File: "syntax/printer.go",
		Mutate: ctlChain(ctlReplaceAnywhere("\tcase *Stmt:\n\t\tp.stmtList([]*Stmt{node}, nil)\n", "\tcase *Stmt:\n\t\tp.stmtList([]*Stmt{node}, nil)\n\t\tp.flushHeredocs()\n"),
			ctlReplaceAnywhere("\tp.flushHeredocs()\n\tp.flushComments()\n\n\t// flush the writers", "\tp.flushComments()\n\n\t// flush the writers"))},
	{Name: "separator-flag-left-set-after-esac", Rule: "R01i", WantKey: "command#store", File: "syntax/printer.go",
		Mutate: ctlReplaceAnywhere("\t// The separator before the reserved word, such as the & in \"{ foo & }\"\n\t// or the ;; in \"a) foo ;; esac\", is not the one before what follows it.\n\tp.wroteSemi = false\n", "")},
	{Name: "anonymous-function-not-a-paren-starter", Rule: "R01h", WantKey: "startsWithLparen#FuncDecl", File: "syntax/printer.go",
		Mutate: ctlReplaceAnywhere("\tcase *FuncDecl:\n\t\t// keep ( () for a zsh anonymous function like \"() { foo; }\"\n\t\treturn !node.RsrvWord && node.Name == nil && len(node.Names) == 0\n", "")},
	{Name: "space-inside-a-word", Rule: "R01g", WantKey: "wordParts#a ProcSubst that is not the first part", File: "syntax/printer.go",
		Mutate: ctlReplaceAnywhere("\t\tif _, ok := wp.(*ProcSubst); ok && i > 0 {\n", "\t\tif _, ok := wp.(*ProcSubst); ok && i < 0 {\n")},
	{Name: "compact-binary-glues-its-signs", Rule: "R01f", WantKey: "arithmExprRecurse#operator", File: "syntax/printer.go",
		Mutate: ctlReplaceAnywhere("\t\t\tif signsWouldJoin(expr.Op.String(), expr.Y) {\n\t\t\t\tp.space() // \"a - -b\" must not become \"a--b\"\n\t\t\t}\n", "")},
	{Name: "escape-only-tabs", Rule: "R01e", WantKey: "writeLit#escape decision", File: "syntax/printer.go",
		Mutate: ctlReplaceAnywhere(`const tabwriterSpecial = "\t\v\f"`, `const tabwriterSpecial = "\t"`)},
	{Name: "function-name-written-raw", Rule: "R01e", WantKey: "spacedString, which writes it raw", File: "syntax/printer.go",
		Mutate: ctlReplaceAnywhere("\tp.spacePad(pos)\n\tp.writeLit(s)\n", "\tp.spacePad(pos)\n\tp.w.WriteString(s)\n")},
	{Name: "pending-hdocs-truncated-under-alias", Rule: "R01d", WantKey: "flushHeredocs#p.pendingHdocs truncated", File: "syntax/printer.go",
		Mutate: ctlReplaceAnywhere("\t// heredocs of its own, which must not overwrite the ones being printed.\n\tp.pendingHdocs = nil\n", "\t// heredocs of its own, which must not overwrite the ones being printed.\n\tp.pendingHdocs = p.pendingHdocs[:0]\n")},
	{Name: "wordPart-drop-ExtGlob-case", Rule: "R01a", WantKey: "wordPart#switch WordPart/ExtGlob", File: "syntax/printer.go",
		Mutate: ctlReplace("Printer.wordPart", "case *ExtGlob:\n\t\tp.w.WriteString(wp.Op.String())\n\t\tp.writeLit(wp.Pattern.Value)\n\t\tp.w.WriteByte(')')", "", 0)},
	{Name: "arithm-drop-FlagsArithm-case", Rule: "R01a", WantKey: "arithmExprRecurse#switch ArithmExpr/FlagsArithm", File: "syntax/printer.go",
		Mutate: ctlReplace("Printer.arithmExprRecurse", "case *FlagsArithm:\n\t\tp.w.WriteByte('(')\n\t\tp.writeLit(expr.Flags.Value)\n\t\tp.w.WriteByte(')')\n\t\tif expr.X != nil {\n\t\t\tp.arithmExprRecurse(expr.X, compact, false)\n\t\t}", "", 0)},
	{Name: "forget-ArithmExp.Unsigned", Rule: "R01b", WantKey: "syntax.ArithmExp.Unsigned", File: "syntax/printer.go",
		Mutate: ctlReplace("Printer.wordPart", "if wp.Unsigned {\n\t\t\tp.w.WriteString(\"# \")\n\t\t}", "", 0)},
	{Name: "forget-SglQuoted.Dollar", Rule: "R01b", WantKey: "syntax.SglQuoted.Dollar", File: "syntax/printer.go",
		Mutate: ctlReplace("Printer.wordPart", "if wp.Dollar {\n\t\t\tp.w.WriteByte('$')\n\t\t}", "", 0)},
	{Name: "new-error-return", Rule: "R01c", WantKey: "Print#return", File: "syntax/printer.go",
		Mutate: ctlReplace("Printer.Print", "p.flushHeredocs()", "if p.keepPadding && p.minify {\n\t\treturn fmt.Errorf(\"unsupported\")\n\t}\n\tp.flushHeredocs()", 0)},
}
