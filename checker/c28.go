package main

import (
	"os"
	"fmt"
	"go/ast"
	"go/constant"
	"go/token"
	"go/types"
	"sort"
	"strings"

	"golang.org/x/tools/go/packages"
)

func init() {
	register(&Property{
		ID:  "C28",
		Run: runC28,
		Decided: "every explicit panic, unchecked type assertion and externally controlled index in interp, expand, pattern, internal and shell that is reachable from Runner.Run, New and Params is " +
			"discharged by a fact visible in the code: a type assertion without comma-ok is dominated by a test of the same value or backed by a checked construction invariant, beliefs about tree " +
			"shape are not accepted (R28a); a panicking default closes a switch that covers every value of its tag's type, a panic after a fallible call is dominated by the condition that makes the " +
			"call infallible, and configuration-time preconditions are an explicit table (R28b); an integer that comes from the program (Atoi, arithmetic, shell variables) reaches an index, slice " +
			"bound, make size or repeat count only under both a lower and an upper guard (R28c); an index taken from state that survives a builtin call is guarded against the length of what it " +
			"indexes in the same function (R28d).",
		NotDecided:  "general index, nil-map and nil-pointer safety; integer overflow; stack depth of recursive programs; user-supplied handlers.",
		Assumptions: []string{"pattern.Regexp returns a nil error only with an expression regexp/syntax accepts (property C17)", "the parser's own shape checks hold for the trees it returns, but are not relied upon: only tests in the interpreter discharge an assertion"},
		Controls:    c28Controls,
		Matrix:      true,
	})
}

var c28Pkgs = []string{"interp", "expand", "pattern", "internal", "shell"}

func runC28(p *Prog, r *Result) {
	r.Rule("R28a", "type assertions without comma-ok are dominated by a test of the same value, or backed by a checked construction invariant", 4)
	r.Rule("R28b", "explicit panics: exhaustive-switch defaults, infallible-call wrappers and an explicit table of configuration preconditions", 20)
	r.Rule("R28c", "integers from the program reach indexes, slice bounds, make sizes and repeat counts only under a lower and an upper guard", 6)
	r.Rule("R28e", "shifts by a signed, non-constant count and integer divisions by a non-constant divisor are dominated by the test that rules out the panicking value", 4)
	r.Rule("R28g", "interface- and function-typed Runner fields used by code reachable from option closures are initialised by New's literal (options run before the default fallbacks)", 1)
	r.Rule("R28j", "indexes at a constant position or constant offset on slices and strings in expand, pattern and interp are dominated by a test of that value's length, or are reasoned exceptions (the rule of C06 R06i)", 40)
	for _, rel := range []string{"expand", "pattern", "interp"} {
		if pk := p.Pkg(rel); pk != nil {
			checkConstIndexes(p, r, pk, rel, "R28j", c28IndexExceptions)
		}
	}
	r.Rule("R28k", "an integer from the program is known to be non-negative wherever it is passed to a helper that indexes with that parameter without testing it against zero (preconditions derived from the callee by a sign dataflow)", 3)
	checkIndexPreconditions(p, r, "R28k", []string{"interp", "expand", "internal", "pattern"})
	r.Rule("R28l", "a map taken from maps.Clone (nil for a nil map) is written only after a nil test or after it was replaced by a fresh map", 2)
	for _, rel := range []string{"interp", "expand"} {
		if pk := p.Pkg(rel); pk != nil {
			checkClonedMapWrites(p, r, pk, rel, "R28l")
		}
	}
	r.Rule("R28m", "inside a loop bounded by i < len(X), the loop variable indexes only X", 5)
	for _, rel := range []string{"interp", "expand", "pattern", "internal"} {
		if pk := p.Pkg(rel); pk != nil {
			checkLoopBoundMatchesIndexed(p, r, pk, rel, "R28m")
		}
	}
	r.Rule("R28n", "pattern.Regexp never writes the lexer's end-of-pattern sentinel into the regular expression that expand and interp hand to regexp.MustCompile", 6)
	checkPatternSentinelWrites(p, r, "R28n")
	r.Rule("R28o", "every call through a Runner handler field passes a context built by Runner.handlerCtx (HandlerCtx panics on any other)", 6)
	if ip := p.Pkg("interp"); ip != nil {
		checkHandlersGetHandlerCtx(p, r, ip, "interp", "R28o")
	}
	r.Rule("R28p", "a fixed-size table is indexed by a value that can exceed it only under a test that bounds the value from above", 0)
	{
		nArr := 0
		for _, rel := range []string{"interp", "expand", "pattern", "internal"} {
			if pk := p.Pkg(rel); pk != nil {
				nArr += checkArrayIndexFits(p, r, pk, rel, "R28p")
			}
		}
		r.Notef("R28p: %d array accesses by an index whose type exceeds the table", nArr)
	}
	r.Rule("R28q", "at run time the directory stack is only appended to, or popped under a test that it holds at least two entries: it always holds the current directory", 3)
	if ip := p.Pkg("interp"); ip != nil {
		checkDirStackNeverEmptied(p, r, ip, "R28q")
	}
	r.Rule("R28h", "a variable's List is replaced only together with its Indexes (a sparse array's index list must stay parallel to its values, or lookups index past it)", 4)
	r.Rule("R28d", "indexes taken from state that survives a call are guarded against the length of what they index", 2)

	g := buildRefGraph(p)
	var roots []*types.Func
	if ip := p.Pkg("interp"); ip != nil {
		for _, n := range []string{"Runner.Run", "New", "Params", "Runner.Reset", "Runner.Subshell", "Env", "Dir", "StdIO", "Interactive"} {
			if f := lookupFunc(ip, n); f != nil {
				roots = append(roots, f)
			}
		}
	}
	if sp := p.Pkg("shell"); sp != nil {
		for _, n := range []string{"Expand", "Fields"} {
			if f := lookupFunc(sp, n); f != nil {
				roots = append(roots, f)
			}
		}
	}
	if len(roots) < 3 {
		r.Fatalf("entry points Runner.Run / New / Params not found")
		return
	}
	reach := g.reachable(roots...)
	checkConfigTimeNil(p, r, g)
	r.Rule("R28i", "iterator literals in expand and interp never call yield after a point where it may have returned false without testing a stopped flag (shared with C06 R06j)", 2)
	for _, rel := range []string{"expand", "interp"} {
		if pk := p.Pkg(rel); pk != nil {
			checkIteratorProtocol(p, r, pk, rel, "R28i")
		}
	}
	for _, rel := range c28Pkgs {
		pkg := p.Pkg(rel)
		if pkg == nil {
			continue
		}
		for _, fd := range p.AllFuncDecls(rel) {
			fo, _ := pkg.TypesInfo.Defs[fd.Name].(*types.Func)
			if fo == nil || !reach[fo] {
				continue
			}
			checkAssertsC28(p, r, pkg, rel, fd)
			checkPanicsC28(p, r, g, pkg, rel, fd)
			checkTaintedInts(p, r, pkg, rel, fd)
			checkStateIndexes(p, r, pkg, rel, fd)
			checkShiftsAndDivisions(p, r, pkg, rel, fd)
			checkListIndexesPairing(p, r, pkg, rel, fd)
		}
	}
}

func relKey(rel string, fd *ast.FuncDecl) string { return funcKey(rel, fd) }

// ---------------------------------------------------------------- R28a

func checkAssertsC28(p *Prog, r *Result, pkg *packages.Package, rel string, fd *ast.FuncDecl) {
	info := pkg.TypesInfo
	safe := map[*ast.TypeAssertExpr]bool{}
	ast.Inspect(fd.Body, func(n ast.Node) bool {
		switch x := n.(type) {
		case *ast.AssignStmt:
			if len(x.Lhs) == 2 && len(x.Rhs) == 1 {
				if ta, ok := ast.Unparen(x.Rhs[0]).(*ast.TypeAssertExpr); ok {
					safe[ta] = true
				}
			}
		case *ast.ValueSpec:
			if len(x.Names) == 2 && len(x.Values) == 1 {
				if ta, ok := ast.Unparen(x.Values[0]).(*ast.TypeAssertExpr); ok {
					safe[ta] = true
				}
			}
		case *ast.TypeSwitchStmt:
			ast.Inspect(x.Assign, func(m ast.Node) bool {
				if ta, ok := m.(*ast.TypeAssertExpr); ok {
					safe[ta] = true
				}
				return true
			})
		}
		return true
	})
	var g *FGraph
	ast.Inspect(fd.Body, func(n ast.Node) bool {
		ta, ok := n.(*ast.TypeAssertExpr)
		if !ok || safe[ta] || ta.Type == nil {
			return true
		}
		key := fmt.Sprintf("%s#%s", relKey(rel, fd), exprString(ta))
		want := info.TypeOf(ta.Type)
		// (i) dominated by a successful comma-ok test / type-switch arm on the same expression
		if g == nil {
			g = NewFGraph(info, fd.Body, nil)
		}
		blk, _ := g.BlockOf(ta)
		subject := exprString(ta.X)
		dominated := blk != nil && underEdges(g, blk, func(e *FEdge) bool {
			if e.TypeCase && e.TSwitch != nil && e.Clause != nil {
				// switch v := X.(type) { case T: … }
				if as, ok := e.TSwitch.Assign.(*ast.ExprStmt); ok {
					if ta2, ok := as.X.(*ast.TypeAssertExpr); ok && exprString(ta2.X) == subject {
						for _, ce := range e.Clause.List {
							if types.Identical(info.TypeOf(ce), want) {
								return true
							}
						}
					}
				}
			}
			return false
		})
		if dominated {
			r.OK("R28a", key, ta.Pos(), "inside a type-switch arm on the same value")
			return true
		}
		// (i-b) past the true edge of a predicate that makes the very test: `ok := func(x T) bool { v, ok := x.(W); return ok && … }`
		if blk != nil && underEdges(g, blk, func(e *FEdge) bool {
			c, ok := ast.Unparen(e.Cond).(*ast.CallExpr)
			if !ok || !e.Pol || e.Tag != nil || len(c.Args) != 1 || exprString(c.Args[0]) != subject {
				return false
			}
			return predicateAsserts(info, fd, c, want)
		}) {
			r.OK("R28a", key, ta.Pos(), "past the true answer of a predicate whose every true return is conjoined with the comma-ok result of the same assertion on its parameter")
			return true
		}
		// (ii) construction invariant: o.parent.(WriteEnviron) under o.funcScope, decided by C27's R27c
		if fv := selectorField(info, ta.X); fv != nil && fv.Name() == "parent" && typeName(want) == "WriteEnviron" {
			sub := newResult(r.Prop, r.prog)
			checkOverlayDirection(p, sub)
			okAll := len(sub.Obls) > 0
			for _, o := range sub.Obls {
				if o.Status != stOK {
					okAll = false
				}
			}
			r.Check(okAll, "R28a", key, ta.Pos(), "construction invariant: only function-scope overlays reach this assertion and their parent is always the interpreter's own overlay (C27 R27c, re-checked here)",
				"the overlay-direction invariant that makes this assertion safe no longer holds (C27 R27c fails)")
			return true
		}
		// (iii) every place that stores this tree field (parser and interpreter) stores a value of the asserted type, or checks it
		if why, ok := shapeDischarge(p, fd, pkg, ta); ok {
			r.OK("R28a", key, ta.Pos(), why)
			return true
		} else if why != "" {
			r.Bad("R28a", key, ta.Pos(), "asserts the shape of a tree field that not every construction site guarantees: "+why)
			return true
		}
		what := "a value"
		if se, ok := ast.Unparen(ta.X).(*ast.SelectorExpr); ok {
			if nt := namedOf(info.TypeOf(se.X)); nt != nil && nt.Obj().Pkg() != nil && strings.HasSuffix(nt.Obj().Pkg().Path(), "/syntax") {
				what = "the tree field " + nt.Obj().Name() + "." + se.Sel.Name
			}
		}
		r.Bad("R28a", key, ta.Pos(), fmt.Sprintf("asserts that %s holds a %s without testing it: the only support is a belief about what the parser (or the test builtin's own parser) builds, and a tree of another shape panics the interpreter", what, want))
		return true
	})
}

// ---------------------------------------------------------------- R28b

// c28Preconditions: function -> reason. Configuration-time API preconditions and internal invariants, one line each.
var c28Preconditions = map[string]string{
	"interp.(Runner).Reset":   "documented API precondition: a Runner must come from interp.New; mixing ExecHandler with ExecHandlers is rejected at configuration time",
	"interp.HandlerCtx":       "documented API precondition for handler authors: the context must be the one the interpreter passed to the handler",
	"expand.(listEnviron).Each": "construction invariant: listEnviron_ drops every pair without an equal sign before the list is stored (C34 R34c checks that loop)",
	"interp.(tracer).expr":      "Printer.Print fails only for an unsupported root node type, for Minify with SingleLine, or when the writer fails; the tracer prints parser-built assignments, words and commands with a default printer into a bytes.Buffer (read)",
}

func checkPanicsC28(p *Prog, r *Result, g *refGraph, pkg *packages.Package, rel string, fd *ast.FuncDecl) {
	info := pkg.TypesInfo
	fk := relKey(rel, fd)
	var fgph *FGraph
	graph := func() *FGraph {
		if fgph == nil {
			fgph = NewFGraph(info, fd.Body, nil)
		}
		return fgph
	}
	n := 0
	var stack []ast.Node
	ast.Inspect(fd.Body, func(x ast.Node) bool {
		if x == nil {
			stack = stack[:len(stack)-1]
			return true
		}
		stack = append(stack, x)
		c, ok := x.(*ast.CallExpr)
		if !ok {
			return true
		}
		isPanic := isBuiltinCall(info, c, "panic")
		isMust := false
		if fn := calleeOf(info, c); fn != nil && fn.Pkg() != nil && fn.Pkg().Path() == "regexp" && fn.Name() == "MustCompile" {
			isMust = true
		}
		if !isPanic && !isMust {
			return true
		}
		n++
		key := fmt.Sprintf("%s#panic %d", fk, n)
		if isMust {
			key = fmt.Sprintf("%s#MustCompile %d", fk, n)
			if tv := info.Types[c.Args[0]]; tv.Value != nil {
				r.OK("R28b", key, c.Pos(), "constant regular expression (compiled at init; covered by the existing tests)")
				return true
			}
			// expr must come from pattern.Regexp with err == nil dominating
			if id, ok := ast.Unparen(c.Args[0]).(*ast.Ident); ok {
				if okR, why := fromPatternRegexpNoErr(info, fd, graph(), id, c); okR {
					r.OK("R28b", key, c.Pos(), why)
					return true
				}
			}
			r.Bad("R28b", key, c.Pos(), "regexp.MustCompile on an expression that is not the checked result of pattern.Regexp: a malformed expression panics")
			return true
		}
		// (1) default / fall-out of an exhaustive switch
		if why, ok, decided := exhaustiveSwitchPanic(p, info, g, fd, stack, c); decided {
			if !ok {
				if twhy, listed := c28Preconditions[fk]; listed {
					r.OK("R28b", key, c.Pos(), "exception: "+twhy)
					r.Except(fk, twhy)
					return true
				}
			}
			r.Check(ok, "R28b", key, c.Pos(), why, "the panicking default of a switch that does not cover its tag's type: "+why)
			return true
		}
		// (2) panic(err) after a fallible call
		if len(c.Args) == 1 {
			if id, ok := ast.Unparen(c.Args[0]).(*ast.Ident); ok && info.TypeOf(id) != nil && info.TypeOf(id).String() == "error" {
				if twhy, listed := c28Preconditions[fk]; listed {
					r.OK("R28b", key, c.Pos(), "exception: "+twhy)
					r.Except(fk, twhy)
					return true
				}
				src := errSourceCall(info, fd.Body, info.ObjectOf(id))
				name := "a call"
				if src != nil {
					name = exprString(src.Fun)
				}
				r.Bad("R28b", key, c.Pos(), fmt.Sprintf("panics with the error of %s: that call fails for inputs the program controls (e.g. a NUL byte or invalid UTF-8 in a value being quoted), and nothing before it rules them out", name))
				return true
			}
		}
		// (2b) the exit-status invariant behind Run's panic: err is only ever stored together with a non-zero code
		if fk == "interp.(Runner).Run" {
			why, ok := exitStatusInvariant(p, pkg)
			r.Check(ok, "R28b", key, c.Pos(), why, "Run panics when exitStatus.err is set while the code is zero, and the stores of that pair do not keep them in step: "+why)
			return true
		}
		// (3) preconditions verified at every call site
		if why, ok, decided := callSitePrecondition(p, g, info, fd); decided {
			r.Check(ok, "R28b", key, c.Pos(), why, "a precondition that panics when violated, and not every call site satisfies it: "+why)
			return true
		}
		// (4) preconditions table
		if why, ok := c28Preconditions[fk]; ok {
			r.OK("R28b", key, c.Pos(), "exception: "+why)
			r.Except(fk, why)
			return true
		}
		r.Bad("R28b", key, c.Pos(), "an explicit panic that no rule shows to be unreachable from Run: "+exprString(c))
		return true
	})
}

// fromPatternRegexpNoErr: `expr, err := pattern.Regexp(...)` (or a wrapper returning it) with the err != nil branch leaving before the use.
func fromPatternRegexpNoErr(info *types.Info, fd *ast.FuncDecl, g *FGraph, id *ast.Ident, use *ast.CallExpr) (bool, string) {
	obj := info.ObjectOf(id)
	var def *ast.AssignStmt
	ast.Inspect(fd.Body, func(n ast.Node) bool {
		as, ok := n.(*ast.AssignStmt)
		if !ok || len(as.Rhs) != 1 {
			return true
		}
		for _, l := range as.Lhs {
			if lid, ok := l.(*ast.Ident); ok && info.ObjectOf(lid) == obj {
				def = as
			}
		}
		return true
	})
	// later definitions may only wrap the expression in constant text: expr = "^(" + expr + ")"
	var defs []*ast.AssignStmt
	ast.Inspect(fd.Body, func(n ast.Node) bool {
		as, ok := n.(*ast.AssignStmt)
		if !ok || len(as.Rhs) != 1 {
			return true
		}
		for _, l := range as.Lhs {
			if lid, ok := l.(*ast.Ident); ok && info.ObjectOf(lid) == obj {
				defs = append(defs, as)
			}
		}
		return true
	})
	def = nil
	for _, d := range defs {
		if _, isCall := ast.Unparen(d.Rhs[0]).(*ast.CallExpr); isCall {
			if def != nil {
				return false, ""
			}
			def = d
			continue
		}
		okWrap := true
		var walk func(e ast.Expr)
		walk = func(e ast.Expr) {
			e = ast.Unparen(e)
			if be, ok := e.(*ast.BinaryExpr); ok && be.Op == token.ADD {
				walk(be.X)
				walk(be.Y)
				return
			}
			if tv := info.Types[e]; tv.Value != nil {
				return
			}
			if id, ok := e.(*ast.Ident); ok && info.ObjectOf(id) == obj {
				return
			}
			okWrap = false
		}
		walk(d.Rhs[0])
		if !okWrap {
			return false, ""
		}
	}
	if def == nil {
		return false, ""
	}
	call, ok := ast.Unparen(def.Rhs[0]).(*ast.CallExpr)
	if !ok {
		return false, ""
	}
	fn := calleeOf(info, call)
	if fn == nil || fn.Pkg() == nil || !strings.HasSuffix(fn.Pkg().Path(), "/pattern") || fn.Name() != "Regexp" {
		return false, ""
	}
	if len(def.Lhs) != 2 {
		return false, ""
	}
	errID, ok := def.Lhs[1].(*ast.Ident)
	if !ok || errID.Name == "_" {
		return false, ""
	}
	errObj := info.ObjectOf(errID)
	blk, _ := g.BlockOf(use)
	okDom := blk != nil && underEdges(g, blk, func(e *FEdge) bool {
		be, ok := e.Cond.(*ast.BinaryExpr)
		if !ok || !isNilIdent(info, be.Y) {
			return false
		}
		eid, ok := ast.Unparen(be.X).(*ast.Ident)
		if !ok || info.ObjectOf(eid) != errObj {
			return false
		}
		return (be.Op == token.NEQ && !e.Pol) || (be.Op == token.EQL && e.Pol)
	})
	if !okDom {
		return false, ""
	}
	return true, "compiles the result of pattern.Regexp under err == nil (assumption C17: that result always compiles)"
}

// exhaustiveSwitchPanic decides panics that sit in the default clause of a switch, or right after a switch whose clauses all return.
func exhaustiveSwitchPanic(p *Prog, info *types.Info, g *refGraph, fd *ast.FuncDecl, stack []ast.Node, c *ast.CallExpr) (why string, ok bool, decided bool) {
	// find the enclosing default clause, or the switch statement immediately preceding the panic statement
	var sw ast.Stmt
	for i := len(stack) - 1; i >= 0; i-- {
		if cc, isCC := stack[i].(*ast.CaseClause); isCC && cc.List == nil && i > 1 {
			if s, isSw := stack[i-2].(ast.Stmt); isSw {
				sw = s
			}
			break
		}
		if _, isFn := stack[i].(*ast.FuncLit); isFn {
			break
		}
	}
	if sw == nil {
		// statement list: panic right after a switch
		for i := len(stack) - 1; i >= 0; i-- {
			var list []ast.Stmt
			switch b := stack[i].(type) {
			case *ast.BlockStmt:
				list = b.List
			case *ast.CaseClause:
				list = b.Body
			default:
				continue
			}
			for j, s := range list {
				if es, isES := s.(*ast.ExprStmt); isES && es.X == ast.Expr(c) && j > 0 {
					switch list[j-1].(type) {
					case *ast.SwitchStmt, *ast.TypeSwitchStmt:
						sw = list[j-1]
					}
				}
			}
			break
		}
	}
	switch s := sw.(type) {
	case *ast.TypeSwitchStmt:
		tag := namedOf(typeSwitchTag(info, s))
		if tag == nil {
			return "type switch on a non-named tag", false, true
		}
		synPkg := p.Pkg("syntax")
		if tag.Obj().Pkg() != synPkg.Types {
			return "type switch on " + tag.Obj().Name() + " (not a syntax interface)", false, true
		}
		sc := typeSwitchCases(info, s)
		reach := parserReach(p, g)
		var missing []string
		n := 0
		for _, impl := range sealed(synPkg, tag.Obj().Name()) {
			n++
			name := impl.Obj().Name()
			if _, has := sc.Clauses[name]; has {
				continue
			}
			if cons := parserConstructible(g, reach, impl); len(cons) > 0 {
				missing = append(missing, name+" (built by "+cons[0]+")")
			}
		}
		if len(missing) > 0 {
			return fmt.Sprintf("%s values of type %s reach the default", tag.Obj().Name(), strings.Join(missing, ", ")), false, true
		}
		return fmt.Sprintf("default of a type switch covering every parser-constructible %s (%d implementors)", tag.Obj().Name(), n), true, true
	case *ast.SwitchStmt:
		if s.Tag == nil {
			return "", false, false
		}
		tt := namedOf(info.TypeOf(s.Tag))
		if tt == nil {
			// switch on a string etc.
			if why, ok, decided := switchOnStringSet(info, fd, s); decided {
				return why, ok, decided
			}
			return parserStringTable(p, info, fd, s)
		}
		// all constants of the tag's type
		consts := map[string]constant.Value{}
		scope := tt.Obj().Pkg().Scope()
		for _, nm := range scope.Names() {
			if cst, ok := scope.Lookup(nm).(*types.Const); ok && types.Identical(cst.Type(), tt) {
				consts[nm] = cst.Val()
			}
		}
		if len(consts) == 0 {
			return "switch on " + tt.Obj().Name() + ", which has no declared constants", false, true
		}
		handled := map[string]bool{}
		vals, _ := constCases(info, s)
		for _, v := range vals {
			handled[v.ExactString()] = true
		}
		// constants excluded before the call of this function: the callers' switch on the same-typed argument
		for _, v := range callerHandled(p, info, g, fd, s.Tag, tt) {
			handled[v.ExactString()] = true
		}
		// constants excluded earlier in this function (an `if x == C { return }`, or an earlier switch on the same tag whose clause returns)
		for _, v := range earlierHandled(info, fd, s, tt) {
			handled[v.ExactString()] = true
		}
		var missing []string
		for nm, v := range consts {
			if !handled[v.ExactString()] {
				missing = append(missing, nm)
			}
		}
		sort.Strings(missing)
		// values that no construction site of the node can put into this field never reach the switch
		if len(missing) > 0 {
			if poss, owner, okP := possibleOpsForTag(p, info, g, fd, s.Tag, tt); okP {
				var still []string
				for _, nm := range missing {
					if poss[consts[nm].ExactString()] {
						still = append(still, nm)
					}
				}
				if len(still) == 0 {
					return fmt.Sprintf("default of a switch covering every value of %s that a construction site of %s can store (%d of %d constants; not constructible: %s)", tt.Obj().Name(), owner, len(consts)-len(missing), len(consts), strings.Join(missing, ", ")), true, true
				}
				missing = still
			}
		}
		// pseudo-values that every environment store replaces before anything is kept (expand.KeepValue)
		if len(missing) > 0 {
			var still []string
			var gone []string
			for _, nm := range missing {
				if pseudoKindEliminated(p, consts[nm]) {
					gone = append(gone, nm)
				} else {
					still = append(still, nm)
				}
			}
			if len(still) == 0 {
				return fmt.Sprintf("default of a switch covering every value of %s a stored variable can have (%s is replaced by the previous kind in every WriteEnviron.Set of package interp before the variable is stored)", tt.Obj().Name(), strings.Join(gone, ", ")), true, true
			}
			missing = still
		}
		if len(missing) > 0 {
			if len(missing) > 6 {
				missing = append(missing[:6], "…")
			}
			return fmt.Sprintf("constants of %s with no case: %s", tt.Obj().Name(), strings.Join(missing, ", ")), false, true
		}
		return fmt.Sprintf("default of a switch covering all %d constants of %s (cases here plus values its callers handle first)", len(consts), tt.Obj().Name()), true, true
	}
	return "", false, false
}

// switchOnStringSet: `switch arg { case "a", "b": … default: panic }` where arg ranges over a set established by an enclosing switch/case list on the same variable.
func switchOnStringSet(info *types.Info, fd *ast.FuncDecl, s *ast.SwitchStmt) (string, bool, bool) {
	id, ok := ast.Unparen(s.Tag).(*ast.Ident)
	if !ok {
		return "", false, false
	}
	obj := info.ObjectOf(id)
	inner := map[string]bool{}
	vals, _ := constCases(info, s)
	for _, v := range vals {
		inner[v.ExactString()] = true
	}
	// enclosing case clause of a switch on the same variable
	var outer map[string]bool
	ast.Inspect(fd.Body, func(n ast.Node) bool {
		sw, ok := n.(*ast.SwitchStmt)
		if !ok || sw == s || sw.Tag == nil {
			return true
		}
		tid, ok := ast.Unparen(sw.Tag).(*ast.Ident)
		if !ok || info.ObjectOf(tid) != obj {
			return true
		}
		for _, c := range sw.Body.List {
			cc := c.(*ast.CaseClause)
			if cc.Pos() <= s.Pos() && s.End() <= cc.End() && cc.List != nil {
				outer = map[string]bool{}
				for _, e := range cc.List {
					if tv := info.Types[e]; tv.Value != nil {
						outer[tv.Value.ExactString()] = true
					}
				}
			}
		}
		return true
	})
	if outer == nil {
		return "", false, false // see parserStringTable
	}
	var missing []string
	for v := range outer {
		if !inner[v] {
			missing = append(missing, v)
		}
	}
	sort.Strings(missing)
	if len(missing) > 0 {
		return "values admitted by the enclosing case list but not handled: " + strings.Join(missing, ", "), false, true
	}
	return fmt.Sprintf("default of a switch covering all %d values the enclosing case list admits", len(outer)), true, true
}

// possibleOpsForTag: the switch tag is a parameter whose call sites pass X.Op for a node type N; returns the set of
// constant values any construction site of N can store in Op.
func possibleOpsForTag(p *Prog, info *types.Info, g *refGraph, fd *ast.FuncDecl, tag ast.Expr, tt *types.Named) (map[string]bool, string, bool) {
	id, ok := ast.Unparen(tag).(*ast.Ident)
	if !ok {
		return nil, "", false
	}
	obj := info.ObjectOf(id)
	pi, i := -1, 0
	for _, f := range fd.Type.Params.List {
		for _, nm := range f.Names {
			if info.Defs[nm] == obj {
				pi = i
			}
			i++
		}
	}
	fo, _ := info.Defs[fd.Name].(*types.Func)
	if pi < 0 || fo == nil {
		return nil, "", false
	}
	var owner *types.Named
	okAll := true
	for cfo, cfd := range g.decl {
		if cfd.Body == nil || g.pkgOf[cfo].TypesInfo != info {
			continue
		}
		ast.Inspect(cfd.Body, func(n ast.Node) bool {
			c, ok := n.(*ast.CallExpr)
			if !ok || calleeOf(info, c) != fo || pi >= len(c.Args) {
				return true
			}
			se, ok := ast.Unparen(c.Args[pi]).(*ast.SelectorExpr)
			if !ok || se.Sel.Name != "Op" {
				okAll = false
				return true
			}
			nt := namedOf(info.TypeOf(se.X))
			if nt == nil || (owner != nil && owner != nt) {
				okAll = false
				return true
			}
			owner = nt
			return true
		})
	}
	if !okAll || owner == nil {
		return nil, "", false
	}
	poss, ok := possibleOps(p, owner, tt)
	return poss, owner.Obj().Name(), ok
}

// possibleOps enumerates the constant values that construction sites (composite literals and stores to .Op) in
// syntax, interp and expand can give the Op field of node type owner. ok is false when some site is not understood.
func possibleOps(p *Prog, owner *types.Named, tt *types.Named) (map[string]bool, bool) {
	out := map[string]bool{}
	universe := map[string]bool{}
	scope := tt.Obj().Pkg().Scope()
	for _, nm := range scope.Names() {
		if cst, ok := scope.Lookup(nm).(*types.Const); ok && types.Identical(cst.Type(), tt) {
			universe[cst.Val().ExactString()] = true
		}
	}
	okAll := true
	for _, rel := range []string{"syntax", "interp", "expand"} {
		pkg := p.Pkg(rel)
		if pkg == nil {
			continue
		}
		info := pkg.TypesInfo
		sameOwner := func(t types.Type) bool {
			n := namedOf(t)
			return n != nil && n.Obj().Name() == owner.Obj().Name() && n.Obj().Pkg() == owner.Obj().Pkg()
		}
		for _, fd := range p.AllFuncDecls(rel) {
			valuesOf := func(e ast.Expr, pos token.Pos, depth int) bool {
				set, ok := opValuesAt(p, rel, fd, e, pos, universe)
				for v := range set {
					out[v] = true
				}
				return ok
			}
			ast.Inspect(fd.Body, func(n ast.Node) bool {
				switch x := n.(type) {
				case *ast.CompositeLit:
					if !sameOwner(info.TypeOf(x)) {
						return true
					}
					found := false
					for _, el := range x.Elts {
						if kv, ok := el.(*ast.KeyValueExpr); ok {
							if k, ok := kv.Key.(*ast.Ident); ok && k.Name == "Op" {
								found = true
								if !valuesOf(kv.Value, x.Pos(), 0) {
									okAll = false
								}
							}
						}
					}
					if !found {
						out["0"] = true
					}
				case *ast.AssignStmt:
					for i, l := range x.Lhs {
						se, ok := ast.Unparen(l).(*ast.SelectorExpr)
						if !ok || se.Sel.Name != "Op" || !sameOwner(info.TypeOf(se.X)) || i >= len(x.Rhs) {
							continue
						}
						if !valuesOf(x.Rhs[i], x.Pos(), 0) {
							okAll = false
						}
					}
				}
				return true
			})
		}
	}
	return out, okAll
}

// opValuesAt: the constant values expression e (used as an operator at pos inside fd) can take. ok is false when not understood.
func opValuesAt(p *Prog, rel string, fd *ast.FuncDecl, e0 ast.Expr, pos0 token.Pos, universe map[string]bool) (map[string]bool, bool) {
	pkg := p.Pkg(rel)
	info := pkg.TypesInfo
	out := map[string]bool{}
			var valuesOf func(e ast.Expr, pos token.Pos, depth int) bool
			clauseValues := func(tagMatch func(ast.Expr) bool, pos token.Pos) (found bool) {
				ast.Inspect(fd.Body, func(n ast.Node) bool {
					sw, ok := n.(*ast.SwitchStmt)
					if !ok || sw.Tag == nil || !tagMatch(sw.Tag) || found {
						return true
					}
					listed := map[string]bool{}
					for _, c := range sw.Body.List {
						for _, e := range c.(*ast.CaseClause).List {
							if tv := info.Types[e]; tv.Value != nil {
								listed[constant.ToInt(tv.Value).ExactString()] = true
							}
						}
					}
					for _, c := range sw.Body.List {
						cc := c.(*ast.CaseClause)
						if !(cc.Pos() <= pos && pos <= cc.End()) {
							continue
						}
						found = true
						if cc.List == nil {
							for v := range universe {
								if !listed[v] {
									out[v] = true
								}
							}
						} else {
							for _, e := range cc.List {
								if tv := info.Types[e]; tv.Value != nil {
									out[constant.ToInt(tv.Value).ExactString()] = true
								}
							}
						}
					}
					return true
				})
				return found
			}
			valuesOf = func(e ast.Expr, pos token.Pos, depth int) bool {
				e = ast.Unparen(e)
				if tv := info.Types[e]; tv.Value != nil {
					out[constant.ToInt(tv.Value).ExactString()] = true
					return true
				}
				if depth > 3 {
					return false
				}
				// conversion T(x)
				if c, ok := e.(*ast.CallExpr); ok && len(c.Args) == 1 {
					if tv, ok := info.Types[c.Fun]; ok && tv.IsType() {
						return valuesOf(c.Args[0], pos, depth+1)
					}
				}
				text := exprString(e)
				// inside a case clause of a switch on the same expression (or on a conversion of it)
				if clauseValues(func(tag ast.Expr) bool {
					t := exprString(stripConv(info, tag))
					return t == text || exprString(tag) == text
				}, pos) {
					return true
				}
				// established by an early return: if T(x) != C || … { return … }
				{
					found := false
					ast.Inspect(fd.Body, func(n ast.Node) bool {
						is, ok := n.(*ast.IfStmt)
						if !ok || is.End() > pos || len(is.Body.List) == 0 {
							return true
						}
						if _, isRet := is.Body.List[len(is.Body.List)-1].(*ast.ReturnStmt); !isRet {
							return true
						}
						for _, d := range disjuncts(is.Cond) {
							be, ok := ast.Unparen(d).(*ast.BinaryExpr)
							if !ok || be.Op != token.NEQ {
								continue
							}
							if t := exprString(stripConv(info, be.X)); t != text && exprString(be.X) != text {
								continue
							}
							if tv := info.Types[be.Y]; tv.Value != nil {
								out[constant.ToInt(tv.Value).ExactString()] = true
								found = true
							}
						}
						return true
					})
					if found {
						return true
					}
				}
				if id, ok := e.(*ast.Ident); ok {
					obj := info.ObjectOf(id)
					// single definition: follow it (tok := p.tok; op := testUnaryOp(p.val))
					if def := singleDef(info, fd, obj); def != nil {
						if _, isCall := ast.Unparen(def).(*ast.CallExpr); !isCall || func() bool {
							c := ast.Unparen(def).(*ast.CallExpr)
							tv, ok := info.Types[c.Fun]
							return ok && tv.IsType()
						}() {
							return valuesOf(def, pos, depth+1)
						}
					}
					// loop variable over a variadic parameter: the constants of all call sites
					var rng *ast.RangeStmt
					ast.Inspect(fd.Body, func(m ast.Node) bool {
						if rs, ok := m.(*ast.RangeStmt); ok && rs.Value != nil {
							if vid, ok := rs.Value.(*ast.Ident); ok && info.ObjectOf(vid) == obj {
								rng = rs
							}
						}
						return true
					})
					ast.Inspect(fd.Body, func(n ast.Node) bool {
						if as, ok := n.(*ast.AssignStmt); ok {
							for i, l := range as.Lhs {
								if lid, ok := l.(*ast.Ident); ok && info.ObjectOf(lid) == obj && i < len(as.Rhs) {
									if rid, ok := ast.Unparen(as.Rhs[i]).(*ast.Ident); ok {
										ast.Inspect(fd.Body, func(m ast.Node) bool {
											if rs, ok := m.(*ast.RangeStmt); ok && rs.Value != nil {
												if vid, ok := rs.Value.(*ast.Ident); ok && info.ObjectOf(vid) == info.ObjectOf(rid) {
													rng = rs
												}
											}
											return true
										})
									}
								}
							}
						}
						return true
					})
					if rng != nil {
						if pid, ok := ast.Unparen(rng.X).(*ast.Ident); ok {
							pobj := info.ObjectOf(pid)
							pi, i := -1, 0
							for _, f := range fd.Type.Params.List {
								for _, nm := range f.Names {
									if info.Defs[nm] == pobj {
										pi = i
									}
									i++
								}
							}
							fo, _ := info.Defs[fd.Name].(*types.Func)
							if pi >= 0 && fo != nil {
								okArgs := true
								for _, cfd := range p.AllFuncDecls(rel) {
									ast.Inspect(cfd.Body, func(n ast.Node) bool {
										c, ok := n.(*ast.CallExpr)
										if !ok || calleeOf(info, c) != fo {
											return true
										}
										for _, a := range c.Args[min(pi, len(c.Args)):] {
											if tv := info.Types[a]; tv.Value != nil {
												out[constant.ToInt(tv.Value).ExactString()] = true
											} else {
												okArgs = false
											}
										}
										return true
									})
								}
								return okArgs
							}
						}
					}
				}
				return false
			}
	ok := valuesOf(e0, pos0, 0)
	return out, ok
}

// exitStatusInvariant: every store of a possibly non-nil value into exitStatus.err is followed, on every path to the
// function exit, by making the code non-zero (a non-zero constant, `if code == 0 { code = K }`, or a value tested
// to be non-zero), and every store of zero into code shares its block with err = nil.
func exitStatusInvariant(p *Prog, pkg *packages.Package) (string, bool) {
	info := pkg.TypesInfo
	est := lookupType(pkg, "exitStatus")
	if est == nil {
		return "type exitStatus not found", false
	}
	var errF, codeF *types.Var
	st := est.Underlying().(*types.Struct)
	for i := 0; i < st.NumFields(); i++ {
		switch st.Field(i).Name() {
		case "err":
			errF = st.Field(i)
		case "code":
			codeF = st.Field(i)
		}
	}
	if errF == nil || codeF == nil {
		return "exitStatus has no err/code fields", false
	}
	nErr := 0
	for _, fd := range p.AllFuncDecls("interp") {
		var g *FGraph
		var bad string
		ast.Inspect(fd.Body, func(n ast.Node) bool {
			as, ok := n.(*ast.AssignStmt)
			if !ok {
				return true
			}
			for i, l := range as.Lhs {
				fv := selectorField(info, l)
				if i >= len(as.Rhs) {
					continue
				}
				switch fv {
				case errF:
					if isNilIdent(info, as.Rhs[i]) {
						continue
					}
					nErr++
					if g == nil {
						g = NewFGraph(info, fd.Body, nil)
					}
					blk, idx := g.BlockOf(as)
					if blk == nil {
						bad = "store not found in the flow graph of " + fd.Name.Name
						continue
					}
					makesNonZero := func(k ast.Node) bool {
						switch x := k.(type) {
						case *ast.AssignStmt:
							for j, l2 := range x.Lhs {
								if selectorField(info, l2) != codeF || j >= len(x.Rhs) {
									continue
								}
								if tv := info.Types[x.Rhs[j]]; tv.Value != nil {
									return tv.Value.String() != "0"
								}
								// code = uint8(v) with v tested non-zero on the way
								src := stripConv(info, x.Rhs[j])
								if id, ok := src.(*ast.Ident); ok {
									o := info.ObjectOf(id)
									b2, _ := g.BlockOf(x)
									return b2 != nil && underEdges(g, b2, func(e *FEdge) bool {
										be, ok := e.Cond.(*ast.BinaryExpr)
										if !ok || exprString(be.Y) != "0" {
											return false
										}
										bid, ok := ast.Unparen(be.X).(*ast.Ident)
										if !ok || info.ObjectOf(bid) != o {
											return false
										}
										return (be.Op == token.NEQ && e.Pol) || (be.Op == token.EQL && !e.Pol)
									})
								}
							}
						}
						return false
					}
					// `if e.code == 0 { e.code = K }`: the false edge of code == 0 also establishes non-zero
					ok2, _ := g.MustPass(blk, idx, g.Exit, makesNonZero, func(e *FEdge) bool {
						be, ok := e.Cond.(*ast.BinaryExpr)
						return ok && be.Op == token.EQL && selectorField(info, be.X) == codeF && exprString(be.Y) == "0" && !e.Pol
					})
					if !ok2 {
						// the store may also sit *after* the code was made non-zero in the same block
						for _, k := range blk.Nodes[:idx] {
							if makesNonZero(k) {
								ok2 = true
							}
						}
					}
					if !ok2 {
						bad = fmt.Sprintf("%s stores exitStatus.err at %s and some path leaves with a code that may be zero", fd.Name.Name, p.Position(as.Pos()))
					}
				case codeF:
					if tv := info.Types[as.Rhs[i]]; tv.Value != nil && tv.Value.String() == "0" {
						// must clear err in the same statement list
						cleared := false
						ast.Inspect(fd.Body, func(m ast.Node) bool {
							if a2, ok := m.(*ast.AssignStmt); ok {
								for j, l2 := range a2.Lhs {
									if selectorField(info, l2) == errF && j < len(a2.Rhs) && isNilIdent(info, a2.Rhs[j]) {
										cleared = true
									}
								}
							}
							return true
						})
						if !cleared {
							bad = fmt.Sprintf("%s zeroes exitStatus.code at %s without clearing err", fd.Name.Name, p.Position(as.Pos()))
						}
					}
				}
			}
			return true
		})
		if bad != "" {
			return bad, false
		}
		if why := codeOverwriteKeepsErr(p, info, fd, est, errF, codeF); why != "" {
			return why, false
		}
	}
	if nErr == 0 {
		return "no store of exitStatus.err found", false
	}
	return fmt.Sprintf("exit-status invariant: each of the %d stores of a non-nil exitStatus.err is followed on every path by a non-zero code, and code is only zeroed together with err", nErr), true
}

// parserStringTable: a string switch with a panicking default nested in `case syntax.K:`; the parser validates the same
// string in a switch nested in `if … == K`. The parser's accepted set must be a subset of the cases here.
func parserStringTable(p *Prog, info *types.Info, fd *ast.FuncDecl, s *ast.SwitchStmt) (string, bool, bool) {
	// the enclosing `case syntax.K:` clause
	var kObj types.Object
	ast.Inspect(fd.Body, func(n ast.Node) bool {
		cc, ok := n.(*ast.CaseClause)
		if !ok || !(cc.Pos() <= s.Pos() && s.End() <= cc.End()) || len(cc.List) != 1 {
			return true
		}
		if se, ok := ast.Unparen(cc.List[0]).(*ast.SelectorExpr); ok {
			if c, ok := info.ObjectOf(se.Sel).(*types.Const); ok && c.Pkg() != nil && strings.HasSuffix(c.Pkg().Path(), "/syntax") {
				kObj = c
			}
		}
		return true
	})
	if kObj == nil {
		return "switch on a string with a panicking default and nothing bounding its values", false, true
	}
	syn := p.Pkg("syntax")
	sinfo := syn.TypesInfo
	var parserSet map[string]bool
	wholeWord := false
	for _, pfd := range p.AllFuncDecls("syntax") {
		ast.Inspect(pfd.Body, func(n ast.Node) bool {
			is, ok := n.(*ast.IfStmt)
			if !ok {
				return true
			}
			be, ok := ast.Unparen(is.Cond).(*ast.BinaryExpr)
			if !ok || be.Op != token.EQL {
				return true
			}
			id, ok := ast.Unparen(be.Y).(*ast.Ident)
			if !ok || sinfo.ObjectOf(id) != kObj {
				return true
			}
			for _, st := range is.Body.List {
				sw, ok := st.(*ast.SwitchStmt)
				if !ok || sw.Tag == nil {
					continue
				}
				// its default must report an error
				hasErrDefault := false
				set := map[string]bool{}
				for _, c := range sw.Body.List {
					cc := c.(*ast.CaseClause)
					if cc.List == nil {
						hasErrDefault = len(cc.Body) > 0
						continue
					}
					for _, e := range cc.List {
						if tv := sinfo.Types[e]; tv.Value != nil && tv.Value.Kind() == constant.String {
							set[constant.StringVal(tv.Value)] = true
						}
					}
				}
				if hasErrDefault && len(set) > 0 {
					parserSet = set
					wholeWord = wholeWordChecked(sinfo, pfd, kObj)
				}
			}
			return true
		})
	}
	if parserSet == nil {
		return "no validation switch for " + kObj.Name() + " found in the parser", false, true
	}
	if !wholeWord {
		return "the parser's validation switch looks at the token in hand only; nothing in that function refuses a word with further parts (no `w.Lit() == \"\"` test under " + kObj.Name() + " that reports an error), so the expanded word can be any string", false, true
	}
	here := map[string]bool{}
	vals, _ := constCases(info, s)
	for _, v := range vals {
		if v.Kind() == constant.String {
			here[constant.StringVal(v)] = true
		}
	}
	var missing []string
	for v := range parserSet {
		if !here[v] {
			missing = append(missing, v)
		}
	}
	sort.Strings(missing)
	if len(missing) > 0 {
		return fmt.Sprintf("the parser accepts %q after %s but this switch has no case for them", missing, kObj.Name()), false, true
	}
	return fmt.Sprintf("default of a switch covering all %d strings the parser accepts after %s (its own validation switch errors on the rest)", len(parserSet), kObj.Name()), true, true
}

// callSitePrecondition decides the panics of two internal helpers whose precondition is about an argument:
// a function-typed parameter that must not be nil, and a pattern mode that must contain one bit whenever it contains another.
func callSitePrecondition(p *Prog, g *refGraph, info *types.Info, fd *ast.FuncDecl) (string, bool, bool) {
	fo, _ := info.Defs[fd.Name].(*types.Func)
	if fo == nil || len(fd.Body.List) == 0 {
		return "", false, false
	}
	is, ok := fd.Body.List[0].(*ast.IfStmt)
	if !ok || len(is.Body.List) != 1 {
		return "", false, false
	}
	if es, ok := is.Body.List[0].(*ast.ExprStmt); !ok {
		return "", false, false
	} else if c, ok := es.X.(*ast.CallExpr); !ok || !isBuiltinCall(info, c, "panic") {
		return "", false, false
	}
	params := map[types.Object]int{}
	i := 0
	for _, f := range fd.Type.Params.List {
		for _, nm := range f.Names {
			params[info.Defs[nm]] = i
			i++
		}
	}
	type site struct {
		info *types.Info
		call *ast.CallExpr
		fd   *ast.FuncDecl
	}
	var sites []site
	for cfo, cfd := range g.decl {
		if cfd.Body == nil {
			continue
		}
		ci := g.pkgOf[cfo].TypesInfo
		ast.Inspect(cfd.Body, func(n ast.Node) bool {
			if c, ok := n.(*ast.CallExpr); ok && calleeOf(ci, c) == fo {
				sites = append(sites, site{ci, c, cfd})
			}
			return true
		})
	}
	if len(sites) == 0 {
		return "", false, false
	}
	// form 1: if param == nil { panic }
	if be, ok := ast.Unparen(is.Cond).(*ast.BinaryExpr); ok && be.Op == token.EQL && isNilIdent(info, be.Y) {
		if id, ok := ast.Unparen(be.X).(*ast.Ident); ok {
			if pi, ok := params[info.ObjectOf(id)]; ok {
				for _, s := range sites {
					aid, ok := ast.Unparen(s.call.Args[pi]).(*ast.Ident)
					if !ok {
						return "a caller in " + s.fd.Name.Name + " passes " + exprString(s.call.Args[pi]), false, true
					}
					if _, isFn := s.info.ObjectOf(aid).(*types.Func); !isFn {
						return "a caller in " + s.fd.Name.Name + " passes the variable " + aid.Name, false, true
					}
				}
				return fmt.Sprintf("precondition `%s != nil`: all %d call sites pass a declared function", id.Name, len(sites)), true, true
			}
		}
	}
	// form 2: if mode&A != 0 && mode&B == 0 { panic }  — every call site's mode contains B (constant, or built from a constant containing B by |= only)
	cj := conjuncts(is.Cond)
	if len(cj) == 2 {
		bitOf := func(e ast.Expr, op token.Token) (types.Object, constant.Value) {
			be, ok := ast.Unparen(e).(*ast.BinaryExpr)
			if !ok || be.Op != op || exprString(be.Y) != "0" {
				return nil, nil
			}
			and, ok := ast.Unparen(be.X).(*ast.BinaryExpr)
			if !ok || and.Op != token.AND {
				return nil, nil
			}
			id, ok := ast.Unparen(and.X).(*ast.Ident)
			if !ok {
				return nil, nil
			}
			return info.ObjectOf(id), info.Types[and.Y].Value
		}
		pa, _ := bitOf(cj[0], token.NEQ)
		pb, needBit := bitOf(cj[1], token.EQL)
		if pa != nil && pa == pb && needBit != nil {
			pi := params[pa]
			for _, s := range sites {
				arg := s.call.Args[pi]
				val := s.info.Types[arg].Value
				if val == nil {
					if id, ok := ast.Unparen(arg).(*ast.Ident); ok {
						// single := definition with a constant, other assignments only |=
						var init constant.Value
						okDefs := true
						ast.Inspect(s.fd.Body, func(n ast.Node) bool {
							as, ok := n.(*ast.AssignStmt)
							if !ok {
								return true
							}
							for k, l := range as.Lhs {
								lid, ok := l.(*ast.Ident)
								if !ok || s.info.ObjectOf(lid) != s.info.ObjectOf(id) {
									continue
								}
								switch as.Tok {
								case token.DEFINE, token.ASSIGN:
									if k < len(as.Rhs) && s.info.Types[as.Rhs[k]].Value != nil && init == nil {
										init = s.info.Types[as.Rhs[k]].Value
									} else {
										okDefs = false
									}
								case token.OR_ASSIGN:
								default:
									okDefs = false
								}
							}
							return true
						})
						if okDefs {
							val = init
						}
					}
				}
				if val == nil {
					return "the mode passed in " + s.fd.Name.Name + " is not built from a constant by |= only", false, true
				}
				if and := constant.BinaryOp(constant.ToInt(val), token.AND, constant.ToInt(needBit)); constant.Sign(and) == 0 {
					return "the mode passed in " + s.fd.Name.Name + " lacks the required bit", false, true
				}
			}
			return fmt.Sprintf("precondition on the mode argument: all %d call sites start from a constant containing the required bit and only add bits", len(sites)), true, true
		}
	}
	return "", false, false
}

// shapeDischarge: an assertion N.F.(*T), possibly under `case K…` on N.Op, is safe when every store into F of an N whose Op
// may be one of those K stores a value of static type *T, or is followed in its function by a test of that field's type that errors.
func shapeDischarge(p *Prog, fd *ast.FuncDecl, pkg *packages.Package, ta *ast.TypeAssertExpr) (string, bool) {
	info := pkg.TypesInfo
	se, ok := ast.Unparen(ta.X).(*ast.SelectorExpr)
	if !ok {
		return "", false
	}
	fv := selectorField(info, se)
	nt := namedOf(info.TypeOf(se.X))
	if fv == nil || nt == nil || nt.Obj().Pkg() == nil || !strings.HasSuffix(nt.Obj().Pkg().Path(), "/syntax") {
		return "", false
	}
	want := info.TypeOf(ta.Type)
	holder := exprString(se.X)
	// the Op values under which the assertion runs
	var ops map[string]bool // nil = any
	ast.Inspect(fd.Body, func(n ast.Node) bool {
		sw, ok := n.(*ast.SwitchStmt)
		if !ok || sw.Tag == nil || exprString(sw.Tag) != holder+".Op" {
			return true
		}
		for _, c := range sw.Body.List {
			cc := c.(*ast.CaseClause)
			if cc.Pos() <= ta.Pos() && ta.End() <= cc.End() && cc.List != nil {
				ops = map[string]bool{}
				for _, e := range cc.List {
					if tv := info.Types[e]; tv.Value != nil {
						ops[tv.Value.ExactString()] = true
					}
				}
			}
		}
		return true
	})
	nStores, simplifierStores := 0, 0
	for _, rel := range []string{"syntax", "interp", "expand"} {
		spkg := p.Pkg(rel)
		if spkg == nil {
			continue
		}
		sinfo := spkg.TypesInfo
		for _, sfd := range p.AllFuncDecls(rel) {
			if strings.HasSuffix(p.Fset.Position(sfd.Pos()).Filename, "_test.go") {
				continue
			}
			// does the function test the field's type and error out?
			hasCheck := false
			ast.Inspect(sfd.Body, func(n ast.Node) bool {
				is, ok := n.(*ast.IfStmt)
				if !ok || is.Init == nil {
					return true
				}
				as, ok := is.Init.(*ast.AssignStmt)
				if !ok || len(as.Rhs) != 1 {
					return true
				}
				ta2, ok := ast.Unparen(as.Rhs[0]).(*ast.TypeAssertExpr)
				if !ok || ta2.Type == nil || !types.Identical(sinfo.TypeOf(ta2.Type), want) {
					return true
				}
				if s2, ok := ast.Unparen(ta2.X).(*ast.SelectorExpr); ok && selectorField(sinfo, s2) != nil && selectorField(sinfo, s2).Name() == fv.Name() && namedOf(sinfo.TypeOf(s2.X)) != nil && namedOf(sinfo.TypeOf(s2.X)).Obj().Name() == nt.Obj().Name() {
					if ue, ok := ast.Unparen(is.Cond).(*ast.UnaryExpr); ok && ue.Op == token.NOT && len(is.Body.List) > 0 {
						hasCheck = true
					}
				}
				return true
			})
			var bad string
			opOfClause := func(pos token.Pos, holderName string) (map[string]bool, bool) {
				// store inside `switch holder.Op { case … }`
				var set map[string]bool
				isDefault := false
				var listed map[string]bool
				ast.Inspect(sfd.Body, func(n ast.Node) bool {
					sw, ok := n.(*ast.SwitchStmt)
					if !ok || sw.Tag == nil || exprString(sw.Tag) != holderName+".Op" {
						return true
					}
					listed = map[string]bool{}
					for _, c := range sw.Body.List {
						cc := c.(*ast.CaseClause)
						for _, e := range cc.List {
							if tv := sinfo.Types[e]; tv.Value != nil {
								listed[tv.Value.ExactString()] = true
							}
						}
					}
					for _, c := range sw.Body.List {
						cc := c.(*ast.CaseClause)
						if cc.Pos() <= pos && pos <= cc.End() {
							if cc.List == nil {
								isDefault = true
							} else {
								set = map[string]bool{}
								for _, e := range cc.List {
									if tv := sinfo.Types[e]; tv.Value != nil {
										set[tv.Value.ExactString()] = true
									}
								}
							}
						}
					}
					return true
				})
				if isDefault {
					// complement of the listed values: relevant iff some asserted op is not listed
					if ops == nil {
						return nil, true
					}
					for o := range ops {
						if !listed[o] {
							return nil, true
						}
					}
					return nil, false
				}
				if set == nil {
					return nil, true
				}
				if ops == nil {
					return set, true
				}
				for o := range set {
					if ops[o] {
						return set, true
					}
				}
				return set, false
			}
			check := func(val ast.Expr, pos token.Pos, holderName string, litOp constant.Value) {
				relevant := true
				if litOp != nil && ops != nil {
					relevant = ops[litOp.ExactString()]
				} else if litOp == nil {
					_, relevant = opOfClause(pos, holderName)
				}
				if !relevant {
					return
				}
				nStores++
				if types.Identical(sinfo.TypeOf(val), want) || hasCheck {
					return
				}
				// a nested literal of the wanted type
				if ue, ok := ast.Unparen(val).(*ast.UnaryExpr); ok && ue.Op == token.AND {
					if types.Identical(sinfo.TypeOf(ue), want) {
						return
					}
				}
				bad = fmt.Sprintf("%s stores %s (a %s) into %s.%s at %s without testing that it is a %s", funcKey(rel, sfd), exprString(val), sinfo.TypeOf(val), nt.Obj().Name(), fv.Name(), p.Position(pos), want)
			}
			ast.Inspect(sfd.Body, func(n ast.Node) bool {
				switch x := n.(type) {
				case *ast.CompositeLit:
					if namedOf(sinfo.TypeOf(x)) == nil || namedOf(sinfo.TypeOf(x)).Obj().Name() != nt.Obj().Name() || namedOf(sinfo.TypeOf(x)).Obj().Pkg() != nt.Obj().Pkg() {
						return true
					}
					var litOp constant.Value
					var val, opExpr ast.Expr
					for _, el := range x.Elts {
						kv, ok := el.(*ast.KeyValueExpr)
						if !ok {
							continue
						}
						k, _ := kv.Key.(*ast.Ident)
						if k == nil {
							continue
						}
						if k.Name == "Op" {
							litOp = sinfo.Types[kv.Value].Value
							opExpr = kv.Value
						}
						if k.Name == fv.Name() {
							val = kv.Value
						}
					}
					if val != nil {
						if litOp == nil && opExpr != nil && ops != nil {
							// a computed operator: the values it can take at this site
							if set, okSet := opValuesAt(p, rel, sfd, opExpr, x.Pos(), nil); okSet {
								meets := false
								for v := range set {
									if ops[v] {
										meets = true
									}
								}
								if !meets {
									return true
								}
							}
						}
						// the variable the literal is bound to, for a later switch on its Op
						check(val, x.Pos(), "b", litOp)
					}
				case *ast.AssignStmt:
					for i, l := range x.Lhs {
						s2, ok := ast.Unparen(l).(*ast.SelectorExpr)
						if !ok || i >= len(x.Rhs) {
							continue
						}
						f2 := selectorField(sinfo, s2)
						if f2 == nil || f2.Name() != fv.Name() {
							continue
						}
						if n2 := namedOf(sinfo.TypeOf(s2.X)); n2 == nil || n2.Obj().Name() != nt.Obj().Name() || n2.Obj().Pkg() != nt.Obj().Pkg() {
							continue
						}
						// node.F = s.rewrite(node.F) in the simplifier: the rewrites hand a word back unchanged (they only
						// act on unary, binary and parenthesised tests); what Simplify may change is C04's subject
						if recvTypeName(sfd) == "simplifier" {
							if c, ok := ast.Unparen(x.Rhs[i]).(*ast.CallExpr); ok && len(c.Args) == 1 && exprString(c.Args[0]) == exprString(l) {
								simplifierStores++
								continue
							}
						}
						check(x.Rhs[i], x.Pos(), exprString(s2.X), nil)
					}
				}
				return true
			})
			if bad != "" {
				return bad, false
			}
		}
	}
	if nStores == 0 {
		return "", false
	}
	note := ""
	if simplifierStores > 0 {
		note = fmt.Sprintf("; %d identity rewrites of the field in the simplifier are not analysed (they return words unchanged)", simplifierStores)
	}
	return fmt.Sprintf("every store into %s.%s that can meet this assertion (%d sites in the parser and the interpreter) stores a %s or is followed by a test of it that reports an error%s", nt.Obj().Name(), fv.Name(), nStores, want, note), true
}

// callerHandled: when the switch tag is a parameter, constants that every caller handles (and returns on) in a switch on the argument before calling.
func callerHandled(p *Prog, info *types.Info, g *refGraph, fd *ast.FuncDecl, tag ast.Expr, tt *types.Named) []constant.Value {
	id, ok := ast.Unparen(tag).(*ast.Ident)
	if !ok {
		return nil
	}
	obj := info.ObjectOf(id)
	pi, i := -1, 0
	for _, f := range fd.Type.Params.List {
		for _, nm := range f.Names {
			if info.Defs[nm] == obj {
				pi = i
			}
			i++
		}
	}
	fo, _ := info.Defs[fd.Name].(*types.Func)
	if pi < 0 || fo == nil {
		return nil
	}
	var common map[string]constant.Value
	calls := 0
	for cfo, cfd := range g.decl {
		if cfd.Body == nil || g.pkgOf[cfo].TypesInfo != info {
			continue
		}
		ast.Inspect(cfd.Body, func(n ast.Node) bool {
			c, ok := n.(*ast.CallExpr)
			if !ok || calleeOf(info, c) != fo || pi >= len(c.Args) {
				return true
			}
			calls++
			arg := exprString(c.Args[pi])
			here := map[string]constant.Value{}
			// an enclosing or preceding switch on the same expression whose clauses (listing constants) all leave before the call
			ast.Inspect(cfd.Body, func(m ast.Node) bool {
				sw, ok := m.(*ast.SwitchStmt)
				if !ok || sw.Tag == nil || exprString(sw.Tag) != arg {
					return true
				}
				for _, cl := range sw.Body.List {
					cc := cl.(*ast.CaseClause)
					if cc.List == nil {
						continue
					}
					// the call is not inside this clause, and the clause ends by returning
					if cc.Pos() <= c.Pos() && c.End() <= cc.End() {
						continue
					}
					if !(sw.Pos() < c.Pos()) {
						continue
					}
					if len(cc.Body) == 0 {
						continue
					}
					if _, isRet := cc.Body[len(cc.Body)-1].(*ast.ReturnStmt); !isRet {
						continue
					}
					for _, e := range cc.List {
						if tv := info.Types[e]; tv.Value != nil {
							here[tv.Value.ExactString()] = tv.Value
						}
					}
				}
				return true
			})
			if common == nil {
				common = here
			} else {
				for k := range common {
					if _, ok := here[k]; !ok {
						delete(common, k)
					}
				}
			}
			return true
		})
	}
	if calls == 0 {
		return nil
	}
	var out []constant.Value
	for _, v := range common {
		out = append(out, v)
	}
	return out
}

// earlierHandled: constants of tt that an earlier statement of the same function rules out for the switch tag.
func earlierHandled(info *types.Info, fd *ast.FuncDecl, s *ast.SwitchStmt, tt *types.Named) []constant.Value {
	tag := exprString(s.Tag)
	var out []constant.Value
	ast.Inspect(fd.Body, func(n ast.Node) bool {
		switch x := n.(type) {
		case *ast.SwitchStmt:
			if x == s || x.Tag == nil || exprString(x.Tag) != tag || x.Pos() > s.Pos() {
				return true
			}
			// an outer switch on the same tag whose clause contains s: s only sees that clause's values... handled by caller; here: earlier sibling switch whose clauses return
			if x.Pos() <= s.Pos() && s.End() <= x.End() {
				return true
			}
			for _, cl := range x.Body.List {
				cc := cl.(*ast.CaseClause)
				if cc.List == nil || len(cc.Body) == 0 {
					continue
				}
				if _, isRet := cc.Body[len(cc.Body)-1].(*ast.ReturnStmt); !isRet {
					continue
				}
				for _, e := range cc.List {
					if tv := info.Types[e]; tv.Value != nil {
						out = append(out, tv.Value)
					}
				}
			}
		case *ast.IfStmt:
			if x.Pos() > s.Pos() || len(x.Body.List) == 0 {
				return true
			}
			if _, isRet := x.Body.List[len(x.Body.List)-1].(*ast.ReturnStmt); !isRet {
				return true
			}
			for _, d := range disjuncts(x.Cond) {
				if be, ok := ast.Unparen(d).(*ast.BinaryExpr); ok && be.Op == token.EQL && exprString(be.X) == tag {
					if tv := info.Types[be.Y]; tv.Value != nil {
						out = append(out, tv.Value)
					}
				}
			}
		}
		return true
	})
	return out
}

// ---------------------------------------------------------------- R28c

func isIntSource(info *types.Info, c *ast.CallExpr) string {
	fn := calleeOf(info, c)
	if fn == nil || fn.Pkg() == nil {
		return ""
	}
	q := qualName(fn)
	switch {
	case q == "strconv.Atoi", q == "strconv.ParseInt", q == "strconv.ParseUint":
		return fn.Name()
	case strings.HasSuffix(q, "/expand.Arithm"), strings.HasSuffix(q, "/interp.(Runner).arithm"), strings.HasSuffix(q, "/interp.atoi"), strings.HasSuffix(q, "/expand.atoi"):
		return fn.Name()
	}
	return ""
}

func checkTaintedInts(p *Prog, r *Result, pkg *packages.Package, rel string, fd *ast.FuncDecl) {
	info := pkg.TypesInfo
	fk := relKey(rel, fd)
	tainted := map[types.Object]string{}
	mentionsTainted := func(e ast.Node) types.Object {
		var hit types.Object
		ast.Inspect(e, func(n ast.Node) bool {
			if id, ok := n.(*ast.Ident); ok {
				if o := info.ObjectOf(id); o != nil {
					if _, ok := tainted[o]; ok {
						hit = o
					}
				}
			}
			return hit == nil
		})
		return hit
	}
	isIntType := func(t types.Type) bool {
		b, ok := t.Underlying().(*types.Basic)
		return ok && b.Info()&types.IsInteger != 0
	}
	for changed, rounds := true, 0; changed && rounds < 6; rounds++ {
		changed = false
		ast.Inspect(fd.Body, func(n ast.Node) bool {
			as, ok := n.(*ast.AssignStmt)
			if !ok {
				return true
			}
			for i, l := range as.Lhs {
				id, ok := l.(*ast.Ident)
				if !ok || id.Name == "_" {
					continue
				}
				o := info.ObjectOf(id)
				if o == nil || !isIntType(o.Type()) {
					continue
				}
				if _, done := tainted[o]; done {
					continue
				}
				var rhs ast.Expr
				if len(as.Rhs) == len(as.Lhs) {
					rhs = as.Rhs[i]
				} else if len(as.Rhs) == 1 && i == 0 {
					rhs = as.Rhs[0]
				}
				if rhs == nil {
					continue
				}
				src := ""
				ast.Inspect(rhs, func(m ast.Node) bool {
					if c, ok := m.(*ast.CallExpr); ok {
						if s := isIntSource(info, c); s != "" {
							src = s
						}
						// min/max clamps cut the taint
						if isBuiltinCall(info, c, "min") || isBuiltinCall(info, c, "max") {
							return false
						}
					}
					return true
				})
				if src == "" {
					if t := mentionsTainted(rhs); t != nil {
						if c, ok := ast.Unparen(rhs).(*ast.CallExpr); ok && (isBuiltinCall(info, c, "min") || isBuiltinCall(info, c, "max") || isBuiltinCall(info, c, "len")) {
							continue
						}
						// only through arithmetic / conversion, not through arbitrary calls
						viaCall := false
						ast.Inspect(rhs, func(m ast.Node) bool {
							if c, ok := m.(*ast.CallExpr); ok {
								if tv, ok := info.Types[c.Fun]; !ok || !tv.IsType() {
									viaCall = true
								}
							}
							return true
						})
						if !viaCall {
							src = "derived from " + t.Name()
						}
					}
				}
				if src != "" {
					tainted[o] = src
					changed = true
				}
			}
			return true
		})
	}
	if len(tainted) == 0 {
		return
	}
	g := NewFGraph(info, fd.Body, nil)
	type sink struct {
		n    ast.Node
		e    ast.Expr
		kind string // index | slice | size
		on   string
	}
	var sinks []sink
	ast.Inspect(fd.Body, func(n ast.Node) bool {
		switch x := n.(type) {
		case *ast.IndexExpr:
			if _, isMap := info.TypeOf(x.X).Underlying().(*types.Map); isMap {
				return true
			}
			if tv, ok := info.Types[x.X]; ok && tv.IsType() {
				return true
			}
			if mentionsTainted(x.Index) != nil {
				sinks = append(sinks, sink{x, x.Index, "index", exprString(x.X)})
			}
		case *ast.SliceExpr:
			for _, b := range []ast.Expr{x.Low, x.High, x.Max} {
				if b != nil && mentionsTainted(b) != nil {
					sinks = append(sinks, sink{x, b, "slice", exprString(x.X)})
				}
			}
		case *ast.CallExpr:
			if isBuiltinCall(info, x, "make") && len(x.Args) >= 2 {
				for _, a := range x.Args[1:] {
					if mentionsTainted(a) != nil {
						sinks = append(sinks, sink{x, a, "size", "make"})
					}
				}
			}
			if fn := calleeOf(info, x); fn != nil && qualName(fn) == "strings.Repeat" && len(x.Args) == 2 && mentionsTainted(x.Args[1]) != nil {
				sinks = append(sinks, sink{x, x.Args[1], "size", "strings.Repeat"})
			}
			// index parameters of the slices package panic like slice expressions do
			if fn := calleeOf(info, x); fn != nil && fn.Pkg() != nil && fn.Pkg().Path() == "slices" {
				switch fn.Name() {
				case "Delete", "Insert", "Replace":
					for ai, a := range x.Args {
						if ai == 0 || (fn.Name() == "Insert" && ai > 1) || (fn.Name() == "Replace" && ai > 2) || (fn.Name() == "Delete" && ai > 2) {
							continue
						}
						if mentionsTainted(a) != nil {
							sinks = append(sinks, sink{x, a, "slice", "slices." + fn.Name() + "(" + exprString(x.Args[0]) + ")"})
						}
					}
				}
			}
		}
		return true
	})
	for _, s := range sinks {
		o := mentionsTainted(s.e)
		key := fmt.Sprintf("%s#%s %s[%s]", fk, s.kind, s.on, exprString(s.e))
		blk, _ := g.BlockOf(s.n)
		if blk == nil {
			r.Undecided("R28c", key, s.n.Pos(), "sink not found in the flow graph")
			continue
		}
		lower := underEdges(g, blk, func(e *FEdge) bool { return boundsKind(info, e, o) == "lower" || boundsKind(info, e, o) == "both" })
		upper := underEdges(g, blk, func(e *FEdge) bool { return boundsKind(info, e, o) == "upper" || boundsKind(info, e, o) == "both" })
		// the value goes through a local helper that clamps it both ways
		if c, ok := ast.Unparen(s.e).(*ast.CallExpr); ok {
			if clampHelper(info, fd, c) {
				r.OK("R28c", key, s.n.Pos(), fmt.Sprintf("%s (%s) passes through a local helper that clamps it to [0, len]", o.Name(), tainted[o]))
				continue
			}
		}
		// o only ever receives the program's value by a plain copy made under the guard (n = n2 under n2 >= 0)
		if !lower || !upper {
			lo, up := copyGuards(info, fd, g, o, tainted)
			lower = lower || lo
			upper = upper || up
		}
		// unsigned values have their lower bound by type
		if b, ok := o.Type().Underlying().(*types.Basic); ok && b.Info()&types.IsUnsigned != 0 {
			lower = true
		}
		need := "a lower and an upper guard"
		ok := lower && upper
		if s.kind == "size" {
			need, ok = "a lower guard", lower
		}
		miss := []string{}
		if !lower {
			miss = append(miss, "no test rules out negative values")
		}
		if !upper && s.kind != "size" {
			miss = append(miss, "no test bounds it from above")
		}
		r.Check(ok, "R28c", key, s.n.Pos(), fmt.Sprintf("%s (%s) is used under %s", o.Name(), tainted[o], need),
			fmt.Sprintf("%s comes from the program (%s) and reaches this %s with %s: that value panics the interpreter", o.Name(), tainted[o], s.kind, strings.Join(miss, " and ")))
	}
}

// clampHelper: the call is to a local function literal whose body tests its parameter against 0 and against a length.
func clampHelper(info *types.Info, fd *ast.FuncDecl, c *ast.CallExpr) bool {
	id, ok := ast.Unparen(c.Fun).(*ast.Ident)
	if !ok {
		return false
	}
	obj := info.ObjectOf(id)
	var lit *ast.FuncLit
	ast.Inspect(fd.Body, func(n ast.Node) bool {
		as, ok := n.(*ast.AssignStmt)
		if !ok || len(as.Lhs) != 1 || len(as.Rhs) != 1 {
			return true
		}
		if lid, ok := as.Lhs[0].(*ast.Ident); ok && info.ObjectOf(lid) == obj {
			if fl, ok := as.Rhs[0].(*ast.FuncLit); ok {
				lit = fl
			}
		}
		return true
	})
	if lit == nil || lit.Type.Params == nil || len(lit.Type.Params.List) != 1 || len(lit.Type.Params.List[0].Names) != 1 {
		return false
	}
	param := info.Defs[lit.Type.Params.List[0].Names[0]]
	neg, over := false, false
	ast.Inspect(lit.Body, func(n ast.Node) bool {
		be, ok := n.(*ast.BinaryExpr)
		if !ok {
			return true
		}
		if id, ok := ast.Unparen(be.X).(*ast.Ident); ok && info.ObjectOf(id) == param {
			if be.Op == token.LSS && exprString(be.Y) == "0" {
				neg = true
			}
			if be.Op == token.GTR && strings.HasPrefix(exprString(be.Y), "len(") {
				over = true
			}
		}
		return true
	})
	return neg && over
}

// copyGuards: every assignment that makes o tainted is a plain copy `o = t`, executed under a guard on t.
func copyGuards(info *types.Info, fd *ast.FuncDecl, g *FGraph, o types.Object, tainted map[types.Object]string) (lower, upper bool) {
	lower, upper = true, true
	n := 0
	ast.Inspect(fd.Body, func(x ast.Node) bool {
		as, ok := x.(*ast.AssignStmt)
		if !ok || len(as.Lhs) != len(as.Rhs) {
			return true
		}
		for i, l := range as.Lhs {
			id, ok := l.(*ast.Ident)
			if !ok || info.ObjectOf(id) != o {
				continue
			}
			if tv := info.Types[as.Rhs[i]]; tv.Value != nil {
				continue // a constant
			}
			n++
			tid, ok := ast.Unparen(as.Rhs[i]).(*ast.Ident)
			if !ok {
				lower, upper = false, false
				continue
			}
			t := info.ObjectOf(tid)
			if _, isT := tainted[t]; !isT {
				continue
			}
			blk, _ := g.BlockOf(as)
			if blk == nil {
				lower, upper = false, false
				continue
			}
			if !underEdges(g, blk, func(e *FEdge) bool { k := boundsKind(info, e, t); return k == "lower" || k == "both" }) {
				lower = false
			}
			if !underEdges(g, blk, func(e *FEdge) bool { k := boundsKind(info, e, t); return k == "upper" || k == "both" }) {
				upper = false
			}
		}
		return true
	})
	if n == 0 {
		return false, false
	}
	return lower, upper
}

// boundsKind classifies a conditional edge as establishing a lower and/or upper bound on o.
func boundsKind(info *types.Info, e *FEdge, o types.Object) string {
	if e.Cond == nil {
		return ""
	}
	be, ok := ast.Unparen(e.Cond).(*ast.BinaryExpr)
	if !ok {
		return ""
	}
	mentions := func(x ast.Expr) bool {
		hit := false
		ast.Inspect(x, func(n ast.Node) bool {
			if id, ok := n.(*ast.Ident); ok && info.ObjectOf(id) == o {
				hit = true
			}
			return !hit
		})
		return hit
	}
	op := be.Op
	left, right := mentions(be.X), mentions(be.Y)
	if left == right {
		return ""
	}
	if right {
		// c OP n  ==  n OP' c
		switch op {
		case token.LSS:
			op = token.GTR
		case token.LEQ:
			op = token.GEQ
		case token.GTR:
			op = token.LSS
		case token.GEQ:
			op = token.LEQ
		}
	}
	if !e.Pol {
		switch op {
		case token.LSS:
			op = token.GEQ
		case token.LEQ:
			op = token.GTR
		case token.GTR:
			op = token.LEQ
		case token.GEQ:
			op = token.LSS
		case token.EQL:
			op = token.NEQ
		case token.NEQ:
			op = token.EQL
		}
	}
	switch op {
	case token.GEQ, token.GTR:
		// a comparison with a negative constant does not rule out negative values
		other := be.Y
		if right {
			other = be.X
		}
		if tv, ok := info.Types[other]; ok && tv.Value != nil {
			if v, exact := constant.Int64Val(constant.ToInt(tv.Value)); exact && (v < -1 || (v == -1 && op == token.GEQ)) {
				return ""
			}
		}
		return "lower"
	case token.LSS, token.LEQ:
		return "upper"
	case token.EQL:
		return "both"
	}
	return ""
}

// ---------------------------------------------------------------- R28d

func checkStateIndexes(p *Prog, r *Result, pkg *packages.Package, rel string, fd *ast.FuncDecl) {
	info := pkg.TypesInfo
	if fd.Recv == nil || len(fd.Recv.List) == 0 || len(fd.Recv.List[0].Names) == 0 {
		return
	}
	recv := info.Defs[fd.Recv.List[0].Names[0]]
	var g *FGraph
	ast.Inspect(fd.Body, func(n ast.Node) bool {
		ix, ok := n.(*ast.IndexExpr)
		if !ok {
			return true
		}
		if _, isMap := info.TypeOf(ix.X).Underlying().(*types.Map); isMap {
			return true
		}
		if _, isArr := info.TypeOf(ix.X).Underlying().(*types.Array); isArr {
			return true
		}
		// index is recv.f (+/- const) with f an int field
		var fieldSel *ast.SelectorExpr
		ast.Inspect(ix.Index, func(m ast.Node) bool {
			if se, ok := m.(*ast.SelectorExpr); ok {
				if id, ok := ast.Unparen(se.X).(*ast.Ident); ok && info.ObjectOf(id) == recv {
					if fv := selectorField(info, se); fv != nil {
						if b, ok := fv.Type().Underlying().(*types.Basic); ok && b.Info()&types.IsInteger != 0 {
							fieldSel = se
						}
					}
				}
			}
			return true
		})
		if fieldSel == nil {
			return true
		}
		// the indexed value must not itself be a field of the receiver kept in step with the index (e.g. p.bs[p.bsp]); only parameters and locals
		if se, ok := ast.Unparen(ix.X).(*ast.SelectorExpr); ok {
			if id, ok := ast.Unparen(se.X).(*ast.Ident); ok && info.ObjectOf(id) == recv {
				return true
			}
		}
		if g == nil {
			g = NewFGraph(info, fd.Body, nil)
		}
		key := fmt.Sprintf("%s#%s[%s]", relKey(rel, fd), exprString(ix.X), exprString(ix.Index))
		blk, _ := g.BlockOf(ix)
		fname := exprString(fieldSel)
		isGuardEdge := func(e *FEdge) bool {
			be, ok := e.Cond.(*ast.BinaryExpr)
			if !ok {
				return false
			}
			l, rr := exprString(be.X), exprString(be.Y)
			if !strings.Contains(l, fname) || !strings.Contains(rr, "len(") {
				return false
			}
			switch be.Op {
			case token.LSS, token.LEQ:
				return e.Pol
			case token.GEQ, token.GTR:
				return !e.Pol
			}
			return false
		}
		// a path on which the field was just reset to zero is as good as a guarded one
		resets := func(b *FBlock) bool {
			for _, nd := range b.Nodes {
				if as, ok := nd.(*ast.AssignStmt); ok && len(as.Lhs) == 1 && len(as.Rhs) == 1 && exprString(as.Lhs[0]) == fname && exprString(as.Rhs[0]) == "0" {
					return true
				}
			}
			return false
		}
		guarded := false
		if blk != nil {
			reach := g.Reachable(g.Entry, func(e *FEdge) bool { return !isGuardEdge(e) && !resets(e.From) })
			guarded = !reach[blk] || resets(blk)
		}
		r.Check(guarded, "R28d", key, ix.Pos(), "every path compares "+fname+" with a length or resets it to zero first",
			fmt.Sprintf("%s is kept between calls, the value indexed is supplied by the current call, and nothing compares the two before the index: a second call with shorter data panics", fname))
		return true
	})
}

// ---------------------------------------------------------------- R28g

func checkConfigTimeNil(p *Prog, r *Result, g *refGraph) {
	pkg := p.Pkg("interp")
	if pkg == nil {
		return
	}
	info := pkg.TypesInfo
	runnerT := lookupType(pkg, "Runner")
	optT := lookupType(pkg, "RunnerOption")
	newFD := p.FuncDecl("interp", "New")
	if runnerT == nil || optT == nil || newFD == nil {
		r.Fatalf("anchors Runner / RunnerOption / New not found")
		return
	}
	var optCtors []*types.Func
	for _, fd := range p.AllFuncDecls("interp") {
		if fd.Recv != nil || fd.Type.Results == nil || len(fd.Type.Results.List) != 1 {
			continue
		}
		if namedOf(info.TypeOf(fd.Type.Results.List[0].Type)) == optT {
			if fo, ok := info.Defs[fd.Name].(*types.Func); ok {
				optCtors = append(optCtors, fo)
			}
		}
	}
	reach := g.reachable(optCtors...)
	// fields of Runner whose value is used (called through, passed on) in reachable methods of Runner
	st := runnerT.Underlying().(*types.Struct)
	nilable := map[*types.Var]bool{}
	for i := 0; i < st.NumFields(); i++ {
		switch st.Field(i).Type().Underlying().(type) {
		case *types.Interface, *types.Signature:
			nilable[st.Field(i)] = true
		}
	}
	used := map[*types.Var]string{}
	for fo, fd := range g.decl {
		if !reach[fo] || g.pkgOf[fo] != pkg || fd.Body == nil {
			continue
		}
		isCtor := false
		for _, c := range optCtors {
			if c == fo {
				isCtor = true
			}
		}
		ast.Inspect(fd.Body, func(n ast.Node) bool {
			c, ok := n.(*ast.CallExpr)
			if !ok {
				return true
			}
			// called through: r.f(...) / r.f.M(...); or passed as an argument to a function of another package
			note := func(e ast.Expr) {
				if fv := selectorField(info, e); fv != nil && nilable[fv] {
					if _, seen := used[fv]; !seen {
						used[fv] = funcKey("interp", fd)
					}
				}
			}
			if se, ok := c.Fun.(*ast.SelectorExpr); ok {
				note(se.X)
			}
			note(c.Fun)
			if fn := calleeOf(info, c); fn != nil && fn.Pkg() != pkg.Types {
				for _, a := range c.Args {
					note(a)
				}
			}
			return true
		})
		_ = isCtor
	}
	// keys of New's literal
	set := map[*types.Var]bool{}
	ast.Inspect(newFD.Body, func(n ast.Node) bool {
		cl, ok := n.(*ast.CompositeLit)
		if !ok || namedOf(info.TypeOf(cl)) != runnerT {
			return true
		}
		for _, el := range cl.Elts {
			if kv, ok := el.(*ast.KeyValueExpr); ok {
				if id, ok := kv.Key.(*ast.Ident); ok {
					if fv, ok := info.Uses[id].(*types.Var); ok && !isNilIdent(info, kv.Value) {
						set[fv] = true
					}
				}
			}
		}
		return true
	})
	var fs []*types.Var
	for fv := range used {
		fs = append(fs, fv)
	}
	sort.Slice(fs, func(i, j int) bool { return fs[i].Name() < fs[j].Name() })
	for _, fv := range fs {
		r.Check(set[fv], "R28g", "interp.Runner."+fv.Name()+"#non-nil while options run", newFD.Pos(), "initialised in New's literal (used by "+used[fv]+", which an option can reach)",
			fmt.Sprintf("%s, reachable from an option closure, calls through Runner.%s, which New leaves nil until after all options ran: an option that gets there panics", used[fv], fv.Name()))
	}
}

// ---------------------------------------------------------------- R28h

func checkListIndexesPairing(p *Prog, r *Result, pkg *packages.Package, rel string, fd *ast.FuncDecl) {
	info := pkg.TypesInfo
	isVariable := func(t types.Type) bool {
		n := namedOf(t)
		return n != nil && n.Obj().Name() == "Variable" && n.Obj().Pkg() != nil && strings.HasSuffix(n.Obj().Pkg().Path(), "/expand")
	}
	var g *FGraph
	ast.Inspect(fd.Body, func(n ast.Node) bool {
		as, ok := n.(*ast.AssignStmt)
		if !ok {
			return true
		}
		for i, l := range as.Lhs {
			se, ok := ast.Unparen(l).(*ast.SelectorExpr)
			if !ok || se.Sel.Name != "List" || !isVariable(info.TypeOf(se.X)) || i >= len(as.Rhs) && len(as.Rhs) != 1 {
				continue
			}
			base := exprString(se.X)
			// same statement stores Indexes too
			paired := false
			for _, l2 := range as.Lhs {
				if s2, ok := ast.Unparen(l2).(*ast.SelectorExpr); ok && s2.Sel.Name == "Indexes" && exprString(s2.X) == base {
					paired = true
				}
			}
			// append onto itself keeps a dense list dense and is only used on fresh values
			if len(as.Rhs) == len(as.Lhs) {
				if c, ok := ast.Unparen(as.Rhs[i]).(*ast.CallExpr); ok && isBuiltinCall(info, c, "append") && len(c.Args) > 0 && exprString(c.Args[0]) == exprString(l) {
					continue
				}
			}
			// a fresh zero Variable declared in this function has nil Indexes
			if id, ok := ast.Unparen(se.X).(*ast.Ident); ok {
				fresh := false
				ast.Inspect(fd.Body, func(m ast.Node) bool {
					if ds, ok := m.(*ast.DeclStmt); ok {
						if gd, ok := ds.Decl.(*ast.GenDecl); ok {
							for _, sp := range gd.Specs {
								if vs, ok := sp.(*ast.ValueSpec); ok && len(vs.Values) == 0 {
									for _, nm := range vs.Names {
										if info.Defs[nm] == info.ObjectOf(id) {
											fresh = true
										}
									}
								}
							}
						}
					}
					return true
				})
				if fresh {
					continue
				}
			}
			key := fmt.Sprintf("%s#%s.List replaced", relKey(rel, fd), base)
			if paired {
				r.OK("R28h", key, as.Pos(), "Indexes stored in the same statement")
				continue
			}
			if g == nil {
				g = NewFGraph(info, fd.Body, nil)
			}
			blk, idx := g.BlockOf(as)
			storesIdx := func(k ast.Node) bool {
				a2, ok := k.(*ast.AssignStmt)
				if !ok {
					return false
				}
				for _, l2 := range a2.Lhs {
					if s2, ok := ast.Unparen(l2).(*ast.SelectorExpr); ok && s2.Sel.Name == "Indexes" && exprString(s2.X) == base {
						return true
					}
				}
				return false
			}
			ok2 := false
			if blk != nil {
				ok2, _ = g.MustPass(blk, idx, g.Exit, storesIdx, nil)
				if !ok2 {
					for _, k := range blk.Nodes[:idx] {
						if storesIdx(k) {
							ok2 = true
						}
					}
				}
			}
			r.Check(ok2, "R28h", key, as.Pos(), "Indexes is stored on every path before the function returns (or just before, in the same block)",
				fmt.Sprintf("%s.List is replaced and some path returns without storing %s.Indexes: a variable that was a sparse array keeps an index list of another length, and the next element lookup indexes past the values", base, base))
		}
		return true
	})
}

// ---------------------------------------------------------------- R28e

func checkShiftsAndDivisions(p *Prog, r *Result, pkg *packages.Package, rel string, fd *ast.FuncDecl) {
	info := pkg.TypesInfo
	var g *FGraph
	type site struct {
		n     ast.Node
		opnd  ast.Expr
		shift bool
		text  string
	}
	var sites []site
	isSignedVar := func(e ast.Expr) bool {
		if tv := info.Types[e]; tv.Value != nil {
			return false
		}
		b, ok := info.TypeOf(e).Underlying().(*types.Basic)
		return ok && b.Info()&types.IsInteger != 0 && b.Info()&types.IsUnsigned == 0
	}
	isIntVar := func(e ast.Expr) bool {
		if tv := info.Types[e]; tv.Value != nil {
			return false
		}
		b, ok := info.TypeOf(e).Underlying().(*types.Basic)
		return ok && b.Info()&types.IsInteger != 0
	}
	ast.Inspect(fd.Body, func(n ast.Node) bool {
		switch x := n.(type) {
		case *ast.BinaryExpr:
			switch x.Op {
			case token.SHL, token.SHR:
				if isSignedVar(x.Y) {
					sites = append(sites, site{x, x.Y, true, exprString(x)})
				}
			case token.QUO, token.REM:
				if isIntVar(x.Y) && isIntVar(x.X) || (isIntVar(x.Y) && info.Types[x.X].Value != nil) {
					sites = append(sites, site{x, x.Y, false, exprString(x)})
				}
			}
		case *ast.AssignStmt:
			switch x.Tok {
			case token.SHL_ASSIGN, token.SHR_ASSIGN:
				if isSignedVar(x.Rhs[0]) {
					sites = append(sites, site{x, x.Rhs[0], true, exprString(x.Lhs[0]) + " " + x.Tok.String() + " " + exprString(x.Rhs[0])})
				}
			case token.QUO_ASSIGN, token.REM_ASSIGN:
				if isIntVar(x.Rhs[0]) {
					sites = append(sites, site{x, x.Rhs[0], false, exprString(x.Lhs[0]) + " " + x.Tok.String() + " " + exprString(x.Rhs[0])})
				}
			}
		}
		return true
	})
	for _, s := range sites {
		if g == nil {
			g = NewFGraph(info, fd.Body, nil)
		}
		key := fmt.Sprintf("%s#%s", relKey(rel, fd), s.text)
		blk, _ := g.BlockOf(s.n)
		id, isID := ast.Unparen(s.opnd).(*ast.Ident)
		if blk == nil || !isID {
			r.Undecided("R28e", key, s.n.Pos(), "operand is not a plain variable or the site is not in the flow graph")
			continue
		}
		o := info.ObjectOf(id)
		var ok bool
		if s.shift {
			ok = underEdges(g, blk, func(e *FEdge) bool { k := boundsKind(info, e, o); return k == "lower" || k == "both" })
			r.Check(ok, "R28e", key, s.n.Pos(), "the count is tested to be non-negative first",
				"shifts by a signed count the program controls without first ruling out negative values: Go panics with `negative shift amount`")
			continue
		}
		ok = underEdges(g, blk, func(e *FEdge) bool {
			be, isBin := e.Cond.(*ast.BinaryExpr)
			if !isBin || exprString(be.Y) != "0" {
				return false
			}
			bid, isB := ast.Unparen(be.X).(*ast.Ident)
			if !isB || info.ObjectOf(bid) != o {
				return false
			}
			return (be.Op == token.EQL && !e.Pol) || (be.Op == token.NEQ && e.Pol) || (be.Op == token.GTR && e.Pol) || (be.Op == token.LEQ && !e.Pol)
		})
		r.Check(ok, "R28e", key, s.n.Pos(), "the divisor is tested against zero first",
			"divides by a value the program controls without first testing it against zero: Go panics with `integer divide by zero`")
	}
}

var c28Controls = []Control{
	{Name: "at-operator-operand-checked-by-its-first-literal-only", Rule: "R28b", WantKey: "paramExp#panic", File: "syntax/parser.go",
		Mutate: ctlReplaceAnywhere("\tif op == OtherParamOps && w != nil && w.Lit() == \"\" {\n", "\tif false {\n")},
	{Name: "unescape-reads-past-the-end", Rule: "R28j", WantKey: "wordField#s[i + 1]", File: "expand/expand.go",
		Mutate: ctlReplaceAnywhere("if b == '\\\\' && i+1 < len(s) {\n\t\t\t\t\t\tswitch s[i+1] {", "if b == '\\\\' {\n\t\t\t\t\t\tswitch s[i+1] {")},
	{Name: "append-switch-forgets-nameref", Rule: "R28b", WantKey: "assignVal#panic", File: "interp/vars.go",
		Mutate: ctlReplaceAnywhere("\t\tcase expand.NameRef:\n\t\t\t// A name reference which did not resolve, such as an empty one;\n\t\t\t// it holds no value to append to.\n", "")},
	{Name: "environment-stores-keepvalue", Rule: "R28b", WantKey: "assignVal#panic", File: "interp/vars.go",
		Mutate: ctlReplaceAnywhere("\tif vr.Kind == expand.KeepValue {\n\t\tvr.Kind = prev.Kind\n", "\tif vr.Kind == expand.KeepValue && prev.IsSet() {\n\t\tvr.Kind = prev.Kind\n")},
	{Name: "array-assign-keeps-stale-indexes", Rule: "R28h", WantKey: "assignVal#prev.List replaced", File: "interp/vars.go",
		Mutate: ctlReplaceAnywhere("\tprev.Kind = expand.Indexed\n\tprev.List = list\n\tprev.Indexes = indexes\n\treturn name, prev\n", "\tprev.Kind = expand.Indexed\n\tprev.List = list\n\treturn name, prev\n")},
	{Name: "new-leaves-stdout-nil-for-options", Rule: "R28g", WantKey: "Runner.stdout", File: "interp/api.go",
		Mutate: ctlReplaceAnywhere("\t\tstdout: io.Discard,\n", "")},
	{Name: "handler-exit-status-zero-keeps-error", Rule: "R28b", WantKey: "Run#panic", File: "interp/api.go",
		Mutate: ctlReplaceAnywhere("\t\tif es == 0 {\n\t\t\treturn // an odd way for a handler to report success\n\t\t}\n", "")},
	{Name: "signed-shift-count", Rule: "R28e", WantKey: "binArit#x << y", File: "expand/arith.go",
		Mutate: ctlReplace("binArit", "x << uint(y)", "x << y", 0)},
	{Name: "negative-subscript-not-rejected", Rule: "R28k", WantKey: "setVarWithIndex#k passed to SetIndexedElem", File: "interp/vars.go",
		Mutate: ctlReplaceAnywhere("\t\tif k += internal.IndexedMax(list, indexes) + 1; k < 0 {\n\t\t\tr.errf(\"%s: bad array subscript\\n\", name)\n\t\t\tr.exit.code = 1\n\t\t\treturn\n\t\t}\n", "\t\tk += internal.IndexedMax(list, indexes) + 1\n")},
	{Name: "cloned-map-written-without-nil-test", Rule: "R28l", WantKey: "setVarWithIndex#stores into prev.Map", File: "interp/vars.go",
		Mutate: ctlReplaceAnywhere("\t\tprev.Map = maps.Clone(prev.Map)\n\t\tif prev.Map == nil {\n\t\t\tprev.Map = make(map[string]string)\n\t\t}\n", "\t\tprev.Map = maps.Clone(prev.Map)\n")},
	{Name: "alias-loop-bounded-by-the-original-words", Rule: "R28m", WantKey: "cmd#loop bounded by len(cm.Args) indexes args[i]", File: "interp/runner.go",
		Mutate: ctlReplaceAnywhere("\t\tfor i := 0; i < len(args); {\n\t\t\tif !r.opts[optExpandAliases] {", "\t\tfor i := 0; i < len(cm.Args); {\n\t\t\tif !r.opts[optExpandAliases] {")},
	{Name: "unclosed-extglob-writes-the-sentinel", Rule: "R28n", WantKey: "regexpNext#writes sl.next()", File: "pattern/pattern.go",
		Mutate: ctlReplaceAnywhere("\t\t\tif sl.peekNext() != ')' {\n\t\t\t\t// Like Bash, an unmatched \"(\" makes the operator a literal;", "\t\t\tif false {\n\t\t\t\t// Like Bash, an unmatched \"(\" makes the operator a literal;")},
	{Name: "handler-called-with-the-bare-context", Rule: "R28o", WantKey: "stat#r.statHandler is given a handler context", File: "interp/runner.go",
		Mutate: ctlReplaceAnywhere("\treturn r.statHandler(r.handlerCtx(ctx, handlerKindStat, todoPos), path, true)\n", "\treturn r.statHandler(ctx, path, true)\n")},
	{Name: "ascii-table-indexed-by-any-byte", Rule: "R28p", WantKey: "posixOptByFlag#asciiOpts[flag] fits the table", File: "interp/api.go",
		Mutate: ctlChain(ctlReplaceAnywhere("func (r *Runner) posixOptByFlag(flag byte) *bool {\n", "func (r *Runner) posixOptByFlag(flag byte) *bool {\n\tif asciiOpts[flag] {\n\t\treturn nil\n\t}\n"),
			ctlAppendDecl("var asciiOpts [128]bool\n")),
	},
	{Name: "directory-stack-truncated", Rule: "R28q", WantKey: "builtin#r.dirStack = r.dirStack[:0]", File: "interp/builtin.go",
		Mutate: ctlReplaceAnywhere("\t\t\tif len(r.dirStack) < 2 {\n\t\t\t\treturn failf(1, \"popd: directory stack empty\\n\")", "\t\t\tif len(args) == 1 && args[0] == \"-c\" {\n\t\t\t\tr.dirStack = r.dirStack[:0]\n\t\t\t\treturn exit\n\t\t\t}\n\t\t\tif len(r.dirStack) < 2 {\n\t\t\t\treturn failf(1, \"popd: directory stack empty\\n\")")},
	{Name: "shift-accepts-negative-count", Rule: "R28c", WantKey: "builtin#slice r.Params", File: "interp/builtin.go",
		Mutate: ctlReplace("Runner.builtin", "err == nil && n2 >= 0", "err == nil", 0)},
	{Name: "classic-test-complex-left-operand", Rule: "R28a", WantKey: "bashTest#x.X", File: "interp/test_classic.go",
		Mutate: ctlReplaceAnywhere("\t\tif _, ok := b.X.(*syntax.Word); !ok {\n\t\t\tp.errf(\"expected -a, -o or the end of the arguments after a complex expression, found %s\", opStr)\n\t\t}\n", "")},
	{Name: "getopts-unchecked-rune-index", Rule: "R28d", WantKey: "next#opts[g.runeidx]", File: "interp/builtin.go",
		Mutate: ctlReplaceAnywhere("\tif g.runeidx >= len(opts) {\n\t\t// The arguments changed since the last call without OPTIND being reset.\n\t\tg.runeidx = 0\n\t}\n", "")},
	{Name: "quote-error-panics", Rule: "R28b", WantKey: "tracer).call#panic", File: "interp/trace.go",
		Mutate: ctlReplaceAnywhere("\t\t\tqs = strconv.Quote(s)\n", "\t\t\t_ = strconv.Quote\n\t\t\tpanic(err)\n")},
	{Name: "mksh-hash-operator-unhandled", Rule: "R28b", WantKey: "paramExp#panic", File: "expand/param.go",
		Mutate: ctlReplaceAnywhere("\t\t\tcase \"#\":\n\t\t\t\t// TODO: implement mksh's hash of the value.\n", "")},
	{Name: "ternary-built-without-colon-node", Rule: "R28a", WantKey: "Arithm#expr.Y", File: "syntax/parser_arithm.go",
		Mutate: ctlReplaceAnywhere("\t\tY: &BinaryArithm{\n\t\t\tOpPos: colonPos,\n\t\t\tOp:    TernColon,\n\t\t\tX:     trueExpr,\n\t\t\tY:     falseExpr,\n\t\t},\n", "\t\tY: falseExpr,\n")},
	{Name: "select-index-unchecked-below", Rule: "R28c", WantKey: "cmd#index items", File: "interp/runner.go",
		Mutate: ctlReplace("Runner.cmd", "c > 0 && c <= len(items)", "c != 0 && c <= len(items)", 0)},
	{Name: "binTest-loses-a-case", Rule: "R28b", WantKey: "binTest#panic", File: "interp/test.go",
		Mutate: ctlReplaceAnywhere("\tcase syntax.TsGtr:\n\t\treturn atoi(x) > atoi(y)\n", "")},
	{Name: "new-unchecked-assertion", Rule: "R28a", WantKey: "stmtSync", File: "interp/runner.go",
		Mutate: ctlReplaceAnywhere("func (r *Runner) stmtSync(ctx context.Context, st *syntax.Stmt) {\n", "func (r *Runner) stmtSync(ctx context.Context, st *syntax.Stmt) {\n\tif st.Negated {\n\t\t_ = st.Cmd.(*syntax.CallExpr)\n\t}\n")},
}


// pseudoKindEliminated: the constant is a value of expand.ValueKind, and every implementation of expand.WriteEnviron.Set
// in package interp that stores into a map of its receiver begins — before any such store — with
// `if vr.Kind == K { vr.Kind = <something else>; … }` on its variable parameter. Variables read back from such an
// environment therefore never have that kind.
func pseudoKindEliminated(p *Prog, k constant.Value) bool {
	pkg := p.Pkg("interp")
	exp := p.Pkg("expand")
	if pkg == nil || exp == nil {
		return false
	}
	vk := lookupType(exp, "ValueKind")
	wi := lookupType(exp, "WriteEnviron")
	if vk == nil || wi == nil {
		return false
	}
	ifc, _ := wi.Underlying().(*types.Interface)
	info := pkg.TypesInfo
	found := 0
	for _, fd := range p.AllFuncDecls("interp") {
		if fd.Name.Name != "Set" || fd.Recv == nil || fd.Body == nil {
			continue
		}
		fo, _ := info.Defs[fd.Name].(*types.Func)
		if fo == nil || ifc == nil {
			continue
		}
		rt := fo.Type().(*types.Signature).Recv().Type()
		if !types.Implements(rt, ifc) && !types.Implements(types.NewPointer(rt), ifc) {
			continue
		}
		// stores into receiver maps
		var stores []ast.Node
		var norm *ast.IfStmt
		ast.Inspect(fd.Body, func(n ast.Node) bool {
			switch x := n.(type) {
			case *ast.AssignStmt:
				for _, l := range x.Lhs {
					if ix, ok := ast.Unparen(l).(*ast.IndexExpr); ok {
						if _, isMap := info.TypeOf(ix.X).Underlying().(*types.Map); isMap {
							stores = append(stores, x)
						}
					}
				}
			case *ast.IfStmt:
				b, ok := ast.Unparen(x.Cond).(*ast.BinaryExpr)
				if !ok || b.Op != token.EQL {
					return true
				}
				tv, ok := info.Types[b.Y]
				if !ok || tv.Value == nil || namedOf(tv.Type) != vk || tv.Value.ExactString() != k.ExactString() {
					return true
				}
				lhs := exprString(b.X)
				for _, st := range x.Body.List {
					if as, ok := st.(*ast.AssignStmt); ok && len(as.Lhs) == 1 && exprString(as.Lhs[0]) == lhs {
						if tv2, ok := info.Types[as.Rhs[0]]; !ok || tv2.Value == nil {
							norm = x
						}
					}
				}
			}
			return true
		})
		if len(stores) == 0 {
			continue // delegates (expandEnv.Set hands over to the runner's environment)
		}
		if norm == nil {
			return false
		}
		for _, st := range stores {
			if st.Pos() < norm.End() {
				return false
			}
		}
		found++
	}
	return found > 0
}


// codeOverwriteKeepsErr: a store `X.code = v` with a value that may be zero is only sound while X.err is nil.
// For a local X of type exitStatus a forward dataflow tracks "err may be set": clean at its declaration and after
// `X = exitStatus{}` or `X.err = nil`; dirty after `X = <another status>` (r.lastExit, r.exit, a call result), after
// `X.err = e`, and after X is handed to code by address or has a method called on it. For anything else (a receiver, a
// field) the store must sit next to a store of X.err in the same block. A value tested non-zero on the way, or a closure
// parameter that every call sets to a non-zero constant, needs nothing.
func codeOverwriteKeepsErr(p *Prog, info *types.Info, fd *ast.FuncDecl, est *types.Named, errF, codeF *types.Var) string {
	type storeSite struct {
		as   *ast.AssignStmt
		lhs  ast.Expr
		rhs  ast.Expr
		lits []*ast.FuncLit
	}
	var sites []storeSite
	var lits []*ast.FuncLit
	var walk func(n ast.Node)
	walk = func(n ast.Node) {
		ast.Inspect(n, func(m ast.Node) bool {
			switch x := m.(type) {
			case *ast.FuncLit:
				if x != n {
					lits = append(lits, x)
					walk(x)
					lits = lits[:len(lits)-1]
					return false
				}
			case *ast.AssignStmt:
				for i, l := range x.Lhs {
					if selectorField(info, l) == codeF && i < len(x.Rhs) {
						if tv := info.Types[x.Rhs[i]]; tv.Value == nil {
							sites = append(sites, storeSite{x, l, x.Rhs[i], append([]*ast.FuncLit(nil), lits...)})
						}
					}
				}
			}
			return true
		})
	}
	walk(fd.Body)
	if len(sites) == 0 {
		return ""
	}
	var g *FGraph
	isZeroLit := func(e ast.Expr) bool {
		cl, ok := ast.Unparen(e).(*ast.CompositeLit)
		if !ok {
			return false
		}
		for _, el := range cl.Elts {
			if kv, ok := el.(*ast.KeyValueExpr); ok {
				if k, ok := kv.Key.(*ast.Ident); ok && k.Name == "err" && !isNilIdent(info, kv.Value) {
					return false
				}
			} else {
				return false
			}
		}
		return true
	}
	flows := map[*types.Var]*flowResult[bool]{}
	dirtyAt := func(v *types.Var, at ast.Node) (dirty, reached bool) {
		if g == nil {
			g = NewFGraph(info, fd.Body, nil)
		}
		res := flows[v]
		if res == nil {
			res = runForward(g, flowSpec[bool]{
				Init:  false,
				Join:  func(a, b bool) bool { return a || b },
				Equal: func(a, b bool) bool { return a == b },
				Node: func(dirty bool, n ast.Node) bool {
					inspectNoLit(n, func(m ast.Node) bool {
						switch x := m.(type) {
						case *ast.AssignStmt:
							for i, l := range x.Lhs {
								if lid, ok := ast.Unparen(l).(*ast.Ident); ok && info.ObjectOf(lid) == v {
									if len(x.Rhs) == len(x.Lhs) {
										dirty = !isZeroLit(x.Rhs[i])
									} else {
										dirty = true
									}
								}
								if selectorField(info, l) == errF {
									if sid, ok := ast.Unparen(ast.Unparen(l).(*ast.SelectorExpr).X).(*ast.Ident); ok && info.ObjectOf(sid) == v && i < len(x.Rhs) {
										dirty = !isNilIdent(info, x.Rhs[i])
									}
								}
							}
						case *ast.CallExpr:
							if sel, ok := ast.Unparen(x.Fun).(*ast.SelectorExpr); ok {
								if sid, ok := ast.Unparen(sel.X).(*ast.Ident); ok && info.ObjectOf(sid) == v {
									if fn := calleeOf(info, x); fn != nil && fn.Type().(*types.Signature).Recv() != nil {
										if _, ptr := fn.Type().(*types.Signature).Recv().Type().(*types.Pointer); ptr && fn.Name() != "clear" && fn.Name() != "ok" {
											dirty = true
										}
									}
								}
							}
							for _, a := range x.Args {
								if u, ok := ast.Unparen(a).(*ast.UnaryExpr); ok && u.Op == token.AND {
									if sid, ok := ast.Unparen(u.X).(*ast.Ident); ok && info.ObjectOf(sid) == v {
										dirty = true
									}
								}
							}
						}
						return true
					})
					return dirty
				},
			})
			flows[v] = res
		}
		blk, idx := g.BlockOf(at)
		if blk == nil {
			return true, true
		}
		return res.At(blk, idx)
	}
	localStatus := func(base ast.Expr) *types.Var {
		bid, ok := ast.Unparen(base).(*ast.Ident)
		if !ok {
			return nil
		}
		v, _ := info.ObjectOf(bid).(*types.Var)
		if v == nil || namedOf(v.Type()) != est || v.Kind() == types.ParamVar || v.Kind() == types.RecvVar {
			return nil
		}
		if _, isPtr := v.Type().(*types.Pointer); isPtr {
			return nil
		}
		return v
	}
	for _, st := range sites {
		base := ast.Unparen(st.lhs).(*ast.SelectorExpr).X
		// (1) value proven non-zero: closure parameter with constant non-zero arguments at every call
		if id, ok := stripConv(info, st.rhs).(*ast.Ident); ok && len(st.lits) > 0 {
			lit := st.lits[len(st.lits)-1]
			pidx := -1
			i := 0
			for _, f := range lit.Type.Params.List {
				for _, nm := range f.Names {
					if info.Defs[nm] == info.ObjectOf(id) {
						pidx = i
					}
					i++
				}
			}
			if pidx >= 0 {
				// the variable the literal is bound to
				var bound types.Object
				ast.Inspect(fd.Body, func(m ast.Node) bool {
					if as, ok := m.(*ast.AssignStmt); ok && len(as.Lhs) == 1 && len(as.Rhs) == 1 && ast.Unparen(as.Rhs[0]) == lit {
						if lid, ok := as.Lhs[0].(*ast.Ident); ok {
							bound = info.ObjectOf(lid)
						}
					}
					return true
				})
				allNonZero, calls := bound != nil, 0
				capt := localStatus(base)
				inspectNoLit(fd.Body, func(m ast.Node) bool {
					if c, ok := m.(*ast.CallExpr); ok {
						if cid, ok := ast.Unparen(c.Fun).(*ast.Ident); ok && bound != nil && info.ObjectOf(cid) == bound {
							calls++
							if pidx >= len(c.Args) {
								allNonZero = false
							} else if tv := info.Types[c.Args[pidx]]; tv.Value == nil || tv.Value.String() == "0" {
								// a possibly zero code: fine where the captured status cannot carry an err yet
								if capt == nil {
									allNonZero = false
								} else if dirty, reached := dirtyAt(capt, c); reached && dirty {
									allNonZero = false
								}
							}
						}
					}
					return true
				})
				if allNonZero && calls > 0 {
					continue
				}
				if os.Getenv("SHCHECK_DEBUG") != "" {
					fmt.Fprintln(os.Stderr, "debug codeOverwrite:", fd.Name.Name, "pidx", pidx, "bound", bound, "allNonZero", allNonZero, "calls", calls)
				}
			}
		}
		if len(st.lits) > 0 {
			return fmt.Sprintf("%s stores a possibly zero exitStatus.code inside a function literal at %s: whether err is nil there cannot be tracked", fd.Name.Name, p.Position(st.as.Pos()))
		}
		if g == nil {
			g = NewFGraph(info, fd.Body, nil)
		}
		blk, _ := g.BlockOf(st.as)
		if blk == nil {
			return fmt.Sprintf("%s: store of exitStatus.code at %s not found in the flow graph", fd.Name.Name, p.Position(st.as.Pos()))
		}
		// (2) same block stores X.err
		sameBlockErr := false
		for _, n := range blk.Nodes {
			if as, ok := n.(*ast.AssignStmt); ok {
				for _, l := range as.Lhs {
					if selectorField(info, l) == errF && exprString(ast.Unparen(l).(*ast.SelectorExpr).X) == exprString(base) {
						sameBlockErr = true
					}
				}
			}
		}
		if sameBlockErr {
			continue
		}
		// (3) value tested non-zero on the way
		if id, ok := stripConv(info, st.rhs).(*ast.Ident); ok {
			o := info.ObjectOf(id)
			if underEdges(g, blk, func(e *FEdge) bool {
				be, ok := e.Cond.(*ast.BinaryExpr)
				if !ok || exprString(be.Y) != "0" {
					return false
				}
				bid, ok := ast.Unparen(be.X).(*ast.Ident)
				return ok && info.ObjectOf(bid) == o && ((be.Op == token.NEQ && e.Pol) || (be.Op == token.EQL && !e.Pol))
			}) {
				continue
			}
		}
		// (4) a local exitStatus whose err is nil here
		v := localStatus(base)
		if v == nil {
			return fmt.Sprintf("%s stores a possibly zero code into %s at %s, which is not a local exitStatus value and has no store of its err next to it: an error kept from earlier would be left with a zero code (Run panics on that)", fd.Name.Name, exprString(base), p.Position(st.as.Pos()))
		}
		if dirty, reached := dirtyAt(v, st.as); reached && dirty {
			return fmt.Sprintf("%s overwrites %s.code with a value that may be zero at %s while %s may still carry an err copied from another status: err != nil with code == 0 makes Run panic (`exit 0` after a failed external command)", fd.Name.Name, v.Name(), p.Position(st.as.Pos()), v.Name())
		}
	}
	return ""
}


// c28IndexExceptions: constant-offset indexes in expand, pattern and interp that rest on an invariant the rule does not see.
var c28IndexExceptions = map[string]string{
	"expand.(Config).glob#matches": "matches is the one-element literal []string{\"\"} at this point",
	"expand.(Config).glob#parts": "pathSplit returns the result of strings.Split, which has at least one element",
	"expand.(Config).replaceElems#loc": "findAllIndex returns regexp match locations, which are two-element slices",
	"expand.ReadFields#fpos": "infield is only true after a field was appended to fpos",
	"expand.ReadFields#runes": "the loop condition has hi > fpos[last].end, and end is never negative here, so hi >= 1",
	"expand.bracesSeqRec#br.Elems": "a BraceExp with Sequence set is only built by syntax.SplitBraces, with two or three elements",
	"expand.bracesSeqRec#fromLit": "SplitBraces marks a sequence only when both endpoints are non-empty literals (numbers or single letters); probed with {a..}, {..b}, {1..}",
	"expand.bracesSeqRec#toLit": "as for fromLit",
	"interp.(HandlerContext).Builtin#args": "documented API: called from an ExecHandlerFunc with the arguments it was given, which are never empty",
	"interp.(Runner).builtin#delim": "an empty delimiter was replaced by \"\\x00\" a few lines above",
	"interp.(Runner).call#args": "documented precondition of CallHandlerFunc (\"returning an empty slice without an error is not supported\"); without a handler the caller checked len(fields) > 0",
	"interp.(Runner).cmd#cm.Args": "reached only when the expanded fields are non-empty, which needs at least one word in cm.Args",
	"interp.(flagParser).flag#p.remaining": "flag() is only called in `for fp.more()` loops; more() returns true only with a pending flag or a non-empty remaining list",
	"interp.runScriptENOEXEC#args": "the arguments of an ExecHandlerFunc are never empty (documented)",
}

// wholeWordChecked: in the parser function that validates the operand of operator k, an if statement whose condition
// tests the operator against k and compares the result of a Lit() call with the empty string has a non-empty body — the
// word that is stored is refused unless it is one literal, which is what the validation switch looked at.
func wholeWordChecked(info *types.Info, fd *ast.FuncDecl, k types.Object) bool {
	found := false
	ast.Inspect(fd.Body, func(n ast.Node) bool {
		is, ok := n.(*ast.IfStmt)
		if !ok || len(is.Body.List) == 0 {
			return true
		}
		hasK, hasLit := false, false
		for _, cj := range conjuncts(is.Cond) {
			be, ok := ast.Unparen(cj).(*ast.BinaryExpr)
			if !ok || be.Op != token.EQL {
				continue
			}
			if id, ok := ast.Unparen(be.Y).(*ast.Ident); ok && info.ObjectOf(id) == k {
				hasK = true
			}
			for _, pair := range [][2]ast.Expr{{be.X, be.Y}, {be.Y, be.X}} {
				c, ok := ast.Unparen(pair[0]).(*ast.CallExpr)
				if !ok {
					continue
				}
				if se, ok := ast.Unparen(c.Fun).(*ast.SelectorExpr); ok && se.Sel.Name == "Lit" {
					if tv, ok := info.Types[pair[1]]; ok && tv.Value != nil && tv.Value.ExactString() == `""` {
						hasLit = true
					}
				}
			}
		}
		if hasK && hasLit {
			found = true
		}
		return true
	})
	return found
}

// predicateAsserts: the call is to a local closure (or a function of the package) with one parameter whose body makes a
// comma-ok assertion of that parameter to the wanted type, and every return is the constant false or has that ok among
// its conjuncts.
func predicateAsserts(info *types.Info, fd *ast.FuncDecl, c *ast.CallExpr, want types.Type) bool {
	var body *ast.BlockStmt
	var params *ast.FieldList
	if id, ok := ast.Unparen(c.Fun).(*ast.Ident); ok {
		obj := info.ObjectOf(id)
		ast.Inspect(fd.Body, func(n ast.Node) bool {
			as, ok := n.(*ast.AssignStmt)
			if !ok || len(as.Lhs) != 1 || len(as.Rhs) != 1 {
				return true
			}
			if lid, ok := as.Lhs[0].(*ast.Ident); ok && info.ObjectOf(lid) == obj {
				if fl, ok := ast.Unparen(as.Rhs[0]).(*ast.FuncLit); ok {
					body, params = fl.Body, fl.Type.Params
				}
			}
			return true
		})
	}
	if body == nil || params == nil || len(params.List) != 1 || len(params.List[0].Names) != 1 {
		return false
	}
	param := info.ObjectOf(params.List[0].Names[0])
	var okObj types.Object
	ast.Inspect(body, func(n ast.Node) bool {
		as, ok := n.(*ast.AssignStmt)
		if !ok || len(as.Lhs) != 2 || len(as.Rhs) != 1 {
			return true
		}
		ta, ok := ast.Unparen(as.Rhs[0]).(*ast.TypeAssertExpr)
		if !ok || ta.Type == nil || !types.Identical(info.TypeOf(ta.Type), want) {
			return true
		}
		if id, ok := ast.Unparen(ta.X).(*ast.Ident); ok && info.ObjectOf(id) == param {
			if okID, ok := as.Lhs[1].(*ast.Ident); ok {
				okObj = info.ObjectOf(okID)
			}
		}
		return true
	})
	if okObj == nil {
		return false
	}
	all, any := true, false
	ast.Inspect(body, func(n ast.Node) bool {
		if _, isLit := n.(*ast.FuncLit); isLit {
			return false
		}
		rs, ok := n.(*ast.ReturnStmt)
		if !ok || len(rs.Results) != 1 {
			return true
		}
		any = true
		if tv, ok := info.Types[rs.Results[0]]; ok && tv.Value != nil && tv.Value.ExactString() == "false" {
			return true
		}
		has := false
		for _, cj := range conjuncts(rs.Results[0]) {
			if id, ok := ast.Unparen(cj).(*ast.Ident); ok && info.ObjectOf(id) == okObj {
				has = true
			}
		}
		if !has {
			all = false
		}
		return true
	})
	return all && any
}
