package main

import (
	"fmt"
	"go/ast"
	"go/token"
	"go/types"
	"sort"
	"strings"
)

// R05i: the printer's comment queue is overwritten in two places — flushHeredocs restores the queue it had set aside
// (`p.pendingComments = coms`), and the throw-away printer that re-indents `<<-` bodies is simply dropped. Whatever
// the queue holds at those points is lost, so it must be empty there: every call made between the set-aside and the
// restore (and every call made on the throw-away printer) returns with the queue empty when it was entered with it
// empty. That is an interprocedural may-analysis over the printer's methods ("may leave comments queued"), least
// fixpoint, with two refinements read off the code: the failing branch of `len(p.pendingComments) > 0` is clean, and a
// flush guarded by `<param>.IsValid()` is taken when the argument is a position field of a node (parsed nodes carry
// valid closing positions) and skipped when it is the literal Pos{}.
type queueAnalysis struct {
	si       *syntaxInfo
	info     *types.Info
	printerT *types.Named
	queueF   *types.Var
	comments *types.Func
	flush    *types.Func
	isValid  *types.Func
	decls    map[*types.Func]*ast.FuncDecl
	graphs   map[*types.Func]*FGraph
	table    map[string]bool // summary key → may leave the queue non-empty
	asked    map[string]qKey
	changed  bool
}

type qKey struct {
	fo    *types.Func
	ctx   string // one of v,i,u per parameter ("" when no Pos parameter is tested)
	entry bool
}

func (k qKey) String() string { return fmt.Sprintf("%p/%s/%v", k.fo, k.ctx, k.entry) }

type qFact struct {
	dirty bool
	dead  bool
}

func newQueueAnalysis(si *syntaxInfo) *queueAnalysis {
	pkg := si.pkg
	qa := &queueAnalysis{si: si, info: pkg.TypesInfo, printerT: lookupType(pkg, "Printer"),
		comments: lookupFunc(pkg, "Printer.comments"), flush: lookupFunc(pkg, "Printer.flushComments"), isValid: lookupFunc(pkg, "Pos.IsValid"),
		decls: map[*types.Func]*ast.FuncDecl{}, graphs: map[*types.Func]*FGraph{}, table: map[string]bool{}, asked: map[string]qKey{}}
	if qa.printerT == nil {
		return nil
	}
	st := qa.printerT.Underlying().(*types.Struct)
	for i := 0; i < st.NumFields(); i++ {
		if st.Field(i).Name() == "pendingComments" {
			qa.queueF = st.Field(i)
		}
	}
	for _, f := range pkg.Syntax {
		if strings.HasSuffix(pkg.Fset.Position(f.Pos()).Filename, "_test.go") {
			continue
		}
		for _, d := range f.Decls {
			if fd, ok := d.(*ast.FuncDecl); ok && fd.Body != nil && recvTypeName(fd) == "Printer" {
				if fo, ok := qa.info.Defs[fd.Name].(*types.Func); ok {
					qa.decls[fo] = fd
				}
			}
		}
	}
	if qa.queueF == nil || qa.comments == nil || qa.flush == nil || qa.isValid == nil {
		return nil
	}
	return qa
}

func (qa *queueAnalysis) graph(fo *types.Func) *FGraph {
	if g, ok := qa.graphs[fo]; ok {
		return g
	}
	g := NewFGraph(qa.info, qa.decls[fo].Body, nil)
	qa.graphs[fo] = g
	return g
}

// recvObj returns the receiver variable of a printer method.
func (qa *queueAnalysis) recvObj(fd *ast.FuncDecl) types.Object {
	if fd.Recv == nil || len(fd.Recv.List) == 0 || len(fd.Recv.List[0].Names) == 0 {
		return nil
	}
	return qa.info.Defs[fd.Recv.List[0].Names[0]]
}

// paramIndex returns the index of the parameter obj names in fd, or -1.
func (qa *queueAnalysis) paramIndex(fd *ast.FuncDecl, obj types.Object) int {
	i := 0
	for _, f := range fd.Type.Params.List {
		for _, nm := range f.Names {
			if qa.info.Defs[nm] == obj {
				return i
			}
			i++
		}
		if len(f.Names) == 0 {
			i++
		}
	}
	return -1
}

func (qa *queueAnalysis) nParams(fd *ast.FuncDecl) int {
	n := 0
	for _, f := range fd.Type.Params.List {
		if len(f.Names) == 0 {
			n++
		}
		n += len(f.Names)
	}
	return n
}

// testedParams: the parameters of fd on which the body calls IsValid.
func (qa *queueAnalysis) testedParams(fd *ast.FuncDecl) map[int]bool {
	out := map[int]bool{}
	ast.Inspect(fd.Body, func(n ast.Node) bool {
		if c, ok := n.(*ast.CallExpr); ok {
			if callee := calleeOf(qa.info, c); callee != nil && callee.Origin() == qa.isValid {
				if se, ok := ast.Unparen(c.Fun).(*ast.SelectorExpr); ok {
					if id, ok := ast.Unparen(se.X).(*ast.Ident); ok {
						if i := qa.paramIndex(fd, qa.info.ObjectOf(id)); i >= 0 {
							out[i] = true
						}
					}
				}
			}
		}
		return true
	})
	return out
}

// argValidity classifies a position argument: v (a position field of a node), i (the literal Pos{}), u (anything else);
// a parameter of the caller takes the caller's own classification.
func (qa *queueAnalysis) argValidity(caller *ast.FuncDecl, callerCtx string, arg ast.Expr) byte {
	arg = ast.Unparen(arg)
	switch x := arg.(type) {
	case *ast.CompositeLit:
		if len(x.Elts) == 0 && typeName(qa.info.TypeOf(x)) == "Pos" {
			return 'i'
		}
	case *ast.SelectorExpr:
		if fv := selectorField(qa.info, x); fv != nil && typeName(fv.Type()) == "Pos" {
			if nt := namedOf(qa.info.TypeOf(x.X)); nt != nil && qa.si.isNode[nt.Obj()] {
				return 'v'
			}
		}
	case *ast.Ident:
		if i := qa.paramIndex(caller, qa.info.ObjectOf(x)); i >= 0 && i < len(callerCtx) {
			return callerCtx[i]
		}
	}
	return 'u'
}

// summary: may fo, entered with the queue (non-)empty as entry says, return with it non-empty?
func (qa *queueAnalysis) summary(k qKey) bool {
	ks := k.String()
	if _, ok := qa.asked[ks]; !ok {
		qa.asked[ks] = k
		qa.changed = true
	}
	return qa.table[ks]
}

// flow runs the dataflow over fo under k and returns the result; callers read the exit fact or the fact at a node.
func (qa *queueAnalysis) flow(k qKey) *flowResult[qFact] {
	fd := qa.decls[k.fo]
	g := qa.graph(k.fo)
	recv := qa.recvObj(fd)
	onRecv := func(e ast.Expr) bool {
		id, ok := ast.Unparen(e).(*ast.Ident)
		return ok && recv != nil && qa.info.ObjectOf(id) == recv
	}
	queueSel := func(e ast.Expr) bool {
		se, ok := ast.Unparen(e).(*ast.SelectorExpr)
		return ok && selectorField(qa.info, se) == qa.queueF && onRecv(se.X)
	}
	node := func(f qFact, n ast.Node) qFact {
		if f.dead {
			return f
		}
		// calls in source order, then the statement's own effect on the queue field
		var calls []*ast.CallExpr
		inspectNoLit(n, func(m ast.Node) bool {
			if c, ok := m.(*ast.CallExpr); ok {
				calls = append(calls, c)
			}
			return true
		})
		sort.SliceStable(calls, func(i, j int) bool { return calls[i].End() < calls[j].End() })
		for _, c := range calls {
			callee := calleeOf(qa.info, c)
			if callee == nil {
				continue
			}
			callee = callee.Origin()
			se, ok := ast.Unparen(c.Fun).(*ast.SelectorExpr)
			if !ok || !onRecv(se.X) {
				continue // another printer's queue, or not a method of this printer
			}
			switch {
			case callee == qa.comments:
				f.dirty = true
			case callee == qa.flush:
				f.dirty = false
			default:
				cfd := qa.decls[callee]
				if cfd == nil {
					continue
				}
				tested := qa.testedParams(cfd)
				ctx := ""
				if len(tested) > 0 {
					b := make([]byte, qa.nParams(cfd))
					for i := range b {
						b[i] = 'u'
						if tested[i] && i < len(c.Args) {
							b[i] = qa.argValidity(fd, k.ctx, c.Args[i])
						}
					}
					ctx = string(b)
				}
				f.dirty = qa.summary(qKey{callee, ctx, f.dirty})
			}
		}
		if as, ok := n.(*ast.AssignStmt); ok && len(as.Lhs) == len(as.Rhs) {
			for i, l := range as.Lhs {
				if !queueSel(l) {
					continue
				}
				rhs := ast.Unparen(as.Rhs[i])
				switch {
				case isNilIdent(qa.info, rhs):
					f.dirty = false
				case isEmptyReslice(rhs, queueSel):
					f.dirty = false
				default:
					f.dirty = true
					if id, ok := rhs.(*ast.Ident); ok {
						// a copy of the queue taken on entry brings the entry state back
						if def := singleDef(qa.info, fd, qa.info.ObjectOf(id)); def != nil && queueSel(def) {
							f.dirty = k.entry
						}
					}
				}
			}
		}
		return f
	}
	edge := func(f qFact, e *FEdge) qFact {
		if f.dead || e.Cond == nil || e.Tag != nil || e.TypeCase {
			return f
		}
		cond := ast.Unparen(e.Cond)
		// len(p.pendingComments) > 0 / == 0 / != 0
		if be, ok := cond.(*ast.BinaryExpr); ok {
			if c, ok := ast.Unparen(be.X).(*ast.CallExpr); ok && len(c.Args) == 1 && queueSel(c.Args[0]) {
				if id, ok := ast.Unparen(c.Fun).(*ast.Ident); ok && id.Name == "len" {
					if tv, has := qa.info.Types[be.Y]; has && tv.Value != nil && tv.Value.ExactString() == "0" {
						empty := (be.Op == token.GTR && !e.Pol) || (be.Op == token.NEQ && !e.Pol) || (be.Op == token.EQL && e.Pol)
						if empty {
							f.dirty = false
						}
					}
				}
			}
			return f
		}
		// <param>.IsValid()
		if c, ok := cond.(*ast.CallExpr); ok {
			if callee := calleeOf(qa.info, c); callee != nil && callee.Origin() == qa.isValid {
				if se, ok := ast.Unparen(c.Fun).(*ast.SelectorExpr); ok {
					if id, ok := ast.Unparen(se.X).(*ast.Ident); ok {
						if i := qa.paramIndex(fd, qa.info.ObjectOf(id)); i >= 0 && i < len(k.ctx) {
							switch k.ctx[i] {
							case 'v':
								if !e.Pol {
									f.dead = true
								}
							case 'i':
								if e.Pol {
									f.dead = true
								}
							}
						}
					}
				}
			}
		}
		return f
	}
	return runForward(g, flowSpec[qFact]{
		Init: qFact{dirty: k.entry},
		Join: func(a, b qFact) qFact {
			if a.dead {
				return b
			}
			if b.dead {
				return a
			}
			return qFact{dirty: a.dirty || b.dirty}
		},
		Equal: func(a, b qFact) bool { return a == b },
		Node:  node,
		Edge:  edge,
	})
}

func isEmptyReslice(e ast.Expr, isQueue func(ast.Expr) bool) bool {
	se, ok := e.(*ast.SliceExpr)
	if !ok || !isQueue(se.X) || se.High == nil {
		return false
	}
	bl, ok := ast.Unparen(se.High).(*ast.BasicLit)
	return ok && bl.Value == "0"
}

// solve iterates the asked summaries to the least fixpoint.
func (qa *queueAnalysis) solve() {
	for round := 0; round < 200; round++ {
		qa.changed = false
		var keys []string
		for ks := range qa.asked {
			keys = append(keys, ks)
		}
		sort.Strings(keys)
		for _, ks := range keys {
			k := qa.asked[ks]
			res := qa.flow(k)
			g := qa.graph(k.fo)
			out := false
			if f, ok := res.in[g.Exit]; ok && res.has[g.Exit] && !f.dead {
				out = f.dirty
			}
			if out && !qa.table[ks] {
				qa.table[ks] = true
				qa.changed = true
			}
		}
		if !qa.changed {
			return
		}
	}
}

func checkQueueEmptyWhenOverwritten(p *Prog, r *Result, si *syntaxInfo, rule string) {
	qa := newQueueAnalysis(si)
	if qa == nil {
		r.Fatalf("anchors Printer.pendingComments / comments / flushComments / Pos.IsValid not found")
		return
	}
	info := qa.info
	var fos []*types.Func
	for fo := range qa.decls {
		fos = append(fos, fo)
	}
	sort.Slice(fos, func(i, j int) bool { return qa.decls[fos[i]].Pos() < qa.decls[fos[j]].Pos() })
	type ob struct {
		fo   *types.Func
		node ast.Node
		key  string
		kind string // "store" or "dropped"
		call *ast.CallExpr
	}
	var obs []ob
	for _, fo := range fos {
		fd := qa.decls[fo]
		recv := qa.recvObj(fd)
		onRecv := func(e ast.Expr) bool {
			id, ok := ast.Unparen(e).(*ast.Ident)
			return ok && recv != nil && info.ObjectOf(id) == recv
		}
		inspectNoLit(fd.Body, func(n ast.Node) bool {
			switch x := n.(type) {
			case *ast.AssignStmt:
				if len(x.Lhs) != len(x.Rhs) {
					return true
				}
				for i, l := range x.Lhs {
					se, ok := ast.Unparen(l).(*ast.SelectorExpr)
					if !ok || selectorField(info, se) != qa.queueF || !onRecv(se.X) {
						continue
					}
					rhs := ast.Unparen(x.Rhs[i])
					if isNilIdent(info, rhs) {
						continue // emptying is R05c's
					}
					if mentionsField(info, rhs, qa.queueF) {
						continue // append / reslice of the queue itself
					}
					obs = append(obs, ob{fo, x, fmt.Sprintf("%s#p.pendingComments = %s overwrites an empty queue", funcKey("syntax", fd), exprString(rhs)), "store", nil})
				}
			case *ast.CallExpr:
				// a call on another Printer held in a field of this one: its queue is never read back
				se, ok := ast.Unparen(x.Fun).(*ast.SelectorExpr)
				if !ok {
					return true
				}
				inner, ok := ast.Unparen(se.X).(*ast.SelectorExpr)
				if !ok || !onRecv(inner.X) || namedOf(info.TypeOf(inner)) != qa.printerT {
					return true
				}
				if callee := calleeOf(info, x); callee != nil && qa.decls[callee.Origin()] != nil {
					obs = append(obs, ob{fo, x, fmt.Sprintf("%s#%s.%s leaves the throw-away printer's queue empty", funcKey("syntax", fd), exprString(inner), callee.Name()), "dropped", x})
				}
			}
			return true
		})
	}
	// first pass asks for the summaries, solve, second pass reads the facts
	eval := func(o ob) (bool, bool) {
		fd := qa.decls[o.fo]
		if o.kind == "dropped" {
			callee := calleeOf(info, o.call).Origin()
			cfd := qa.decls[callee]
			tested := qa.testedParams(cfd)
			ctx := ""
			if len(tested) > 0 {
				b := make([]byte, qa.nParams(cfd))
				for i := range b {
					b[i] = 'u'
					if tested[i] && i < len(o.call.Args) {
						b[i] = qa.argValidity(fd, "", o.call.Args[i])
					}
				}
				ctx = string(b)
			}
			return !qa.summary(qKey{callee, ctx, false}), true
		}
		res := qa.flow(qKey{o.fo, "", true})
		f, ok := res.Before(o.node)
		if !ok {
			return false, false
		}
		// the calls inside the statement itself come before the store
		return f.dead || !f.dirty, true
	}
	for _, o := range obs {
		eval(o)
	}
	qa.solve()
	for _, o := range obs {
		clean, found := eval(o)
		if !found {
			r.Undecided(rule, o.key, o.node.Pos(), "the statement was not found in the function's flow graph")
			continue
		}
		if o.kind == "dropped" {
			r.Check(clean, rule, o.key, o.node.Pos(), "entered with an empty queue, the callee returns with an empty queue on every path (every comment it queues is flushed before it returns)",
				"the callee may return with comments still queued on the throw-away printer, whose queue is never read again: a comment inside a command substitution in a `<<-` body is dropped")
		} else {
			r.Check(clean, rule, o.key, o.node.Pos(), "on every path to the store the queue is empty: each call since it was emptied flushes whatever it queues",
				"the queue may still hold comments when it is overwritten: a call made since the queue was set aside can return with a comment queued (for instance a command substitution inside a here-document body whose closing flush is conditional), and the store discards it")
		}
	}
	n := 0
	for _, v := range qa.table {
		if v {
			n++
		}
	}
	r.Notef("%s: %d summaries computed over %d printer methods, %d may leave comments queued", rule, len(qa.asked), len(qa.decls), n)
}

func mentionsField(info *types.Info, e ast.Expr, f *types.Var) bool {
	found := false
	ast.Inspect(e, func(n ast.Node) bool {
		if se, ok := n.(*ast.SelectorExpr); ok && selectorField(info, se) == f {
			found = true
		}
		return true
	})
	return found
}
