package main

import (
	"fmt"
	"go/ast"
	"go/token"
	"go/types"
	"strings"

	"golang.org/x/tools/go/packages"
)

// R08h / R06o: doHeredocs consumes the newline it is called on and reads on into the first body. With no here-document
// pending that read is one byte past the end of the line: a streaming reader (a pipe, a terminal) blocks until more
// input arrives, StmtsSeq holds back a finished statement and InteractiveSeq calls it incomplete. So the body reader
// reads only when a body is pending: either doHeredocs itself returns before touching the input when
// p.heredocs[p.buriedHdocs:] is empty, or every one of its call sites is dominated by a test that it is not.
func checkBodyReaderNeedsBody(p *Prog, r *Result, pkg *packages.Package, rule string) int {
	info := pkg.TypesInfo
	fd := p.FuncDecl("syntax", "Parser.doHeredocs")
	if fd == nil {
		r.Fatalf("%s: anchor Parser.doHeredocs not found", rule)
		return 0
	}
	self, _ := info.Defs[fd.Name].(*types.Func)
	isPending := func(e ast.Expr, aliases map[types.Object]token.Pos) bool {
		// len(p.heredocs[p.buriedHdocs:]) or len(alias)
		c, ok := ast.Unparen(e).(*ast.CallExpr)
		if !ok || len(c.Args) != 1 {
			return false
		}
		if id, ok := ast.Unparen(c.Fun).(*ast.Ident); !ok || id.Name != "len" {
			return false
		}
		arg := ast.Unparen(c.Args[0])
		if id, ok := arg.(*ast.Ident); ok {
			// the name still stands for the pending list: it was not assigned again before this test
			until, ok := aliases[info.ObjectOf(id)]
			return ok && (until == token.NoPos || id.Pos() < until)
		}
		se, ok := arg.(*ast.SliceExpr)
		return ok && exprString(se.X) == "p.heredocs" && se.Low != nil && exprString(se.Low) == "p.buriedHdocs" && se.High == nil
	}
	isLenAll := func(e ast.Expr) bool {
		c, ok := ast.Unparen(e).(*ast.CallExpr)
		if !ok || len(c.Args) != 1 {
			return false
		}
		id, ok := ast.Unparen(c.Fun).(*ast.Ident)
		return ok && id.Name == "len" && exprString(c.Args[0]) == "p.heredocs"
	}
	// the edge says "a here-document is pending"
	pendingEdge := func(aliases map[types.Object]token.Pos) func(e *FEdge) bool {
		return func(e *FEdge) bool {
			be, ok := ast.Unparen(e.Cond).(*ast.BinaryExpr)
			if !ok || e.Tag != nil {
				return false
			}
			x, y, op := be.X, be.Y, be.Op
			zero := func(v ast.Expr) bool {
				tv, ok := info.Types[v]
				return ok && tv.Value != nil && tv.Value.ExactString() == "0"
			}
			flip := map[token.Token]token.Token{token.LSS: token.GTR, token.GTR: token.LSS, token.LEQ: token.GEQ, token.GEQ: token.LEQ, token.EQL: token.EQL, token.NEQ: token.NEQ}
			if zero(x) || exprString(x) == "p.buriedHdocs" {
				x, y, op = y, x, flip[op]
			}
			switch {
			case isPending(x, aliases) && zero(y):
				// len(pending) > 0, != 0 taken; == 0, <= 0 not taken
				return ((op == token.GTR || op == token.NEQ) && e.Pol) || ((op == token.EQL || op == token.LEQ) && !e.Pol)
			case isLenAll(x) && exprString(y) == "p.buriedHdocs":
				return ((op == token.GTR || op == token.NEQ) && e.Pol) || ((op == token.EQL || op == token.LEQ) && !e.Pol)
			}
			return false
		}
	}
	// inside: every read of input in doHeredocs is past the test
	aliases := map[types.Object]token.Pos{}
	inspectNoLit(fd.Body, func(n ast.Node) bool {
		as, ok := n.(*ast.AssignStmt)
		if !ok || len(as.Lhs) != 1 || len(as.Rhs) != 1 {
			return true
		}
		id, ok := as.Lhs[0].(*ast.Ident)
		if !ok {
			return true
		}
		o := info.ObjectOf(id)
		se, ok := ast.Unparen(as.Rhs[0]).(*ast.SliceExpr)
		if ok && as.Tok == token.DEFINE && exprString(se.X) == "p.heredocs" && se.Low != nil && exprString(se.Low) == "p.buriedHdocs" && se.High == nil {
			aliases[o] = token.NoPos
		} else if _, was := aliases[o]; was && aliases[o] == token.NoPos {
			aliases[o] = as.Pos()
		}
		return true
	})
	g := NewFGraph(info, fd.Body, nil)
	guardedInside := true
	reads := 0
	inspectNoLit(fd.Body, func(n ast.Node) bool {
		c, ok := n.(*ast.CallExpr)
		if !ok {
			return true
		}
		callee := calleeOf(info, c)
		if callee == nil || callee.Pkg() != pkg.Types {
			return true
		}
		if sig := callee.Type().(*types.Signature); sig.Recv() == nil || recvNamed(sig) != "Parser" {
			return true
		}
		reads++
		blk := blockContaining(g, c)
		if blk == nil || !underEdges(g, blk, pendingEdge(aliases)) {
			guardedInside = false
		}
		return true
	})
	n := 0
	if reads > 0 && guardedInside {
		n++
		r.OK(rule, funcKey("syntax", fd)+"#reads input only with a here-document pending", fd.Pos(),
			fmt.Sprintf("all %d calls into the parser are past the test that p.heredocs[p.buriedHdocs:] is not empty: callers need not test", reads))
	}
	// the other end: once the last body is read, nothing more is. Inside the loop over the pending bodies, no rune is
	// read on a path from the store of a body (x.Hdoc = …) to the end of that iteration: the newline that ends the line
	// of the stop word is consumed before the next body, if there is one, and otherwise left for the caller's next
	// token — reading it would ask the reader for the byte after the line.
	{
		runeFn := lookupFunc(pkg, "Parser.rune")
		after := ""
		stores := 0
		for _, b := range g.Blocks {
			for i, nd := range b.Nodes {
				as, ok := nd.(*ast.AssignStmt)
				if !ok {
					continue
				}
				isBody := false
				for _, l := range as.Lhs {
					if se, ok := ast.Unparen(l).(*ast.SelectorExpr); ok && se.Sel.Name == "Hdoc" {
						isBody = true
					}
				}
				if !isBody {
					continue
				}
				stores++
				reads := func(nd ast.Node) bool {
					for _, c := range nodeCalls(nd) {
						if calleeOf(info, c) == runeFn {
							return true
						}
					}
					return false
				}
				for _, later := range b.Nodes[i+1:] {
					if reads(later) {
						after = p.Position(later.Pos())
					}
				}
				for rb := range g.Reachable(b, func(e *FEdge) bool { return !e.Back }) {
					if rb == b {
						continue
					}
					for _, nd2 := range rb.Nodes {
						if reads(nd2) {
							after = p.Position(nd2.Pos())
						}
					}
				}
			}
		}
		if stores > 0 {
			n++
			r.Check(after == "", rule, funcKey("syntax", fd)+"#nothing is read once the last body is stored", fd.Pos(), "no call of rune() between the store of a body and the end of that iteration: the newline after a stop word is consumed only on the way to a next body",
				"doHeredocs reads a rune after storing a body, in the same iteration ("+after+"): after the last body that is the byte following the line of the stop word, which a pipe or terminal has not delivered yet — the statement is held back and called incomplete until another line arrives")
		}
	}
	for _, cfd := range p.AllFuncDecls("syntax") {
		if cfd.Body == nil {
			continue
		}
		k := 0
		var lits []*ast.FuncLit
		ast.Inspect(cfd.Body, func(m ast.Node) bool {
			if fl, ok := m.(*ast.FuncLit); ok {
				lits = append(lits, fl)
			}
			c, ok := m.(*ast.CallExpr)
			if !ok || calleeOf(info, c) != self {
				return true
			}
			// the innermost function body holding the call
			body := cfd.Body
			for _, fl := range lits {
				if fl.Pos() <= c.Pos() && c.End() <= fl.End() {
					body = fl.Body
				}
			}
			var cg *FGraph
			k++
			key := fmt.Sprintf("%s#call %d of doHeredocs has a here-document pending", funcKey("syntax", cfd), k)
			n++
			if guardedInside {
				r.OK(rule, key, c.Pos(), "doHeredocs tests it itself before reading")
				return true
			}
			cg = NewFGraph(info, body, nil)
			blk := blockContaining(cg, c)
			// the caller queued one itself on every path here
			queued := false
			if blk != nil {
				queued, _ = cg.MustPass(cg.Entry, -1, blk, func(m ast.Node) bool {
					as, ok := m.(*ast.AssignStmt)
					if !ok || len(as.Lhs) != 1 || len(as.Rhs) != 1 || exprString(as.Lhs[0]) != "p.heredocs" {
						return false
					}
					ac, ok := ast.Unparen(as.Rhs[0]).(*ast.CallExpr)
					if !ok || len(ac.Args) < 2 || exprString(ac.Args[0]) != "p.heredocs" {
						return false
					}
					id, ok := ast.Unparen(ac.Fun).(*ast.Ident)
					return ok && id.Name == "append"
				}, nil)
			}
			if queued {
				r.OK(rule, key, c.Pos(), "the caller appended a here-document to p.heredocs on every path to the call")
				return true
			}
			r.Check(blk != nil && underEdges(cg, blk, pendingEdge(nil)), rule, key, c.Pos(), "dominated by a test that len(p.heredocs) exceeds p.buriedHdocs",
				"doHeredocs reads past the newline without testing that a here-document is pending, and this call does not test it either: after a line with none, the parser asks the reader for one more byte — a pipe or terminal blocks, StmtsSeq holds back the finished statement and InteractiveSeq reports it as incomplete")
			return true
		})
	}
	return n
}

func recvNamed(sig *types.Signature) string {
	if sig.Recv() == nil {
		return ""
	}
	if nt := namedOf(sig.Recv().Type()); nt != nil {
		return nt.Obj().Name()
	}
	return ""
}

// R08j: a function that hands bytes from a buffer of its own to a caller-supplied slice has handed over what `copy`
// says it copied — the destination may be shorter than the source (fill() passes the tail of the read buffer, which is
// a byte or three short when the lexer kept unread bytes). Dropping len(source) bytes from the buffer while returning
// copy(dst, source) loses the difference. So wherever a function of the module copies into a []byte parameter, no
// reslice in that function drops `len(<the copied expression>)` bytes: the amount dropped is the copy's result.
func checkCopiedAmountConsumed(p *Prog, r *Result, rule string) int {
	n := 0
	for _, rel := range []string{"syntax", "interp", "expand", "fileutil", "cmd/shfmt", "pattern"} {
		pkg := p.Pkg(rel)
		if pkg == nil {
			continue
		}
		info := pkg.TypesInfo
		for _, fd := range p.AllFuncDecls(rel) {
			if fd.Body == nil || fd.Type.Params == nil || strings.HasSuffix(p.Position(fd.Pos()), "_test.go") {
				continue
			}
			params := map[types.Object]bool{}
			for _, fl := range fd.Type.Params.List {
				if sl, ok := info.TypeOf(fl.Type).Underlying().(*types.Slice); ok {
					if bt, ok := sl.Elem().Underlying().(*types.Basic); ok && bt.Kind() == types.Uint8 {
						for _, nm := range fl.Names {
							params[info.ObjectOf(nm)] = true
						}
					}
				}
			}
			if len(params) == 0 {
				continue
			}
			k := 0
			inspectNoLit(fd.Body, func(m ast.Node) bool {
				c, ok := m.(*ast.CallExpr)
				if !ok || !isBuiltinCall(info, c, "copy") || len(c.Args) != 2 {
					return true
				}
				id, ok := ast.Unparen(c.Args[0]).(*ast.Ident)
				if !ok || !params[info.ObjectOf(id)] {
					return true
				}
				src := exprString(c.Args[1])
				k++
				n++
				key := fmt.Sprintf("%s#copy %d into %s: what is dropped from the source is what was copied", funcKey(rel, fd), k, id.Name)
				bad := token.NoPos
				inspectNoLit(fd.Body, func(q ast.Node) bool {
					as, ok := q.(*ast.AssignStmt)
					if !ok || len(as.Lhs) != 1 || len(as.Rhs) != 1 {
						return true
					}
					se, ok := ast.Unparen(as.Rhs[0]).(*ast.SliceExpr)
					if !ok || se.Low == nil || exprString(se.X) != exprString(as.Lhs[0]) {
						return true
					}
					ast.Inspect(se.Low, func(z ast.Node) bool {
						if lc, ok := z.(*ast.CallExpr); ok && isBuiltinCall(info, lc, "len") && len(lc.Args) == 1 && exprString(lc.Args[0]) == src {
							bad = as.Pos()
						}
						return true
					})
					return true
				})
				r.Check(bad == token.NoPos, rule, key, c.Pos(), "no reslice in the function drops len("+src+") bytes",
					fmt.Sprintf("the function copies %s into the caller's slice and drops len(%s) bytes from its own buffer (at %s): when the destination is shorter than the source — fill() hands over the tail of the read buffer, which is up to three bytes short when unread bytes were kept — the bytes that did not fit are lost", src, src, p.Position(bad)))
				return true
			})
		}
	}
	return n
}
