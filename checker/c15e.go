package main

import (
	"fmt"
	"go/ast"
	"go/token"
	"go/types"
	"strings"
)

// R15e: the decoder refuses on shape, never on value. Encode writes whatever unsigned numbers a tree holds (a position
// keeps a zero line or column for very long lines, an operator is any declared constant), so an error return in the
// decoder that is decided by comparing a decoded number with a constant rejects trees Encode produced. Every `return`
// of a non-nil error in the decode functions of package typedjson is examined: no condition on the path that guards
// it (enclosing ifs and case clauses) may compare a numeric, non-constant operand other than len(…)/Kind()/NumField()
// with a constant. Range checks belong in the conversion helper (jsonUint), whose bound is the wire format's.
func checkDecoderRefusals(p *Prog, r *Result, rule string) {
	pkg := p.Pkg("syntax/typedjson")
	if pkg == nil {
		r.Fatalf("package syntax/typedjson not loaded")
		return
	}
	info := pkg.TypesInfo
	n := 0
	for _, fd := range p.AllFuncDecls("syntax/typedjson") {
		if !strings.HasPrefix(strings.ToLower(fd.Name.Name), "decode") {
			continue
		}
		var visit func(node ast.Node, conds []ast.Expr)
		seen := map[string]int{}
		visit = func(node ast.Node, conds []ast.Expr) {
			switch x := node.(type) {
			case *ast.IfStmt:
				if x.Init != nil {
					visit(x.Init, conds)
				}
				visit(x.Body, append(conds[:len(conds):len(conds)], x.Cond))
				if x.Else != nil {
					visit(x.Else, conds)
				}
				return
			case *ast.FuncLit:
				return
			case *ast.ReturnStmt:
				isErr := false
				for _, res := range x.Results {
					if t := info.TypeOf(res); t != nil && t.String() == "error" && !isNilIdent(info, res) {
						if _, isCall := ast.Unparen(res).(*ast.CallExpr); isCall {
							isErr = true // a freshly made error (fmt.Errorf, errors.New); `return err` propagates
						}
					}
				}
				if !isErr {
					return
				}
				n++
				bad := ""
				for _, c := range conds {
					ast.Inspect(c, func(m ast.Node) bool {
						b, ok := m.(*ast.BinaryExpr)
						if !ok {
							return true
						}
						switch b.Op {
						case token.EQL, token.NEQ, token.LSS, token.GTR, token.LEQ, token.GEQ:
						default:
							return true
						}
						for _, pair := range [][2]ast.Expr{{b.X, b.Y}, {b.Y, b.X}} {
							v, k := pair[0], pair[1]
							tk, okk := info.Types[k]
							tv, okv := info.Types[v]
							if !okk || !okv || tk.Value == nil || tv.Value != nil {
								continue
							}
							bt, isBasic := tv.Type.Underlying().(*types.Basic)
							if !isBasic || bt.Info()&types.IsNumeric == 0 {
								continue
							}
							if call, ok := ast.Unparen(v).(*ast.CallExpr); ok {
								if isBuiltinCall(info, call, "len") {
									continue
								}
								if sel, ok := call.Fun.(*ast.SelectorExpr); ok && (sel.Sel.Name == "Kind" || sel.Sel.Name == "NumField" || sel.Sel.Name == "Len") {
									continue
								}
							}
							if named := namedOf(tv.Type); named != nil && named.Obj().Name() == "Kind" {
								continue
							}
							// state of the decoder itself (a nesting depth kept in the receiver) is not a decoded number
							if sel, ok := ast.Unparen(v).(*ast.SelectorExpr); ok && fd.Recv != nil && len(fd.Recv.List) > 0 && len(fd.Recv.List[0].Names) > 0 {
								if id, ok := ast.Unparen(sel.X).(*ast.Ident); ok && info.ObjectOf(id) == info.Defs[fd.Recv.List[0].Names[0]] {
									continue
								}
							}
							bad = exprString(b)
						}
						return true
					})
				}
				key := fmt.Sprintf("%s#refusal %s", funcKey("syntax/typedjson", fd), shortExpr(x.Results[len(x.Results)-1]))
				seen[key]++
				if seen[key] > 1 {
					key += fmt.Sprintf("#%d", seen[key])
				}
				r.Check(bad == "", rule, key, x.Pos(), "decided by the shape of the JSON value, not by comparing a decoded number with a constant",
					"the decoder refuses when "+bad+": Encode writes such numbers (a zero line or column is kept for positions past the limits), so Decode rejects trees Encode produced")
				return
			}
			ast.Inspect(node, func(m ast.Node) bool {
				if m == node || m == nil {
					return true
				}
				switch m.(type) {
				case *ast.IfStmt, *ast.ReturnStmt, *ast.FuncLit:
					visit(m, conds)
					return false
				}
				return true
			})
		}
		visit(fd.Body, nil)
	}
	if n == 0 {
		r.Undecided(rule, "syntax/typedjson#decoder refusals", token.NoPos, "no error returns found in decode* functions")
	}
}

// R15f: a pointer to a struct with nothing set (`Repl: &Replace{}` for `${a/}`) is not a nil pointer, so the encoder
// must write something for every struct it reaches: in encodeValue's switch over the kind, the clause for
// reflect.Struct ends in a return on every path — no break, no falling out to the "no value" return that empty
// strings, false and nil share.
func checkStructAlwaysEncoded(p *Prog, r *Result, rule string) {
	pkg := p.Pkg("syntax/typedjson")
	info := pkg.TypesInfo
	fd := p.FuncOrMethodDecl("syntax/typedjson", "encodeValue")
	if fd == nil {
		r.Fatalf("typedjson.encodeValue not found")
		return
	}
	found := false
	ast.Inspect(fd.Body, func(n ast.Node) bool {
		sw, ok := n.(*ast.SwitchStmt)
		if !ok || found {
			return true
		}
		for _, s := range sw.Body.List {
			cc := s.(*ast.CaseClause)
			isStruct := false
			for _, e := range cc.List {
				if sel, ok := ast.Unparen(e).(*ast.SelectorExpr); ok && sel.Sel.Name == "Struct" {
					if c, ok := info.ObjectOf(sel.Sel).(*types.Const); ok && c.Pkg() != nil && c.Pkg().Path() == "reflect" {
						isStruct = true
					}
				}
			}
			if !isStruct {
				continue
			}
			found = true
			falls := len(cc.Body) == 0
			if !falls {
				if _, ok := cc.Body[len(cc.Body)-1].(*ast.ReturnStmt); !ok {
					falls = true
				}
			}
			// a break that leaves the switch: not inside a nested for/switch/select/function
			var hasBreak func(n ast.Node) bool
			hasBreak = func(n ast.Node) bool {
				out := false
				ast.Inspect(n, func(m ast.Node) bool {
					switch y := m.(type) {
					case *ast.ForStmt, *ast.RangeStmt, *ast.SwitchStmt, *ast.TypeSwitchStmt, *ast.SelectStmt, *ast.FuncLit:
						if m != n {
							return false
						}
					case *ast.BranchStmt:
						if y.Tok == token.BREAK && y.Label == nil {
							out = true
						}
					}
					return true
				})
				return out
			}
			for _, st := range cc.Body {
				if hasBreak(st) {
					falls = true
				}
			}
			r.Check(!falls, rule, "syntax/typedjson.encodeValue#case reflect.Struct always returns a value", cc.Pos(), "the clause ends in a return and has no break out of the switch",
				"some path through the struct clause leaves the switch and returns no value: a non-nil pointer to a struct with nothing set (`${a/}` has Repl: &Replace{}) is encoded like a nil pointer and decodes to one")
		}
		return true
	})
	if !found {
		r.Undecided(rule, "syntax/typedjson.encodeValue#case reflect.Struct", fd.Pos(), "no clause for reflect.Struct found in encodeValue")
	}
}

// R15g: a field that a function of package typedjson increments and also decrements is a depth/balance counter: every
// path from the increment to a return passes the decrement (or a defer that holds it was registered first). A leaked
// level per decoded value turns a nesting guard into a limit on the size of flat documents. No such counter exists on
// the pinned tree; the rule is kept armed by a control.
func checkBalancedCounters(p *Prog, r *Result, rel, rule string) {
	pkg := p.Pkg(rel)
	info := pkg.TypesInfo
	n := 0
	for _, fd := range p.AllFuncDecls(rel) {
		var incs []*ast.IncDecStmt
		decOf := map[*types.Var]bool{}
		inspectNoLit(fd.Body, func(nd ast.Node) bool {
			if s, ok := nd.(*ast.IncDecStmt); ok {
				if fv := selectorField(info, s.X); fv != nil {
					if s.Tok == token.INC {
						incs = append(incs, s)
					} else {
						decOf[fv] = true
					}
				}
			}
			return true
		})
		// decrements inside deferred literals
		deferDec := map[*types.Var]ast.Node{}
		inspectNoLit(fd.Body, func(nd ast.Node) bool {
			if ds, ok := nd.(*ast.DeferStmt); ok {
				ast.Inspect(ds, func(m ast.Node) bool {
					if s, ok := m.(*ast.IncDecStmt); ok && s.Tok == token.DEC {
						if fv := selectorField(info, s.X); fv != nil {
							deferDec[fv] = ds
						}
					}
					return true
				})
			}
			return true
		})
		if len(incs) == 0 {
			continue
		}
		var g *FGraph
		for _, inc := range incs {
			fv := selectorField(info, inc.X)
			if !decOf[fv] && deferDec[fv] == nil {
				continue // a plain tally, not a balanced counter
			}
			n++
			if g == nil {
				g = NewFGraph(info, fd.Body, nil)
			}
			key := funcKey(rel, fd) + "#" + fv.Name() + "++ is undone on every path"
			blk, idx := g.BlockOf(inc)
			if blk == nil {
				// an increment in an if's init statement belongs to the condition node
				blk = blockContaining(g, inc)
				idx = -1
				if blk != nil {
					for i, nd := range blk.Nodes {
						if nd.Pos() <= inc.Pos() && inc.End() <= nd.End() {
							idx = i
						}
					}
				}
			}
			if blk == nil || idx < 0 {
				r.Undecided(rule, key, inc.Pos(), "increment not found in the flow graph")
				continue
			}
			if ds := deferDec[fv]; ds != nil && ds.Pos() < inc.Pos() {
				r.OK(rule, key, inc.Pos(), "a deferred decrement was registered before the increment")
				continue
			}
			ok, _ := g.MustPass(blk, idx, g.Exit, func(nd ast.Node) bool {
				if s, ok := nd.(*ast.IncDecStmt); ok && s.Tok == token.DEC && selectorField(info, s.X) == fv {
					return true
				}
				if ds, ok := nd.(*ast.DeferStmt); ok && deferDec[fv] == ast.Node(ds) {
					return true
				}
				return false
			}, nil)
			r.Check(ok, rule, key, inc.Pos(), "every path to a return passes the decrement",
				"some path returns with the counter still incremented: each such return leaks one level, so a nesting limit becomes a limit on how many values a document may hold")
		}
	}
	if n == 0 {
		r.Notef("%s: no balanced counter in package %s today (kept armed by a control)", rule, rel)
	}
}

// R15h: Encode refuses nothing of its own. "For every parsed tree, decoding its encoding gives the tree" needs an
// encoding to exist; the only errors Encode may return are the ones handed to it by the JSON encoder or the writer. So
// every non-nil error result of Encode is a local variable of type error that was assigned from a call (propagation),
// or the call itself — never a freshly made error or a package-level error value.
func checkEncodeErrors(p *Prog, r *Result, rule string) {
	pkg := p.Pkg("syntax/typedjson")
	info := pkg.TypesInfo
	var fds []*ast.FuncDecl
	for _, fd := range p.AllFuncDecls("syntax/typedjson") {
		if fd.Name.Name == "Encode" {
			fds = append(fds, fd)
		}
	}
	if len(fds) == 0 {
		r.Undecided(rule, "syntax/typedjson#Encode", token.NoPos, "no function named Encode found")
		return
	}
	n := 0
	for _, fd := range fds {
		seen := map[string]int{}
		inspectNoLit(fd.Body, func(nd ast.Node) bool {
			rs, ok := nd.(*ast.ReturnStmt)
			if !ok || len(rs.Results) != 1 {
				return true
			}
			e := ast.Unparen(rs.Results[0])
			if isNilIdent(info, e) {
				return true
			}
			n++
			how := ""
			switch x := e.(type) {
			case *ast.CallExpr:
				fn := calleeOf(info, x)
				if fn != nil && fn.Pkg() != nil && (fn.Pkg().Path() == "fmt" || fn.Pkg().Path() == "errors") {
					how = ""
				} else {
					how = "the result of " + exprString(x.Fun)
				}
			case *ast.Ident:
				if v, ok := info.ObjectOf(x).(*types.Var); ok && v.Parent() != pkg.Types.Scope() {
					how = "a local error handed back by a call"
				}
			}
			key := funcKey("syntax/typedjson", fd) + "#returns " + shortExpr(e)
			seen[key]++
			if seen[key] > 1 {
				key += fmt.Sprintf("#%d", seen[key])
			}
			r.Check(how != "", rule, key, rs.Pos(), how,
				"Encode returns an error of its own making: some parsed tree has no encoding, so there is nothing to decode back")
			return true
		})
	}
	if n == 0 {
		r.Notef("%s: Encode returns no error", rule)
	}
}
