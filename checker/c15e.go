package main

import (
	"fmt"
	"go/ast"
	"go/token"
	"go/types"
	"strings"
)

// R15e: the decoder refuses on shape, never on value. Encode writes whatever unsigned numbers a tree holds (a position
// keeps a zero line or column for very long lines, an operator is any declared constant), so an error return in the
// decoder that is decided by comparing a decoded number with a constant rejects trees Encode produced. Every `return`
// of a non-nil error in the decode functions of package typedjson is examined: no condition on the path that guards
// it (enclosing ifs and case clauses) may compare a numeric, non-constant operand other than len(…)/Kind()/NumField()
// with a constant. Range checks belong in the conversion helper (jsonUint), whose bound is the wire format's.
func checkDecoderRefusals(p *Prog, r *Result, rule string) {
	pkg := p.Pkg("syntax/typedjson")
	if pkg == nil {
		r.Fatalf("package syntax/typedjson not loaded")
		return
	}
	info := pkg.TypesInfo
	n := 0
	for _, fd := range p.AllFuncDecls("syntax/typedjson") {
		if !strings.HasPrefix(strings.ToLower(fd.Name.Name), "decode") {
			continue
		}
		var visit func(node ast.Node, conds []ast.Expr)
		seen := map[string]int{}
		visit = func(node ast.Node, conds []ast.Expr) {
			switch x := node.(type) {
			case *ast.IfStmt:
				if x.Init != nil {
					visit(x.Init, conds)
				}
				visit(x.Body, append(conds[:len(conds):len(conds)], x.Cond))
				if x.Else != nil {
					visit(x.Else, conds)
				}
				return
			case *ast.FuncLit:
				return
			case *ast.ReturnStmt:
				isErr := false
				for _, res := range x.Results {
					if t := info.TypeOf(res); t != nil && t.String() == "error" && !isNilIdent(info, res) {
						if _, isCall := ast.Unparen(res).(*ast.CallExpr); isCall {
							isErr = true // a freshly made error (fmt.Errorf, errors.New); `return err` propagates
						}
					}
				}
				if !isErr {
					return
				}
				n++
				bad := ""
				for _, c := range conds {
					ast.Inspect(c, func(m ast.Node) bool {
						b, ok := m.(*ast.BinaryExpr)
						if !ok {
							return true
						}
						switch b.Op {
						case token.EQL, token.NEQ, token.LSS, token.GTR, token.LEQ, token.GEQ:
						default:
							return true
						}
						for _, pair := range [][2]ast.Expr{{b.X, b.Y}, {b.Y, b.X}} {
							v, k := pair[0], pair[1]
							tk, okk := info.Types[k]
							tv, okv := info.Types[v]
							if !okk || !okv || tk.Value == nil || tv.Value != nil {
								continue
							}
							bt, isBasic := tv.Type.Underlying().(*types.Basic)
							if !isBasic || bt.Info()&types.IsNumeric == 0 {
								continue
							}
							if call, ok := ast.Unparen(v).(*ast.CallExpr); ok {
								if isBuiltinCall(info, call, "len") {
									continue
								}
								if sel, ok := call.Fun.(*ast.SelectorExpr); ok && (sel.Sel.Name == "Kind" || sel.Sel.Name == "NumField" || sel.Sel.Name == "Len") {
									continue
								}
							}
							if named := namedOf(tv.Type); named != nil && named.Obj().Name() == "Kind" {
								continue
							}
							bad = exprString(b)
						}
						return true
					})
				}
				key := fmt.Sprintf("%s#refusal %s", funcKey("syntax/typedjson", fd), shortExpr(x.Results[len(x.Results)-1]))
				seen[key]++
				if seen[key] > 1 {
					key += fmt.Sprintf("#%d", seen[key])
				}
				r.Check(bad == "", rule, key, x.Pos(), "decided by the shape of the JSON value, not by comparing a decoded number with a constant",
					"the decoder refuses when "+bad+": Encode writes such numbers (a zero line or column is kept for positions past the limits), so Decode rejects trees Encode produced")
				return
			}
			ast.Inspect(node, func(m ast.Node) bool {
				if m == node || m == nil {
					return true
				}
				switch m.(type) {
				case *ast.IfStmt, *ast.ReturnStmt, *ast.FuncLit:
					visit(m, conds)
					return false
				}
				return true
			})
		}
		visit(fd.Body, nil)
	}
	if n == 0 {
		r.Undecided(rule, "syntax/typedjson#decoder refusals", token.NoPos, "no error returns found in decode* functions")
	}
}

// R15f: a pointer to a struct with nothing set (`Repl: &Replace{}` for `${a/}`) is not a nil pointer, so the encoder
// must write something for every struct it reaches: in encodeValue's switch over the kind, the clause for
// reflect.Struct ends in a return on every path — no break, no falling out to the "no value" return that empty
// strings, false and nil share.
func checkStructAlwaysEncoded(p *Prog, r *Result, rule string) {
	pkg := p.Pkg("syntax/typedjson")
	info := pkg.TypesInfo
	fd := p.FuncDecl("syntax/typedjson", "encodeValue")
	if fd == nil {
		r.Fatalf("typedjson.encodeValue not found")
		return
	}
	found := false
	ast.Inspect(fd.Body, func(n ast.Node) bool {
		sw, ok := n.(*ast.SwitchStmt)
		if !ok || found {
			return true
		}
		for _, s := range sw.Body.List {
			cc := s.(*ast.CaseClause)
			isStruct := false
			for _, e := range cc.List {
				if sel, ok := ast.Unparen(e).(*ast.SelectorExpr); ok && sel.Sel.Name == "Struct" {
					if c, ok := info.ObjectOf(sel.Sel).(*types.Const); ok && c.Pkg() != nil && c.Pkg().Path() == "reflect" {
						isStruct = true
					}
				}
			}
			if !isStruct {
				continue
			}
			found = true
			falls := len(cc.Body) == 0
			if !falls {
				if _, ok := cc.Body[len(cc.Body)-1].(*ast.ReturnStmt); !ok {
					falls = true
				}
			}
			// a break that leaves the switch: not inside a nested for/switch/select/function
			var hasBreak func(n ast.Node) bool
			hasBreak = func(n ast.Node) bool {
				out := false
				ast.Inspect(n, func(m ast.Node) bool {
					switch y := m.(type) {
					case *ast.ForStmt, *ast.RangeStmt, *ast.SwitchStmt, *ast.TypeSwitchStmt, *ast.SelectStmt, *ast.FuncLit:
						if m != n {
							return false
						}
					case *ast.BranchStmt:
						if y.Tok == token.BREAK && y.Label == nil {
							out = true
						}
					}
					return true
				})
				return out
			}
			for _, st := range cc.Body {
				if hasBreak(st) {
					falls = true
				}
			}
			r.Check(!falls, rule, "syntax/typedjson.encodeValue#case reflect.Struct always returns a value", cc.Pos(), "the clause ends in a return and has no break out of the switch",
				"some path through the struct clause leaves the switch and returns no value: a non-nil pointer to a struct with nothing set (`${a/}` has Repl: &Replace{}) is encoded like a nil pointer and decodes to one")
		}
		return true
	})
	if !found {
		r.Undecided(rule, "syntax/typedjson.encodeValue#case reflect.Struct", fd.Pos(), "no clause for reflect.Struct found in encodeValue")
	}
}
