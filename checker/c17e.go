package main

import (
	"fmt"
	"go/ast"
	"go/token"
	"go/types"
	"strings"
)

// R17f: a string that must begin with one fixed text and end with another matches only if the two are matched by
// disjoint parts of it: "ab" has the prefix "ab" and the suffix "b", and is not prefix+something+suffix. Wherever a
// function body tests strings.HasPrefix(x, p) and strings.HasSuffix(x, s) for the same x with p and s not constant,
// some comparison there relates the three lengths (len(x) - len(s) against len(p), directly or through a local), and
// the two ends are not simply trimmed off one after the other.
func checkPrefixSuffixDisjoint(p *Prog, r *Result, rule string) int {
	n := 0
	for _, rel := range []string{"internal", "pattern", "expand", "interp"} {
		pkg := p.Pkg(rel)
		if pkg == nil {
			continue
		}
		info := pkg.TypesInfo
		isStrings := func(c *ast.CallExpr, name string) bool {
			callee := calleeOf(info, c)
			return callee != nil && callee.Pkg() != nil && callee.Pkg().Path() == "strings" && callee.Name() == name
		}
		var bodies []*ast.BlockStmt
		var owners []*ast.FuncDecl
		for _, fd := range p.AllFuncDecls(rel) {
			if fd.Body == nil || strings.HasSuffix(p.Position(fd.Pos()), "_test.go") {
				continue
			}
			bodies = append(bodies, fd.Body)
			owners = append(owners, fd)
			ast.Inspect(fd.Body, func(m ast.Node) bool {
				if fl, ok := m.(*ast.FuncLit); ok {
					bodies = append(bodies, fl.Body)
					owners = append(owners, fd)
				}
				return true
			})
		}
		for bi, body := range bodies {
			// calls directly in this body (not in nested literals)
			var pre, suf []*ast.CallExpr
			inspectNoLit(body, func(m ast.Node) bool {
				if c, ok := m.(*ast.CallExpr); ok && len(c.Args) == 2 {
					if isStrings(c, "HasPrefix") {
						pre = append(pre, c)
					}
					if isStrings(c, "HasSuffix") {
						suf = append(suf, c)
					}
				}
				return true
			})
			for _, pc := range pre {
				for _, sc := range suf {
					if exprString(pc.Args[0]) != exprString(sc.Args[0]) {
						continue
					}
					if tv, ok := info.Types[pc.Args[1]]; ok && tv.Value != nil {
						continue
					}
					if tv, ok := info.Types[sc.Args[1]]; ok && tv.Value != nil {
						continue
					}
					n++
					x, pre1, suf1 := exprString(pc.Args[0]), exprString(pc.Args[1]), exprString(sc.Args[1])
					key := fmt.Sprintf("%s#%s begins with %s and ends with %s in disjoint parts", funcKey(rel, owners[bi]), x, pre1, suf1)
					// a comparison mentioning len(p) on one side and, on the other, len(x) and len(s) — possibly through a local
					lenOf := func(e ast.Expr, what string) bool {
						found := false
						ast.Inspect(e, func(k ast.Node) bool {
							if c, ok := k.(*ast.CallExpr); ok && len(c.Args) == 1 && exprString(c.Fun) == "len" && exprString(c.Args[0]) == what {
								found = true
							}
							return true
						})
						return found
					}
					expand := func(e ast.Expr) []ast.Expr {
						out := []ast.Expr{e}
						ast.Inspect(e, func(k ast.Node) bool {
							if id, ok := k.(*ast.Ident); ok {
								if obj, ok := info.ObjectOf(id).(*types.Var); ok {
									inspectNoLit(body, func(q ast.Node) bool {
										if as, ok := q.(*ast.AssignStmt); ok && len(as.Lhs) == len(as.Rhs) {
											for i, l := range as.Lhs {
												if lid, ok := l.(*ast.Ident); ok && info.ObjectOf(lid) == types.Object(obj) {
													out = append(out, as.Rhs[i])
												}
											}
										}
										return true
									})
								}
							}
							return true
						})
						return out
					}
					related := false
					inspectNoLit(body, func(k ast.Node) bool {
						be, ok := k.(*ast.BinaryExpr)
						if !ok {
							return true
						}
						switch be.Op {
						case token.LSS, token.GTR, token.LEQ, token.GEQ:
						default:
							return true
						}
						hasX, hasP, hasS := false, false, false
						for _, side := range []ast.Expr{be.X, be.Y} {
							for _, e := range expand(side) {
								hasX = hasX || lenOf(e, x)
								hasP = hasP || lenOf(e, pre1)
								hasS = hasS || lenOf(e, suf1)
							}
						}
						if hasX && hasP && hasS {
							related = true
						}
						return true
					})
					r.Check(related, rule, key, pc.Pos(), "a comparison in the same body relates len("+x+"), len("+pre1+") and len("+suf1+")",
						fmt.Sprintf("%s is tested for the prefix %s and for the suffix %s, and nothing compares the three lengths: a string in which the two overlap (prefix \"ab\", suffix \"b\", string \"ab\") passes both tests, and what is then taken as the middle is wrong — `[[ ab == ab!(x)b ]]` matches", x, pre1, suf1))
				}
			}
		}
	}
	return n
}

// R17e: the pattern lexer's position is one field today. If its next() ever keeps more than the position up to date
// (a cached previous rune, a column), every other place that moves the position has to keep those in step too — the
// globstar branch steps over `*` and `/` with a bare sl.i++. For every field of stringLexer that next() stores besides
// the position: each function that stores the position stores that field as well, on every path from the one store to
// the function's exit, or before it.
func checkLexerFieldsMoveTogether(p *Prog, r *Result, rule string) int {
	pkg := p.Pkg("pattern")
	info := pkg.TypesInfo
	lexT := lookupType(pkg, "stringLexer")
	next := p.FuncDecl("pattern", "stringLexer.next")
	if lexT == nil || next == nil {
		r.Undecided(rule, "pattern#stringLexer.next", token.NoPos, "anchors not found")
		return 0
	}
	storesOf := func(n ast.Node) map[string]bool {
		out := map[string]bool{}
		ast.Inspect(n, func(k ast.Node) bool {
			var lhs []ast.Expr
			switch x := k.(type) {
			case *ast.AssignStmt:
				lhs = x.Lhs
			case *ast.IncDecStmt:
				lhs = []ast.Expr{x.X}
			}
			for _, l := range lhs {
				if se, ok := ast.Unparen(l).(*ast.SelectorExpr); ok {
					if fv := selectorField(info, se); fv != nil && namedOf(derefType(info.TypeOf(se.X))) == lexT {
						out[fv.Name()] = true
					}
				}
			}
			return true
		})
		return out
	}
	inNext := storesOf(next.Body)
	var extra []string
	for f := range inNext {
		if f != "i" {
			extra = append(extra, f)
		}
	}
	if !inNext["i"] {
		r.Undecided(rule, "pattern.(stringLexer).next#stores the position", next.Pos(), "next() no longer stores stringLexer.i: the rule does not know what the position is")
		return 0
	}
	n := 0
	for _, fd := range p.AllFuncDecls("pattern") {
		if fd.Body == nil || fd == next || strings.HasSuffix(p.Position(fd.Pos()), "_test.go") {
			continue
		}
		k := 0
		var g *FGraph
		inspectNoLit(fd.Body, func(m ast.Node) bool {
			var target ast.Expr
			switch x := m.(type) {
			case *ast.AssignStmt:
				for _, l := range x.Lhs {
					target = l
					if se, ok := ast.Unparen(target).(*ast.SelectorExpr); ok {
						if fv := selectorField(info, se); fv != nil && fv.Name() == "i" && namedOf(derefType(info.TypeOf(se.X))) == lexT {
							goto found
						}
					}
				}
				return true
			case *ast.IncDecStmt:
				target = x.X
				if se, ok := ast.Unparen(target).(*ast.SelectorExpr); ok {
					if fv := selectorField(info, se); fv != nil && fv.Name() == "i" && namedOf(derefType(info.TypeOf(se.X))) == lexT {
						goto found
					}
				}
				return true
			default:
				return true
			}
		found:
			for _, f := range extra {
				k++
				n++
				key := fmt.Sprintf("%s#store %d of the position keeps %s in step", funcKey("pattern", fd), k, f)
				if g == nil {
					g = NewFGraph(info, fd.Body, nil)
				}
				blk, idx := g.BlockOf(m)
				ok := false
				if blk != nil {
					ok, _ = g.MustPass(blk, idx, g.Exit, func(q ast.Node) bool { return storesOf(q)[f] }, nil)
					if !ok {
						// or the same statement stores both
						ok = storesOf(m)[f]
					}
				}
				r.Check(ok, rule, key, m.Pos(), "every path from this store to the function's exit stores "+f+" too",
					fmt.Sprintf("the lexer's position is moved here without updating %s, which next() keeps up to date alongside it: what the lexer remembers about the runes before the position is stale after this step, and the next decision taken from it (is this `*` at the start of a path element?) is about another place in the pattern", f))
			}
			return true
		})
	}
	return n
}
