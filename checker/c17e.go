package main

import (
	"fmt"
	"go/ast"
	"go/constant"
	"go/token"
	"go/types"
	"strings"
)

// R17f: a string that must begin with one fixed text and end with another matches only if the two are matched by
// disjoint parts of it: "ab" has the prefix "ab" and the suffix "b", and is not prefix+something+suffix. Wherever a
// function body tests strings.HasPrefix(x, p) and strings.HasSuffix(x, s) for the same x with p and s not constant,
// some comparison there relates the three lengths (len(x) - len(s) against len(p), directly or through a local), and
// the two ends are not simply trimmed off one after the other.
func checkPrefixSuffixDisjoint(p *Prog, r *Result, rule string) int {
	n := 0
	for _, rel := range []string{"internal", "pattern", "expand", "interp"} {
		pkg := p.Pkg(rel)
		if pkg == nil {
			continue
		}
		info := pkg.TypesInfo
		isStrings := func(c *ast.CallExpr, name string) bool {
			callee := calleeOf(info, c)
			return callee != nil && callee.Pkg() != nil && callee.Pkg().Path() == "strings" && callee.Name() == name
		}
		var bodies []*ast.BlockStmt
		var owners []*ast.FuncDecl
		for _, fd := range p.AllFuncDecls(rel) {
			if fd.Body == nil || strings.HasSuffix(p.Position(fd.Pos()), "_test.go") {
				continue
			}
			bodies = append(bodies, fd.Body)
			owners = append(owners, fd)
			ast.Inspect(fd.Body, func(m ast.Node) bool {
				if fl, ok := m.(*ast.FuncLit); ok {
					bodies = append(bodies, fl.Body)
					owners = append(owners, fd)
				}
				return true
			})
		}
		for bi, body := range bodies {
			// calls directly in this body (not in nested literals)
			var pre, suf []*ast.CallExpr
			inspectNoLit(body, func(m ast.Node) bool {
				if c, ok := m.(*ast.CallExpr); ok && len(c.Args) == 2 {
					if isStrings(c, "HasPrefix") {
						pre = append(pre, c)
					}
					if isStrings(c, "HasSuffix") {
						suf = append(suf, c)
					}
				}
				return true
			})
			for _, pc := range pre {
				for _, sc := range suf {
					if exprString(pc.Args[0]) != exprString(sc.Args[0]) {
						continue
					}
					if tv, ok := info.Types[pc.Args[1]]; ok && tv.Value != nil {
						continue
					}
					if tv, ok := info.Types[sc.Args[1]]; ok && tv.Value != nil {
						continue
					}
					n++
					x, pre1, suf1 := exprString(pc.Args[0]), exprString(pc.Args[1]), exprString(sc.Args[1])
					key := fmt.Sprintf("%s#%s begins with %s and ends with %s in disjoint parts", funcKey(rel, owners[bi]), x, pre1, suf1)
					// a comparison mentioning len(p) on one side and, on the other, len(x) and len(s) — possibly through a local
					lenOf := func(e ast.Expr, what string) bool {
						found := false
						ast.Inspect(e, func(k ast.Node) bool {
							if c, ok := k.(*ast.CallExpr); ok && len(c.Args) == 1 && exprString(c.Fun) == "len" && exprString(c.Args[0]) == what {
								found = true
							}
							return true
						})
						return found
					}
					expand := func(e ast.Expr) []ast.Expr {
						out := []ast.Expr{e}
						ast.Inspect(e, func(k ast.Node) bool {
							if id, ok := k.(*ast.Ident); ok {
								if obj, ok := info.ObjectOf(id).(*types.Var); ok {
									inspectNoLit(body, func(q ast.Node) bool {
										if as, ok := q.(*ast.AssignStmt); ok && len(as.Lhs) == len(as.Rhs) {
											for i, l := range as.Lhs {
												if lid, ok := l.(*ast.Ident); ok && info.ObjectOf(lid) == types.Object(obj) {
													out = append(out, as.Rhs[i])
												}
											}
										}
										return true
									})
								}
							}
							return true
						})
						return out
					}
					related := false
					inspectNoLit(body, func(k ast.Node) bool {
						be, ok := k.(*ast.BinaryExpr)
						if !ok {
							return true
						}
						switch be.Op {
						case token.LSS, token.GTR, token.LEQ, token.GEQ:
						default:
							return true
						}
						hasX, hasP, hasS := false, false, false
						for _, side := range []ast.Expr{be.X, be.Y} {
							for _, e := range expand(side) {
								hasX = hasX || lenOf(e, x)
								hasP = hasP || lenOf(e, pre1)
								hasS = hasS || lenOf(e, suf1)
							}
						}
						if hasX && hasP && hasS {
							related = true
						}
						return true
					})
					r.Check(related, rule, key, pc.Pos(), "a comparison in the same body relates len("+x+"), len("+pre1+") and len("+suf1+")",
						fmt.Sprintf("%s is tested for the prefix %s and for the suffix %s, and nothing compares the three lengths: a string in which the two overlap (prefix \"ab\", suffix \"b\", string \"ab\") passes both tests, and what is then taken as the middle is wrong — `[[ ab == ab!(x)b ]]` matches", x, pre1, suf1))
				}
			}
		}
	}
	return n
}

// R17e: the pattern lexer's position is one field today. If its next() ever keeps more than the position up to date
// (a cached previous rune, a column), every other place that moves the position has to keep those in step too — the
// globstar branch steps over `*` and `/` with a bare sl.i++. For every field of stringLexer that next() stores besides
// the position: each function that stores the position stores that field as well, on every path from the one store to
// the function's exit, or before it.
func checkLexerFieldsMoveTogether(p *Prog, r *Result, rule string) int {
	pkg := p.Pkg("pattern")
	info := pkg.TypesInfo
	lexT := lookupType(pkg, "stringLexer")
	next := p.FuncDecl("pattern", "stringLexer.next")
	if lexT == nil || next == nil {
		r.Undecided(rule, "pattern#stringLexer.next", token.NoPos, "anchors not found")
		return 0
	}
	storesOf := func(n ast.Node) map[string]bool {
		out := map[string]bool{}
		ast.Inspect(n, func(k ast.Node) bool {
			var lhs []ast.Expr
			switch x := k.(type) {
			case *ast.AssignStmt:
				lhs = x.Lhs
			case *ast.IncDecStmt:
				lhs = []ast.Expr{x.X}
			}
			for _, l := range lhs {
				if se, ok := ast.Unparen(l).(*ast.SelectorExpr); ok {
					if fv := selectorField(info, se); fv != nil && namedOf(derefType(info.TypeOf(se.X))) == lexT {
						out[fv.Name()] = true
					}
				}
			}
			return true
		})
		return out
	}
	inNext := storesOf(next.Body)
	var extra []string
	for f := range inNext {
		if f != "i" {
			extra = append(extra, f)
		}
	}
	if !inNext["i"] {
		r.Undecided(rule, "pattern.(stringLexer).next#stores the position", next.Pos(), "next() no longer stores stringLexer.i: the rule does not know what the position is")
		return 0
	}
	n := 0
	for _, fd := range p.AllFuncDecls("pattern") {
		if fd.Body == nil || fd == next || strings.HasSuffix(p.Position(fd.Pos()), "_test.go") {
			continue
		}
		k := 0
		var g *FGraph
		inspectNoLit(fd.Body, func(m ast.Node) bool {
			var target ast.Expr
			switch x := m.(type) {
			case *ast.AssignStmt:
				for _, l := range x.Lhs {
					target = l
					if se, ok := ast.Unparen(target).(*ast.SelectorExpr); ok {
						if fv := selectorField(info, se); fv != nil && fv.Name() == "i" && namedOf(derefType(info.TypeOf(se.X))) == lexT {
							goto found
						}
					}
				}
				return true
			case *ast.IncDecStmt:
				target = x.X
				if se, ok := ast.Unparen(target).(*ast.SelectorExpr); ok {
					if fv := selectorField(info, se); fv != nil && fv.Name() == "i" && namedOf(derefType(info.TypeOf(se.X))) == lexT {
						goto found
					}
				}
				return true
			default:
				return true
			}
		found:
			for _, f := range extra {
				k++
				n++
				key := fmt.Sprintf("%s#store %d of the position keeps %s in step", funcKey("pattern", fd), k, f)
				if g == nil {
					g = NewFGraph(info, fd.Body, nil)
				}
				blk, idx := g.BlockOf(m)
				ok := false
				if blk != nil {
					ok, _ = g.MustPass(blk, idx, g.Exit, func(q ast.Node) bool { return storesOf(q)[f] }, nil)
					if !ok {
						// or the same statement stores both
						ok = storesOf(m)[f]
					}
				}
				r.Check(ok, rule, key, m.Pos(), "every path from this store to the function's exit stores "+f+" too",
					fmt.Sprintf("the lexer's position is moved here without updating %s, which next() keeps up to date alongside it: what the lexer remembers about the runes before the position is stale after this step, and the next decision taken from it (is this `*` at the start of a path element?) is about another place in the pattern", f))
			}
			return true
		})
	}
	return n
}

// R17g: in Filenames mode a bracket expression never matches a slash; Regexp keeps that by noticing every slash that
// goes into the bracket (hasSlash) and emitting the whole expression as literal text when there was one. So every write
// of pattern text into the bracket's builder is either of a rune known not to be a slash (compared equal to another
// constant, or found above the ASCII range) or comes, on every path from where that rune was read, after a comparison
// of it with '/' (paths on which the filenames flag was found false aside); a class name is written after a
// strings.Contains(…, "/") test of the very text.
func checkBracketSlashesNoticed(p *Prog, r *Result, rule string) int {
	pkg := p.Pkg("pattern")
	info := pkg.TypesInfo
	fd := p.FuncDecl("pattern", "regexpNext")
	if fd == nil {
		r.Undecided(rule, "pattern.regexpNext", token.NoPos, "anchor not found")
		return 0
	}
	g := NewFGraph(info, fd.Body, nil)
	// the bracket builder: a local strings.Builder other than the function's parameter
	isBracketBuilder := func(e ast.Expr) bool {
		id, ok := ast.Unparen(e).(*ast.Ident)
		if !ok {
			return false
		}
		v, ok := info.ObjectOf(id).(*types.Var)
		if !ok || typeName(v.Type()) != "Builder" {
			return false
		}
		// declared inside the function body, not a parameter
		return v.Pos() > fd.Body.Pos()
	}
	runeConst := func(e ast.Expr) (int64, bool) {
		tv, ok := info.Types[e]
		if !ok || tv.Value == nil {
			return 0, false
		}
		return constant.Int64Val(constant.ToInt(tv.Value))
	}
	n := 0
	seen := map[string]int{}
	inspectNoLit(fd.Body, func(m ast.Node) bool {
		c, ok := m.(*ast.CallExpr)
		if !ok || len(c.Args) != 1 {
			return true
		}
		se, ok := ast.Unparen(c.Fun).(*ast.SelectorExpr)
		if !ok || !isBracketBuilder(se.X) || !strings.HasPrefix(se.Sel.Name, "Write") {
			return true
		}
		// the rune variable the argument is made of, if any
		var rv *ast.Ident
		ast.Inspect(c.Args[0], func(q ast.Node) bool {
			if id, ok := q.(*ast.Ident); ok {
				if v, ok := info.ObjectOf(id).(*types.Var); ok {
					if bt, ok := v.Type().Underlying().(*types.Basic); ok && bt.Kind() == types.Int32 {
						rv = id
					}
				}
			}
			return true
		})
		blk := blockContaining(g, c)
		if blk == nil {
			return true
		}
		if rv == nil {
			// a slice of pattern text: rest[:n]
			sl, isSlice := ast.Unparen(c.Args[0]).(*ast.SliceExpr)
			if !isSlice {
				return true
			}
			n++
			key := fmt.Sprintf("%s#a slash in %s is noticed before it is written into the bracket", funcKey("pattern", fd), exprString(sl))
			want := exprString(sl)
			ok2 := underEdges(g, blk, func(e *FEdge) bool { return false }) // placeholder, replaced below
			ok2 = false
			// the test need not dominate through its true edge: what matters is that it was evaluated on the way
			for _, b := range g.Blocks {
				for _, nd := range b.Nodes {
					if cc, ok := nd.(*ast.CallExpr); ok {
						if callee := calleeOf(info, cc); callee != nil && callee.Pkg() != nil && callee.Pkg().Path() == "strings" && strings.HasPrefix(callee.Name(), "Contains") && len(cc.Args) == 2 && exprString(cc.Args[0]) == want {
							if v, isC := info.Types[cc.Args[1]]; isC && v.Value != nil && strings.Contains(v.Value.ExactString(), "/") {
								doms := g.Dominators()
								// the block that holds `filenames` precedes it; accept the test when every path to the write passes either
								if doms[blk][b] {
									ok2 = true
								} else {
									pass, _ := g.MustPass(g.Entry, -1, blk, func(q ast.Node) bool { return q == ast.Node(cc) }, func(e *FEdge) bool {
										id, isID := ast.Unparen(e.Cond).(*ast.Ident)
										return isID && strings.Contains(strings.ToLower(id.Name), "filename") && !e.Pol
									})
									if pass {
										ok2 = true
									}
								}
							}
						}
					}
				}
			}
			r.Check(ok2, rule, key, c.Pos(), "a strings.Contains test for \"/\" of the same text lies on every path to the write (paths not in Filenames mode aside)",
				"pattern text is copied into the bracket expression without having been searched for a slash: in Filenames mode the expression would match a path separator")
			return true
		}
		obj := info.ObjectOf(rv)
		n++
		key := fmt.Sprintf("%s#%s: a slash in %s is noticed before it is written into the bracket", funcKey("pattern", fd), exprString(c), rv.Name)
		seen[key]++
		if seen[key] > 1 {
			key += fmt.Sprintf("#%d", seen[key])
		}
		// an edge that establishes that the rune is some other character
		otherChar := func(e *FEdge) bool {
			if e.Tag != nil {
				if id, ok := ast.Unparen(e.Tag).(*ast.Ident); ok && info.ObjectOf(id) == obj && e.Pol {
					if k, ok := runeConst(e.Cond); ok && k != '/' {
						return true
					}
				}
				return false
			}
			be, ok := ast.Unparen(e.Cond).(*ast.BinaryExpr)
			if !ok {
				return false
			}
			x, y, op := be.X, be.Y, be.Op
			if _, isConst := runeConst(x); isConst {
				x, y = y, x
				switch op {
				case token.LSS:
					op = token.GTR
				case token.LEQ:
					op = token.GEQ
				case token.GTR:
					op = token.LSS
				case token.GEQ:
					op = token.LEQ
				}
			}
			id, ok := ast.Unparen(x).(*ast.Ident)
			if !ok || info.ObjectOf(id) != obj {
				return false
			}
			k, ok := runeConst(y)
			if !ok {
				return false
			}
			switch op {
			case token.EQL:
				return e.Pol && k != '/'
			case token.GTR, token.GEQ:
				return e.Pol && k >= '/'
			}
			return false
		}
		// (b) every path from the last read of the rune to the write compares it with '/'
		isCmp := func(q ast.Node) bool {
			be, ok := q.(*ast.BinaryExpr)
			if !ok {
				return false
			}
			x, y := be.X, be.Y
			if _, isConst := runeConst(x); isConst {
				x, y = y, x // '/' == c
			}
			id, ok := ast.Unparen(x).(*ast.Ident)
			if !ok || info.ObjectOf(id) != obj {
				return false
			}
			k, ok := runeConst(y)
			return ok && k == '/'
		}
		skipNotFilenames := func(e *FEdge) bool {
			if otherChar(e) {
				return true // on this path the rune is known to be another character
			}
			id, isID := ast.Unparen(e.Cond).(*ast.Ident)
			return isID && strings.Contains(strings.ToLower(id.Name), "filename") && !e.Pol
		}
		okAll, defs := true, 0
		for _, b := range g.Blocks {
			for i, nd := range b.Nodes {
				as, ok := nd.(*ast.AssignStmt)
				if !ok {
					continue
				}
				assigns := false
				for _, l := range as.Lhs {
					if id, ok := l.(*ast.Ident); ok && info.ObjectOf(id) == obj {
						assigns = true
					}
				}
				if !assigns || !g.Reachable(b, nil)[blk] {
					continue
				}
				defs++
				pass, _ := g.MustPass(b, i, blk, func(q ast.Node) bool {
					if isCmp(q) {
						return true
					}
					// another read of the rune starts over
					if a2, ok := q.(*ast.AssignStmt); ok && q != ast.Node(as) {
						for _, l := range a2.Lhs {
							if id, ok := l.(*ast.Ident); ok && info.ObjectOf(id) == obj {
								return true
							}
						}
					}
					return false
				}, skipNotFilenames)
				if !pass {
					okAll = false
				}
			}
		}
		r.Check(okAll && defs > 0, rule, key, c.Pos(), "every path from a read of "+rv.Name+" to this write compares it with '/', or finds it to be another character (paths not in Filenames mode aside)",
			fmt.Sprintf("%s, read from the pattern, is written into the bracket expression on a path that never compared it with '/': hasSlash is not set for it, and in Filenames mode `a[\\/]b` matches `a/b`", rv.Name))
		return true
	})
	return n
}

// R17h / R18c: the pattern is UTF-8 text and the lexer decodes it rune by rune; a single byte of it stands for a
// character only when it is below utf8.RuneSelf. `rune(s[i])` of a string byte — reading the escaped character "as it
// stands" — turns the first byte of a multi-byte character into a Latin-1 rune and leaves its continuation bytes to be
// read as garbage. In Regexp's call tree and in QuoteMeta/HasMeta no byte of a string is converted to a rune unless a
// test on that very byte bounds it below utf8.RuneSelf.
func checkByteWidenedToRune(p *Prog, r *Result, rule string) int {
	pkg := p.Pkg("pattern")
	info := pkg.TypesInfo
	n := 0
	for _, fd := range p.AllFuncDecls("pattern") {
		if fd.Body == nil || strings.HasSuffix(p.Position(fd.Pos()), "_test.go") {
			continue
		}
		var g *FGraph
		k := 0
		inspectNoLit(fd.Body, func(m ast.Node) bool {
			c, ok := m.(*ast.CallExpr)
			if !ok || len(c.Args) != 1 {
				return true
			}
			tv, ok := info.Types[c.Fun]
			if !ok || !tv.IsType() {
				return true
			}
			bt, ok := tv.Type.Underlying().(*types.Basic)
			if !ok || bt.Kind() != types.Int32 {
				return true
			}
			ix, ok := ast.Unparen(c.Args[0]).(*ast.IndexExpr)
			if !ok {
				return true
			}
			if st, ok := info.TypeOf(ix.X).Underlying().(*types.Basic); !ok || st.Info()&types.IsString == 0 {
				return true
			}
			k++
			n++
			key := fmt.Sprintf("%s#%s of a pattern byte %d", funcKey("pattern", fd), exprString(c.Fun), k)
			if g == nil {
				g = NewFGraph(info, fd.Body, nil)
			}
			blk := blockContaining(g, c)
			want := exprString(ix)
			ok2 := blk != nil && underEdges(g, blk, func(e *FEdge) bool {
				be, ok := ast.Unparen(e.Cond).(*ast.BinaryExpr)
				if !ok || e.Tag != nil {
					return false
				}
				x, y, op := be.X, be.Y, be.Op
				if exprString(y) == want {
					x, y = y, x
					switch op {
					case token.LSS:
						op = token.GTR
					case token.GTR:
						op = token.LSS
					case token.LEQ:
						op = token.GEQ
					case token.GEQ:
						op = token.LEQ
					}
				}
				if exprString(x) != want {
					return false
				}
				v, has := info.Types[y]
				if !has || v.Value == nil {
					return false
				}
				kv, _ := constant.Int64Val(constant.ToInt(v.Value))
				return (op == token.LSS && e.Pol && kv <= 128) || (op == token.GEQ && !e.Pol && kv <= 128) || (op == token.EQL && e.Pol && kv < 128)
			})
			r.Check(ok2, rule, key, c.Pos(), "under a test that bounds that byte below utf8.RuneSelf",
				fmt.Sprintf("%s is one byte of the pattern promoted to a rune with no test that it is ASCII: for `\\é` that is the first byte of a two-byte character — the expression matches `Ã` followed by garbage, not the pattern with its escapes removed", want))
			return true
		})
	}
	return n
}

// R17i: what the pattern's author put between the brackets is written into the regular expression's bracket in order,
// and may end in a dash, which is then a literal (`[a-]`). Anything the translation itself appends at the end — a
// slash to keep a negated set from matching a path separator, say — lands behind that dash and turns it into a range
// (`[^a-/]`). So in the clause that closes a bracket expression the bracket's builder receives the closing `]` and
// nothing else.
func checkBracketCloserAddsNothing(p *Prog, r *Result, rule string) int {
	pkg := p.Pkg("pattern")
	info := pkg.TypesInfo
	fd := p.FuncDecl("pattern", "regexpNext")
	if fd == nil {
		r.Undecided(rule, "pattern.regexpNext", token.NoPos, "anchor not found")
		return 0
	}
	n := 0
	ast.Inspect(fd.Body, func(m ast.Node) bool {
		cc, ok := m.(*ast.CaseClause)
		if !ok || len(cc.List) != 1 {
			return true
		}
		if tv, ok := info.Types[cc.List[0]]; !ok || tv.Value == nil || tv.Value.ExactString() != "93" { // ']'
			return true
		}
		// the clause must be the one that finishes the bracket: it writes the builder's contents somewhere
		finishes := false
		var builder types.Object
		for _, st := range cc.Body {
			ast.Inspect(st, func(q ast.Node) bool {
				c, ok := q.(*ast.CallExpr)
				if !ok {
					return true
				}
				if se, ok := ast.Unparen(c.Fun).(*ast.SelectorExpr); ok && se.Sel.Name == "String" {
					if id, ok := ast.Unparen(se.X).(*ast.Ident); ok && typeName(info.TypeOf(id)) == "Builder" {
						finishes = true
						builder = info.ObjectOf(id)
					}
				}
				return true
			})
		}
		if !finishes {
			return true
		}
		n++
		key := funcKey("pattern", fd) + "#the clause that closes a bracket appends only the closing bracket"
		bad := ""
		for _, st := range cc.Body {
			ast.Inspect(st, func(q ast.Node) bool {
				c, ok := q.(*ast.CallExpr)
				if !ok || len(c.Args) != 1 {
					return true
				}
				se, ok := ast.Unparen(c.Fun).(*ast.SelectorExpr)
				if !ok || !strings.HasPrefix(se.Sel.Name, "Write") {
					return true
				}
				id, ok := ast.Unparen(se.X).(*ast.Ident)
				if !ok || info.ObjectOf(id) != builder {
					return true
				}
				tv, ok := info.Types[c.Args[0]]
				isCloser := ok && tv.Value != nil && (tv.Value.ExactString() == "93" || tv.Value.ExactString() == `"]"`)
				if !isCloser && bad == "" {
					bad = exprString(c)
				}
				return true
			})
		}
		r.Check(bad == "", rule, key, cc.Pos(), "the only write to the bracket's builder there is the closing bracket",
			fmt.Sprintf("the clause that closes a bracket expression also writes %s into it: whatever is appended after the author's last member lands behind a trailing dash, which is a literal in the pattern (`[!a-]`) and becomes a range in the regular expression (`[^a-/]`)", bad))
		return true
	})
	return n
}

// R18d: "HasMeta reports false" means the pattern matches one string: itself with its escapes removed. Code that finds a
// pattern to have no metacharacters and goes on to use it as text — as a path element, as a prefix to compare with —
// therefore removes the escapes first. For every call of pattern.HasMeta outside package pattern: in the code that
// runs only when the answer was false, the value is handed to functions of package pattern, or to an unescaper (a
// function of the module that drops the byte after comparing it with a backslash), or it was reassigned from one; any
// other use of it is a use of the escaped text.
func checkLiteralPatternsUnescaped(p *Prog, r *Result, rule string) int {
	n := 0
	// unescapers: module functions string -> string whose body compares a byte with '\\'
	unescaper := map[*types.Func]bool{}
	for _, rel := range []string{"internal", "expand", "interp", "pattern"} {
		pkg := p.Pkg(rel)
		if pkg == nil {
			continue
		}
		info := pkg.TypesInfo
		for _, fd := range p.AllFuncDecls(rel) {
			if fd.Body == nil {
				continue
			}
			fo, ok := info.Defs[fd.Name].(*types.Func)
			if !ok {
				continue
			}
			sig := fo.Type().(*types.Signature)
			if sig.Params().Len() != 1 || sig.Results().Len() != 1 || sig.Params().At(0).Type().String() != "string" || sig.Results().At(0).Type().String() != "string" {
				continue
			}
			found := false
			ast.Inspect(fd.Body, func(q ast.Node) bool {
				if be, ok := q.(*ast.BinaryExpr); ok && be.Op == token.EQL {
					if tv, ok := info.Types[be.Y]; ok && tv.Value != nil && tv.Value.ExactString() == "92" {
						found = true
					}
				}
				return true
			})
			if found {
				unescaper[fo] = true
			}
		}
	}
	for _, rel := range []string{"internal", "expand", "interp"} {
		pkg := p.Pkg(rel)
		if pkg == nil {
			continue
		}
		info := pkg.TypesInfo
		for _, fd := range p.AllFuncDecls(rel) {
			if fd.Body == nil || strings.HasSuffix(p.Position(fd.Pos()), "_test.go") {
				continue
			}
			var g *FGraph
			k := 0
			inspectNoLit(fd.Body, func(m ast.Node) bool {
				c, ok := m.(*ast.CallExpr)
				if !ok || len(c.Args) < 1 {
					return true
				}
				callee := calleeOf(info, c)
				if callee == nil || callee.Pkg() == nil || !strings.HasSuffix(callee.Pkg().Path(), "/pattern") || callee.Name() != "HasMeta" {
					return true
				}
				id, ok := ast.Unparen(c.Args[0]).(*ast.Ident)
				if !ok {
					return true
				}
				obj := info.ObjectOf(id)
				if g == nil {
					g = NewFGraph(info, fd.Body, nil)
				}
				// blocks reached only past the false answer of this very call
				falseOnly := func(b *FBlock) bool {
					return underEdges(g, b, func(e *FEdge) bool { return ast.Unparen(e.Cond) == ast.Expr(c) && !e.Pol })
				}
				uses, bad := 0, ""
				reassigned := token.NoPos
				for _, b := range g.Blocks {
					if !falseOnly(b) {
						continue
					}
					for _, nd := range b.Nodes {
						// reassignment from an unescaper ends the obligation for what follows
						if as, ok := nd.(*ast.AssignStmt); ok {
							for i, l := range as.Lhs {
								if lid, ok := l.(*ast.Ident); ok && info.ObjectOf(lid) == obj && i < len(as.Rhs) {
									if rc, ok := ast.Unparen(as.Rhs[i]).(*ast.CallExpr); ok {
										if f2 := calleeOf(info, rc); f2 != nil && unescaper[f2] && (reassigned == token.NoPos || as.Pos() < reassigned) {
											reassigned = as.Pos()
										}
									}
								}
							}
						}
						ast.Inspect(nd, func(q ast.Node) bool {
							uc, ok := q.(*ast.CallExpr)
							if !ok || uc == c {
								return true
							}
							for _, a := range uc.Args {
								aid, ok := ast.Unparen(a).(*ast.Ident)
								if !ok || info.ObjectOf(aid) != obj {
									continue
								}
								f2 := calleeOf(info, uc)
								if f2 != nil && (unescaper[f2] || (f2.Pkg() != nil && strings.HasSuffix(f2.Pkg().Path(), "/pattern"))) {
									continue
								}
								uses++
								if reassigned != token.NoPos && uc.Pos() > reassigned {
									continue
								}
								if bad == "" {
									bad = fmt.Sprintf("%s at %s", exprString(uc), p.Position(uc.Pos()))
								}
							}
							return true
						})
					}
				}
				if uses == 0 {
					return true // the answer only decides whether to match at all
				}
				k++
				n++
				key := fmt.Sprintf("%s#%s, found to have no metacharacters, is used as text with its escapes removed", funcKey(rel, fd), id.Name)
				r.Check(bad == "", rule, key, c.Pos(), "reassigned from an unescaping function before its first use as text",
					fmt.Sprintf("%s is found to have no metacharacters and then used as plain text with its backslashes in place (%s): what such a pattern matches is itself with the escapes removed — the directory `a*b` for the element `a\\*b` that \"a*b\"/* is turned into — so the text compared or joined is another string", id.Name, bad))
				return true
			})
		}
	}
	return n
}

// R18e: the same clause seen from the word expansion. An unquoted literal of a command word reaches wordFields with its
// backslashes; `\*` stands for an asterisk, not for "any string". Whether a field is a pattern is decided later from
// its unquoted parts, so the character that followed a backslash has to travel as a quoted part: in the clause of
// wordFields that handles *syntax.Lit, under the test that finds a backslash, a fieldPart with a non-zero quote level
// is built. Removing the backslash and appending the result as one unquoted part — what the pinned tree did — makes
// `echo \*` list the directory.
func checkEscapedLiteralsQuoted(p *Prog, r *Result, rule string) int {
	pkg := p.Pkg("expand")
	info := pkg.TypesInfo
	fd := p.FuncDecl("expand", "Config.wordFields")
	if fd == nil {
		r.Undecided(rule, "expand.(Config).wordFields", token.NoPos, "anchor not found")
		return 0
	}
	isBackslashTest := func(n ast.Node) bool {
		found := false
		ast.Inspect(n, func(q ast.Node) bool {
			switch x := q.(type) {
			case *ast.CallExpr:
				if callee := calleeOf(info, x); callee != nil && callee.Pkg() != nil && callee.Pkg().Path() == "strings" {
					for _, a := range x.Args {
						if tv, ok := info.Types[a]; ok && tv.Value != nil && (tv.Value.ExactString() == `"\\"` || tv.Value.ExactString() == "92") {
							found = true
						}
					}
				}
			case *ast.BinaryExpr:
				if tv, ok := info.Types[x.Y]; ok && tv.Value != nil && tv.Value.ExactString() == "92" {
					found = true
				}
			}
			return !found
		})
		return found
	}
	n := 0
	ast.Inspect(fd.Body, func(m ast.Node) bool {
		cc, ok := m.(*ast.CaseClause)
		if !ok {
			return true
		}
		isLit := false
		for _, e := range cc.List {
			if typeName(derefType(info.TypeOf(e))) == "Lit" {
				isLit = true
			}
		}
		if !isLit {
			return true
		}
		n++
		key := funcKey("expand", fd) + "#the character after a backslash travels as a quoted part"
		tests, quoted := 0, false
		for _, st := range cc.Body {
			ast.Inspect(st, func(q ast.Node) bool {
				var region ast.Node
				switch x := q.(type) {
				case *ast.IfStmt:
					if isBackslashTest(x.Cond) || (x.Init != nil && isBackslashTest(x.Init)) {
						region = x
					}
				case *ast.ForStmt:
					if isBackslashTest(x) {
						region = x
					}
				}
				if region == nil {
					return true
				}
				tests++
				ast.Inspect(region, func(k ast.Node) bool {
					cl, ok := k.(*ast.CompositeLit)
					if !ok || typeName(info.TypeOf(cl)) != "fieldPart" {
						return true
					}
					for _, el := range cl.Elts {
						if kv, ok := el.(*ast.KeyValueExpr); ok {
							if kid, ok := kv.Key.(*ast.Ident); ok && kid.Name == "quote" {
								if tv, ok := info.Types[kv.Value]; ok && tv.Value != nil && tv.Value.ExactString() != "0" {
									quoted = true
								}
							}
						}
					}
					return true
				})
				return true
			})
		}
		switch {
		case tests == 0:
			r.Undecided(rule, key, cc.Pos(), "the clause for a literal no longer tests for a backslash: the rule does not see how escapes are handled")
		default:
			r.Check(quoted, rule, key, cc.Pos(), "under the backslash test a fieldPart with a non-zero quote level is built",
				"the clause that handles an unquoted literal finds its backslashes and builds no quoted part for what follows them: with the backslash gone and the text unquoted, `\\*` is an asterisk that the later glob step takes for a pattern — `echo \\*` lists the directory")
		}
		return true
	})
	return n
}
