// shcheck decides structural clauses of the properties in
// /verif/properties.jsonl from the source of the repository, without running
// it. See /verif/DESIGN.md.
package main

import (
	"encoding/json"
	"flag"
	"fmt"
	"go/ast"
	"go/parser"
	"go/token"
	"os"
	"os/exec"
	"path/filepath"
	"runtime/debug"
	"sort"
	"strconv"
	"strings"
	"time"
)

// Property is the registration of one property's rules.
type Property struct {
	ID          string
	Run         func(p *Prog, r *Result)
	Decided     string // clauses decided
	NotDecided  string // what the check does not cover
	Assumptions []string
	Controls    []Control
	Matrix      bool // thorough tier runs the rules on every build configuration
}

// Control is an in-memory seeded violation: a source transformation applied
// through an overlay on which the named rule must report a new failing
// obligation.
type Control struct {
	Name    string
	Rule    string
	WantKey string // substring expected in the failing obligation's site key
	File    string // repository-relative
	Mutate  func(src []byte, fset *token.FileSet, f *ast.File) ([]byte, error)
}

var registry = map[string]*Property{}

func register(p *Property) { registry[p.ID] = p }

var verifDir = "/verif"

func main() {
	fs := flag.NewFlagSet("shcheck", flag.ExitOnError)
	tier := fs.String("tier", envOr("VERIF_TIER", "quick"), "quick or thorough")
	repo := fs.String("repo", envOr("VERIF_REPO", "/repo"), "repository to analyse")
	goos := fs.String("goos", defaultCfg.GOOS, "")
	goarch := fs.String("goarch", defaultCfg.GOARCH, "")
	overlay := fs.String("overlay", "", "JSON file: absolute path -> replacement content")
	workerOut := fs.String("worker-out", "", "worker mode: write the raw Result JSON here and exit 0")
	verbose := fs.Bool("v", false, "print every obligation")
	noEvidence := fs.Bool("no-evidence", false, "do not write the evidence file")
	if len(os.Args) < 2 {
		fmt.Fprintln(os.Stderr, "usage: shcheck <Cxx|all> [flags]")
		os.Exit(2)
	}
	id := os.Args[1]
	fs.Parse(os.Args[2:])
	if d := os.Getenv("VERIF_DIR"); d != "" {
		verifDir = d
	}
	seed, _ := strconv.Atoi(os.Getenv("VERIF_SEED"))

	if *workerOut != "" {
		ov, err := readOverlay(*overlay)
		if err != nil {
			fatal(err)
		}
		res := runOnce(id, *repo, BuildCfg{*goos, *goarch}, ov)
		if err := writeJSON(*workerOut, res); err != nil {
			fatal(err)
		}
		return
	}

	ids := []string{id}
	if id == "all" {
		ids = nil
		for k := range registry {
			ids = append(ids, k)
		}
		sort.Strings(ids)
	}
	exit := 0
	for _, id := range ids {
		if _, ok := registry[id]; !ok {
			fmt.Fprintf(os.Stderr, "unknown property %q\n", id)
			os.Exit(2)
		}
		if drive(id, *tier, *repo, seed, *verbose, *noEvidence) != 0 {
			exit = 1
		}
	}
	os.Exit(exit)
}

func envOr(k, d string) string {
	if v := os.Getenv(k); v != "" {
		return v
	}
	return d
}

func fatal(err error) {
	fmt.Fprintln(os.Stderr, "shcheck:", err)
	os.Exit(2)
}

// runOnce loads the repository in one configuration and runs the rules of one
// property. Panics and load failures become fatal entries, never a pass.
func runOnce(id, repo string, cfg BuildCfg, overlay map[string][]byte) (res *Result) {
	res = newResult(id, nil)
	res.Cfg = cfg.String()
	defer func() {
		if e := recover(); e != nil {
			res.Fatalf("checker panic: %v\n%s", e, debug.Stack())
		}
	}()
	prog, err := loadRepo(repo, cfg, overlay)
	if err != nil {
		res.Fatalf("%v", err)
		return res
	}
	res = newResult(id, prog)
	registry[id].Run(prog, res)
	if prog.ssaProg != nil {
		n := 0
		for _, pkg := range prog.Pkgs {
			if sp := prog.ssaProg.Package(pkg.Types); sp != nil {
				for _, m := range sp.Members {
					_ = m
					n++
				}
			}
		}
	}
	res.Funcs = countFuncs(prog)
	return res
}

func countFuncs(p *Prog) int {
	n := 0
	for _, pkg := range p.Pkgs {
		for _, f := range pkg.Syntax {
			ast.Inspect(f, func(nd ast.Node) bool {
				switch nd.(type) {
				case *ast.FuncDecl, *ast.FuncLit:
					n++
				}
				return true
			})
		}
	}
	return n
}

func spawnWorker(id, repo string, cfg BuildCfg, overlayFile, tmpdir, tag string) (*Result, error) {
	self, err := os.Executable()
	if err != nil {
		return nil, err
	}
	out := filepath.Join(tmpdir, "w-"+tag+".json")
	args := []string{id, "--repo", repo, "--goos", cfg.GOOS, "--goarch", cfg.GOARCH, "--worker-out", out}
	if overlayFile != "" {
		args = append(args, "--overlay", overlayFile)
	}
	cmd := exec.Command(self, args...)
	cmd.Stderr = os.Stderr
	if err := cmd.Run(); err != nil {
		return nil, fmt.Errorf("worker %s: %v", tag, err)
	}
	data, err := os.ReadFile(out)
	if err != nil {
		return nil, err
	}
	res := &Result{}
	if err := json.Unmarshal(data, res); err != nil {
		return nil, err
	}
	os.Remove(out)
	return res, nil
}

type controlOutcome struct {
	Name    string `json:"control"`
	Rule    string `json:"rule"`
	Outcome string `json:"outcome"` // fired | MISSED | skipped
	Report  string `json:"report,omitempty"`
}

func drive(id, tier, repo string, seed int, verbose, noEvidence bool) int {
	start := time.Now()
	prop := registry[id]
	known, err := loadKnown(filepath.Join(verifDir, "KNOWN_FINDINGS.txt"))
	if err != nil {
		fatal(err)
	}
	tmpdir := filepath.Join(verifDir, "out", fmt.Sprintf("tmp-%s-%d", id, os.Getpid()))
	os.MkdirAll(tmpdir, 0o755)
	defer os.RemoveAll(tmpdir)

	var res *Result
	cfgs := []string{defaultCfg.String()}
	if tier == "thorough" && prop.Matrix {
		cfgs = nil
		for i, cfg := range matrix {
			w, err := spawnWorker(id, repo, cfg, "", tmpdir, fmt.Sprintf("cfg%d", i))
			if err != nil {
				w = newResult(id, nil)
				w.Cfg = cfg.String()
				w.Fatalf("%v", err)
			}
			cfgs = append(cfgs, cfg.String())
			if res == nil {
				res = w
				for _, o := range res.Obls {
					o.Cfgs = []string{w.Cfg}
				}
			} else {
				res.merge(w)
			}
		}
	} else {
		res = runOnce(id, repo, defaultCfg, nil)
	}
	failing, knownHit := res.finalize(known)
	sortObls(res.Obls)

	var controls []controlOutcome
	if tier == "thorough" {
		baseFail := map[string]bool{}
		for _, o := range failing {
			baseFail[o.Rule+"|"+o.Key] = true
		}
		for _, o := range knownHit {
			baseFail[o.Rule+"|"+o.Key] = true
		}
		for i, c := range prop.Controls {
			controls = append(controls, runControl(id, repo, c, i, tmpdir, known, baseFail))
		}
	}

	// Report.
	for _, ri := range res.Rules {
		fmt.Printf("%s %s: %d instances, %d discharged (floor %d)\n", id, ri.Name, ri.Count, ri.OK, ri.Floor)
	}
	if verbose {
		for _, o := range res.Obls {
			fmt.Printf("  [%s] %s %s @%s %s%s\n", o.Status, o.Rule, o.Key, o.Pos, o.Idiom, o.Detail)
		}
	}
	for _, n := range res.Notes {
		fmt.Printf("%s note: %s\n", id, n)
	}
	for _, o := range knownHit {
		fmt.Printf("KNOWN-FINDING: property=%s rule=%s site=%s @%s :: %s\n", id, o.Rule, o.Key, o.Pos, o.Detail)
	}
	for _, c := range controls {
		fmt.Printf("%s control %s (%s): %s %s\n", id, c.Name, c.Rule, c.Outcome, c.Report)
	}
	replay := filepath.Join(verifDir, "out", id+".violations.json")
	if len(failing) > 0 {
		sortObls(failing)
		for _, o := range failing {
			fmt.Printf("%s FAIL [%s] rule=%s site=%s @%s :: %s\n", id, o.Status, o.Rule, o.Key, o.Pos, o.Detail)
		}
		writeJSON(replay, map[string]any{"property_id": id, "repo": repo, "failing": failing})
	} else {
		os.Remove(replay)
	}

	if !noEvidence {
		writeEvidence(prop, res, tier, seed, cfgs, failing, knownHit, controls, time.Since(start))
	}
	if len(failing) > 0 {
		fmt.Printf("VIOLATION property=%s replay=%s\n", id, replay)
		return 1
	}
	fmt.Printf("%s OK: %d obligations, %d discharged, %d known findings, %d configs, %.1fs\n",
		id, len(res.Obls), len(res.Obls)-len(knownHit), len(knownHit), len(cfgs), time.Since(start).Seconds())
	return 0
}

func runControl(id, repo string, c Control, i int, tmpdir string, known []*KnownFinding, baseFail map[string]bool) controlOutcome {
	out := controlOutcome{Name: c.Name, Rule: c.Rule}
	abs := filepath.Join(repo, c.File)
	src, err := os.ReadFile(abs)
	if err != nil {
		out.Outcome, out.Report = "skipped", err.Error()
		return out
	}
	fset := token.NewFileSet()
	f, err := parser.ParseFile(fset, abs, src, parser.ParseComments)
	if err != nil {
		out.Outcome, out.Report = "skipped", err.Error()
		return out
	}
	mut, err := c.Mutate(src, fset, f)
	if err != nil {
		out.Outcome, out.Report = "skipped", "target construct not found: "+err.Error()
		return out
	}
	ovFile := filepath.Join(tmpdir, fmt.Sprintf("ov%d.json", i))
	if err := writeJSON(ovFile, map[string]string{abs: string(mut)}); err != nil {
		out.Outcome, out.Report = "skipped", err.Error()
		return out
	}
	defer os.Remove(ovFile)
	w, err := spawnWorker(id, repo, defaultCfg, ovFile, tmpdir, fmt.Sprintf("ctl%d", i))
	if err != nil {
		out.Outcome, out.Report = "skipped", err.Error()
		return out
	}
	for _, m := range w.Fatal {
		if strings.Contains(m, "type errors") || strings.Contains(m, "load:") {
			out.Outcome, out.Report = "skipped", "variant does not type-check: "+m
			return out
		}
	}
	// Fresh copy of known findings so "used" marks do not leak.
	var kc []*KnownFinding
	for _, k := range known {
		k2 := *k
		k2.used = false
		kc = append(kc, &k2)
	}
	failing, _ := w.finalize(kc)
	for _, o := range failing {
		if baseFail[o.Rule+"|"+o.Key] {
			continue
		}
		if o.Rule == c.Rule && strings.Contains(o.Key, c.WantKey) {
			out.Outcome = "fired"
			out.Report = fmt.Sprintf("site=%s @%s :: %s", o.Key, o.Pos, o.Detail)
			return out
		}
	}
	out.Outcome = "MISSED"
	for _, o := range failing {
		if !baseFail[o.Rule+"|"+o.Key] {
			out.Report += fmt.Sprintf("[other report: %s %s] ", o.Rule, o.Key)
		}
	}
	return out
}

func writeEvidence(prop *Property, res *Result, tier string, seed int, cfgs []string,
	failing, knownHit []*Obligation, controls []controlOutcome, wall time.Duration) {
	discharged := 0
	byIdiom := map[string]int{}
	for _, o := range res.Obls {
		if o.Status == stOK {
			discharged++
			byIdiom[o.Rule+": "+o.Idiom]++
		}
	}
	// Samples: up to three obligations per rule, written out.
	var samples []any
	perRule := map[string]int{}
	for _, o := range res.Obls {
		if perRule[o.Rule] < 3 {
			perRule[o.Rule]++
			samples = append(samples, o)
		}
	}
	for _, o := range knownHit {
		samples = append(samples, o)
	}
	var ruleTexts []string
	for _, ri := range res.Rules {
		ruleTexts = append(ruleTexts, ri.Name+": "+ri.Text)
	}
	cov := map[string]any{
		"explanation": "Static analysis of the repository source (type-checked AST, go/cfg, go/ssa, call graph); nothing is executed. " +
			"DECIDED: " + prop.Decided + " NOT DECIDED: " + prop.NotDecided,
		"obligations":         len(res.Obls),
		"discharged":          discharged,
		"known_findings":      len(knownHit),
		"failing":             len(failing),
		"evaluations":         len(res.Obls),
		"distinct_nontrivial": len(res.Obls),
		"rule": "one obligation per (rule, construct of the analysed code); constructs are keyed by resolved names so all are distinct; " +
			"each is non-trivial in that the rule had to establish a fact about that construct. Rules: " + strings.Join(ruleTexts, " | "),
		"samples":                samples,
		"rules":                  res.Rules,
		"discharged_by_idiom":    byIdiom,
		"exceptions_used":        res.Excepts,
		"notes":                  res.Notes,
		"packages_analysed":      res.Packages,
		"functions_analysed":     res.Funcs,
		"build_configurations":   cfgs,
		"controls":               controls,
		"all_obligations":        res.Obls,
		"checker_cmd":            "/verif/bin/shcheck " + prop.ID + " --tier " + tier,
		"exhaustive":             true,
		"exhaustive_over":        "all constructs of the loaded source matched by each rule (not the property's input space)",
		"trusted_base":           []string{"go/types, go/cfg, go/ssa of golang.org/x/tools v0.50.0", "the rule tables in /verif/checker"},
	}
	ev := Evidence{Prop: prop.ID, Tier: tier, Seed: seed, Level: "other", Coverage: cov,
		Assumptions: prop.Assumptions, Wall: wall.Seconds(), Violations: len(failing)}
	if ev.Assumptions == nil {
		ev.Assumptions = []string{}
	}
	if err := writeJSON(filepath.Join(verifDir, "evidence", prop.ID+".json"), ev); err != nil {
		fmt.Fprintln(os.Stderr, "shcheck: writing evidence:", err)
	}
}
