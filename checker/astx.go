package main

import (
	"fmt"
	"go/ast"
	"go/constant"
	"go/token"
	"go/types"
	"sort"
	"strings"

	"golang.org/x/tools/go/packages"
	"golang.org/x/tools/go/types/typeutil"
)

// ---------------------------------------------------------------------------
// Types of the syntax package.

func lookupType(pkg *packages.Package, name string) *types.Named {
	if pkg == nil {
		return nil
	}
	o := pkg.Types.Scope().Lookup(name)
	if o == nil {
		return nil
	}
	tn, ok := o.(*types.TypeName)
	if !ok {
		return nil
	}
	n, _ := tn.Type().(*types.Named)
	return n
}

func lookupFunc(pkg *packages.Package, name string) *types.Func {
	if pkg == nil {
		return nil
	}
	if i := strings.LastIndex(name, "."); i >= 0 {
		tn := lookupType(pkg, strings.Trim(name[:i], "(*)"))
		if tn == nil {
			return nil
		}
		for m := range tn.Methods() {
			if m.Name() == name[i+1:] {
				return m
			}
		}
		return nil
	}
	f, _ := pkg.Types.Scope().Lookup(name).(*types.Func)
	return f
}

// sealed returns the named struct types of pkg whose pointer (or value)
// implements the interface named iface, sorted by name.
func sealed(pkg *packages.Package, iface string) []*types.Named {
	it := lookupType(pkg, iface)
	if it == nil {
		return nil
	}
	ifc, ok := it.Underlying().(*types.Interface)
	if !ok {
		return nil
	}
	var out []*types.Named
	sc := pkg.Types.Scope()
	for _, name := range sc.Names() {
		tn, ok := sc.Lookup(name).(*types.TypeName)
		if !ok || tn.IsAlias() {
			continue
		}
		n, ok := tn.Type().(*types.Named)
		if !ok {
			continue
		}
		if _, isIface := n.Underlying().(*types.Interface); isIface {
			continue
		}
		if types.Implements(types.NewPointer(n), ifc) || types.Implements(n, ifc) {
			out = append(out, n)
		}
	}
	sort.Slice(out, func(i, j int) bool { return out[i].Obj().Name() < out[j].Obj().Name() })
	return out
}

// namedOf strips pointers and returns the named type, if any.
func namedOf(t types.Type) *types.Named {
	for {
		switch x := t.(type) {
		case *types.Pointer:
			t = x.Elem()
			continue
		case *types.Named:
			return x
		case *types.Alias:
			t = types.Unalias(x)
			continue
		}
		return nil
	}
}

func typeName(t types.Type) string {
	if n := namedOf(t); n != nil {
		return n.Obj().Name()
	}
	return t.String()
}

// fieldKind classifies a field of a syntax node type.
type fieldKind int

const (
	fkScalar fieldKind = iota
	fkPos
	fkComments // []Comment
	fkChild    // Node-typed, pointer to node, slice of those
	fkHelper   // pointer to a non-node struct of the syntax package that has child fields
)

type nodeField struct {
	Owner *types.Named
	Var   *types.Var
	Kind  fieldKind
	Slice bool
	// for fkHelper: the helper struct
	Helper *types.Named
}

func (f nodeField) String() string { return f.Owner.Obj().Name() + "." + f.Var.Name() }

type syntaxInfo struct {
	pkg      *packages.Package
	nodeIfc  *types.Interface
	posT     *types.Named
	commentT *types.Named
	nodes    []*types.Named
	isNode   map[*types.TypeName]bool
}

func newSyntaxInfo(p *Prog) (*syntaxInfo, error) {
	pkg := p.Pkg("syntax")
	if pkg == nil {
		return nil, fmt.Errorf("package syntax not loaded")
	}
	si := &syntaxInfo{pkg: pkg, isNode: map[*types.TypeName]bool{}}
	nt := lookupType(pkg, "Node")
	if nt == nil {
		return nil, fmt.Errorf("syntax.Node not found")
	}
	si.nodeIfc = nt.Underlying().(*types.Interface)
	si.posT = lookupType(pkg, "Pos")
	si.commentT = lookupType(pkg, "Comment")
	if si.posT == nil || si.commentT == nil {
		return nil, fmt.Errorf("syntax.Pos / syntax.Comment not found")
	}
	si.nodes = sealed(pkg, "Node")
	for _, n := range si.nodes {
		si.isNode[n.Obj()] = true
	}
	return si, nil
}

func (si *syntaxInfo) implementsNode(t types.Type) bool {
	if _, ok := t.Underlying().(*types.Interface); ok {
		// interface types that embed Node
		return types.Implements(t, si.nodeIfc)
	}
	if n := namedOf(t); n != nil && si.isNode[n.Obj()] {
		return true
	}
	return false
}

// classify returns the kind of a struct field of a syntax type.
func (si *syntaxInfo) classify(owner *types.Named, v *types.Var) nodeField {
	nf := nodeField{Owner: owner, Var: v}
	t := v.Type()
	if sl, ok := t.Underlying().(*types.Slice); ok {
		if _, named := t.(*types.Named); !named {
			nf.Slice = true
			t = sl.Elem()
		}
	}
	if n := namedOf(t); n != nil {
		switch {
		case n == si.posT:
			nf.Kind = fkPos
			return nf
		case n == si.commentT && nf.Slice:
			nf.Kind = fkComments
			return nf
		}
	}
	if si.implementsNode(t) {
		nf.Kind = fkChild
		return nf
	}
	// helper struct: pointer to struct in syntax with child fields
	if n := namedOf(t); n != nil && n.Obj().Pkg() == si.pkg.Types {
		if st, ok := n.Underlying().(*types.Struct); ok {
			for i := 0; i < st.NumFields(); i++ {
				k := si.classify(n, st.Field(i))
				if k.Kind == fkChild || k.Kind == fkComments || k.Kind == fkHelper {
					nf.Kind = fkHelper
					nf.Helper = n
					return nf
				}
			}
		}
	}
	nf.Kind = fkScalar
	return nf
}

func (si *syntaxInfo) fields(n *types.Named) []nodeField {
	st, ok := n.Underlying().(*types.Struct)
	if !ok {
		return nil
	}
	var out []nodeField
	for i := 0; i < st.NumFields(); i++ {
		out = append(out, si.classify(n, st.Field(i)))
	}
	return out
}

// ---------------------------------------------------------------------------
// Switches.

type switchCases struct {
	Types      []types.Type // for type switches (nil entry = "case nil")
	HasDefault bool
	Default    *ast.CaseClause
	Clauses    map[string]*ast.CaseClause // type name -> clause
}

func typeSwitchCases(info *types.Info, ts *ast.TypeSwitchStmt) switchCases {
	sc := switchCases{Clauses: map[string]*ast.CaseClause{}}
	for _, s := range ts.Body.List {
		cc := s.(*ast.CaseClause)
		if cc.List == nil {
			sc.HasDefault = true
			sc.Default = cc
			continue
		}
		for _, e := range cc.List {
			tv, ok := info.Types[e]
			if !ok || tv.IsNil() {
				sc.Types = append(sc.Types, nil)
				continue
			}
			sc.Types = append(sc.Types, tv.Type)
			sc.Clauses[typeName(tv.Type)] = cc
		}
	}
	return sc
}

// typeSwitchTag returns the static type of the expression switched on.
func typeSwitchTag(info *types.Info, ts *ast.TypeSwitchStmt) types.Type {
	var x ast.Expr
	switch a := ts.Assign.(type) {
	case *ast.AssignStmt:
		x = a.Rhs[0]
	case *ast.ExprStmt:
		x = a.X
	}
	if ta, ok := ast.Unparen(x).(*ast.TypeAssertExpr); ok {
		return info.TypeOf(ta.X)
	}
	return nil
}

// clausePanics reports whether the clause's body ends in a panic call (or is
// only a panic).
func clausePanics(info *types.Info, cc *ast.CaseClause) bool {
	for _, s := range cc.Body {
		if es, ok := s.(*ast.ExprStmt); ok {
			if call, ok := es.X.(*ast.CallExpr); ok {
				if id, ok := call.Fun.(*ast.Ident); ok {
					if b, ok := info.Uses[id].(*types.Builtin); ok && b.Name() == "panic" {
						return true
					}
				}
			}
		}
	}
	return false
}

// constCases collects the constant values of the case expressions of a value
// switch, per clause.
func constCases(info *types.Info, sw *ast.SwitchStmt) (vals []constant.Value, def *ast.CaseClause) {
	for _, s := range sw.Body.List {
		cc := s.(*ast.CaseClause)
		if cc.List == nil {
			def = cc
			continue
		}
		for _, e := range cc.List {
			if tv, ok := info.Types[e]; ok && tv.Value != nil {
				vals = append(vals, tv.Value)
			}
		}
	}
	return
}

// ---------------------------------------------------------------------------
// Static reference graph over declarations (AST level, type-resolved).

type refGraph struct {
	prog  *Prog
	decl  map[*types.Func]*ast.FuncDecl
	pkgOf map[*types.Func]*packages.Package
	edges map[*types.Func]map[*types.Func]bool
}

// buildRefGraph records, for each declared function of the main module, every
// function object it mentions (called or taken as a value), resolved through
// type information. Function literals belong to their enclosing declaration.
// Calls through interfaces are added for all main-module implementations.
func buildRefGraph(p *Prog) *refGraph {
	g := &refGraph{prog: p, decl: map[*types.Func]*ast.FuncDecl{}, pkgOf: map[*types.Func]*packages.Package{},
		edges: map[*types.Func]map[*types.Func]bool{}}
	for _, pkg := range p.Pkgs {
		for _, f := range pkg.Syntax {
			for _, d := range f.Decls {
				fd, ok := d.(*ast.FuncDecl)
				if !ok {
					continue
				}
				fo, _ := pkg.TypesInfo.Defs[fd.Name].(*types.Func)
				if fo == nil {
					continue
				}
				g.decl[fo] = fd
				g.pkgOf[fo] = pkg
			}
		}
	}
	// interface method -> implementations among declared methods
	impls := func(m *types.Func) []*types.Func {
		sig := m.Type().(*types.Signature)
		recv := sig.Recv()
		if recv == nil {
			return nil
		}
		ifc, ok := recv.Type().Underlying().(*types.Interface)
		if !ok {
			return nil
		}
		var out []*types.Func
		for fo := range g.decl {
			s := fo.Type().(*types.Signature)
			if s.Recv() == nil || fo.Name() != m.Name() {
				continue
			}
			if types.Implements(s.Recv().Type(), ifc) || types.Implements(types.NewPointer(s.Recv().Type()), ifc) {
				out = append(out, fo)
			}
		}
		return out
	}
	for fo, fd := range g.decl {
		if fd.Body == nil {
			continue
		}
		pkg := g.pkgOf[fo]
		set := map[*types.Func]bool{}
		ast.Inspect(fd.Body, func(n ast.Node) bool {
			id, ok := n.(*ast.Ident)
			if !ok {
				return true
			}
			if callee, ok := pkg.TypesInfo.Uses[id].(*types.Func); ok {
				callee = callee.Origin()
				set[callee] = true
				for _, im := range impls(callee) {
					set[im] = true
				}
			}
			return true
		})
		g.edges[fo] = set
	}
	return g
}

// reachable returns the functions reachable from the roots (inclusive).
func (g *refGraph) reachable(roots ...*types.Func) map[*types.Func]bool {
	seen := map[*types.Func]bool{}
	var work []*types.Func
	for _, r := range roots {
		if r != nil && !seen[r] {
			seen[r] = true
			work = append(work, r)
		}
	}
	for len(work) > 0 {
		f := work[len(work)-1]
		work = work[:len(work)-1]
		for c := range g.edges[f] {
			if !seen[c] {
				seen[c] = true
				work = append(work, c)
			}
		}
	}
	return seen
}

// methodsOf returns the declared methods (any receiver form) of a named type.
func (g *refGraph) methodsOf(n *types.Named) []*types.Func {
	var out []*types.Func
	for fo := range g.decl {
		s := fo.Type().(*types.Signature)
		if s.Recv() != nil && namedOf(s.Recv().Type()) == n {
			out = append(out, fo)
		}
	}
	sort.Slice(out, func(i, j int) bool { return out[i].Name() < out[j].Name() })
	return out
}

// constructionSites finds composite literals and new() of the named type in
// the main module, grouped by enclosing declared function.
func (g *refGraph) constructionSites(n *types.Named) map[*types.Func][]token.Pos {
	out := map[*types.Func][]token.Pos{}
	for fo, fd := range g.decl {
		if fd.Body == nil {
			continue
		}
		info := g.pkgOf[fo].TypesInfo
		ast.Inspect(fd.Body, func(nd ast.Node) bool {
			switch x := nd.(type) {
			case *ast.CompositeLit:
				if namedOf(info.TypeOf(x)) == n {
					if _, isPtr := info.TypeOf(x).(*types.Pointer); !isPtr {
						out[fo] = append(out[fo], x.Pos())
					}
				}
			case *ast.CallExpr:
				if id, ok := x.Fun.(*ast.Ident); ok {
					if b, ok := info.Uses[id].(*types.Builtin); ok && b.Name() == "new" && len(x.Args) == 1 {
						if namedOf(info.TypeOf(x.Args[0])) == n {
							out[fo] = append(out[fo], x.Pos())
						}
					}
				}
			}
			return true
		})
	}
	return out
}

func funcObjKey(fo *types.Func) string {
	s := fo.Type().(*types.Signature)
	pkg := ""
	if fo.Pkg() != nil {
		pkg = strings.TrimPrefix(strings.TrimPrefix(fo.Pkg().Path(), modPath), "/")
		if pkg == "" {
			pkg = fo.Pkg().Name()
		}
	}
	if s.Recv() != nil {
		return pkg + ".(" + typeName(s.Recv().Type()) + ")." + fo.Name()
	}
	return pkg + "." + fo.Name()
}

// calleeOf resolves the static callee of a call expression.
func calleeOf(info *types.Info, call *ast.CallExpr) *types.Func {
	f, _ := typeutil.Callee(info, call).(*types.Func)
	if f != nil {
		return f.Origin()
	}
	return nil
}

// isBuiltinCall reports whether call is a call of the named builtin.
func isBuiltinCall(info *types.Info, call *ast.CallExpr, name string) bool {
	id, ok := ast.Unparen(call.Fun).(*ast.Ident)
	if !ok {
		return false
	}
	b, ok := info.Uses[id].(*types.Builtin)
	return ok && b.Name() == name
}

// selectorField resolves x.F to the field object, if it is a field selection.
func selectorField(info *types.Info, e ast.Expr) *types.Var {
	se, ok := ast.Unparen(e).(*ast.SelectorExpr)
	if !ok {
		return nil
	}
	if sel, ok := info.Selections[se]; ok && sel.Kind() == types.FieldVal {
		return sel.Obj().(*types.Var)
	}
	return nil
}

// exprString is a compact rendering used in site keys.
func exprString(e ast.Expr) string { return types.ExprString(e) }
