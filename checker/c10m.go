package main

import (
	"go/ast"
	"go/types"

	"golang.org/x/tools/go/packages"
)

// R10m: with RecoverErrors a missing token gets the recovered position (offset 1<<30-ish, printed as ?:?), which is
// stored in the node and later handed to error reporters as "the token this error is about". The one ParseError
// construction site therefore takes its Pos from a value that, on every path to the literal, has either been tested
// not to be recovered (the false branch of IsRecovered) or been replaced. Decided in posErr alone: the rule does not
// trace which callers can pass a recovered position, it requires the sink to be safe against all of them.
func checkErrorPosSanitised(p *Prog, r *Result, pkg *packages.Package, rule string) {
	info := pkg.TypesInfo
	fd := p.FuncDecl("syntax", "Parser.posErr")
	pe := lookupType(pkg, "ParseError")
	isRec := lookupFunc(pkg, "Pos.IsRecovered")
	if fd == nil || pe == nil || isRec == nil {
		r.Fatalf("anchors Parser.posErr / ParseError / Pos.IsRecovered not found")
		return
	}
	var lit *ast.CompositeLit
	var posVal ast.Expr
	ast.Inspect(fd.Body, func(n ast.Node) bool {
		cl, ok := n.(*ast.CompositeLit)
		if !ok || namedOf(info.TypeOf(cl)) != pe {
			return true
		}
		lit = cl
		for _, el := range cl.Elts {
			if kv, ok := el.(*ast.KeyValueExpr); ok {
				if k, ok := kv.Key.(*ast.Ident); ok && k.Name == "Pos" {
					posVal = kv.Value
				}
			}
		}
		return true
	})
	key := "syntax.(Parser).posErr#ParseError.Pos is not a recovered position"
	if lit == nil || posVal == nil {
		r.Undecided(rule, key, fd.Pos(), "the ParseError literal or its Pos field was not found in posErr")
		return
	}
	id, ok := ast.Unparen(posVal).(*ast.Ident)
	if !ok {
		r.Undecided(rule, key, posVal.Pos(), "ParseError.Pos is not taken from a plain variable: "+exprString(posVal))
		return
	}
	obj := info.ObjectOf(id)
	g := NewFGraph(info, fd.Body, nil)
	isTest := func(e ast.Expr) bool {
		c, ok := ast.Unparen(e).(*ast.CallExpr)
		if !ok {
			return false
		}
		callee := calleeOf(info, c)
		if callee == nil || callee.Origin() != isRec {
			return false
		}
		se, ok := ast.Unparen(c.Fun).(*ast.SelectorExpr)
		if !ok {
			return false
		}
		x, ok := ast.Unparen(se.X).(*ast.Ident)
		return ok && info.ObjectOf(x) == obj
	}
	mentions := func(e ast.Expr) bool {
		found := false
		ast.Inspect(e, func(n ast.Node) bool {
			if x, ok := n.(*ast.Ident); ok && info.ObjectOf(x) == obj {
				found = true
			}
			return true
		})
		return found
	}
	res := runForward(g, flowSpec[bool]{
		Init:  false,
		Join:  func(a, b bool) bool { return a && b },
		Equal: func(a, b bool) bool { return a == b },
		Node: func(f bool, n ast.Node) bool {
			if as, ok := n.(*ast.AssignStmt); ok && len(as.Lhs) == len(as.Rhs) {
				for i, l := range as.Lhs {
					if x, ok := ast.Unparen(l).(*ast.Ident); ok && info.ObjectOf(x) == obj {
						// replaced by something that is not derived from itself; p.pos and node starts are real positions
						if !mentions(as.Rhs[i]) && !isRecoveredSource(info, as.Rhs[i]) {
							return true
						}
						return false
					}
				}
			}
			return f
		},
		Edge: func(f bool, e *FEdge) bool {
			if e.Cond != nil && e.Tag == nil && !e.TypeCase && isTest(e.Cond) && !e.Pol {
				return true
			}
			return f
		},
	})
	safe, found := res.Before(lit)
	if !found {
		// the literal is an argument of a call statement: locate the node that holds it
		if b := blockContaining(g, lit); b != nil {
			for i, nd := range b.Nodes {
				if nd.Pos() <= lit.Pos() && lit.End() <= nd.End() {
					safe, found = res.At(b, i)
				}
			}
		}
	}
	if !found {
		r.Undecided(rule, key, lit.Pos(), "the ParseError literal was not found in posErr's flow graph")
		return
	}
	r.Check(safe, rule, key, lit.Pos(), "on every path to the literal "+id.Name+" has failed IsRecovered() or been replaced",
		"a path reaches the ParseError literal with a position that may be the recovered one: with RecoverErrors, an error that follows a recovered token (`while a` → \"`do` must be followed by a statement list\") is reported at ?:?, a position outside the input")
}

// isRecoveredSource reports whether e is the package's recovered position itself.
func isRecoveredSource(info *types.Info, e ast.Expr) bool {
	id, ok := ast.Unparen(e).(*ast.Ident)
	if !ok {
		return false
	}
	v, ok := info.ObjectOf(id).(*types.Var)
	return ok && v.Name() == "recoveredPos" && v.Parent() == v.Pkg().Scope()
}
