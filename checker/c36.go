package main

import (
	"fmt"
	"go/ast"
	"go/types"
	"sort"
	"strings"
)

func init() {
	register(&Property{
		ID:  "C36",
		Run: runC36,
		Decided: "stdin and file formatting both end in the one formatBytes, and Parse, Print and Simplify are called nowhere else in shfmt (R36a); in formatBytes the list output, the write, " +
			"the diff and every `formatting differs` status depend on one single comparison of the source with the printer's output, the plain stdout write does not, and the bytes compared, " +
			"written and diffed are the same values (R36b); every parser/printer option derived from EditorConfig is applied unconditionally for each file, the same set of printer options is " +
			"applied from flags and from EditorConfig, the parser's variant is set on every path before Parse, and stdin and files derive the language the same way (R36c).",
		NotDecided:  "that the printed diff applies cleanly; equality of EditorConfig lookups between a real path and the -filename given for stdin; exit status plumbing in main beyond errFormattingDiffers.",
		Assumptions: []string{"bytes.Equal, diff.Diff behave as documented"},
		Controls:    c36Controls,
	})
}

func runC36(p *Prog, r *Result) {
	pkg := p.Pkg("cmd/shfmt")
	if pkg == nil {
		r.Fatalf("package cmd/shfmt not loaded")
		return
	}
	info := pkg.TypesInfo
	r.Rule("R36a", "single funnel: formatStdin and formatPath return formatBytes(...); Parse/Print/Simplify only called in formatBytes", 5)
	r.Rule("R36b", "one difference test in formatBytes governs list, write, diff and the differs status; compared/written/diffed values are src and the printer output", 8)
	r.Rule("R36c", "EditorConfig options applied unconditionally; same printer option set from flags and EditorConfig; variant set before Parse on every path; same language derivation for stdin and files", 6)

	fb := p.FuncDecl("cmd/shfmt", "formatBytes")
	fs := p.FuncDecl("cmd/shfmt", "formatStdin")
	fp := p.FuncDecl("cmd/shfmt", "formatPath")
	po := p.FuncDecl("cmd/shfmt", "propsOptions")
	mainFD := p.FuncDecl("cmd/shfmt", "main")
	if fb == nil || fs == nil || fp == nil || po == nil || mainFD == nil {
		r.Fatalf("anchors formatBytes/formatStdin/formatPath/propsOptions/main not all found in cmd/shfmt")
		return
	}
	fbObj := lookupFunc(pkg, "formatBytes")

	// ---- R36a
	core := map[string]bool{"mvdan.cc/sh/v3/syntax.(Parser).Parse": true, "mvdan.cc/sh/v3/syntax.(Printer).Print": true, "mvdan.cc/sh/v3/syntax.Simplify": true}
	counts := map[string]int{}
	for _, fd := range p.AllFuncDecls("cmd/shfmt") {
		ast.Inspect(fd.Body, func(n ast.Node) bool {
			c, ok := n.(*ast.CallExpr)
			if !ok {
				return true
			}
			q := qualName(calleeOf(info, c))
			if core[q] {
				counts[q]++
				r.Check(fd == fb, "R36a", "cmd/shfmt."+fd.Name.Name+"#calls "+q[strings.LastIndex(q, "/")+1:], c.Pos(), "inside formatBytes",
					"parsing/printing/simplifying happens outside formatBytes: a mode can format differently from the others")
			}
			return true
		})
	}
	for q := range core {
		if counts[q] == 0 {
			r.Bad("R36a", "cmd/shfmt.formatBytes#never calls "+q[strings.LastIndex(q, "/")+1:], fb.Pos(), "formatBytes does not call "+q)
		}
	}
	for _, fd := range []*ast.FuncDecl{fs, fp} {
		var calls []*ast.CallExpr
		ast.Inspect(fd.Body, func(n ast.Node) bool {
			if c, ok := n.(*ast.CallExpr); ok && calleeOf(info, c) == fbObj {
				calls = append(calls, c)
			}
			return true
		})
		ok := len(calls) == 1
		if ok {
			// the call is the operand of a return statement
			ok = false
			ast.Inspect(fd.Body, func(n ast.Node) bool {
				if rs, isRet := n.(*ast.ReturnStmt); isRet && len(rs.Results) == 1 && ast.Unparen(rs.Results[0]) == ast.Expr(calls[0]) {
					ok = true
				}
				return true
			})
		}
		r.Check(ok, "R36a", "cmd/shfmt."+fd.Name.Name+"#returns formatBytes(...)", fd.Pos(), "exactly one call of formatBytes, returned directly",
			fd.Name.Name+" does not funnel into a single `return formatBytes(...)`")
	}
	// no other caller of formatBytes
	other := 0
	for _, fd := range p.AllFuncDecls("cmd/shfmt") {
		if fd == fs || fd == fp {
			continue
		}
		ast.Inspect(fd.Body, func(n ast.Node) bool {
			if c, ok := n.(*ast.CallExpr); ok && calleeOf(info, c) == fbObj {
				other++
			}
			return true
		})
	}
	r.Check(other == 0, "R36a", "cmd/shfmt.formatBytes#callers", fb.Pos(), "called only from formatStdin and formatPath", fmt.Sprintf("%d other call sites of formatBytes", other))

	// ---- R36b
	g := NewFGraph(info, fb.Body, nil)
	var srcObj types.Object
	if len(fb.Type.Params.List) > 0 && len(fb.Type.Params.List[0].Names) > 0 {
		srcObj = info.Defs[fb.Type.Params.List[0].Names[0]]
	}
	// the comparison
	var eqCalls []callSite
	for _, cs := range findCalls(g, func(c *ast.CallExpr) bool { return qualName(calleeOf(info, c)) == "bytes.Equal" }) {
		eqCalls = append(eqCalls, cs)
	}
	if len(eqCalls) != 1 {
		r.Bad("R36b", "cmd/shfmt.formatBytes#single comparison", fb.Pos(), fmt.Sprintf("%d bytes.Equal comparisons (want exactly one deciding 'differs')", len(eqCalls)))
		return
	}
	eq := eqCalls[0]
	var resObj types.Object
	okArgs := false
	if len(eq.call.Args) == 2 {
		a0, a1 := identObj(info, eq.call.Args[0]), identObj(info, eq.call.Args[1])
		if a0 == srcObj && a1 != nil {
			resObj, okArgs = a1, true
		} else if a1 == srcObj && a0 != nil {
			resObj, okArgs = a0, true
		}
	}
	r.Check(okArgs, "R36b", "cmd/shfmt.formatBytes#compares src with the result", eq.call.Pos(), "bytes.Equal(src, res)", "the comparison is not between the source parameter and a result variable")
	// res := writeBuf.Bytes() after printer.Print(&writeBuf, node)
	okRes := false
	var bufName string
	if def := singleDef(info, fb, resObj); def != nil {
		if c, ok := ast.Unparen(def).(*ast.CallExpr); ok && qualName(calleeOf(info, c)) == "bytes.(Buffer).Bytes" {
			if se, ok := ast.Unparen(c.Fun).(*ast.SelectorExpr); ok {
				bufName = exprString(se.X)
			}
			prints := findCalls(g, func(c *ast.CallExpr) bool { return qualName(calleeOf(info, c)) == "mvdan.cc/sh/v3/syntax.(Printer).Print" })
			resets := findCalls(g, func(c *ast.CallExpr) bool {
				if qualName(calleeOf(info, c)) != "bytes.(Buffer).Reset" {
					return false
				}
				se, ok := ast.Unparen(c.Fun).(*ast.SelectorExpr)
				return ok && exprString(se.X) == bufName
			})
			dom := g.Dominators()
			if len(prints) == 1 && len(resets) == 1 && len(prints[0].call.Args) == 2 && strings.TrimPrefix(exprString(prints[0].call.Args[0]), "&") == bufName {
				bytesSite := findCalls(g, func(x *ast.CallExpr) bool { return x == c })
				if len(bytesSite) == 1 && before(dom, resets[0], prints[0]) && before(dom, prints[0], bytesSite[0]) && before(dom, bytesSite[0], eq) {
					okRes = true
				}
			}
		}
	}
	r.Check(okRes, "R36b", "cmd/shfmt.formatBytes#result is the printer's output", eq.call.Pos(), "buffer reset → printer.Print(&buf, node) → res := buf.Bytes() → comparison, each dominating the next",
		"the value compared with the source is not exactly what the printer wrote for this file (buffer not reset, or taken before printing)")
	// parser input is src
	okParse := false
	for _, cs := range findCalls(g, func(c *ast.CallExpr) bool { return qualName(calleeOf(info, c)) == "mvdan.cc/sh/v3/syntax.(Parser).Parse" }) {
		if len(cs.call.Args) >= 1 {
			ast.Inspect(cs.call.Args[0], func(n ast.Node) bool {
				if id, ok := n.(*ast.Ident); ok && info.Uses[id] == srcObj {
					okParse = true
				}
				return true
			})
		}
	}
	r.Check(okParse, "R36b", "cmd/shfmt.formatBytes#parses src", fb.Pos(), "parser.Parse reads the src parameter", "the bytes parsed are not the bytes compared")

	differsEdge := func(e *FEdge) bool {
		return e.Cond != nil && ast.Unparen(e.Cond) == ast.Expr(eq.call) && !e.Pol
	}
	// effects that must depend on "differs"
	type effect struct {
		key  string
		site callSite
		args func(*ast.CallExpr) bool
	}
	var effects []effect
	for _, cs := range findCalls(g, func(c *ast.CallExpr) bool {
		q := qualName(calleeOf(info, c))
		return strings.HasSuffix(q, "renameio/v2/maybe.WriteFile") || strings.HasSuffix(q, "/diff.Diff") || q == "fmt.Println" || q == "fmt.Print"
	}) {
		q := qualName(calleeOf(info, cs.call))
		effects = append(effects, effect{key: q[strings.LastIndex(q, "/")+1:], site: cs})
	}
	sort.Slice(effects, func(i, j int) bool { return effects[i].site.call.Pos() < effects[j].site.call.Pos() })
	for _, ef := range effects {
		key := "cmd/shfmt.formatBytes#" + ef.key + " only when differs"
		r.Check(underEdges(g, ef.site.blk, differsEdge), "R36b", key, ef.site.call.Pos(), "reachable only through the `differs` edge of the single comparison",
			ef.key+" can run although the formatted output equals the source (or without consulting the comparison): -l/-d/-w disagree on which files differ")
		// the values used
		switch {
		case strings.HasSuffix(ef.key, "WriteFile"):
			ok := len(ef.site.call.Args) == 3 && identObj(info, ef.site.call.Args[1]) == resObj
			r.Check(ok, "R36b", "cmd/shfmt.formatBytes#WriteFile writes the compared result", ef.site.call.Pos(), "second argument is the compared result", "-w writes something other than the formatted bytes that were compared")
		case strings.HasSuffix(ef.key, "Diff"):
			ok := len(ef.site.call.Args) == 4 && identObj(info, ef.site.call.Args[1]) == srcObj && identObj(info, ef.site.call.Args[3]) == resObj
			r.Check(ok, "R36b", "cmd/shfmt.formatBytes#Diff(src, result)", ef.site.call.Pos(), "diffs the source against the compared result", "-d diffs other bytes than the ones compared")
		}
	}
	// every return of errFormattingDiffers is under the differs edge
	nRet := 0
	for _, b := range g.Blocks {
		for _, n := range b.Nodes {
			rs, ok := n.(*ast.ReturnStmt)
			if !ok || len(rs.Results) != 1 {
				continue
			}
			if id, ok := ast.Unparen(rs.Results[0]).(*ast.Ident); ok && id.Name == "errFormattingDiffers" {
				nRet++
				r.Check(underEdges(g, b, differsEdge), "R36b", "cmd/shfmt.formatBytes#return errFormattingDiffers only when differs", rs.Pos(), "under the `differs` edge",
					"the `formatting differs` status can be returned for a file whose output equals its source")
			}
		}
	}
	if nRet == 0 {
		r.Bad("R36b", "cmd/shfmt.formatBytes#no differs status", fb.Pos(), "formatBytes never returns errFormattingDiffers")
	}
	// the plain stdout write of the result must NOT depend on differs
	plain := 0
	for _, cs := range findCalls(g, func(c *ast.CallExpr) bool {
		return qualName(calleeOf(info, c)) == "os.(File).Write" && len(c.Args) == 1 && identObj(info, c.Args[0]) == resObj
	}) {
		plain++
		r.Check(!underEdges(g, cs.blk, differsEdge), "R36b", "cmd/shfmt.formatBytes#plain output independent of differs", cs.call.Pos(), "also reachable when the output equals the source",
			"formatted output is only written to stdout when it differs from the input: already formatted input prints nothing")
	}
	if plain == 0 {
		r.Bad("R36b", "cmd/shfmt.formatBytes#plain output", fb.Pos(), "no os.Stdout.Write(res) found")
	}

	// ---- R36c
	// option applications: syntax.X(args)(parser|printer)
	type optApp struct {
		name   string
		target string
		call   *ast.CallExpr
	}
	optApps := func(fd *ast.FuncDecl) []optApp {
		var out []optApp
		ast.Inspect(fd.Body, func(n ast.Node) bool {
			c, ok := n.(*ast.CallExpr)
			if !ok || len(c.Args) != 1 {
				return true
			}
			inner, ok := ast.Unparen(c.Fun).(*ast.CallExpr)
			if !ok {
				return true
			}
			fn := calleeOf(info, inner)
			if fn == nil || fn.Pkg() == nil || fn.Pkg().Path() != "mvdan.cc/sh/v3/syntax" {
				return true
			}
			rt := fn.Type().(*types.Signature).Results()
			if rt.Len() != 1 {
				return true
			}
			tn := typeName(rt.At(0).Type())
			if tn != "PrinterOption" && tn != "ParserOption" {
				return true
			}
			out = append(out, optApp{fn.Name(), exprString(c.Args[0]), c})
			return true
		})
		return out
	}
	pg := NewFGraph(info, po.Body, nil)
	pdom := pg.PostDominators(pg.Exit)
	ecPrinter := map[string]bool{}
	for _, oa := range optApps(po) {
		blk, _ := pg.BlockOf(oa.call)
		uncond := blk != nil && pdom[pg.Entry][blk]
		r.Check(uncond, "R36c", "cmd/shfmt.propsOptions#"+oa.name+" applied unconditionally", oa.call.Pos(), "its block post-dominates the function entry",
			"the option is only applied on some paths: a file without that EditorConfig key inherits the previous file's setting")
		if oa.target == "printer" {
			ecPrinter[oa.name] = true
		}
	}
	flagPrinter := map[string]bool{}
	for _, oa := range optApps(mainFD) {
		if oa.target == "printer" {
			flagPrinter[oa.name] = true
		}
	}
	// options handed to NewPrinter in main count too
	ast.Inspect(mainFD.Body, func(n ast.Node) bool {
		c, ok := n.(*ast.CallExpr)
		if !ok || qualName(calleeOf(info, c)) != "mvdan.cc/sh/v3/syntax.NewPrinter" {
			return true
		}
		for _, a := range c.Args {
			if ic, ok := ast.Unparen(a).(*ast.CallExpr); ok {
				if fn := calleeOf(info, ic); fn != nil {
					flagPrinter[fn.Name()] = true
				}
			}
		}
		return true
	})
	var onlyFlags, onlyEC []string
	for k := range flagPrinter {
		if !ecPrinter[k] {
			onlyFlags = append(onlyFlags, k)
		}
	}
	for k := range ecPrinter {
		if !flagPrinter[k] {
			onlyEC = append(onlyEC, k)
		}
	}
	sort.Strings(onlyFlags)
	sort.Strings(onlyEC)
	r.Check(len(onlyFlags) == 0 && len(onlyEC) == 0 && len(ecPrinter) > 0, "R36c", "cmd/shfmt#printer options: flags = EditorConfig", po.Pos(),
		fmt.Sprintf("%d printer options on both sides: %s", len(ecPrinter), strings.Join(sortedKeys(ecPrinter), ",")),
		fmt.Sprintf("printer options differ between flags and EditorConfig (only flags: %v, only EditorConfig: %v): equivalent settings format differently", onlyFlags, onlyEC))
	// simplify recomputed in propsOptions
	simp := false
	ast.Inspect(po.Body, func(n ast.Node) bool {
		if as, ok := n.(*ast.AssignStmt); ok && len(as.Lhs) == 1 && exprString(as.Lhs[0]) == "simplify.val" {
			blk, _ := pg.BlockOf(as)
			if blk != nil && pdom[pg.Entry][blk] {
				simp = true
			}
		}
		return true
	})
	r.Check(simp, "R36c", "cmd/shfmt.propsOptions#simplify recomputed", po.Pos(), "simplify.val assigned unconditionally", "simplify is not recomputed for each file from EditorConfig")
	// Variant set on every path before Parse
	poObj := lookupFunc(pkg, "propsOptions")
	variantInPO := false
	for _, oa := range optApps(po) {
		if oa.name == "Variant" && oa.target == "parser" {
			variantInPO = true
		}
	}
	for _, cs := range findCalls(g, func(c *ast.CallExpr) bool { return qualName(calleeOf(info, c)) == "mvdan.cc/sh/v3/syntax.(Parser).Parse" }) {
		setsVariant := func(n ast.Node) bool {
			for _, c := range nodeCalls(n) {
				if calleeOf(info, c) == poObj && variantInPO {
					return true
				}
				if inner, ok := ast.Unparen(c.Fun).(*ast.CallExpr); ok {
					if fn := calleeOf(info, inner); fn != nil && fn.Name() == "Variant" && len(c.Args) == 1 && exprString(c.Args[0]) == "parser" {
						return true
					}
				}
			}
			return false
		}
		// every path from entry to the Parse block passes a variant-setting node: cut those nodes' blocks
		blocked := map[*FBlock]bool{}
		for _, b := range g.Blocks {
			for _, n := range b.Nodes {
				if setsVariant(n) {
					blocked[b] = true
				}
			}
		}
		reach := g.Reachable(g.Entry, func(e *FEdge) bool { return !blocked[e.From] })
		ok := !reach[cs.blk] || blocked[cs.blk]
		if blocked[g.Entry] {
			ok = true
		}
		r.Check(ok, "R36c", "cmd/shfmt.formatBytes#variant set before Parse", cs.call.Pos(), "every path to Parse applies syntax.Variant to the parser (directly or in propsOptions)",
			"some path reaches Parse without setting the language variant: the previous file's variant is used")
	}
	// sibling language derivation
	derive := func(fd *ast.FuncDecl) string {
		set := map[string]bool{}
		ast.Inspect(fd.Body, func(n ast.Node) bool {
			switch x := n.(type) {
			case *ast.CallExpr:
				q := qualName(calleeOf(info, x))
				switch {
				case strings.HasSuffix(q, "cmd/shfmt.langFromFilename"), strings.HasSuffix(q, "fileutil.Shebang"), strings.HasSuffix(q, "syntax.(LangVariant).Set"):
					set[q[strings.LastIndex(q, "/")+1:]] = true
				}
			case *ast.AssignStmt:
				for i, rhs := range x.Rhs {
					if i < len(x.Lhs) && exprString(rhs) == "syntax.LangBash" {
						set["fallback=LangBash"] = true
					}
					if i < len(x.Lhs) && exprString(rhs) == "lang.val" {
						set["start=lang.val"] = true
					}
				}
			case *ast.BinaryExpr:
				if exprString(x.Y) == "syntax.LangAuto" {
					set["test LangAuto"] = true
				}
			}
			return true
		})
		return strings.Join(sortedKeys(set), "; ")
	}
	ds, dp := derive(fs), derive(fp)
	r.Check(ds == dp && ds != "", "R36c", "cmd/shfmt#language derivation stdin = file", fs.Pos(), "both use: "+ds,
		fmt.Sprintf("stdin and file paths derive the language differently (stdin: %s | file: %s): the same script formats differently through a pipe", ds, dp))
	checkPropsOptionsOnEveryPath(p, r, pkg, fb, g)
	checkModeTable(p, r, pkg, fb, mainFD, g, eq, resObj)
	r.Rule("R36e", "the regular expressions that decide which files a tree run touches anchor every branch of a top-level alternation alike", 3)
	checkRegexpAnchoring(p, r, "R36e", []string{"cmd/shfmt", "fileutil"})
	r.Rule("R36f", "the language detected from a shebang is detected from the very bytes that are formatted, in the file mode and in the stdin mode alike", 2)
	checkShebangFromFormattedBytes(p, r, "R36f")
	r.Rule("R36g", "the file mode hands formatBytes exactly the bytes it read from the file", 2)
	checkFileBytesUntouched(p, r, "R36g")
	r.Rule("R36h", "the directory walk survives a file that fails: after the callback called formatPath, every return it can reach is nil", 1)
	checkWalkSurvivesFileErrors(p, r, "R36h")
}

var c36Controls = []Control{
	{Name: "unknown-file-error-aborts-the-walk", Rule: "R36h", WantKey: "main#walk callback: after formatPath call 1", File: "cmd/shfmt/main.go",
		Mutate: ctlReplaceAnywhere("\t\t\t} else if err != nil {\n\t\t\t\tfmt.Fprintln(os.Stderr, err)\n\t\t\t\tstatus = 1\n\t\t\t}\n\t\t\treturn nil\n", "\t\t\t} else if _, ok := err.(syntax.ParseError); ok {\n\t\t\t\tfmt.Fprintln(os.Stderr, err)\n\t\t\t\tstatus = 1\n\t\t\t} else if err != nil {\n\t\t\t\treturn err\n\t\t\t}\n\t\t\treturn nil\n")},
	{Name: "file-mode-strips-a-prefix", Rule: "R36g", WantKey: "formatPath#readBuf.Write(", File: "cmd/shfmt/main.go",
		Mutate: ctlReplaceAnywhere("\t\treadBuf.Write(copyBuf[:n])\n", "\t\treadBuf.Write(bytes.TrimPrefix(copyBuf[:n], []byte(\"\\xef\\xbb\\xbf\")))\n")},
	{Name: "file-mode-sniffs-a-prefix", Rule: "R36f", WantKey: "formatPath#the language comes from the shebang", File: "cmd/shfmt/main.go",
		Mutate: ctlReplaceAnywhere("l.Set(fileutil.Shebang(readBuf.Bytes()))", "l.Set(fileutil.Shebang(copyBuf[:32]))")},
	{Name: "vcs-pattern-loses-its-grouping", Rule: "R36e", WantKey: "cmd/shfmt#regexp", File: "cmd/shfmt/main.go",
		Mutate: ctlReplaceAnywhere("regexp.MustCompile(`^\\.(git|svn|hg)$`)", "regexp.MustCompile(`^\\.(git|svn|hg)|_darcs|CVS$`)")},
	{Name: "list-null-exits-zero", Rule: "R36d", WantKey: "--list=0 alone: differs status returned", File: "cmd/shfmt/main.go",
		Mutate: ctlReplace("formatBytes", `list.val != "false" && !write.val`, `list.val == "true" && !write.val`, 0)},
	{Name: "editorconfig-fast-path", Rule: "R36c", WantKey: "propsOptions before every Print", File: "cmd/shfmt/main.go",
		Mutate: ctlReplace("formatBytes", "fileLang, fileLangFromEditorConfig = propsOptions(fileLang, props)", "if len(props.Properties) > 0 {\n\t\t\tfileLang, fileLangFromEditorConfig = propsOptions(fileLang, props)\n\t\t} else {\n\t\t\tsyntax.Variant(fileLang)(parser)\n\t\t}", 0)},
	{Name: "diff-after-write-returns-nil", Rule: "R36d", WantKey: "--diff: diff computed", File: "cmd/shfmt/main.go",
		Mutate: ctlReplace("formatBytes", "diff.val", "diff.val && !write.val", 1)},
	{Name: "list-prints-always", Rule: "R36b", WantKey: "Println only when differs", File: "cmd/shfmt/main.go",
		Mutate: ctlReplace("formatBytes", "!bytes.Equal(src, res)", "!bytes.Equal(src, res) || list.val == \"true\"", 0)},
	{Name: "editorconfig-conditional-option", Rule: "R36c", WantKey: "SpaceRedirects applied unconditionally", File: "cmd/shfmt/main.go",
		Mutate: ctlReplace("propsOptions", "syntax.SpaceRedirects(props.Get(\"space_redirects\") == \"true\")(printer)", "if props.Get(\"space_redirects\") == \"true\" {\n\t\tsyntax.SpaceRedirects(true)(printer)\n\t}", 0)},
	{Name: "editorconfig-forgets-option", Rule: "R36c", WantKey: "printer options: flags = EditorConfig", File: "cmd/shfmt/main.go",
		Mutate: ctlReplace("propsOptions", "syntax.KeepPadding(props.Get(\"keep_padding\") == \"true\")(printer)", "", 0)},
	{Name: "stdin-parses-itself", Rule: "R36a", WantKey: "formatStdin#calls", File: "cmd/shfmt/main.go",
		Mutate: ctlReplace("formatStdin", "return formatBytes(src, name, l)", "if _, err := parser.Parse(bytes.NewReader(src), name); err != nil {\n\t\treturn err\n\t}\n\treturn formatBytes(src, name, l)", 0)},
	{Name: "variant-only-without-editorconfig-dropped", Rule: "R36c", WantKey: "variant set before Parse", File: "cmd/shfmt/main.go",
		Mutate: ctlReplace("formatBytes", "syntax.Variant(fileLang)(parser)", "_ = fileLang", 0)},
	{Name: "write-source-instead-of-result", Rule: "R36b", WantKey: "WriteFile writes the compared result", File: "cmd/shfmt/main.go",
		Mutate: ctlReplace("formatBytes", "maybeio.WriteFile(path, res, perm)", "maybeio.WriteFile(path, src, perm)", 0)},
}
