package main

import (
	"os"
	"fmt"
	"go/ast"
	"go/token"
	"go/types"
	"strings"

	"golang.org/x/tools/go/packages"
)

// R06j: range-over-func protocol. Inside an iterator literal func(yield func(...) bool), calling yield again after
// it returned false is a run-time panic. The rule finds every point after which the consumer may have stopped without
// the iterator knowing — yield handed to another function, stored in a struct, or called from a nested closure — and
// requires every later direct call of yield to be reachable only through a test of a flag that is set where yield
// returned false.
func checkIteratorProtocol(p *Prog, r *Result, pkg *packages.Package, rel, rule string) {
	info := pkg.TypesInfo
	isYieldType := func(t types.Type) bool {
		sig, ok := t.Underlying().(*types.Signature)
		if !ok || sig.Results().Len() != 1 {
			return false
		}
		b, ok := sig.Results().At(0).Type().Underlying().(*types.Basic)
		return ok && b.Kind() == types.Bool
	}
	// flags: variables or fields assigned from the outcome of a yield call somewhere in the package
	flagObjs := map[types.Object]bool{}
	for _, fd := range p.AllFuncDecls(rel) {
		ast.Inspect(fd.Body, func(n ast.Node) bool {
			switch x := n.(type) {
			case *ast.AssignStmt:
				for i, l := range x.Lhs {
					if i >= len(x.Rhs) {
						continue
					}
					callsYield := false
					ast.Inspect(x.Rhs[i], func(m ast.Node) bool {
						if c, ok := m.(*ast.CallExpr); ok {
							if t := info.TypeOf(c.Fun); t != nil && isYieldType(t) && strings.Contains(strings.ToLower(exprString(c.Fun)), "yield") {
								callsYield = true
							}
						}
						return true
					})
					if callsYield {
						if o := lhsObject(info, l); o != nil {
							flagObjs[o] = true
						}
					}
				}
			case *ast.IfStmt:
				// if !yield(...) { F = true; … }
				ue, ok := ast.Unparen(x.Cond).(*ast.UnaryExpr)
				if !ok || ue.Op != token.NOT {
					return true
				}
				c, ok := ast.Unparen(ue.X).(*ast.CallExpr)
				if !ok || !strings.Contains(strings.ToLower(exprString(c.Fun)), "yield") {
					return true
				}
				for _, st := range x.Body.List {
					if as, ok := st.(*ast.AssignStmt); ok && len(as.Lhs) == 1 && len(as.Rhs) == 1 && exprString(as.Rhs[0]) == "true" {
						if o := lhsObject(info, as.Lhs[0]); o != nil {
							flagObjs[o] = true
						}
					}
				}
			}
			return true
		})
	}
	if os.Getenv("SHCHECK_DEBUG") != "" {
		for o := range flagObjs {
			fmt.Println("DBG flag", o.Name(), p.Position(o.Pos()))
		}
	}
	n := 0
	for _, fd := range p.AllFuncDecls(rel) {
		ast.Inspect(fd.Body, func(x ast.Node) bool {
			lit, ok := x.(*ast.FuncLit)
			if !ok || lit.Type.Params == nil || len(lit.Type.Params.List) != 1 || len(lit.Type.Params.List[0].Names) != 1 {
				return true
			}
			yobj := info.Defs[lit.Type.Params.List[0].Names[0]]
			if yobj == nil || !isYieldType(yobj.Type()) || lit.Type.Results != nil {
				return true
			}
			// is this literal returned as an iterator (type iter.Seq*) or at least named yield?
			if yobj.Name() != "yield" {
				return true
			}
			n++
			g := NewFGraph(info, lit.Body, nil)
			key := fmt.Sprintf("%s#iterator literal", funcKey(rel, fd))
			usesY := func(e ast.Node) bool {
				hit := false
				ast.Inspect(e, func(m ast.Node) bool {
					if id, ok := m.(*ast.Ident); ok && info.Uses[id] == yobj {
						hit = true
					}
					return !hit
				})
				return hit
			}
			// local closures that call yield and report the outcome as a bool are as good as yield itself:
			// expandWord := func(w) (stop bool) { … if !yield(…) { return true } … }
			yieldLike := map[types.Object]bool{yobj: true}
			yieldLikeLit := map[*ast.FuncLit]bool{}
			inspectNoLit(lit.Body, func(m ast.Node) bool {
				as, ok := m.(*ast.AssignStmt)
				if !ok || len(as.Lhs) != 1 || len(as.Rhs) != 1 {
					return true
				}
				fl, ok := as.Rhs[0].(*ast.FuncLit)
				if !ok || !usesY(fl.Body) || fl.Type.Results == nil || len(fl.Type.Results.List) != 1 {
					return true
				}
				if b, ok := info.TypeOf(fl.Type.Results.List[0].Type).Underlying().(*types.Basic); ok && b.Kind() == types.Bool {
					if id, ok := as.Lhs[0].(*ast.Ident); ok {
						yieldLike[info.ObjectOf(id)] = true
						yieldLikeLit[fl] = true
					}
				}
				return true
			})
			// handoff nodes: y used other than as the function of a direct call in this body
			isHandoff := func(nd ast.Node) bool {
				if _, isRange := nd.(*ast.RangeStmt); isRange {
					return false // the range node stands for the iteration step only; its X is a node of its own
				}
				hand := false
				ast.Inspect(nd, func(m ast.Node) bool {
					switch y := m.(type) {
					case *ast.FuncLit:
						if usesY(y.Body) && !yieldLikeLit[y] {
							hand = true
						}
						return false
					case *ast.CallExpr:
						for _, a := range y.Args {
							if id, ok := ast.Unparen(a).(*ast.Ident); ok && info.Uses[id] == yobj {
								hand = true
							}
						}
					case *ast.KeyValueExpr:
						if id, ok := ast.Unparen(y.Value).(*ast.Ident); ok && info.Uses[id] == yobj {
							hand = true
						}
					case *ast.AssignStmt:
						for _, rh := range y.Rhs {
							if id, ok := ast.Unparen(rh).(*ast.Ident); ok && info.Uses[id] == yobj {
								hand = true
							}
						}
					}
					return true
				})
				return hand
			}
			directCall := func(nd ast.Node) *ast.CallExpr {
				var out *ast.CallExpr
				if _, isRange := nd.(*ast.RangeStmt); isRange {
					return nil
				}
				inspectNoLit(nd, func(m ast.Node) bool {
					if c, ok := m.(*ast.CallExpr); ok {
						if id, ok := ast.Unparen(c.Fun).(*ast.Ident); ok && yieldLike[info.Uses[id]] {
							out = c
						}
					}
					return true
				})
				return out
			}
			isFlagEdge := func(e *FEdge) bool {
				if e.Cond == nil {
					return false
				}
				if o := lhsObject(info, e.Cond); o != nil && flagObjs[o] {
					return !e.Pol // taken when the flag is false: the consumer has not stopped
				}
				return false
			}
			// a direct call whose false result does not leave the literal is itself a may-have-stopped point
			okAll := true
			why := ""
			for _, b := range g.Blocks {
				for i, nd := range b.Nodes {
					hand := isHandoff(nd)
					dc := directCall(nd)
					unchecked := false
					if dc != nil {
						// result used as (part of) a condition whose "false" outcome returns?
						tested := false
						for _, e := range b.Succs {
							if e.Cond == nd || (e.Cond != nil && e.Cond.Pos() <= dc.Pos() && dc.End() <= e.Cond.End()) {
								tested = true
							}
						}
						if as, ok := nd.(*ast.AssignStmt); ok {
							for _, l := range as.Lhs {
								if o := lhsObject(info, l); o != nil && flagObjs[o] {
									tested = true
								}
							}
						}
						if !tested {
							unchecked = true
						}
					}
					if !hand && !unchecked {
						continue
					}
					// any later direct call reachable from here without passing a flag test?
					seen := map[*FBlock]bool{}
					var walk func(bb *FBlock, from int) *ast.CallExpr
					walk = func(bb *FBlock, from int) *ast.CallExpr {
						for k := from; k < len(bb.Nodes); k++ {
							if c := directCall(bb.Nodes[k]); c != nil {
								return c
							}
						}
						for _, e := range bb.Succs {
							if isFlagEdge(e) || seen[e.To] {
								continue
							}
							// the true edge of a flag test leaves (return/break): follow it too, it cannot reach a call unless the code is wrong
							seen[e.To] = true
							if c := walk(e.To, 0); c != nil {
								return c
							}
						}
						return nil
					}
					if c := walk(b, i+1); c != nil {
						okAll = false
						what := "yield was handed to other code"
						if unchecked {
							what = "a call of yield whose result is not tested"
						}
						why = fmt.Sprintf("after %s at %s, the call of yield at %s can run without a test that the consumer has not stopped", what, p.Position(nd.Pos()), p.Position(c.Pos()))
					}
				}
			}
			r.Check(okAll, rule, key, lit.Pos(), "every call of yield after a point where the consumer may have stopped is behind a stopped-flag test",
				"range-over-func protocol: "+why+"; calling yield after it returned false is a run-time panic")
			return true
		})
	}
	if n == 0 {
		r.Notef("%s: no iterator literal found in %s", rule, rel)
	}
}

func lhsObject(info *types.Info, e ast.Expr) types.Object {
	e = ast.Unparen(e)
	switch x := e.(type) {
	case *ast.Ident:
		return info.ObjectOf(x)
	case *ast.SelectorExpr:
		return info.ObjectOf(x.Sel)
	}
	return nil
}

var _ = strings.Contains
