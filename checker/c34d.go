package main

import (
	"fmt"
	"go/ast"
	"go/types"
)

// R34d: every path of listEnviron_ that stores the list into the environment it returns has gone through the stable
// sort and through the duplicate-elimination loop: a shortcut that stores the list earlier keeps duplicates or invalid
// pairs whenever its own test is weaker than the loop.
// R34e: the sort and the deletions act on a copy: the slice that is sorted and cut is a local whose every definition
// before the sort is slices.Clone(…) (or make/append to nil) — otherwise the caller's variadic slice is reordered and
// its tail zeroed, and two environments built from one backing array see each other's pairs.
func checkListEnvironPaths(p *Prog, r *Result) {
	pkg := p.Pkg("expand")
	info := pkg.TypesInfo
	fd := p.FuncDecl("expand", "listEnviron_")
	if fd == nil {
		r.Fatalf("expand.listEnviron_ not found")
		return
	}
	g := NewFGraph(info, fd.Body, nil)
	isSort := func(n ast.Node) bool {
		for _, c := range nodeCalls(n) {
			if fn := calleeOf(info, c); fn != nil && fn.Pkg() != nil && fn.Pkg().Path() == "slices" && (fn.Name() == "SortStableFunc" || fn.Name() == "SortFunc" || fn.Name() == "Sort") {
				return true
			}
		}
		return false
	}
	// the dedup loop: the for statement whose body calls slices.Delete
	var loop *ast.ForStmt
	ast.Inspect(fd.Body, func(n ast.Node) bool {
		if fs, ok := n.(*ast.ForStmt); ok && loop == nil {
			for _, c := range nodeCallsDeep(fs.Body) {
				if fn := calleeOf(info, c); fn != nil && fn.Pkg() != nil && fn.Pkg().Path() == "slices" && fn.Name() == "Delete" {
					loop = fs
				}
			}
		}
		return true
	})
	if loop == nil {
		r.Undecided("R34d", "expand.listEnviron_#dedup loop", fd.Pos(), "no loop calling slices.Delete found")
		return
	}
	loopBlocks := map[*FBlock]bool{}
	for _, b := range g.Blocks {
		for _, n := range b.Nodes {
			if loop.Body.Pos() <= n.Pos() && n.End() <= loop.Body.End() {
				loopBlocks[b] = true
			}
		}
		if b.Stmt == ast.Stmt(loop) {
			loopBlocks[b] = true
		}
	}
	// stores of the pairs field
	n := 0
	for _, b := range g.Blocks {
		for _, nd := range b.Nodes {
			as, ok := nd.(*ast.AssignStmt)
			if !ok {
				continue
			}
			for _, l := range as.Lhs {
				fv := selectorField(info, l)
				if fv == nil || fv.Name() != "pairs" {
					continue
				}
				n++
				// reachable from entry without passing a sort node or without touching the loop?
				noSort := g.Reachable(g.Entry, func(e *FEdge) bool {
					for _, x := range e.From.Nodes {
						if isSort(x) {
							return false
						}
					}
					return true
				})
				// the loop condition block: paths must pass through the loop header (its condition is evaluated)
				noLoop := g.Reachable(g.Entry, func(e *FEdge) bool { return !loopBlocks[e.From] && !loopBlocks[e.To] })
				r.Check(!noSort[b] && !noLoop[b], "R34d", "expand.listEnviron_#pairs stored only after the sort and the dedup loop", as.Pos(),
					"every path to this store passes the stable sort and the duplicate-elimination loop",
					"some path stores the list into the environment without going through the sort and the duplicate-elimination loop: whatever shortcut decides that must be exactly as strict as the loop, or duplicates and invalid pairs survive (Each yields a name twice, Get returns the first value)")
			}
		}
	}
	if n == 0 {
		r.Undecided("R34d", "expand.listEnviron_#pairs store", fd.Pos(), "listEnviron_ does not store the pairs field")
	}
	// R34e
	var sorted types.Object
	var sortPos ast.Node
	ast.Inspect(fd.Body, func(nd ast.Node) bool {
		c, ok := nd.(*ast.CallExpr)
		if !ok || sorted != nil {
			return true
		}
		if fn := calleeOf(info, c); fn != nil && fn.Pkg() != nil && fn.Pkg().Path() == "slices" && (fn.Name() == "SortStableFunc" || fn.Name() == "SortFunc") && len(c.Args) > 0 {
			if id, ok := ast.Unparen(c.Args[0]).(*ast.Ident); ok {
				sorted, sortPos = info.ObjectOf(id), c
			}
		}
		return true
	})
	if sorted == nil {
		r.Undecided("R34e", "expand.listEnviron_#sorted slice", fd.Pos(), "the sort does not act on a plain local")
		return
	}
	fresh, defs := true, 0
	if v, ok := sorted.(*types.Var); ok && v.Kind() == types.ParamVar {
		fresh = false
	}
	ast.Inspect(fd.Body, func(nd ast.Node) bool {
		as, ok := nd.(*ast.AssignStmt)
		if !ok || as.Pos() > sortPos.Pos() {
			return true
		}
		for i, l := range as.Lhs {
			id, ok := l.(*ast.Ident)
			if !ok || info.ObjectOf(id) != sorted || i >= len(as.Rhs) {
				continue
			}
			defs++
			c, isCall := ast.Unparen(as.Rhs[i]).(*ast.CallExpr)
			okDef := false
			if isCall {
				if fn := calleeOf(info, c); fn != nil && fn.Pkg() != nil && fn.Pkg().Path() == "slices" && fn.Name() == "Clone" {
					okDef = true
				}
				if isBuiltinCall(info, c, "make") {
					okDef = true
				}
				if isBuiltinCall(info, c, "append") && len(c.Args) > 0 {
					if cv, ok := ast.Unparen(c.Args[0]).(*ast.CallExpr); ok && len(cv.Args) == 1 && isNilIdent(info, cv.Args[0]) {
						okDef = true
					}
				}
			}
			if !okDef {
				fresh = false
			}
		}
		return true
	})
	r.Check(fresh && defs > 0, "R34e", "expand.listEnviron_#sorts and cuts a copy", sortPos.Pos(), "the sorted slice is a local defined only by slices.Clone/make before the sort",
		"the slice that is sorted and cut in place is the caller's: ListEnviron reorders its argument and zeroes its tail, and two environments built by appending to one base slice see each other's pairs")
}

// R34f: a pair is "name=value" and Get tells names apart by the first '='. A looked-up name that itself contains '='
// can therefore line up with the value of another pair ("A=x" against "A=x=z"), so Get answers "set" only on paths
// that have failed the test strings.Contains(name, "="): every return of a Variable literal with Set: true in
// listEnviron.Get is reached only through the failing branch of that test.
func checkGetRejectsEqualsInName(p *Prog, r *Result, rule string) {
	pkg := p.Pkg("expand")
	info := pkg.TypesInfo
	fd := p.FuncDecl("expand", "listEnviron.Get")
	if fd == nil {
		r.Fatalf("anchor expand.listEnviron.Get not found")
		return
	}
	var nameObj types.Object
	for _, f := range fd.Type.Params.List {
		for _, nm := range f.Names {
			nameObj = info.Defs[nm]
		}
	}
	g := NewFGraph(info, fd.Body, nil)
	n := 0
	inspectNoLit(fd.Body, func(m ast.Node) bool {
		rs, ok := m.(*ast.ReturnStmt)
		if !ok || len(rs.Results) != 1 {
			return true
		}
		lit := compositeOf(rs.Results[0])
		if lit == nil {
			return true
		}
		set := false
		for _, el := range lit.Elts {
			if kv, ok := el.(*ast.KeyValueExpr); ok {
				if k, ok := kv.Key.(*ast.Ident); ok && k.Name == "Set" {
					if tv, ok := info.Types[kv.Value]; ok && tv.Value != nil && tv.Value.String() == "true" {
						set = true
					}
				}
			}
		}
		if !set {
			return true
		}
		n++
		key := "expand.(listEnviron).Get#answers set only for a name without '='"
		if n > 1 {
			key = fmt.Sprintf("%s (%d)", key, n)
		}
		blk := blockContaining(g, rs)
		under := blk != nil && underEdges(g, blk, func(e *FEdge) bool {
			if e.Cond == nil || e.Pol || e.Tag != nil || e.TypeCase {
				return false
			}
			c, ok := ast.Unparen(e.Cond).(*ast.CallExpr)
			if !ok || len(c.Args) != 2 {
				return false
			}
			callee := calleeOf(info, c)
			if callee == nil || (qualName(callee) != "strings.Contains" && qualName(callee) != "strings.ContainsRune" && qualName(callee) != "strings.ContainsAny") {
				return false
			}
			id, ok := ast.Unparen(c.Args[0]).(*ast.Ident)
			if !ok || info.ObjectOf(id) != nameObj {
				return false
			}
			tv, ok := info.Types[c.Args[1]]
			return ok && tv.Value != nil && (tv.Value.ExactString() == `"="` || tv.Value.ExactString() == "61")
		})
		r.Check(under, rule, key, rs.Pos(), "reached only past the failing branch of strings.Contains(name, \"=\")",
			"Get can answer \"set\" for a name that contains '=': pairs are told apart by their first '=', so Get(\"A=x\") on the pair \"A=x=z\" returns \"z\" for a name nobody set")
		return true
	})
	if n == 0 {
		r.Bad(rule, "expand.(listEnviron).Get#returns a set variable", fd.Pos(), "Get never returns a set variable: the rule no longer sees the construct it is about")
	}
}
