package main

import (
	"fmt"
	"go/ast"
	"go/constant"
	"go/token"
	"go/types"
	"sort"
	"strconv"

	"golang.org/x/tools/go/packages"
)

// R13i: writer/reader table agreement between Quote and the parser's reserved-word dispatch. A string that Quote
// returns bare must parse as a simple command of one word (upstream's own FuzzQuote says so). The statement parser
// dispatches on the first literal word (`switch p.val` in gotStmtPipe): every label of that switch either contains a
// character that makes Quote quote the string anyway (the rune clause that sets shellChars), or is listed by one of
// the word predicates Quote negates before returning the string unchanged (IsKeyword, startsClause, …). On the
// pinned tree `elif`, `let`, `declare`, `local`, `export`, `readonly`, `typeset`, `nameref` and `@test` were in
// neither table.
func checkQuoteCoversParserWords(p *Prog, r *Result, pkg *packages.Package, rule string) {
	info := pkg.TypesInfo
	stmtFD := p.FuncDecl("syntax", "Parser.gotStmtPipe")
	quoteFD := p.FuncDecl("syntax", "Quote")
	parserT := lookupType(pkg, "Parser")
	if stmtFD == nil || quoteFD == nil || parserT == nil {
		r.Fatalf("anchors Parser.gotStmtPipe / Quote not found")
		return
	}
	strConst := func(e ast.Expr) (string, bool) {
		tv, ok := info.Types[e]
		if !ok || tv.Value == nil || tv.Value.Kind() != constant.String {
			return "", false
		}
		return constant.StringVal(tv.Value), true
	}
	// 1. the parser's dispatch words
	type word struct {
		w   string
		pos token.Pos
	}
	var words []word
	ast.Inspect(stmtFD.Body, func(n ast.Node) bool {
		sw, ok := n.(*ast.SwitchStmt)
		if !ok || sw.Tag == nil {
			return true
		}
		fv := selectorField(info, sw.Tag)
		if fv == nil || fv.Name() != "val" {
			return true
		}
		for _, st := range sw.Body.List {
			for _, ce := range st.(*ast.CaseClause).List {
				if s, ok := strConst(ce); ok {
					words = append(words, word{s, ce.Pos()})
				}
			}
		}
		return true
	})
	if len(words) == 0 {
		r.Bad(rule, "syntax.(Parser).gotStmtPipe#switch p.val", stmtFD.Pos(), "the reserved-word dispatch was not found")
		return
	}
	// 2. Quote: the bare return and the predicates it negates
	var params []types.Object
	for _, f := range quoteFD.Type.Params.List {
		for _, nm := range f.Names {
			params = append(params, info.Defs[nm])
		}
	}
	if len(params) == 0 {
		r.Fatalf("Quote has no named parameters")
		return
	}
	sParam := params[0]
	preds := map[*types.Func]bool{}
	ast.Inspect(quoteFD.Body, func(n ast.Node) bool {
		is, ok := n.(*ast.IfStmt)
		if !ok {
			return true
		}
		bare := false
		for _, st := range is.Body.List {
			if rs, ok := st.(*ast.ReturnStmt); ok && len(rs.Results) > 0 {
				if id, ok := ast.Unparen(rs.Results[0]).(*ast.Ident); ok && info.ObjectOf(id) == sParam {
					bare = true
				}
			}
		}
		if !bare {
			return true
		}
		for _, cj := range conjuncts(is.Cond) {
			ue, ok := ast.Unparen(cj).(*ast.UnaryExpr)
			if !ok || ue.Op != token.NOT {
				continue
			}
			c, ok := ast.Unparen(ue.X).(*ast.CallExpr)
			if !ok || len(c.Args) != 1 {
				continue
			}
			if id, ok := ast.Unparen(c.Args[0]).(*ast.Ident); !ok || info.ObjectOf(id) != sParam {
				continue
			}
			if callee := calleeOf(info, c); callee != nil {
				preds[callee.Origin()] = true
			}
		}
		return true
	})
	listed := map[string]string{}
	fgs := newFuncGraphs(pkg)
	var predNames []string
	for f := range preds {
		predNames = append(predNames, f.Name())
		fd := fgs.decls[f]
		if fd == nil {
			continue
		}
		ast.Inspect(fd.Body, func(n ast.Node) bool {
			if cc, ok := n.(*ast.CaseClause); ok {
				returnsTrue := false
				for _, st := range cc.Body {
					if rs, ok := st.(*ast.ReturnStmt); ok && len(rs.Results) == 1 {
						if tv, ok := info.Types[rs.Results[0]]; ok && tv.Value != nil && tv.Value.Kind() == constant.Bool && constant.BoolVal(tv.Value) {
							returnsTrue = true
						}
					}
				}
				if returnsTrue {
					for _, ce := range cc.List {
						if s, ok := strConst(ce); ok {
							listed[s] = f.Name()
						}
					}
				}
			}
			return true
		})
	}
	sort.Strings(predNames)
	// 3. the runes that make Quote quote
	special := map[rune]bool{}
	ast.Inspect(quoteFD.Body, func(n ast.Node) bool {
		cc, ok := n.(*ast.CaseClause)
		if !ok {
			return true
		}
		sets := false
		for _, st := range cc.Body {
			if as, ok := st.(*ast.AssignStmt); ok && len(as.Lhs) == 1 && len(as.Rhs) == 1 {
				if id, ok := as.Lhs[0].(*ast.Ident); ok && id.Name == "shellChars" {
					if tv, ok := info.Types[as.Rhs[0]]; ok && tv.Value != nil && tv.Value.Kind() == constant.Bool && constant.BoolVal(tv.Value) {
						sets = true
					}
				}
			}
		}
		if sets {
			for _, ce := range cc.List {
				if tv, ok := info.Types[ce]; ok && tv.Value != nil && tv.Value.Kind() == constant.Int {
					if v, exact := constant.Int64Val(tv.Value); exact {
						special[rune(v)] = true
					}
				}
			}
		}
		return true
	})
	if len(special) == 0 || len(preds) == 0 {
		r.Undecided(rule, "syntax.Quote#bare return", quoteFD.Pos(), "the clause that sets shellChars, or the word predicates negated before the bare return, were not recognised")
		return
	}
	seen := map[string]bool{}
	for _, w := range words {
		if seen[w.w] {
			continue
		}
		seen[w.w] = true
		key := "syntax.Quote#the parser's word " + strconv.Quote(w.w) + " is quoted"
		why := ""
		for _, c := range w.w {
			if special[c] {
				why = fmt.Sprintf("contains %q, which makes Quote quote the string", c)
				break
			}
		}
		if why == "" {
			if f, ok := listed[w.w]; ok {
				why = "listed by " + f
			}
		}
		r.Check(why != "", rule, key, w.pos, why,
			fmt.Sprintf("the statement parser dispatches on the word %q, Quote returns it bare (it has no character Quote quotes for, and none of %v lists it): the result does not parse as a simple command of one word", w.w, predNames))
	}
}
