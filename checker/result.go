package main

import (
	"bufio"
	"encoding/json"
	"fmt"
	"go/token"
	"os"
	"path/filepath"
	"sort"
	"strings"
)

const (
	stOK        = "discharged"
	stBad       = "violated"
	stUndecided = "undecided"
	stKnown     = "known-finding"
)

// Obligation is one rule instance: a construct of the analysed code and the
// verdict of the rule on it. Key identifies the construct by resolved names,
// never by line number; Pos is for the reader only.
type Obligation struct {
	Rule   string   `json:"rule"`
	Key    string   `json:"site"`
	Pos    string   `json:"pos"`
	Status string   `json:"status"`
	Idiom  string   `json:"idiom,omitempty"`
	Detail string   `json:"detail,omitempty"`
	Cfgs   []string `json:"configs,omitempty"`
}

type RuleInfo struct {
	Name  string `json:"rule"`
	Text  string `json:"text"`
	Floor int    `json:"floor"`
	Count int    `json:"instances"`
	OK    int    `json:"discharged"`
}

// Result is what one run of one property's rules over one configuration yields.
type Result struct {
	Prop     string        `json:"property_id"`
	Cfg      string        `json:"config"`
	Packages int           `json:"packages"`
	Funcs    int           `json:"functions"`
	Rules    []*RuleInfo   `json:"rules"`
	Obls     []*Obligation `json:"obligations"`
	Notes    []string      `json:"notes,omitempty"`
	Fatal    []string      `json:"fatal,omitempty"`
	Excepts  []string      `json:"exceptions_used,omitempty"`

	keys map[string]int
	prog *Prog
}

func newResult(prop string, prog *Prog) *Result {
	r := &Result{Prop: prop, keys: map[string]int{}, prog: prog}
	if prog != nil {
		r.Cfg = prog.Cfg.String()
		r.Packages = len(prog.Pkgs)
	}
	return r
}

func (r *Result) Rule(name, text string, floor int) {
	for _, ri := range r.Rules {
		if ri.Name == name {
			return
		}
	}
	r.Rules = append(r.Rules, &RuleInfo{Name: name, Text: text, Floor: floor})
}

func (r *Result) add(rule, key string, pos token.Pos, status, idiom, detail string) *Obligation {
	full := rule + "|" + key
	r.keys[full]++
	if n := r.keys[full]; n > 1 {
		key = fmt.Sprintf("%s#%d", key, n)
	}
	o := &Obligation{Rule: rule, Key: key, Status: status, Idiom: idiom, Detail: detail}
	if r.prog != nil {
		o.Pos = r.prog.Position(pos)
	}
	r.Obls = append(r.Obls, o)
	return o
}

func (r *Result) OK(rule, key string, pos token.Pos, idiom string) {
	r.add(rule, key, pos, stOK, idiom, "")
}
func (r *Result) Bad(rule, key string, pos token.Pos, detail string) {
	r.add(rule, key, pos, stBad, "", detail)
}
func (r *Result) Undecided(rule, key string, pos token.Pos, detail string) {
	r.add(rule, key, pos, stUndecided, "", detail)
}

// Check adds a discharged or violated obligation depending on ok.
func (r *Result) Check(ok bool, rule, key string, pos token.Pos, idiom, detail string) {
	if ok {
		r.OK(rule, key, pos, idiom)
	} else {
		r.Bad(rule, key, pos, detail)
	}
}

// Fatalf records a failure of the analysis itself (unresolved anchor etc).
func (r *Result) Fatalf(format string, a ...any) {
	r.Fatal = append(r.Fatal, fmt.Sprintf(format, a...))
}
func (r *Result) Notef(format string, a ...any) {
	r.Notes = append(r.Notes, fmt.Sprintf(format, a...))
}
func (r *Result) Except(symbol, reason string) {
	r.Excepts = append(r.Excepts, symbol+": "+reason)
}

// KnownFinding is one line of KNOWN_FINDINGS.txt.
type KnownFinding struct {
	Prop, Rule, Site, Text string
	used                   bool
}

func loadKnown(path string) ([]*KnownFinding, error) {
	f, err := os.Open(path)
	if err != nil {
		if os.IsNotExist(err) {
			return nil, nil
		}
		return nil, err
	}
	defer f.Close()
	var out []*KnownFinding
	sc := bufio.NewScanner(f)
	sc.Buffer(make([]byte, 1<<20), 1<<20)
	for sc.Scan() {
		line := strings.TrimSpace(sc.Text())
		if !strings.HasPrefix(line, "known:") {
			continue // comments and "fixed:" lines suppress nothing
		}
		head, text, _ := strings.Cut(strings.TrimPrefix(line, "known:"), "::")
		k := &KnownFinding{Text: strings.TrimSpace(text)}
		// site= may contain spaces: it extends to the end of head.
		if i := strings.Index(head, " site="); i >= 0 {
			k.Site = strings.TrimSpace(head[i+len(" site="):])
			head = head[:i]
		}
		for _, f := range strings.Fields(head) {
			if v, ok := strings.CutPrefix(f, "property="); ok {
				k.Prop = v
			}
			if v, ok := strings.CutPrefix(f, "rule="); ok {
				k.Rule = v
			}
		}
		if k.Prop == "" || k.Rule == "" || k.Site == "" {
			return nil, fmt.Errorf("malformed known-findings line: %q", line)
		}
		out = append(out, k)
	}
	return out, sc.Err()
}

// finalize applies floors and known findings and returns the obligations
// that make the check fail.
func (r *Result) finalize(known []*KnownFinding) (failing []*Obligation, knownHit []*Obligation) {
	for _, o := range r.Obls {
		if o.Status != stBad {
			continue
		}
		for _, k := range known {
			if k.Prop == r.Prop && k.Rule == o.Rule && k.Site == o.Key {
				o.Status = stKnown
				if o.Detail == "" {
					o.Detail = k.Text
				}
				k.used = true
			}
		}
	}
	for _, k := range known {
		if k.Prop == r.Prop && !k.used {
			r.Notef("stale known-finding entry (no longer matches a violation): rule=%s site=%s", k.Rule, k.Site)
		}
	}
	cnt := map[string]*RuleInfo{}
	for _, ri := range r.Rules {
		ri.Count, ri.OK = 0, 0
		cnt[ri.Name] = ri
	}
	for _, o := range r.Obls {
		ri := cnt[o.Rule]
		if ri == nil {
			ri = &RuleInfo{Name: o.Rule}
			r.Rules = append(r.Rules, ri)
			cnt[o.Rule] = ri
		}
		ri.Count++
		switch o.Status {
		case stOK:
			ri.OK++
		case stKnown:
			knownHit = append(knownHit, o)
		default:
			failing = append(failing, o)
		}
	}
	for _, ri := range r.Rules {
		if ri.Count < ri.Floor {
			failing = append(failing, &Obligation{Rule: ri.Name, Key: "floor", Status: stBad,
				Detail: fmt.Sprintf("rule matched %d instances, below the floor of %d confirmed by hand: the rule no longer sees the constructs it is about", ri.Count, ri.Floor)})
		}
	}
	for _, f := range r.Fatal {
		failing = append(failing, &Obligation{Rule: "analysis", Key: "fatal", Status: stUndecided, Detail: f})
	}
	return failing, knownHit
}

// merge folds the result of another configuration into r.
func (r *Result) merge(o *Result) {
	idx := map[string]*Obligation{}
	for _, ob := range r.Obls {
		idx[ob.Rule+"|"+ob.Key] = ob
	}
	rank := map[string]int{stOK: 0, stKnown: 1, stUndecided: 2, stBad: 3}
	for _, ob := range o.Obls {
		if have, ok := idx[ob.Rule+"|"+ob.Key]; ok {
			have.Cfgs = append(have.Cfgs, o.Cfg)
			if rank[ob.Status] > rank[have.Status] {
				have.Status, have.Detail, have.Idiom, have.Pos = ob.Status, ob.Detail, ob.Idiom, ob.Pos
			}
			continue
		}
		ob.Cfgs = []string{o.Cfg}
		r.Obls = append(r.Obls, ob)
		idx[ob.Rule+"|"+ob.Key] = ob
	}
	for _, f := range o.Fatal {
		r.Fatal = append(r.Fatal, "["+o.Cfg+"] "+f)
	}
	seen := map[string]bool{}
	for _, n := range r.Notes {
		seen[n] = true
	}
	for _, n := range o.Notes {
		if !seen[n] {
			r.Notes = append(r.Notes, n)
		}
	}
	if o.Funcs > r.Funcs {
		r.Funcs = o.Funcs
	}
}

// Evidence mirrors EVIDENCE.schema.json.
type Evidence struct {
	Prop        string         `json:"property_id"`
	Tier        string         `json:"tier"`
	Seed        int            `json:"seed"`
	Level       string         `json:"level"`
	Coverage    map[string]any `json:"coverage"`
	Assumptions []string       `json:"assumptions"`
	Wall        float64        `json:"wall_s"`
	Violations  int            `json:"violations"`
}

func writeJSON(path string, v any) error {
	if err := os.MkdirAll(filepath.Dir(path), 0o755); err != nil {
		return err
	}
	data, err := json.MarshalIndent(v, "", " ")
	if err != nil {
		return err
	}
	tmp := path + ".tmp"
	if err := os.WriteFile(tmp, append(data, '\n'), 0o644); err != nil {
		return err
	}
	return os.Rename(tmp, path)
}

func sortObls(obls []*Obligation) {
	sort.SliceStable(obls, func(i, j int) bool {
		if obls[i].Rule != obls[j].Rule {
			return obls[i].Rule < obls[j].Rule
		}
		return obls[i].Key < obls[j].Key
	})
}
