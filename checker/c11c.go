package main

import (
	"fmt"
	"go/ast"
	"go/constant"
	"go/token"
	"go/types"
	"os"
	"regexp"
	"sort"
	"strings"
)

// R11c: an interprocedural "possible variants" analysis over package syntax.
//
// At every program point of the parser the analysis keeps (1) the set of
// language variants under which that point can be reached by an input that is
// still accepted, and (2) the set of tokens the current token p.tok may be when
// the variant is POSIX. Variant tests narrow (1) on their edges, checkLang(S)
// narrows it to S (any other variant has recorded an error), a call that
// always reports an error empties it; tokens carry the union of the sets at
// the sites that produce them; token-returning helpers are summarised per
// returned value; functions start from the union of the facts at their call
// sites (least fixpoint). A construction site of a non-POSIX construct is
// gated iff LangPOSIX is not in (1) there.

type variantSet uint32

type tokBits [4]uint64

func (t *tokBits) set(v int64) {
	if v >= 0 && v < 256 {
		t[v/64] |= 1 << uint(v%64)
	}
}
func (t tokBits) has(v int64) bool { return v >= 0 && v < 256 && t[v/64]&(1<<uint(v%64)) != 0 }
func (t tokBits) or(o tokBits) tokBits {
	for i := range t {
		t[i] |= o[i]
	}
	return t
}
func (t tokBits) and(o tokBits) tokBits {
	for i := range t {
		t[i] &= o[i]
	}
	return t
}
func (t tokBits) andNot(o tokBits) tokBits {
	for i := range t {
		t[i] &^= o[i]
	}
	return t
}

var topBits = tokBits{^uint64(0), ^uint64(0), ^uint64(0), ^uint64(0)}

func oneBit(v int64) tokBits { var t tokBits; t.set(v); return t }

type vfact struct {
	vs variantSet
	pt tokBits // possible values of p.tok when the variant is POSIX
}

type r11c struct {
	p         *Prog
	r         *Result
	fg        *funcGraphs
	info      *types.Info
	all       variantSet
	posix     variantSet
	langField *types.Var
	tokField  *types.Var
	inFn      *types.Func
	checkLang *types.Func
	gotFn     *types.Func
	tokenT    *types.Named
	me        map[*types.Func]bool
	mod       map[*types.Func]bool // functions that may assign p.tok

	entry    map[*types.Func]vfact
	tokSet   map[int64]variantSet // token value -> variants under which it is produced
	anyTok   variantSet           // variants under which an unknown token may be produced
	retVs    map[*types.Func]map[int64]variantSet
	retAny   map[*types.Func]variantSet
	flows    map[*types.Func]*flowResult[vfact]
	tokNames map[int64]string
	swInit   map[*ast.SwitchStmt]types.Object // switch p.tok = v; p.tok {...}
}

func (a *r11c) isLangSel(e ast.Expr) bool {
	f := selectorField(a.info, e)
	return f != nil && f == a.langField
}

func (a *r11c) isTokSel(e ast.Expr) bool {
	f := selectorField(a.info, e)
	return f != nil && f == a.tokField
}

func (a *r11c) constTok(e ast.Expr) (int64, bool) {
	tv, ok := a.info.Types[e]
	if !ok || tv.Value == nil || tv.Value.Kind() != constant.Int {
		return 0, false
	}
	v, _ := constant.Int64Val(tv.Value)
	return v, true
}

func (a *r11c) tokVariants(v int64) variantSet { return a.tokSet[v] | a.anyTok }

func (a *r11c) posixToks() tokBits {
	if a.anyTok&a.posix != 0 {
		return topBits
	}
	var t tokBits
	for v, vs := range a.tokSet {
		if vs&a.posix != 0 {
			t.set(v)
		}
	}
	return t
}

func (a *r11c) inTest(e ast.Expr) (variantSet, bool) {
	call, ok := ast.Unparen(e).(*ast.CallExpr)
	if !ok || calleeOf(a.info, call) != a.inFn || len(call.Args) != 1 {
		return 0, false
	}
	se, ok := ast.Unparen(call.Fun).(*ast.SelectorExpr)
	if !ok || !a.isLangSel(se.X) {
		return 0, false
	}
	tv := a.info.Types[call.Args[0]]
	if tv.Value == nil {
		return 0, false
	}
	v, _ := constant.Uint64Val(tv.Value)
	return variantSet(v), true
}

func (a *r11c) localObj(e ast.Expr) types.Object {
	id, ok := ast.Unparen(e).(*ast.Ident)
	if !ok {
		return nil
	}
	o := a.info.Uses[id]
	if o == nil {
		o = a.info.Defs[id]
	}
	if v, ok := o.(*types.Var); ok && !v.IsField() && v.Parent() != a.fg.pkg.Types.Scope() {
		return v
	}
	return nil
}

// varSource: the package function whose first (token) result defines obj,
// when obj has exactly one definition and it is such a call.
func (a *r11c) varSource(fo *types.Func, obj types.Object) *types.Func {
	if obj == nil {
		return nil
	}
	var src *types.Func
	n := 0
	ast.Inspect(a.fg.decls[fo].Body, func(nd ast.Node) bool {
		as, ok := nd.(*ast.AssignStmt)
		if !ok {
			return true
		}
		for i, l := range as.Lhs {
			id, ok := ast.Unparen(l).(*ast.Ident)
			if !ok || (a.info.Uses[id] != obj && a.info.Defs[id] != obj) {
				continue
			}
			n++
			if i == 0 && len(as.Rhs) == 1 {
				if call, ok := ast.Unparen(as.Rhs[0]).(*ast.CallExpr); ok {
					if callee := calleeOf(a.info, call); callee != nil && a.fg.decls[callee] != nil {
						if sig := callee.Type().(*types.Signature); sig.Results().Len() >= 1 && namedOf(sig.Results().At(0).Type()) == a.tokenT {
							src = callee
						}
					}
				}
			}
		}
		return true
	})
	if n != 1 {
		return nil
	}
	return src
}

func (a *r11c) retFor(F *types.Func, v int64, eq bool) variantSet {
	if eq {
		return a.retVs[F][v] | a.retAny[F]
	}
	out := a.retAny[F]
	for w, vs := range a.retVs[F] {
		if w != v {
			out |= vs
		}
	}
	return out
}

type edgeCtx struct {
	a  *r11c
	fo *types.Func
}

func (c edgeCtx) edge(f vfact, e *FEdge) vfact {
	a := c.a
	if e.Cond == nil || e.TypeCase {
		return f
	}
	if e.Tag != nil {
		if a.isTokSel(e.Tag) {
			if v, ok := a.constTok(e.Cond); ok {
				if e.Pol {
					f.vs &= a.tokVariants(v)
					f.pt = f.pt.and(oneBit(v))
					if e.Sw != nil {
						if obj := a.swInit[e.Sw]; obj != nil {
							if F := a.varSource(c.fo, obj); F != nil {
								f.vs &= a.retFor(F, v, true)
							}
						}
					}
				} else {
					f.pt = f.pt.andNot(oneBit(v))
				}
			}
			return f
		}
		if obj := a.localObj(e.Tag); obj != nil {
			if F := a.varSource(c.fo, obj); F != nil {
				if v, ok := a.constTok(e.Cond); ok && e.Pol {
					f.vs &= a.retFor(F, v, true)
				}
			}
		}
		return f
	}
	if s, ok := a.inTest(e.Cond); ok {
		if e.Pol {
			f.vs &= s
		} else {
			f.vs &^= s
		}
		return f
	}
	if be, ok := ast.Unparen(e.Cond).(*ast.BinaryExpr); ok && (be.Op == token.EQL || be.Op == token.NEQ) {
		x, y := be.X, be.Y
		if _, isConst := a.constTok(x); isConst {
			x, y = y, x
		}
		v, ok := a.constTok(y)
		if !ok {
			return f
		}
		eq := (be.Op == token.EQL) == e.Pol
		if a.isTokSel(x) {
			if eq {
				f.vs &= a.tokVariants(v)
				f.pt = f.pt.and(oneBit(v))
			} else {
				f.pt = f.pt.andNot(oneBit(v))
			}
			return f
		}
		if obj := a.localObj(x); obj != nil {
			if F := a.varSource(c.fo, obj); F != nil {
				f.vs &= a.retFor(F, v, eq)
			}
		}
		return f
	}
	if call, ok := ast.Unparen(e.Cond).(*ast.CallExpr); ok && e.Pol && calleeOf(a.info, call) == a.gotFn && len(call.Args) == 1 {
		if v, ok := a.constTok(call.Args[0]); ok {
			f.vs &= a.tokVariants(v)
		}
	}
	return f
}

func (c edgeCtx) node(f vfact, n ast.Node) vfact {
	a := c.a
	switch n.(type) {
	case *ast.DeferStmt, *ast.GoStmt:
		return f
	}
	for _, call := range nodeCalls(n) {
		callee := calleeOf(a.info, call)
		if callee == a.checkLang && len(call.Args) >= 2 {
			if tv := a.info.Types[call.Args[1]]; tv.Value != nil {
				v, _ := constant.Uint64Val(tv.Value)
				f.vs &= variantSet(v)
			}
			continue
		}
		if callee != nil && a.me[callee] {
			f.vs = 0 // the input is rejected from here on
			continue
		}
		if callee == nil {
			// call of a function value or builtin/conversion: conversions and builtins do not touch p.tok
			if tv, ok := a.info.Types[call.Fun]; ok && (tv.IsType() || tv.IsBuiltin()) {
				continue
			}
			f.pt = topBits
			continue
		}
		if a.mod[callee] {
			f.pt = topBits
		}
	}
	if as, ok := n.(*ast.AssignStmt); ok && len(as.Lhs) == len(as.Rhs) {
		for i, l := range as.Lhs {
			if !a.isTokSel(l) {
				continue
			}
			if _, isCall := ast.Unparen(as.Rhs[i]).(*ast.CallExpr); isCall {
				if _, isConst := a.constTok(as.Rhs[i]); !isConst {
					f.pt = topBits
					continue
				}
			}
			vals, known := a.possibleTokens(c.fo, as.Rhs[i], 0)
			if !known {
				f.pt = topBits
				continue
			}
			var t tokBits
			for _, v := range vals {
				t.set(v)
			}
			f.pt = t
		}
	}
	return f
}

func vjoin(x, y vfact, posix variantSet) vfact {
	out := vfact{vs: x.vs | y.vs}
	switch {
	case x.vs&posix == 0:
		out.pt = y.pt
	case y.vs&posix == 0:
		out.pt = x.pt
	default:
		out.pt = x.pt.or(y.pt)
	}
	return out
}

func (a *r11c) flow(fo *types.Func) *flowResult[vfact] {
	g := a.fg.graph(fo)
	c := edgeCtx{a, fo}
	return runForward(g, flowSpec[vfact]{
		Init:  a.entry[fo],
		Join:  func(x, y vfact) vfact { return vjoin(x, y, a.posix) },
		Equal: func(x, y vfact) bool { return x == y },
		Node:  c.node,
		Edge:  c.edge,
	})
}

func (a *r11c) computeMod() {
	a.mod = map[*types.Func]bool{}
	for fo, fd := range a.fg.decls {
		ast.Inspect(fd.Body, func(n ast.Node) bool {
			if as, ok := n.(*ast.AssignStmt); ok {
				for _, l := range as.Lhs {
					if a.isTokSel(l) {
						a.mod[fo] = true
					}
				}
			}
			return true
		})
	}
	for changed := true; changed; {
		changed = false
		for fo, fd := range a.fg.decls {
			if a.mod[fo] {
				continue
			}
			ast.Inspect(fd.Body, func(n ast.Node) bool {
				if c, ok := n.(*ast.CallExpr); ok {
					callee := calleeOf(a.info, c)
					if callee != nil && a.mod[callee] {
						a.mod[fo] = true
					}
					if callee == nil {
						if tv, ok := a.info.Types[c.Fun]; ok && !tv.IsType() && !tv.IsBuiltin() {
							a.mod[fo] = true // calls a function value
						}
					}
				}
				return !a.mod[fo]
			})
			if a.mod[fo] {
				changed = true
			}
		}
	}
}

// solve runs the interprocedural fixpoint.
func (a *r11c) solve(roots map[*types.Func]bool) int {
	a.entry = map[*types.Func]vfact{}
	a.tokSet = map[int64]variantSet{}
	a.retVs = map[*types.Func]map[int64]variantSet{}
	a.retAny = map[*types.Func]variantSet{}
	for fo := range roots {
		a.entry[fo] = vfact{vs: a.all, pt: topBits}
	}
	var order []*types.Func
	for fo := range a.fg.decls {
		order = append(order, fo)
	}
	sort.Slice(order, func(i, j int) bool { return order[i].Pos() < order[j].Pos() })
	iters := 0
	for changed := true; changed && iters < 80; iters++ {
		changed = false
		grow := func(callee *types.Func, f vfact) {
			old := a.entry[callee]
			var nw vfact
			if old.vs == 0 {
				nw = f
			} else {
				nw = vjoin(old, f, a.posix)
			}
			if nw != old {
				a.entry[callee] = nw
				changed = true
			}
		}
		for _, fo := range order {
			if a.entry[fo].vs == 0 {
				continue
			}
			res := a.flow(fo)
			g := res.g
			isTokFn := false
			if sig := fo.Type().(*types.Signature); sig.Results().Len() >= 1 && namedOf(sig.Results().At(0).Type()) == a.tokenT {
				isTokFn = true
			}
			for _, b := range g.Blocks {
				for i, n := range b.Nodes {
					f, ok := res.At(b, i)
					if !ok || f.vs == 0 {
						continue
					}
					var calls []*ast.CallExpr
					switch x := n.(type) {
					case *ast.DeferStmt:
						calls = []*ast.CallExpr{x.Call}
					case *ast.GoStmt:
						calls = []*ast.CallExpr{x.Call}
					default:
						calls = nodeCalls(n)
					}
					for _, c := range calls {
						callee := calleeOf(a.info, c)
						if callee == nil || a.fg.decls[callee] == nil {
							continue
						}
						cf := f
						// if an argument calls something that may change p.tok, the token at entry is unknown
						for _, arg := range c.Args {
							ast.Inspect(arg, func(m ast.Node) bool {
								if ac, ok := m.(*ast.CallExpr); ok {
									if cc := calleeOf(a.info, ac); cc == nil || a.mod[cc] {
										if tv, ok := a.info.Types[ac.Fun]; !ok || !(tv.IsType() || tv.IsBuiltin()) {
											cf.pt = topBits
										}
									}
								}
								return true
							})
						}
						// several calls in one node: later ones may see a changed token
						if len(calls) > 1 {
							cf.pt = topBits
						}
						grow(callee, cf)
					}
					addTok := func(v int64, vs variantSet, ret bool) {
						if a.tokSet[v]|vs != a.tokSet[v] {
							a.tokSet[v] |= vs
							changed = true
						}
						if ret {
							if a.retVs[fo] == nil {
								a.retVs[fo] = map[int64]variantSet{}
							}
							if a.retVs[fo][v]|vs != a.retVs[fo][v] {
								a.retVs[fo][v] |= vs
								changed = true
							}
						}
					}
					addUnknown := func(vs variantSet, ret bool) {
						if a.anyTok|vs != a.anyTok {
							a.anyTok |= vs
							changed = true
						}
						if ret && a.retAny[fo]|vs != a.retAny[fo] {
							a.retAny[fo] |= vs
							changed = true
						}
					}
					// produceExpr attributes each value an expression can take to the
					// variants possible where that value was chosen: for a local
					// variable, at each of its assignments (a later return of the
					// variable can only carry a value stored on a path through one
					// of them, and narrowing only shrinks along a path).
					var produceExpr func(e ast.Expr, ret bool, vs variantSet, depth int)
					produceExpr = func(e ast.Expr, ret bool, vs variantSet, depth int) {
						if vs == 0 {
							return
						}
						e = ast.Unparen(e)
						if v, ok := a.constTok(e); ok {
							addTok(v, vs, ret)
							return
						}
						if obj := a.localObj(e); obj != nil && depth < 4 {
							found := false
							ast.Inspect(a.fg.decls[fo].Body, func(nd ast.Node) bool {
								switch as := nd.(type) {
								case *ast.AssignStmt:
									for i, l := range as.Lhs {
										id, ok := ast.Unparen(l).(*ast.Ident)
										if !ok || (a.info.Uses[id] != obj && a.info.Defs[id] != obj) {
											continue
										}
										found = true
										sf, ok := res.Before(as)
										if !ok {
											continue // unreachable assignment
										}
										if len(as.Lhs) == len(as.Rhs) {
											produceExpr(as.Rhs[i], ret, sf.vs, depth+1)
										} else {
											vals, known := a.possibleTokens(fo, e, 0)
											if !known {
												addUnknown(sf.vs, ret)
											}
											for _, v := range vals {
												addTok(v, sf.vs, ret)
											}
										}
									}
								case *ast.ValueSpec:
									for i, nm := range as.Names {
										if a.info.Defs[nm] == obj {
											found = true
											if i < len(as.Values) {
												if sf, ok := res.Before(as.Values[i]); ok {
													produceExpr(as.Values[i], ret, sf.vs, depth+1)
												}
											} else {
												addTok(0, a.entry[fo].vs, ret)
											}
										}
									}
								}
								return true
							})
							// named results and parameters start from their zero value / caller's value
							sig := fo.Type().(*types.Signature)
							for i := 0; i < sig.Results().Len(); i++ {
								if sig.Results().At(i) == obj {
									found = true
									addTok(0, a.entry[fo].vs, ret)
								}
							}
							for i := 0; i < sig.Params().Len(); i++ {
								if sig.Params().At(i) == obj {
									addUnknown(vs, ret)
									found = true
								}
							}
							if !found {
								addUnknown(vs, ret)
							}
							return
						}
						vals, known := a.possibleTokens(fo, e, 0)
						if !known {
							addUnknown(vs, ret)
							return
						}
						for _, v := range vals {
							addTok(v, vs, ret)
						}
						if ret && len(vals) == 0 {
							// result of another token function: no per-value summary
							if a.retAny[fo]|vs != a.retAny[fo] {
								a.retAny[fo] |= vs
								changed = true
							}
						}
					}
					produce := func(e ast.Expr, ret bool) { produceExpr(e, ret, f.vs, 0) }
					switch x := n.(type) {
					case *ast.ReturnStmt:
						if isTokFn && len(x.Results) >= 1 {
							produce(x.Results[0], true)
						}
					case *ast.AssignStmt:
						for i, l := range x.Lhs {
							if a.isTokSel(l) && i < len(x.Rhs) && len(x.Lhs) == len(x.Rhs) {
								produce(x.Rhs[i], false)
							}
						}
					}
				}
			}
			// function literals inside fo: calls there are reachable under fo's entry variants
			ast.Inspect(a.fg.decls[fo].Body, func(n ast.Node) bool {
				fl, ok := n.(*ast.FuncLit)
				if !ok {
					return true
				}
				ast.Inspect(fl.Body, func(m ast.Node) bool {
					if c, ok := m.(*ast.CallExpr); ok {
						if callee := calleeOf(a.info, c); callee != nil && a.fg.decls[callee] != nil {
							grow(callee, vfact{vs: a.entry[fo].vs, pt: topBits})
						}
					}
					return true
				})
				return false
			})
		}
	}
	a.flows = map[*types.Func]*flowResult[vfact]{}
	for _, fo := range order {
		if a.entry[fo].vs != 0 {
			a.flows[fo] = a.flow(fo)
		}
	}
	return iters
}

// possibleTokens enumerates the token values an expression can take:
// constants; local variables (union over their assignments, following tuple
// results of package functions); conversions token(E) of an operator-typed
// value (all declared constants of that operator type, plus zero); calls of
// token-returning package functions contribute nothing here because their
// own return statements are production sites.
func (a *r11c) possibleTokens(fo *types.Func, e ast.Expr, depth int) ([]int64, bool) {
	if depth > 4 {
		return nil, false
	}
	e = ast.Unparen(e)
	if v, ok := a.constTok(e); ok {
		return []int64{v}, true
	}
	switch x := e.(type) {
	case *ast.CallExpr:
		if tv, ok := a.info.Types[x.Fun]; ok && tv.IsType() && len(x.Args) == 1 {
			at := a.info.TypeOf(x.Args[0])
			if nt := namedOf(at); nt != nil && nt.Obj().Pkg() == a.fg.pkg.Types && nt != a.tokenT {
				var out []int64
				sc := a.fg.pkg.Types.Scope()
				for _, nm := range sc.Names() {
					if c, ok := sc.Lookup(nm).(*types.Const); ok && c.Type() == types.Type(nt) {
						v, _ := constant.Int64Val(c.Val())
						out = append(out, v)
					}
				}
				if len(out) > 0 {
					return append(out, 0), true
				}
			}
			return a.possibleTokens(fo, x.Args[0], depth+1)
		}
		if callee := calleeOf(a.info, x); callee != nil && a.fg.decls[callee] != nil {
			sig := callee.Type().(*types.Signature)
			if sig.Results().Len() >= 1 && namedOf(sig.Results().At(0).Type()) == a.tokenT {
				return nil, true
			}
		}
		return nil, false
	case *ast.SelectorExpr:
		if a.isTokSel(x) {
			return nil, false
		}
	case *ast.Ident:
		obj := a.localObj(x)
		if obj == nil {
			return nil, false
		}
		fd := a.fg.decls[fo]
		var out []int64
		known, found := true, false
		ast.Inspect(fd.Body, func(n ast.Node) bool {
			as, ok := n.(*ast.AssignStmt)
			if !ok {
				return true
			}
			for i, l := range as.Lhs {
				id, ok := ast.Unparen(l).(*ast.Ident)
				if !ok || (a.info.Uses[id] != obj && a.info.Defs[id] != obj) {
					continue
				}
				found = true
				if len(as.Lhs) == len(as.Rhs) {
					vs, k := a.possibleTokens(fo, as.Rhs[i], depth+1)
					if !k {
						known = false
					}
					out = append(out, vs...)
					continue
				}
				if len(as.Rhs) == 1 {
					if call, ok := ast.Unparen(as.Rhs[0]).(*ast.CallExpr); ok {
						if callee := calleeOf(a.info, call); callee != nil && a.fg.decls[callee] != nil {
							ast.Inspect(a.fg.decls[callee].Body, func(m ast.Node) bool {
								if _, isLit := m.(*ast.FuncLit); isLit {
									return false
								}
								if rs, ok := m.(*ast.ReturnStmt); ok && i < len(rs.Results) {
									vs, k := a.possibleTokens(callee, rs.Results[i], depth+1)
									if !k {
										known = false
									}
									out = append(out, vs...)
								}
								return true
							})
							continue
						}
					}
				}
				known = false
			}
			return true
		})
		if !found {
			return nil, false
		}
		return out, known
	}
	return nil, false
}

// factAt returns the fact holding at AST node n inside function fo.
func (a *r11c) factAt(fo *types.Func, n ast.Node) (vfact, bool) {
	res := a.flows[fo]
	if res == nil {
		return vfact{}, true // function unreachable
	}
	b, i := res.g.BlockOf(n)
	if b == nil {
		return vfact{}, false
	}
	f, ok := res.At(b, i)
	if !ok {
		return vfact{}, true // block unreachable
	}
	return f, true
}

var docOnlyWith = regexp.MustCompile(`(?s)This node will only appear with (.*?)\.`)

func runR11c(p *Prog, r *Result, fg *funcGraphs, me map[*types.Func]bool) {
	pkg := fg.pkg
	info := fg.info
	a := &r11c{p: p, r: r, fg: fg, info: info, tokNames: map[int64]string{}, me: me, swInit: map[*ast.SwitchStmt]types.Object{}}
	a.inFn = lookupFunc(pkg, "LangVariant.in")
	a.checkLang = lookupFunc(pkg, "Parser.checkLang")
	a.gotFn = lookupFunc(pkg, "Parser.got")
	a.tokenT = lookupType(pkg, "token")
	parserT := lookupType(pkg, "Parser")
	if parserT == nil || a.tokenT == nil || a.gotFn == nil {
		r.Fatalf("anchors Parser / token / Parser.got not found")
		return
	}
	st := parserT.Underlying().(*types.Struct)
	for i := 0; i < st.NumFields(); i++ {
		switch st.Field(i).Name() {
		case "lang":
			a.langField = st.Field(i)
		case "tok":
			a.tokField = st.Field(i)
		}
	}
	if a.langField == nil || a.tokField == nil {
		r.Fatalf("fields Parser.lang / Parser.tok not found")
		return
	}
	for _, nm := range []string{"LangBash", "LangPOSIX", "LangMirBSDKorn", "LangBats", "LangZsh"} {
		a.all |= variantSet(langConst(pkg.Types, nm))
	}
	a.posix = variantSet(langConst(pkg.Types, "LangPOSIX"))
	sc := pkg.Types.Scope()
	for _, nm := range sc.Names() {
		if c, ok := sc.Lookup(nm).(*types.Const); ok && namedOf(c.Type()) == a.tokenT {
			v, _ := constant.Int64Val(c.Val())
			a.tokNames[v] = nm
		}
	}
	// switch p.tok = v; p.tok { ... }
	for _, fd := range fg.decls {
		ast.Inspect(fd.Body, func(n ast.Node) bool {
			sw, ok := n.(*ast.SwitchStmt)
			if !ok || sw.Init == nil || sw.Tag == nil || !a.isTokSel(sw.Tag) {
				return true
			}
			if as, ok := sw.Init.(*ast.AssignStmt); ok && len(as.Lhs) == 1 && len(as.Rhs) == 1 && a.isTokSel(as.Lhs[0]) {
				if obj := a.localObj(as.Rhs[0]); obj != nil {
					a.swInit[sw] = obj
				}
			}
			return true
		})
	}
	a.computeMod()

	roots := map[*types.Func]bool{}
	for fo := range fg.decls {
		sig := fo.Type().(*types.Signature)
		if fo.Exported() && sig.Recv() != nil && namedOf(sig.Recv().Type()) == parserT {
			roots[fo] = true
		}
	}
	// parser methods referenced as values (not called) are entered with everything possible
	for _, fd := range fg.decls {
		ast.Inspect(fd.Body, func(n ast.Node) bool {
			switch x := n.(type) {
			case *ast.CallExpr:
				for _, arg := range x.Args {
					markFuncValues(info, arg, fg, roots, parserT)
				}
			case *ast.AssignStmt:
				for _, rhs := range x.Rhs {
					markFuncValues(info, rhs, fg, roots, parserT)
				}
			}
			return true
		})
	}
	iters := a.solve(roots)
	r.Notef("R11c: interprocedural variant fixpoint converged in %d rounds over %d functions; %d reachable from the Parser's exported methods", iters, len(fg.decls), len(a.flows))
	if os.Getenv("SHCHECK_DEBUG") != "" {
		for F, m := range a.retVs {
			for v, vs := range m {
				fmt.Fprintf(os.Stderr, "retVs %s %s=%s any=%s\n", F.Name(), a.tokNames[v], a.variantNames(vs), a.variantNames(a.retAny[F]))
			}
		}
		fmt.Fprintf(os.Stderr, "swInit %d\n", len(a.swInit))
	}
	if iters >= 80 {
		r.Fatalf("R11c: fixpoint did not converge")
	}
	if a.anyTok&a.posix != 0 {
		r.Notef("R11c: a token of unknown value can be stored in p.tok on a POSIX-reachable path; token gates are then treated as POSIX-possible")
	}

	// ---- the construct table
	gatedTypes := map[*types.Named]string{}
	for _, f := range pkg.Syntax {
		for _, d := range f.Decls {
			gd, ok := d.(*ast.GenDecl)
			if !ok || gd.Tok != token.TYPE {
				continue
			}
			for _, s := range gd.Specs {
				ts := s.(*ast.TypeSpec)
				doc := ts.Doc
				if doc == nil {
					doc = gd.Doc
				}
				if doc == nil {
					continue
				}
				m := docOnlyWith.FindStringSubmatch(doc.Text())
				if m == nil || strings.Contains(m[1], "LangPOSIX") || !strings.Contains(m[1], "Lang") {
					continue
				}
				if n := lookupType(pkg, ts.Name.Name); n != nil {
					gatedTypes[n] = strings.Join(strings.Fields(m[1]), " ")
				}
			}
		}
	}
	for nm, why := range map[string]string{"ArrayElem": "element of ArrayExpr", "TestDecl": "Bats only", "Replace": "${a/x/y} is not POSIX"} {
		if n := lookupType(pkg, nm); n != nil {
			if _, ok := gatedTypes[n]; !ok {
				gatedTypes[n] = "table: " + why
			}
		}
	}
	var gtNames []string
	for n := range gatedTypes {
		gtNames = append(gtNames, n.Obj().Name())
	}
	sort.Strings(gtNames)
	r.Notef("R11c: non-POSIX node types (from the node documentation `This node will only appear with ...` plus 3 table entries): %s", strings.Join(gtNames, ", "))
	gatedFields := map[string]bool{}
	for _, s := range []string{
		"SglQuoted.Dollar", "DblQuoted.Dollar", "Assign.Append", "Assign.Index", "Assign.Array",
		"ParamExp.Excl", "ParamExp.Width", "ParamExp.IsSet", "ParamExp.Flags", "ParamExp.Split", "ParamExp.GlobSubst", "ParamExp.RcExpand",
		"ParamExp.NestedParam", "ParamExp.Index", "ParamExp.Modifiers", "ParamExp.Names", "ParamExp.Slice", "ParamExp.Repl",
		"CmdSubst.TempFile", "CmdSubst.ReplyVar", "ArithmExp.Bracket", "ArithmExp.Unsigned", "ArithmCmd.Unsigned",
		"ForClause.Select", "ForClause.Braces", "CaseClause.Braces", "FuncDecl.RsrvWord", "FuncDecl.Names", "Stmt.Coprocess", "Stmt.Disown",
	} {
		gatedFields[s] = true
	}
	gatedOps := map[types.Object]bool{}
	gatedOpNames := []string{"WordHdoc", "RdrAll", "AppAll", "AppClob", "RdrAllClob", "AppAllClob", "PipeAll", "Fallthrough", "Resume", "ResumeKorn",
		"UpperFirst", "UpperAll", "LowerFirst", "LowerAll", "OtherParamOps", "MatchEmpty", "ArrayExclude", "ArrayIntersect", "CmdIn", "CmdOut", "CmdInTemp",
		"GlobZeroOrOne", "GlobZeroOrMore", "GlobOneOrMore", "GlobOne", "GlobExcept", "NamesPrefix", "NamesPrefixWords"}
	for _, nm := range gatedOpNames {
		if c, ok := sc.Lookup(nm).(*types.Const); ok {
			gatedOps[c] = true
		} else {
			r.Notef("R11c: operator constant %s no longer exists (stale table entry)", nm)
		}
	}

	var order []*types.Func
	for fo := range fg.decls {
		if a.flows[fo] != nil {
			order = append(order, fo)
		}
	}
	sort.Slice(order, func(i, j int) bool { return order[i].Pos() < order[j].Pos() })

	nonZero := func(e ast.Expr) bool {
		tv := info.Types[e]
		if tv.Value != nil {
			switch tv.Value.Kind() {
			case constant.Bool:
				return constant.BoolVal(tv.Value)
			case constant.Int:
				v, _ := constant.Int64Val(tv.Value)
				return v != 0
			}
		}
		return !isNilIdent(info, e)
	}
	isGate := func(c *ast.CallExpr) bool {
		if calleeOf(info, c) == a.checkLang && len(c.Args) >= 2 {
			if tv := info.Types[c.Args[1]]; tv.Value != nil {
				v, _ := constant.Uint64Val(tv.Value)
				return variantSet(v)&a.posix == 0
			}
		}
		if fn := calleeOf(info, c); fn != nil && me[fn] {
			return true
		}
		return false
	}
	postGated := func(fo *types.Func, n ast.Node) bool {
		g := fg.graph(fo)
		b, i := g.BlockOf(n)
		if b == nil {
			return false
		}
		ok, _ := g.MustPass(b, i, g.Exit, func(m ast.Node) bool {
			for _, c := range nodeCalls(m) {
				if isGate(c) {
					return true
				}
			}
			return false
		}, nil)
		return ok
	}
	// value of the form p.tok == T or v == T with v := p.tok
	tokFlag := func(fo *types.Func, e ast.Expr) (int64, bool) {
		be, ok := ast.Unparen(e).(*ast.BinaryExpr)
		if !ok || be.Op != token.EQL {
			return 0, false
		}
		x, y := be.X, be.Y
		if _, isConst := a.constTok(x); isConst {
			x, y = y, x
		}
		v, ok := a.constTok(y)
		if !ok {
			return 0, false
		}
		if a.isTokSel(x) {
			return v, true
		}
		if obj := a.localObj(x); obj != nil {
			// single definition `v := p.tok`
			n, isTok := 0, false
			ast.Inspect(fg.decls[fo].Body, func(nd ast.Node) bool {
				if as, ok := nd.(*ast.AssignStmt); ok && len(as.Lhs) == len(as.Rhs) {
					for i, l := range as.Lhs {
						if id, ok := ast.Unparen(l).(*ast.Ident); ok && (info.Defs[id] == obj || info.Uses[id] == obj) {
							n++
							isTok = a.isTokSel(as.Rhs[i])
						}
					}
				}
				return true
			})
			if n == 1 && isTok {
				return v, true
			}
		}
		return 0, false
	}
	var judge func(fo *types.Func, site ast.Node, val ast.Expr, key, what string)
	// callSites of fo among reachable functions
	callSites := func(target *types.Func) (out []struct {
		fo   *types.Func
		call *ast.CallExpr
	}) {
		for _, fo := range order {
			inspectNoLit(fg.decls[fo].Body, func(n ast.Node) bool {
				if c, ok := n.(*ast.CallExpr); ok && calleeOf(info, c) == target {
					out = append(out, struct {
						fo   *types.Func
						call *ast.CallExpr
					}{fo, c})
				}
				return true
			})
		}
		return
	}
	paramIndex := func(fo *types.Func, obj types.Object) int {
		sig := fo.Type().(*types.Signature)
		for i := 0; i < sig.Params().Len(); i++ {
			if sig.Params().At(i) == obj {
				return i
			}
		}
		return -1
	}
	var file = func(n ast.Node) *ast.File {
		for _, f := range pkg.Syntax {
			if f.Pos() <= n.Pos() && n.End() <= f.End() {
				return f
			}
		}
		return nil
	}
	judge = func(fo *types.Func, site ast.Node, val ast.Expr, key, what string) {
		f, ok := a.factAt(fo, site)
		if !ok {
			r.Undecided("R11c", key, site.Pos(), "cannot locate the site in the control-flow graph")
			return
		}
		if val != nil {
			if tv, isTok := tokFlag(fo, val); isTok {
				vs := a.tokVariants(tv) & f.vs
				r.Check(vs&a.posix == 0, "R11c", key, site.Pos(), fmt.Sprintf("flag is `tok == %s`; that token is only produced under %s", a.tokNames[tv], a.variantNames(a.tokVariants(tv))),
					fmt.Sprintf("%s is set from `tok == %s`, and that token can be produced when parsing as POSIX", what, a.tokNames[tv]))
				return
			}
			// value is a parameter: the obligation moves to every call site
			if obj := a.localObj(val); obj != nil && f.vs&a.posix != 0 {
				if pi := paramIndex(fo, obj); pi >= 0 {
					sig := fo.Type().(*types.Signature)
					variadic := sig.Variadic() && pi == sig.Params().Len()-1
					// `len(param) == 1` else-branch: exactly one variadic argument does not reach the store
					oneArgSkips := false
					if variadic {
						for _, c := range enclosingConds(file(site), site) {
							if c.Expr != nil && !c.Pos {
								if be, ok := ast.Unparen(c.Expr).(*ast.BinaryExpr); ok && be.Op == token.EQL {
									if call, ok := ast.Unparen(be.X).(*ast.CallExpr); ok && isBuiltinCall(info, call, "len") && len(call.Args) == 1 && a.localObj(call.Args[0]) == obj {
										if tv := info.Types[be.Y]; tv.Value != nil && tv.Value.ExactString() == "1" {
											oneArgSkips = true
										}
									}
								}
							}
						}
					}
					sites := callSites(fo)
					if len(sites) == 0 {
						r.OK("R11c", key, site.Pos(), "value is a parameter and the function has no call site")
						return
					}
					for _, cs := range sites {
						ckey := fmt.Sprintf("%s via %s", key, funcObjKey(cs.fo))
						cf, _ := a.factAt(cs.fo, cs.call)
						switch {
						case variadic:
							nargs := len(cs.call.Args) - pi
							if cs.call.Ellipsis.IsValid() {
								nargs = -1
							}
							switch {
							case nargs == 1 && oneArgSkips:
								r.OK("R11c", ckey, cs.call.Pos(), "call passes exactly one value; the store is in the len != 1 branch")
							case cf.vs&a.posix == 0:
								r.OK("R11c", ckey, cs.call.Pos(), "call site reachable only under "+a.variantNames(cf.vs))
							default:
								r.Bad("R11c", ckey, cs.call.Pos(), fmt.Sprintf("%s receives %d values from this call, which is reachable when parsing as POSIX (%s)", what, nargs, a.variantNames(cf.vs)))
							}
						case pi < len(cs.call.Args) && !nonZero(cs.call.Args[pi]):
							r.OK("R11c", ckey, cs.call.Pos(), "call passes the zero value")
						case cf.vs&a.posix == 0:
							r.OK("R11c", ckey, cs.call.Pos(), "call site reachable only under "+a.variantNames(cf.vs))
						default:
							r.Bad("R11c", ckey, cs.call.Pos(), fmt.Sprintf("%s is set from an argument of this call, which is reachable when parsing as POSIX (%s)", what, a.variantNames(cf.vs)))
						}
					}
					return
				}
			}
		}
		switch {
		case f.vs == 0:
			r.OK("R11c", key, site.Pos(), "site unreachable for accepted input (dead path or after an error)")
		case f.vs&a.posix == 0:
			r.OK("R11c", key, site.Pos(), "reachable only under "+a.variantNames(f.vs))
		case postGated(fo, site):
			r.OK("R11c", key, site.Pos(), "followed on every path to the exit by a checkLang excluding POSIX (or an error)")
		default:
			r.Bad("R11c", key, site.Pos(), fmt.Sprintf("%s is built on a path that is reachable when parsing as POSIX (variants possible here: %s) with no language check before the function returns: a program accepted in POSIX mode can contain it", what, a.variantNames(f.vs)))
		}
	}

	for _, fo := range order {
		fd := fg.decls[fo]
		fkey := funcObjKey(fo)
		inspectNoLit(fd.Body, func(n ast.Node) bool {
			switch x := n.(type) {
			case *ast.CompositeLit:
				nt := namedOf(info.TypeOf(x))
				if nt == nil {
					return true
				}
				if _, isPtr := info.TypeOf(x).(*types.Pointer); isPtr {
					return true
				}
				if _, ok := gatedTypes[nt]; ok {
					judge(fo, x, nil, fkey+"#new "+nt.Obj().Name(), "node "+nt.Obj().Name())
				}
				for _, el := range x.Elts {
					kv, ok := el.(*ast.KeyValueExpr)
					if !ok {
						continue
					}
					k, ok := kv.Key.(*ast.Ident)
					if !ok {
						continue
					}
					name := nt.Obj().Name() + "." + k.Name
					if gatedFields[name] && nonZero(kv.Value) {
						judge(fo, x, kv.Value, fkey+"#set "+name, "field "+name)
					}
					// operator constant used directly as a field value
					if id, ok := ast.Unparen(kv.Value).(*ast.Ident); ok && gatedOps[info.Uses[id]] {
						judge(fo, x, nil, fkey+"#op "+id.Name, "operator "+id.Name)
					}
				}
			case *ast.CallExpr:
				if isBuiltinCall(info, x, "new") && len(x.Args) == 1 {
					if nt := namedOf(info.TypeOf(x.Args[0])); nt != nil {
						if _, ok := gatedTypes[nt]; ok {
							judge(fo, x, nil, fkey+"#new "+nt.Obj().Name(), "node "+nt.Obj().Name())
						}
					}
				}
				a.judgeConversion(fo, x, fkey, gatedOps, isGate)
			case *ast.AssignStmt:
				for i, l := range x.Lhs {
					f := selectorField(info, l)
					if f == nil {
						continue
					}
					name := fieldOwner(pkg.Types, f) + "." + f.Name()
					var val ast.Expr
					if len(x.Lhs) == len(x.Rhs) {
						val = x.Rhs[i]
					}
					if val != nil {
						if id, ok := ast.Unparen(val).(*ast.Ident); ok && gatedOps[info.Uses[id]] {
							judge(fo, x, nil, fkey+"#op "+id.Name, "operator "+id.Name)
						}
					}
					if !gatedFields[name] {
						continue
					}
					if val != nil && !nonZero(val) {
						continue
					}
					judge(fo, x, val, fkey+"#set "+name, "field "+name)
				}
			case *ast.UnaryExpr:
				if x.Op == token.AND {
					if f := selectorField(info, x.X); f != nil {
						name := fieldOwner(pkg.Types, f) + "." + f.Name()
						if gatedFields[name] {
							judge(fo, x, nil, fkey+"#addr "+name, "field "+name)
						}
					}
				}
			}
			return true
		})
	}
}

// judgeConversion handles OpT(p.tok) / OpT(v): for every non-POSIX operator
// constant of OpT whose token may be current here under POSIX, the function
// must contain a switch arm (or comparison) on that operator that gates.
func (a *r11c) judgeConversion(fo *types.Func, call *ast.CallExpr, fkey string, gatedOps map[types.Object]bool, isGate func(*ast.CallExpr) bool) {
	tv, ok := a.info.Types[call.Fun]
	if !ok || !tv.IsType() || len(call.Args) != 1 {
		return
	}
	opT := namedOf(tv.Type)
	if opT == nil || opT == a.tokenT || opT.Obj().Pkg() != a.fg.pkg.Types {
		return
	}
	if b, ok := opT.Underlying().(*types.Basic); !ok || b.Info()&types.IsUnsigned == 0 {
		return
	}
	if namedOf(a.info.TypeOf(call.Args[0])) != a.tokenT {
		return
	}
	if _, isConst := a.constTok(call.Args[0]); isConst {
		return
	}
	var consts []*types.Const
	for o := range gatedOps {
		if c := o.(*types.Const); c.Type() == types.Type(opT) {
			consts = append(consts, c)
		}
	}
	if len(consts) == 0 {
		return
	}
	sort.Slice(consts, func(i, j int) bool { return consts[i].Name() < consts[j].Name() })
	f, ok := a.factAt(fo, call)
	if !ok {
		a.r.Undecided("R11c", fkey+"#"+opT.Obj().Name()+"(tok)", call.Pos(), "cannot locate the conversion in the control-flow graph")
		return
	}
	possible := topBits
	if a.isTokSel(call.Args[0]) {
		possible = f.pt
	} else if vals, known := a.possibleTokens(fo, call.Args[0], 0); known && len(vals) > 0 {
		possible = tokBits{}
		for _, v := range vals {
			possible.set(v)
		}
	}
	possible = possible.and(a.posixToks())
	fd := a.fg.decls[fo]
	for _, c := range consts {
		v, _ := constant.Int64Val(c.Val())
		key := fmt.Sprintf("%s#%s(tok)=%s", fkey, opT.Obj().Name(), c.Name())
		switch {
		case f.vs&a.posix == 0:
			a.r.OK("R11c", key, call.Pos(), "conversion reachable only under "+a.variantNames(f.vs))
		case !possible.has(v):
			a.r.OK("R11c", key, call.Pos(), fmt.Sprintf("token %s cannot be the current token here when parsing as POSIX", a.tokNames[v]))
		case a.localOpGate(fd, c, isGate):
			a.r.OK("R11c", key, call.Pos(), "the function's switch/comparison on operator "+c.Name()+" applies a gate excluding POSIX")
		default:
			a.r.Bad("R11c", key, call.Pos(), fmt.Sprintf("operator %s is produced from token %s, which can be the current token here when parsing as POSIX, and the function has no gated arm for it: a POSIX program can contain %s",
				c.Name(), a.tokNames[v], c.Name()))
		}
	}
}

// localOpGate: fd contains a case clause listing operator constant c (or an
// `x == c` test) whose first statement is a gate.
func (a *r11c) localOpGate(fd *ast.FuncDecl, c *types.Const, isGate func(*ast.CallExpr) bool) bool {
	found := false
	firstIsGate := func(body []ast.Stmt) bool {
		if len(body) == 0 {
			return false
		}
		ok := false
		if es, isExpr := body[0].(*ast.ExprStmt); isExpr {
			if call, isCall := es.X.(*ast.CallExpr); isCall && isGate(call) {
				ok = true
			}
		}
		return ok
	}
	ast.Inspect(fd.Body, func(n ast.Node) bool {
		switch x := n.(type) {
		case *ast.CaseClause:
			for _, e := range x.List {
				if id, ok := ast.Unparen(e).(*ast.Ident); ok && a.info.Uses[id] == types.Object(c) && firstIsGate(x.Body) {
					found = true
				}
			}
		case *ast.IfStmt:
			if be, ok := ast.Unparen(x.Cond).(*ast.BinaryExpr); ok && be.Op == token.EQL {
				if id, ok := ast.Unparen(be.Y).(*ast.Ident); ok && a.info.Uses[id] == types.Object(c) && firstIsGate(x.Body.List) {
					found = true
				}
			}
		}
		return true
	})
	return found
}

func (a *r11c) variantNames(v variantSet) string {
	var out []string
	for _, nm := range []string{"LangBash", "LangPOSIX", "LangMirBSDKorn", "LangBats", "LangZsh"} {
		if c := variantSet(langConst(a.fg.pkg.Types, nm)); v&c != 0 {
			out = append(out, strings.TrimPrefix(nm, "Lang"))
		}
	}
	if len(out) == 0 {
		return "{}"
	}
	return "{" + strings.Join(out, ",") + "}"
}

// fieldOwner names the struct type of package pkg declaring field f.
func fieldOwner(pkg *types.Package, f *types.Var) string {
	sc := pkg.Scope()
	for _, nm := range sc.Names() {
		tn, ok := sc.Lookup(nm).(*types.TypeName)
		if !ok {
			continue
		}
		st, ok := tn.Type().Underlying().(*types.Struct)
		if !ok {
			continue
		}
		for i := 0; i < st.NumFields(); i++ {
			if st.Field(i) == f {
				return nm
			}
		}
	}
	return "?"
}

func markFuncValues(info *types.Info, e ast.Expr, fg *funcGraphs, roots map[*types.Func]bool, parserT *types.Named) {
	mark := func(fo *types.Func) {
		fo = fo.Origin()
		if fg.decls[fo] == nil {
			return
		}
		if sig := fo.Type().(*types.Signature); sig.Recv() != nil && namedOf(sig.Recv().Type()) == parserT {
			roots[fo] = true
		}
	}
	ast.Inspect(e, func(n ast.Node) bool {
		switch x := n.(type) {
		case *ast.CallExpr:
			for _, arg := range x.Args {
				markFuncValues(info, arg, fg, roots, parserT)
			}
			if se, ok := x.Fun.(*ast.SelectorExpr); ok {
				markFuncValues(info, se.X, fg, roots, parserT)
			}
			return false
		case *ast.Ident:
			if fo, ok := info.Uses[x].(*types.Func); ok {
				mark(fo)
			}
		case *ast.SelectorExpr:
			if fo, ok := info.Uses[x.Sel].(*types.Func); ok {
				mark(fo)
			}
		}
		return true
	})
}
