package main

import (
	"fmt"
	"go/ast"
	"go/token"
	"go/types"
	"sort"
	"strings"

	"golang.org/x/tools/go/packages"
)

func init() {
	register(&Property{
		ID:  "C05",
		Run: runC05,
		Decided: "no comment can be dropped by construction. Parser: every removal from the accumulator accComs is paired with a transfer of exactly the removed comments into a node's comment field or " +
			"into a returned slice that every caller stores in one (R05b); a comment field that may already hold comments is never overwritten, only appended to (R05e); a function that takes the " +
			"accumulated comments for a node it then does not return gives them back (R05d). Printer: every []Comment field of every node type is read into the comment queue by code reachable " +
			"from Print (R05a); the queue is emptied only after a loop that writes every element, is restored after being set aside, and is never truncated in place while a saved copy is live (R05c); " +
			"with Minify the only comment text written is guarded by the shebang test and the first-line test, and nothing is queued (R05f).",
		NotDecided:  "placement and order of comments relative to code; that trailing-comment loops which stop after the first comment past the node never skip a second one (a parser invariant, listed as exceptions).",
		Assumptions: []string{"comments enter the tree only through Parser.accComs/curComs (the one construction site of Comment literals in the lexer, checked)"},
		Controls:    c05Controls,
	})
}

func isCommentSlice(si *syntaxInfo, t types.Type) bool {
	if t == nil {
		return false
	}
	sl, ok := t.Underlying().(*types.Slice)
	return ok && namedOf(sl.Elem()) == si.commentT
}

func runC05(p *Prog, r *Result) {
	si, err := newSyntaxInfo(p)
	if err != nil {
		r.Fatalf("%v", err)
		return
	}
	pkg := si.pkg
	r.Rule("R05a", "every []Comment field of every node type is read into the printer's comment queue (argument of comments(), of a method parameter that reaches it, or ranged over into it)", 17)
	r.Rule("R05b", "every assignment that removes comments from Parser.accComs is paired with a transfer of the removed comments", 15)
	r.Rule("R05c", "printer queue: flushComments writes every queued comment before emptying; a set-aside queue is restored on every path; no in-place truncation while a saved copy is live", 3)
	r.Rule("R05d", "a function that moves accComs into a node it may not return restores them on that exit (or every caller reports an error)", 1)
	r.Rule("R05e", "a node's comment field is plainly overwritten only when it is provably still empty (fresh node, first store) or its old contents move in the same statement", 12)
	r.Rule("R05f", "under Minify, comment text is written only under the shebang test, the first-line test and the first-column test (directly or through a predicate that is their conjunction), nothing is queued, and every direct write of comment text elsewhere in the printer is under !minify", 4)

	checkCommentSinks(p, r, si)
	checkAccComs(p, r, si)
	checkPrinterQueue(p, r, si)
	checkCommentOverwrites(p, r, si)
	checkMinifyGate(p, r, si)
	r.Rule("R05g", "must-sink: every comment field of every node a printer function queues comments for is queued on every path through the scope where that node is bound (or handed to a method that does)", 24)
	checkCommentMustSink(p, r, si, "R05g", c05MustSinkExceptions)
	r.Rule("R05h", "a loop that splits a comment list at a position keeps the whole rest of the list (list[i:]), not only the first comment past the position", 3)
	checkCommentSplits(p, r, "R05h", c05SplitExceptions)
	r.Rule("R05j", "a printer function queues or hands on, on every path to its exit, each comment list it receives as a parameter", 4)
	checkCommentParamsSunk(p, r, "R05j")
	r.Rule("R05i", "the comment queue is empty wherever it is overwritten or dropped: every call made while the queue is set aside, or on the throw-away printer, flushes what it queues before returning", 2)
	checkQueueEmptyWhenOverwritten(p, r, si, "R05i")
	// the one construction site
	g := buildRefGraph(p)
	sites := g.constructionSites(si.commentT)
	n := 0
	for fo, ps := range sites {
		if fo.Pkg() != pkg.Types {
			continue
		}
		for _, pos := range ps {
			n++
			r.Check(fo.Name() == "next", "R05b", "syntax.Comment#constructed in "+funcObjKey(fo), pos, "the lexer's comment arm appends to *p.curComs",
				"a Comment is built outside the lexer's comment arm: it does not go through the accumulator whose conservation is checked")
		}
	}
	if n == 0 {
		r.Bad("R05b", "syntax.Comment#never constructed", token.NoPos, "no construction site of Comment found in package syntax")
	}
}

// ---------------------------------------------------------------- R05a

func checkCommentSinks(p *Prog, r *Result, si *syntaxInfo) {
	pkg := si.pkg
	info := pkg.TypesInfo
	g := buildRefGraph(p)
	printFn := lookupFunc(pkg, "Printer.Print")
	commentsFn := lookupFunc(pkg, "Printer.comments")
	if printFn == nil || commentsFn == nil {
		r.Fatalf("anchors Printer.Print / Printer.comments not found")
		return
	}
	reach := g.reachable(printFn)
	printerT := lookupType(pkg, "Printer")
	// parameter sinks: (method, param index) whose []Comment parameter reaches comments()
	type psKey struct {
		fn *types.Func
		i  int
	}
	sinks := map[psKey]bool{}
	paramIndex := func(fd *ast.FuncDecl, o types.Object) int {
		i := 0
		for _, f := range fd.Type.Params.List {
			for _, nm := range f.Names {
				if info.Defs[nm] == o {
					return i
				}
				i++
			}
		}
		return -1
	}
	// is expression e (an argument) rooted at object o, modulo slicing?
	rootObj := func(e ast.Expr) types.Object {
		e = ast.Unparen(e)
		for {
			if se, ok := e.(*ast.SliceExpr); ok {
				e = ast.Unparen(se.X)
				continue
			}
			break
		}
		if id, ok := e.(*ast.Ident); ok {
			return info.ObjectOf(id)
		}
		return nil
	}
	isSinkCall := func(c *ast.CallExpr, argIdx int) bool {
		fn := calleeOf(info, c)
		if fn == nil {
			return false
		}
		if fn == commentsFn {
			return true
		}
		return sinks[psKey{fn, argIdx}]
	}
	var printerDecls []*ast.FuncDecl
	for fo, fd := range g.decl {
		if g.pkgOf[fo] == pkg && reach[fo] && fd.Body != nil {
			if s := fo.Type().(*types.Signature); s.Recv() != nil && namedOf(s.Recv().Type()) == printerT {
				printerDecls = append(printerDecls, fd)
			}
		}
	}
	sort.Slice(printerDecls, func(i, j int) bool { return printerDecls[i].Pos() < printerDecls[j].Pos() })
	for changed := true; changed; {
		changed = false
		for _, fd := range printerDecls {
			fo := info.Defs[fd.Name].(*types.Func)
			ast.Inspect(fd.Body, func(n ast.Node) bool {
				c, ok := n.(*ast.CallExpr)
				if !ok {
					return true
				}
				for ai, a := range c.Args {
					o := rootObj(a)
					if o == nil || !isCommentSlice(si, o.Type()) {
						continue
					}
					pi := paramIndex(fd, o)
					if pi < 0 || sinks[psKey{fo, pi}] {
						continue
					}
					if isSinkCall(c, ai) {
						sinks[psKey{fo, pi}] = true
						changed = true
					}
				}
				return true
			})
		}
	}
	// sink reads of fields
	sunk := map[*types.Var][]string{}
	fieldOf := func(e ast.Expr) *types.Var {
		e = ast.Unparen(e)
		for {
			if se, ok := e.(*ast.SliceExpr); ok {
				e = ast.Unparen(se.X)
				continue
			}
			break
		}
		return selectorField(info, e)
	}
	for _, fd := range printerDecls {
		fname := fd.Name.Name
		ast.Inspect(fd.Body, func(n ast.Node) bool {
			switch x := n.(type) {
			case *ast.CallExpr:
				for ai, a := range x.Args {
					if fv := fieldOf(a); fv != nil && isCommentSlice(si, fv.Type()) && isSinkCall(x, ai) {
						sunk[fv] = append(sunk[fv], fname+": argument of "+calleeOf(info, x).Name())
					}
				}
			case *ast.RangeStmt:
				fv := fieldOf(x.X)
				if fv == nil || !isCommentSlice(si, fv.Type()) || x.Value == nil {
					return true
				}
				vid, ok := x.Value.(*ast.Ident)
				if !ok {
					return true
				}
				vobj := info.ObjectOf(vid)
				// the body hands the element to comments() directly
				direct := false
				ast.Inspect(x.Body, func(m ast.Node) bool {
					if c, ok := m.(*ast.CallExpr); ok && calleeOf(info, c) == commentsFn {
						for _, a := range c.Args {
							if id, ok := ast.Unparen(a).(*ast.Ident); ok && info.ObjectOf(id) == vobj {
								direct = true
							}
						}
					}
					return true
				})
				if direct {
					sunk[fv] = append(sunk[fv], fname+": ranged over into comments()")
				}
			}
			return true
		})
	}
	// obligations
	for _, n := range si.nodes {
		for _, f := range si.fields(n) {
			if f.Kind != fkComments {
				continue
			}
			key := "syntax." + f.String() + "#reaches the printer's queue"
			if how := sunk[f.Var]; len(how) > 0 {
				r.OK("R05a", key, f.Var.Pos(), uniq(how)[0])
			} else {
				r.Bad("R05a", key, f.Var.Pos(), "no code reachable from Print hands this comment field to Printer.comments: its comments are never printed")
			}
		}
	}
}

// ---------------------------------------------------------------- R05b / R05d

func checkAccComs(p *Prog, r *Result, si *syntaxInfo) {
	pkg := si.pkg
	info := pkg.TypesInfo
	parserT := lookupType(pkg, "Parser")
	var accF *types.Var
	st := parserT.Underlying().(*types.Struct)
	for i := 0; i < st.NumFields(); i++ {
		if isCommentSlice(si, st.Field(i).Type()) {
			if accF != nil {
				r.Undecided("R05b", "syntax.Parser#comment accumulators", st.Field(i).Pos(), "more than one []Comment field on Parser")
			}
			accF = st.Field(i)
		}
	}
	if accF == nil {
		r.Fatalf("Parser has no []Comment field (accComs)")
		return
	}
	isAcc := func(e ast.Expr) bool { return selectorField(info, e) == accF }
	mentionsAcc := func(e ast.Node) bool {
		hit := false
		ast.Inspect(e, func(n ast.Node) bool {
			if x, ok := n.(ast.Expr); ok && isAcc(x) {
				hit = true
			}
			return !hit
		})
		return hit
	}
	fg := newFuncGraphs(pkg)
	me := computeMustError(fg, lookupFunc(pkg, "Parser.errPass"))
	stmtListFn := map[*types.Func]int{} // functions returning a slice cut from accComs -> result index

	type removal struct {
		fd   *ast.FuncDecl
		as   *ast.AssignStmt
		li   int
		kind string // nil | tail | other
		blk  []ast.Stmt
		pos  int
	}
	var removals []removal
	for _, fd := range p.AllFuncDecls("syntax") {
		ast.Inspect(fd.Body, func(n ast.Node) bool {
			var list []ast.Stmt
			switch x := n.(type) {
			case *ast.BlockStmt:
				list = x.List
			case *ast.CaseClause:
				list = x.Body
			default:
				return true
			}
			for i, s := range list {
				as, ok := s.(*ast.AssignStmt)
				if !ok {
					continue
				}
				for li, l := range as.Lhs {
					if !isAcc(l) {
						continue
					}
					removals = append(removals, removal{fd: fd, as: as, li: li, blk: list, pos: i})
				}
			}
			return true
		})
	}
	for _, rm := range removals {
		fk := funcKey("syntax", rm.fd)
		if rm.fd.Name.Name == "reset" {
			r.OK("R05b", fk+"#accComs reset", rm.as.Pos(), "reset() starts a new parse: the one allowed discard")
			continue
		}
		var rhs ast.Expr
		if len(rm.as.Rhs) == len(rm.as.Lhs) {
			rhs = rm.as.Rhs[rm.li]
		}
		if rhs == nil {
			r.Undecided("R05b", fk+"#accComs assigned from a multi-value call", rm.as.Pos(), "cannot pair")
			continue
		}
		prior := rm.blk[:rm.pos]
		// helper: statement transfers the whole accumulator into a comment field or local
		transfersAll := func(s ast.Stmt) bool {
			as, ok := s.(*ast.AssignStmt)
			if !ok {
				return false
			}
			for i, rh := range as.Rhs {
				if i >= len(as.Lhs) {
					break
				}
				if !isCommentSlice(si, info.TypeOf(as.Lhs[i])) || isAcc(as.Lhs[i]) {
					continue
				}
				if isAcc(rh) {
					return true
				}
				if c, ok := ast.Unparen(rh).(*ast.CallExpr); ok && isBuiltinCall(info, c, "append") && len(c.Args) == 2 && c.Ellipsis.IsValid() && isAcc(c.Args[1]) {
					// append(X, p.accComs...) onto the same X
					if exprString(c.Args[0]) == exprString(as.Lhs[i]) {
						return true
					}
				}
			}
			return false
		}
		switch {
		case isNilIdent(info, rhs):
			// tuple: X, p.accComs = p.accComs, nil
			ok := false
			how := ""
			for i, rh := range rm.as.Rhs {
				if i != rm.li && isAcc(rh) && i < len(rm.as.Lhs) && isCommentSlice(si, info.TypeOf(rm.as.Lhs[i])) {
					ok, how = true, "tuple move into "+exprString(rm.as.Lhs[i])
				}
			}
			if !ok && len(prior) > 0 && transfersAll(prior[len(prior)-1]) {
				ok, how = true, "moved by the preceding statement"
			}
			r.Check(ok, "R05b", fk+"#accComs = nil", rm.as.Pos(), how,
				"the accumulated comments are discarded: p.accComs is set to nil without first moving its contents into a node's comment field")
		default:
			se, isSlice := ast.Unparen(rhs).(*ast.SliceExpr)
			if isSlice && isAcc(se.X) && se.Low != nil && se.High == nil {
				low := exprString(se.Low)
				// the removed prefix p.accComs[:low] (or element [0] when low == 1) must be moved by an earlier statement of the same block
				ok := false
				how := ""
				for _, s := range prior {
					ast.Inspect(s, func(n ast.Node) bool {
						as, isAs := n.(*ast.AssignStmt)
						if !isAs {
							return true
						}
						for i, rh := range as.Rhs {
							if i >= len(as.Lhs) || isAcc(as.Lhs[i]) || !isCommentSlice(si, info.TypeOf(as.Lhs[i])) {
								continue
							}
							// X = p.accComs[:low]  |  X = append(X, p.accComs[:low]...)  |  X = append(X, c) with c := p.accComs[0], low == 1
							src := ast.Unparen(rh)
							if c, isCall := src.(*ast.CallExpr); isCall && isBuiltinCall(info, c, "append") && len(c.Args) == 2 {
								src = ast.Unparen(c.Args[1])
							}
							if s2, isSl := src.(*ast.SliceExpr); isSl && isAcc(s2.X) && s2.Low == nil && s2.High != nil && exprString(s2.High) == low {
								ok, how = true, "prefix [:"+low+"] moved into "+exprString(as.Lhs[i])
							}
							if id, isID := src.(*ast.Ident); isID && low == "1" {
								if def := singleDef(info, rm.fd, info.ObjectOf(id)); def != nil {
									if ix, isIx := ast.Unparen(def).(*ast.IndexExpr); isIx && isAcc(ix.X) && exprString(ix.Index) == "0" {
										ok, how = true, "element [0] appended to "+exprString(as.Lhs[i])
									}
								}
							}
						}
						return true
					})
				}
				// the move and the removal must be in the same block, removal after the move (they are: prior statements)
				r.Check(ok, "R05b", fk+"#accComs = accComs["+low+":]", rm.as.Pos(), how,
					"the first "+low+" accumulated comment(s) are cut off p.accComs without having been moved into a comment field in the same block")
				// where the prefix went into a local that is returned, every caller must store that result in a comment field
				if ok && strings.Contains(how, "into ") {
					target := how[strings.LastIndex(how, "into ")+5:]
					if !strings.Contains(target, ".") {
						// a local: find which result index returns it
						ast.Inspect(rm.fd.Body, func(n ast.Node) bool {
							if rs, isRet := n.(*ast.ReturnStmt); isRet {
								for i, res := range rs.Results {
									if exprString(res) == target {
										if fo, ok := info.Defs[rm.fd.Name].(*types.Func); ok {
											stmtListFn[fo] = i
										}
									}
								}
							}
							return true
						})
					}
				}
			} else if c, isCall := ast.Unparen(rhs).(*ast.CallExpr); isCall && isBuiltinCall(info, c, "append") && len(c.Args) == 2 && c.Ellipsis.IsValid() && isAcc(c.Args[1]) {
				r.OK("R05b", fk+"#accComs = append(…, accComs...)", rm.as.Pos(), "gives comments back: the new value contains the whole old accumulator")
			} else if mentionsAcc(rhs) {
				r.Undecided("R05b", fk+"#accComs = "+exprString(rhs), rm.as.Pos(), "an update of the accumulator the rule has no idiom for")
			} else {
				r.Bad("R05b", fk+"#accComs = "+exprString(rhs), rm.as.Pos(), "the accumulator is overwritten with an unrelated value: the comments it held are lost")
			}
		}
	}
	// callers of functions that return a cut of the accumulator store it in a comment field
	for fo, idx := range stmtListFn {
		n := 0
		for _, fd := range p.AllFuncDecls("syntax") {
			ast.Inspect(fd.Body, func(x ast.Node) bool {
				switch s := x.(type) {
				case *ast.AssignStmt:
					if len(s.Rhs) == 1 {
						if c, ok := ast.Unparen(s.Rhs[0]).(*ast.CallExpr); ok && calleeOf(info, c) == fo {
							n++
							ok2 := idx < len(s.Lhs) && selectorField(info, s.Lhs[idx]) != nil && isCommentSlice(si, info.TypeOf(s.Lhs[idx]))
							if !ok2 && idx < len(s.Lhs) {
								// returned onwards by a wrapper that is itself in the set
								if id, isID := s.Lhs[idx].(*ast.Ident); isID && id.Name != "_" {
									ok2 = returnsLocal(info, fd, info.ObjectOf(id))
									if ok2 {
										// … and on every path: a return that hands back something else in that position drops the
										// comments, unless an error was reported on the way
										if where := returnDropsLocal(p, si.pkg, fd, s, info.ObjectOf(id), idx); where != "" {
											r.Bad("R05b", fmt.Sprintf("%s#returns result %d of %s on every path", funcKey("syntax", fd), idx, fo.Name()), s.Pos(),
												fmt.Sprintf("the comments %s cut off the accumulator are held in `%s`, and the return at %s hands back something else without an error having been reported: on that path they are lost", fo.Name(), id.Name, where))
										} else {
											r.OK("R05b", fmt.Sprintf("%s#returns result %d of %s on every path", funcKey("syntax", fd), idx, fo.Name()), s.Pos(), "every return after the call hands the comments back, or follows an error report")
										}
									}
								}
							}
							r.Check(ok2, "R05b", fmt.Sprintf("%s#stores result %d of %s", funcKey("syntax", fd), idx, fo.Name()), s.Pos(), "stored in a node's comment field (or returned onwards)",
								fo.Name()+" returns the comments it cut off the accumulator, and this caller does not store them in a node: they are lost")
						}
					}
				case *ast.ReturnStmt:
					if len(s.Results) == 1 {
						if c, ok := ast.Unparen(s.Results[0]).(*ast.CallExpr); ok && calleeOf(info, c) == fo {
							n++
							if wfo, ok := info.Defs[fd.Name].(*types.Func); ok {
								if _, seen := stmtListFn[wfo]; !seen {
									stmtListFn[wfo] = idx // handled on the next round below
								}
							}
							r.OK("R05b", fmt.Sprintf("%s#returns %s(...) onwards", funcKey("syntax", fd), fo.Name()), s.Pos(), "wrapper: its callers are checked too")
						}
					}
				case *ast.ExprStmt:
					if c, ok := s.X.(*ast.CallExpr); ok && calleeOf(info, c) == fo {
						n++
						r.Bad("R05b", fmt.Sprintf("%s#drops the results of %s", funcKey("syntax", fd), fo.Name()), s.Pos(), "the returned comments are discarded")
					}
				}
				return true
			})
		}
		_ = n
	}
	// second round for wrappers discovered above (followStmts)
	done := map[*types.Func]bool{}
	for round := 0; round < 3; round++ {
		for fo, idx := range stmtListFn {
			if done[fo] {
				continue
			}
			done[fo] = true
			if round == 0 {
				continue // already handled in the loop above
			}
			for _, fd := range p.AllFuncDecls("syntax") {
				ast.Inspect(fd.Body, func(x ast.Node) bool {
					s, ok := x.(*ast.AssignStmt)
					if !ok || len(s.Rhs) != 1 {
						return true
					}
					if c, ok := ast.Unparen(s.Rhs[0]).(*ast.CallExpr); ok && calleeOf(info, c) == fo {
						ok2 := idx < len(s.Lhs) && selectorField(info, s.Lhs[idx]) != nil && isCommentSlice(si, info.TypeOf(s.Lhs[idx]))
						r.Check(ok2, "R05b", fmt.Sprintf("%s#stores result %d of %s", funcKey("syntax", fd), idx, fo.Name()), s.Pos(), "stored in a node's comment field",
							fo.Name()+" returns the comments cut off the accumulator, and this caller does not store them in a node: they are lost")
					}
					return true
				})
			}
		}
	}

	// ---- R05d
	for _, fd := range p.AllFuncDecls("syntax") {
		fo, _ := info.Defs[fd.Name].(*types.Func)
		if fo == nil || fd.Type.Results == nil {
			continue
		}
		// a statement `X.F, p.accComs = p.accComs, nil` where X is a parameter or local node that the function returns
		var takeStmt *ast.AssignStmt
		var holder types.Object
		var field string
		ast.Inspect(fd.Body, func(n ast.Node) bool {
			as, ok := n.(*ast.AssignStmt)
			if !ok || takeStmt != nil {
				return true
			}
			for i, rh := range as.Rhs {
				if isAcc(rh) && i < len(as.Lhs) {
					if se, ok := ast.Unparen(as.Lhs[i]).(*ast.SelectorExpr); ok {
						if id, ok := ast.Unparen(se.X).(*ast.Ident); ok {
							takeStmt, holder, field = as, info.ObjectOf(id), se.Sel.Name
						}
					}
				}
			}
			return true
		})
		if takeStmt == nil || holder == nil {
			continue
		}
		// does the function return the holder?
		returnsHolder := false
		var nilRets []*ast.ReturnStmt
		ast.Inspect(fd.Body, func(n ast.Node) bool {
			if rs, ok := n.(*ast.ReturnStmt); ok && len(rs.Results) == 1 {
				if id, ok := ast.Unparen(rs.Results[0]).(*ast.Ident); ok && info.ObjectOf(id) == holder {
					returnsHolder = true
				}
				if isNilIdent(info, rs.Results[0]) {
					nilRets = append(nilRets, rs)
				}
			}
			return true
		})
		if !returnsHolder || len(nilRets) == 0 {
			continue
		}
		g := fg.graph(fo)
		tb, ti := g.BlockOf(takeStmt)
		for _, rs := range nilRets {
			rb, ri := g.BlockOf(rs)
			key := fmt.Sprintf("%s#return nil after taking accComs into %s.%s", funcKey("syntax", fd), holder.Name(), field)
			if tb == nil || rb == nil {
				r.Undecided("R05d", key, rs.Pos(), "statements not found in the flow graph")
				continue
			}
			// on every path from the take to this return: the comments are given back, or an error is reported
			restored := func(n ast.Node) bool {
				if as, ok := n.(*ast.AssignStmt); ok {
					for i, l := range as.Lhs {
						if isAcc(l) && i < len(as.Rhs) {
							hit := false
							ast.Inspect(as.Rhs[i], func(m ast.Node) bool {
								if se, ok := m.(*ast.SelectorExpr); ok && se.Sel.Name == field {
									if id, ok := ast.Unparen(se.X).(*ast.Ident); ok && info.ObjectOf(id) == holder {
										hit = true
									}
								}
								return true
							})
							if hit {
								return true
							}
						}
					}
				}
				return nodeCallsAny(info, n, me)
			}
			// search backwards-free: is (rb, ri) reachable from (tb, ti) without passing a restoring node?
			reach := reachableFromAvoiding(g, tb, ti, rb, ri, restored)
			if !reach {
				r.OK("R05d", key, rs.Pos(), "the comments are handed back to p.accComs (or an error is reported) on every path to this return")
				continue
			}
			// otherwise every caller must turn the nil into an error
			allErr := true
			var soft []string
			for _, cfd := range p.AllFuncDecls("syntax") {
				cfo, _ := info.Defs[cfd.Name].(*types.Func)
				cg := fg.graph(cfo)
				if cg == nil {
					continue
				}
				for _, cs := range findCalls(cg, func(c *ast.CallExpr) bool { return calleeOf(info, c) == fo }) {
					if ok, _ := cg.MustPass(cs.blk, cs.idx, cg.Exit, func(n ast.Node) bool { return nodeCallsAny(info, n, me) }, nil); !ok {
						allErr = false
						soft = append(soft, cfd.Name.Name)
					}
				}
			}
			r.Check(allErr, "R05d", key, rs.Pos(), "every caller reports an error after a nil result",
				fmt.Sprintf("%s takes the accumulated comments into a node and returns nil without giving them back, and %s accept a nil result without an error: those comments vanish from the tree", fd.Name.Name, strings.Join(uniq(soft), ", ")))
		}
	}
}

func returnsLocal(info *types.Info, fd *ast.FuncDecl, o types.Object) bool {
	hit := false
	ast.Inspect(fd.Body, func(n ast.Node) bool {
		if rs, ok := n.(*ast.ReturnStmt); ok {
			for _, res := range rs.Results {
				if id, ok := ast.Unparen(res).(*ast.Ident); ok && info.ObjectOf(id) == o {
					hit = true
				}
			}
		}
		return true
	})
	return hit
}

// reachableFromAvoiding: can (tb,ti) be reached from just after (fb,fi) along a path whose nodes (strictly between) do not satisfy stop?
func reachableFromAvoiding(g *FGraph, fb *FBlock, fi int, tb *FBlock, ti int, stop func(ast.Node) bool) bool {
	type st struct {
		b *FBlock
		i int
	}
	seen := map[*FBlock]bool{}
	var walk func(b *FBlock, from int) bool
	walk = func(b *FBlock, from int) bool {
		for i := from; i < len(b.Nodes); i++ {
			if b == tb && i == ti {
				return true
			}
			if stop(b.Nodes[i]) {
				return false
			}
		}
		for _, e := range b.Succs {
			if seen[e.To] {
				continue
			}
			seen[e.To] = true
			if walk(e.To, 0) {
				return true
			}
		}
		return false
	}
	return walk(fb, fi+1)
}

// ---------------------------------------------------------------- R05c

func checkPrinterQueue(p *Prog, r *Result, si *syntaxInfo) {
	pkg := si.pkg
	info := pkg.TypesInfo
	printerT := lookupType(pkg, "Printer")
	var qF *types.Var
	st := printerT.Underlying().(*types.Struct)
	for i := 0; i < st.NumFields(); i++ {
		if isCommentSlice(si, st.Field(i).Type()) {
			qF = st.Field(i)
		}
	}
	if qF == nil {
		r.Fatalf("Printer has no []Comment field (pendingComments)")
		return
	}
	isQ := func(e ast.Expr) bool { return selectorField(info, e) == qF }
	for _, fd := range p.AllFuncDecls("syntax") {
		if recvTypeName(fd) != "Printer" {
			continue
		}
		fk := funcKey("syntax", fd)
		var g *FGraph
		graph := func() *FGraph {
			if g == nil {
				g = NewFGraph(info, fd.Body, nil)
			}
			return g
		}
		// locals that alias the queue
		aliases := map[types.Object]token.Pos{}
		ast.Inspect(fd.Body, func(n ast.Node) bool {
			as, ok := n.(*ast.AssignStmt)
			if !ok {
				return true
			}
			for i, rh := range as.Rhs {
				if i < len(as.Lhs) && isQ(rh) {
					if id, ok := as.Lhs[i].(*ast.Ident); ok {
						aliases[info.ObjectOf(id)] = as.Pos()
					}
				}
			}
			return true
		})
		ast.Inspect(fd.Body, func(n ast.Node) bool {
			as, ok := n.(*ast.AssignStmt)
			if !ok {
				return true
			}
			for i, l := range as.Lhs {
				if !isQ(l) || i >= len(as.Rhs) {
					continue
				}
				rh := ast.Unparen(as.Rhs[i])
				switch x := rh.(type) {
				case *ast.SliceExpr:
					if !isQ(x.X) {
						break
					}
					// in-place truncation: no saved copy may be live
					live := ""
					for o, pos := range aliases {
						if pos < as.Pos() {
							used := false
							ast.Inspect(fd.Body, func(m ast.Node) bool {
								if id, ok := m.(*ast.Ident); ok && id.Pos() > as.End() && info.ObjectOf(id) == o {
									used = true
								}
								return true
							})
							if used {
								live = o.Name()
							}
						}
					}
					r.Check(live == "", "R05c", fk+"#truncates the queue in place", as.Pos(), "no saved copy of the queue is live at this point",
						"the queue is truncated in place while the saved copy `"+live+"` still shares its backing array: comments queued next overwrite the saved ones before they are restored")
				case *ast.Ident:
					if x.Name == "nil" {
						if fd.Name.Name == "flushComments" {
							// every queued comment was written
							gg := graph()
							ok := false
							ast.Inspect(fd.Body, func(m ast.Node) bool {
								rs, isR := m.(*ast.RangeStmt)
								if !isR || !isQ(rs.X) || rs.Value == nil {
									return true
								}
								vobj := info.ObjectOf(rs.Value.(*ast.Ident))
								writes := func(k ast.Node) bool {
									hit := false
									for _, c := range nodeCalls(k) {
										for _, a := range c.Args {
											ast.Inspect(a, func(z ast.Node) bool {
												if se, ok := z.(*ast.SelectorExpr); ok && se.Sel.Name == "Text" {
													if id, ok := ast.Unparen(se.X).(*ast.Ident); ok && info.ObjectOf(id) == vobj {
														hit = true
													}
												}
												return true
											})
										}
									}
									return hit
								}
								// from the range step into the body, every path back to the step (or out) passes a write
								var step *FBlock
								for _, b := range gg.Blocks {
									for _, nd := range b.Nodes {
										if nd == ast.Node(rs) {
											step = b
										}
									}
								}
								if step == nil {
									return true
								}
								okAll := true
								for _, e := range step.Succs {
									if e.Pol && e.To.Kind == "range.body" {
										seen := map[*FBlock]bool{}
										var walk func(b *FBlock) bool
										walk = func(b *FBlock) bool {
											if b == step || b == gg.Exit {
												return false
											}
											if seen[b] {
												return true
											}
											seen[b] = true
											for _, nd := range b.Nodes {
												if writes(nd) {
													return true
												}
											}
											if len(b.Succs) == 0 {
												return true
											}
											for _, s := range b.Succs {
												if !walk(s.To) {
													return false
												}
											}
											return true
										}
										if !walk(e.To) {
											okAll = false
										}
									}
								}
								// and the emptying comes after the loop
								ok = okAll && rs.End() < as.Pos()
								return true
							})
							r.Check(ok, "R05c", fk+"#empties the queue after writing every element", as.Pos(), "the range over the queue writes c.Text on every iteration path, then the queue is set to nil",
								"flushComments empties the queue although some iteration path does not write the comment (or the emptying precedes the loop)")
							break
						}
						// set aside: must be restored from a saved copy on every path
						var saved types.Object
						for o, pos := range aliases {
							if pos < as.Pos() {
								saved = o
							}
						}
						if saved == nil {
							r.Bad("R05c", fk+"#empties the queue", as.Pos(), "the queue is emptied without a saved copy and outside flushComments: queued comments are lost")
							break
						}
						gg := graph()
						blk, idx := gg.BlockOf(as)
						restore := func(k ast.Node) bool {
							a2, ok := k.(*ast.AssignStmt)
							if !ok {
								return false
							}
							for j, l2 := range a2.Lhs {
								if isQ(l2) && j < len(a2.Rhs) {
									if id, ok := ast.Unparen(a2.Rhs[j]).(*ast.Ident); ok && info.ObjectOf(id) == saved {
										return true
									}
								}
							}
							return false
						}
						ok := false
						if blk != nil {
							ok, _ = gg.MustPass(blk, idx, gg.Exit, restore, nil)
						}
						r.Check(ok, "R05c", fk+"#sets the queue aside and restores it", as.Pos(), "saved in `"+saved.Name()+"` and assigned back on every path to the exit",
							"the queue is set aside and some path returns without restoring it: the comments that were pending are lost")
					}
				}
			}
			return true
		})
	}
}

// ---------------------------------------------------------------- R05e

func checkCommentOverwrites(p *Prog, r *Result, si *syntaxInfo) {
	pkg := si.pkg
	info := pkg.TypesInfo
	parserT := lookupType(pkg, "Parser")
	isNodeField := func(e ast.Expr) *types.Var {
		fv := selectorField(info, e)
		if fv == nil || !isCommentSlice(si, fv.Type()) {
			return nil
		}
		se := ast.Unparen(e).(*ast.SelectorExpr)
		if n := namedOf(info.TypeOf(se.X)); n == nil || !si.isNode[n.Obj()] {
			return nil
		}
		return fv
	}
	// the base variable of X.F / X.Y.F
	baseOf := func(e ast.Expr) types.Object {
		e = ast.Unparen(e)
		for {
			se, ok := e.(*ast.SelectorExpr)
			if !ok {
				break
			}
			e = ast.Unparen(se.X)
		}
		if id, ok := e.(*ast.Ident); ok {
			return info.ObjectOf(id)
		}
		return nil
	}
	isFreshExpr := func(e ast.Expr) bool {
		e = ast.Unparen(e)
		if ue, ok := e.(*ast.UnaryExpr); ok && ue.Op == token.AND {
			e = ast.Unparen(ue.X)
		}
		_, ok := e.(*ast.CompositeLit)
		return ok
	}
	type store struct {
		fd     *ast.FuncDecl
		as     *ast.AssignStmt
		li     int
		fv     *types.Var
		append bool
	}
	stores := map[*ast.FuncDecl][]store{}
	for _, fd := range p.AllFuncDecls("syntax") {
		if recvTypeName(fd) != "Parser" || namedOf(info.TypeOf(fd.Recv.List[0].Type)) != parserT {
			continue
		}
		ast.Inspect(fd.Body, func(n ast.Node) bool {
			as, ok := n.(*ast.AssignStmt)
			if !ok {
				return true
			}
			for li, l := range as.Lhs {
				fv := isNodeField(l)
				if fv == nil {
					continue
				}
				isApp := false
				if len(as.Rhs) == len(as.Lhs) {
					if c, ok := ast.Unparen(as.Rhs[li]).(*ast.CallExpr); ok && isBuiltinCall(info, c, "append") && len(c.Args) > 0 && exprString(c.Args[0]) == exprString(l) {
						isApp = true
					}
				}
				stores[fd] = append(stores[fd], store{fd, as, li, fv, isApp})
			}
			return true
		})
	}
	graphs := map[*ast.FuncDecl]*FGraph{}
	graphOf := func(fd *ast.FuncDecl) *FGraph {
		if g, ok := graphs[fd]; ok {
			return g
		}
		g := NewFGraph(info, fd.Body, nil)
		graphs[fd] = g
		return g
	}
	assignsTo := func(n ast.Node, o types.Object) (ast.Expr, bool) {
		as, ok := n.(*ast.AssignStmt)
		if !ok {
			return nil, false
		}
		for i, l := range as.Lhs {
			if id, ok := l.(*ast.Ident); ok && info.ObjectOf(id) == o {
				if len(as.Lhs) == len(as.Rhs) {
					return as.Rhs[i], true
				}
				return nil, true
			}
		}
		return nil, false
	}
	type defSite struct {
		expr  ast.Expr // nil: function entry
		blk   *FBlock
		idx   int
		entry bool
	}
	// reaching definitions of o at (blk, idx)
	reachingDefs := func(g *FGraph, o types.Object, blk *FBlock, idx int) []defSite {
		var out []defSite
		seen := map[*FBlock]bool{}
		var walk func(b *FBlock, from int)
		walk = func(b *FBlock, from int) {
			for i := from; i >= 0; i-- {
				if e, ok := assignsTo(b.Nodes[i], o); ok {
					out = append(out, defSite{expr: e, blk: b, idx: i})
					return
				}
			}
			if b == g.Entry {
				out = append(out, defSite{entry: true, blk: b, idx: -1})
				return
			}
			for _, e := range b.Preds {
				if !seen[e.From] {
					seen[e.From] = true
					walk(e.From, len(e.From.Nodes)-1)
				}
			}
		}
		walk(blk, idx-1)
		return out
	}
	storesThrough := func(fd *ast.FuncDecl, o types.Object, fv *types.Var) []store {
		var out []store
		for _, s := range stores[fd] {
			if s.fv == fv && baseOf(s.as.Lhs[s.li]) == o {
				out = append(out, s)
			}
		}
		return out
	}
	var freshAt func(fd *ast.FuncDecl, o types.Object, fv *types.Var, blk *FBlock, idx int, self *ast.AssignStmt, depth int) (bool, string)
	freshAt = func(fd *ast.FuncDecl, o types.Object, fv *types.Var, blk *FBlock, idx int, self *ast.AssignStmt, depth int) (bool, string) {
		if depth > 3 {
			return false, "definition chain too deep"
		}
		g := graphOf(fd)
		rebinds := func(n ast.Node) bool { _, ok := assignsTo(n, o); return ok }
		for _, d := range reachingDefs(g, o, blk, idx) {
			// no other store to o.F between this definition and the point
			for _, s2 := range storesThrough(fd, o, fv) {
				if s2.as == self {
					continue
				}
				b2, i2 := g.BlockOf(s2.as)
				if b2 == nil {
					continue
				}
				fromDef := d.entry || reachableFromAvoiding(g, d.blk, d.idx, b2, i2, rebinds)
				if d.entry {
					fromDef = reachableFromAvoiding(g, g.Entry, -1, b2, i2, rebinds)
				}
				if fromDef && reachableFromAvoiding(g, b2, i2, blk, idx, rebinds) {
					return false, fmt.Sprintf("%s.%s is also stored at %s on a path to this point", o.Name(), fv.Name(), p.Position(s2.as.Pos()))
				}
			}
			switch {
			case d.entry:
				isParam := false
				for _, f := range fd.Type.Params.List {
					for _, nm := range f.Names {
						if info.Defs[nm] == o {
							isParam = true
						}
					}
				}
				if !isParam {
					return false, o.Name() + " may be unset here"
				}
				// every call site passes a fresh, untouched node
				fo, _ := info.Defs[fd.Name].(*types.Func)
				pi, i := -1, 0
				for _, f := range fd.Type.Params.List {
					for _, nm := range f.Names {
						if info.Defs[nm] == o {
							pi = i
						}
						i++
					}
				}
				n := 0
				for _, cfd := range p.AllFuncDecls("syntax") {
					var calls []*ast.CallExpr
					ast.Inspect(cfd.Body, func(x ast.Node) bool {
						if c, ok := x.(*ast.CallExpr); ok && calleeOf(info, c) == fo && pi < len(c.Args) {
							calls = append(calls, c)
						}
						return true
					})
					for _, c := range calls {
						n++
						a := c.Args[pi]
						if isFreshExpr(a) {
							continue
						}
						id, ok := ast.Unparen(a).(*ast.Ident)
						if !ok {
							return false, "a call in " + cfd.Name.Name + " passes " + exprString(a)
						}
						cg := graphOf(cfd)
						cb, ci := cg.BlockOf(c)
						if cb == nil {
							return false, "call site not found in the flow graph of " + cfd.Name.Name
						}
						if ok2, why := freshAt(cfd, info.ObjectOf(id), fv, cb, ci, nil, depth+1); !ok2 {
							return false, "at the call in " + cfd.Name.Name + ": " + why
						}
					}
				}
				if n == 0 {
					return false, "no call site of " + fd.Name.Name + " found"
				}
			case d.expr != nil && isFreshExpr(d.expr):
				// fresh literal: its comment field must not be set in the literal
				lit := ast.Unparen(d.expr)
				if ue, ok := lit.(*ast.UnaryExpr); ok {
					lit = ast.Unparen(ue.X)
				}
				for _, el := range lit.(*ast.CompositeLit).Elts {
					if kv, ok := el.(*ast.KeyValueExpr); ok {
						if id, ok := kv.Key.(*ast.Ident); ok && info.Uses[id] == types.Object(fv) {
							return false, "the literal already sets " + fv.Name()
						}
					}
				}
			case d.expr != nil:
				id, ok := ast.Unparen(d.expr).(*ast.Ident)
				if !ok {
					return false, fmt.Sprintf("%s is bound to %s, not a fresh node", o.Name(), exprString(d.expr))
				}
				o2 := info.ObjectOf(id)
				if len(storesThrough(fd, o2, fv)) > 0 {
					return false, fmt.Sprintf("%s aliases %s, through which %s is stored too", o.Name(), o2.Name(), fv.Name())
				}
				if ok2, why := freshAt(fd, o2, fv, d.blk, d.idx, nil, depth+1); !ok2 {
					return false, why
				}
			default:
				return false, o.Name() + " is bound by a multi-value assignment"
			}
		}
		return true, ""
	}

	var fds []*ast.FuncDecl
	for fd := range stores {
		fds = append(fds, fd)
	}
	sort.Slice(fds, func(i, j int) bool { return fds[i].Pos() < fds[j].Pos() })
	for _, fd := range fds {
		for _, s := range stores[fd] {
			if s.append {
				continue
			}
			lhs := s.as.Lhs[s.li]
			key := fmt.Sprintf("%s#%s = … (plain store)", funcKey("syntax", fd), exprString(lhs))
			// (ii) the old contents move in the same statement: X.F, Y.G = Y.G, nil  — the store of nil into Y.G
			if len(s.as.Rhs) == len(s.as.Lhs) && isNilIdent(info, s.as.Rhs[s.li]) {
				moved := false
				for j, rh := range s.as.Rhs {
					if j != s.li && exprString(rh) == exprString(lhs) {
						moved = true
					}
				}
				if moved {
					r.OK("R05e", key, s.as.Pos(), "old contents move to another comment field in the same statement")
					continue
				}
			}
			base := baseOf(lhs)
			if base == nil {
				r.Undecided("R05e", key, s.as.Pos(), "cannot identify the node being stored to")
				continue
			}
			// receiver-rooted path (p.f.Last): the node is a field of the parser assigned a fresh literal earlier in this function
			if se, ok := ast.Unparen(lhs).(*ast.SelectorExpr); ok {
				if inner, ok := ast.Unparen(se.X).(*ast.SelectorExpr); ok && len(fd.Recv.List[0].Names) > 0 && info.Defs[fd.Recv.List[0].Names[0]] == base {
					holder := exprString(inner)
					freshBefore, others := false, 0
					ast.Inspect(fd.Body, func(n ast.Node) bool {
						as, ok := n.(*ast.AssignStmt)
						if !ok {
							return true
						}
						for i, l := range as.Lhs {
							if exprString(l) == holder && i < len(as.Rhs) && isFreshExpr(as.Rhs[i]) && as.Pos() < s.as.Pos() {
								freshBefore = true
							}
							if exprString(l) == exprString(lhs) && as != s.as {
								others++
							}
						}
						return true
					})
					r.Check(freshBefore && others == 0, "R05e", key, s.as.Pos(), holder+" is assigned a fresh node earlier in this function and this is the only store to the field",
						"the field is overwritten although it may already hold comments: those comments are lost")
					continue
				}
			}
			g := graphOf(fd)
			sb, sidx := g.BlockOf(s.as)
			if sb == nil {
				r.Undecided("R05e", key, s.as.Pos(), "store not found in the flow graph")
				continue
			}
			ok, why := freshAt(fd, base, s.fv, sb, sidx, s.as, 0)
			// the same store must not run twice on one node (loop) without the base being rebound
			if ok {
				rebinds := func(n ast.Node) bool { _, isDef := assignsTo(n, base); return isDef }
				if reachableFromAvoiding(g, sb, sidx, sb, sidx, rebinds) {
					ok, why = false, "the same store can run twice on one node (loop) without "+base.Name()+" being rebound"
				}
			}
			r.Check(ok, "R05e", key, s.as.Pos(), "every definition of "+base.Name()+" reaching this store is a fresh node whose field was not stored before",
				"the field is overwritten although it may already hold comments ("+why+"): those comments are lost")
		}
	}
}

// ---------------------------------------------------------------- R05f

func checkMinifyGate(p *Prog, r *Result, si *syntaxInfo) {
	pkg := si.pkg
	info := pkg.TypesInfo
	// Comment text is written in three kinds of places: flushComments (the queue, which stays empty under Minify), the
	// Minify branch of comments() (judged below), and special cases elsewhere in the printer that write a comment they
	// hold themselves — each of those must sit under a test that Minify is off.
	for _, pfd := range p.AllFuncDecls("syntax") {
		if recvTypeName(pfd) != "Printer" || pfd.Name.Name == "flushComments" || pfd.Name.Name == "comments" {
			continue
		}
		var pg *FGraph
		seen := map[string]int{}
		inspectNoLit(pfd.Body, func(n ast.Node) bool {
			c, ok := n.(*ast.CallExpr)
			if !ok {
				return true
			}
			if tv, ok := info.Types[c.Fun]; ok && tv.IsType() {
				return true
			}
			text := false
			for _, a := range c.Args {
				ast.Inspect(a, func(z ast.Node) bool {
					if s2, ok := z.(*ast.SelectorExpr); ok && s2.Sel.Name == "Text" {
						if nt := namedOf(derefType(info.TypeOf(s2.X))); nt != nil && nt.Obj().Name() == "Comment" && selectorField(info, s2) != nil {
							text = true
						}
					}
					return true
				})
			}
			if !text {
				return true
			}
			if pg == nil {
				pg = NewFGraph(info, pfd.Body, nil)
			}
			blk := blockContaining(pg, c)
			key := funcKey("syntax", pfd) + "#comment text written outside the queue is under !minify"
			seen[key]++
			if seen[key] > 1 {
				key += fmt.Sprintf("#%d", seen[key])
			}
			gated := blk != nil && underEdges(pg, blk, func(e *FEdge) bool {
				fv := selectorField(info, e.Cond)
				return fv != nil && fv.Name() == "minify" && !e.Pol
			})
			r.Check(gated, "R05f", key, c.Pos(), "only reached when p.minify is false",
				"the printer writes a comment's text directly (not through the queue) on a path where Minify may be on: a comment other than a first-line shebang survives minification")
			return true
		})
	}
	fd := p.FuncDecl("syntax", "Printer.comments")
	if fd == nil {
		r.Fatalf("anchor Printer.comments not found")
		return
	}
	g := NewFGraph(info, fd.Body, nil)
	isMinifyEdge := func(e *FEdge) bool {
		fv := selectorField(info, e.Cond)
		return fv != nil && fv.Name() == "minify" && e.Pol
	}
	var minTo *FBlock
	for _, b := range g.Blocks {
		for _, e := range b.Succs {
			if e.Cond != nil && isMinifyEdge(e) {
				minTo = e.To
			}
		}
	}
	if minTo == nil {
		r.Bad("R05f", "syntax.(Printer).comments#minify branch", fd.Pos(), "comments() has no branch on p.minify: with Minify every comment is queued and printed")
		return
	}
	under := g.Reachable(minTo, nil)
	// nothing queued under minify
	queued := false
	for b := range under {
		for _, n := range b.Nodes {
			if as, ok := n.(*ast.AssignStmt); ok {
				for _, l := range as.Lhs {
					if fv := selectorField(info, l); fv != nil && isCommentSlice(si, fv.Type()) {
						queued = true
					}
				}
			}
		}
	}
	r.Check(!queued, "R05f", "syntax.(Printer).comments#minify queues nothing", fd.Pos(), "the minify branch returns before the queue is appended to",
		"under Minify comments() still appends to the queue: ordinary comments are printed")
	// writes under minify are guarded
	for b := range under {
		for _, n := range b.Nodes {
			for _, c := range nodeCalls(n) {
				// any call that is handed the text of a comment writes it (directly, or through the escaping writer);
				// fileutil.Shebang only inspects it
				if strings.HasSuffix(qualName(calleeOf(info, c)), "fileutil.Shebang") {
					continue
				}
				if tv, ok := info.Types[c.Fun]; ok && tv.IsType() {
					continue // a conversion
				}
				mentionsText := false
				for _, a := range c.Args {
					ast.Inspect(a, func(z ast.Node) bool {
						if cc, ok := z.(*ast.CallExpr); ok && strings.HasSuffix(qualName(calleeOf(info, cc)), "fileutil.Shebang") {
							return false
						}
						if s2, ok := z.(*ast.SelectorExpr); ok && s2.Sel.Name == "Text" {
							if fv := selectorField(info, s2); fv != nil && namedOf(derefType(info.TypeOf(s2.X))) != nil && namedOf(derefType(info.TypeOf(s2.X))).Obj().Name() == "Comment" {
								mentionsText = true
							}
						}
						return true
					})
				}
				if !mentionsText {
					continue
				}
				// nested calls (strings.TrimRightFunc("#"+c.Text, …) inside writeLit(…)) are reported once, at the outermost call
				nested := false
				for _, c2 := range nodeCalls(n) {
					if c2 != c && c2.Pos() <= c.Pos() && c.End() <= c2.End() && !strings.HasSuffix(qualName(calleeOf(info, c2)), "fileutil.Shebang") {
						nested = true
					}
				}
				if nested {
					continue
				}
				// what an edge tells us: its own condition, and — when the condition is a call of a predicate whose body
				// is a single `return <conjunction>` — each conjunct of that
				atomsOf := func(e *FEdge) []ast.Expr {
					if e.Cond == nil || !e.Pol || e.Tag != nil || e.TypeCase {
						return nil
					}
					out := []ast.Expr{e.Cond}
					if cc, ok := ast.Unparen(e.Cond).(*ast.CallExpr); ok {
						if callee := calleeOf(info, cc); callee != nil {
							if hd := p.FuncOrMethodDecl("syntax", callee.Name()); hd != nil && hd.Body != nil && len(hd.Body.List) == 1 {
								if rs, ok := hd.Body.List[0].(*ast.ReturnStmt); ok && len(rs.Results) == 1 {
									out = append(out, conjuncts(rs.Results[0])...)
								}
							}
						}
					}
					return out
				}
				posCallIs1 := func(a ast.Expr, method string) bool {
					be, ok := ast.Unparen(a).(*ast.BinaryExpr)
					if !ok || be.Op != token.EQL || exprString(be.Y) != "1" {
						return false
					}
					cc, ok := ast.Unparen(be.X).(*ast.CallExpr)
					if !ok {
						return false
					}
					s2, ok := cc.Fun.(*ast.SelectorExpr)
					if !ok || s2.Sel.Name != method {
						return false
					}
					// a position of the comment itself: c.Hash.Line() / c.Pos().Line()
					return namedOf(info.TypeOf(s2.X)) == si.posT && strings.Contains(exprString(s2.X), "Hash") || strings.Contains(exprString(s2.X), "Pos()")
				}
				anyAtom := func(pred func(ast.Expr) bool) func(*FEdge) bool {
					return func(e *FEdge) bool {
						for _, a := range atomsOf(e) {
							if pred(a) {
								return true
							}
						}
						return false
					}
				}
				shebang := underEdges(g, b, anyAtom(func(a ast.Expr) bool {
					be, ok := ast.Unparen(a).(*ast.BinaryExpr)
					if !ok || be.Op != token.NEQ {
						return false
					}
					cc, ok := ast.Unparen(be.X).(*ast.CallExpr)
					return ok && strings.HasSuffix(qualName(calleeOf(info, cc)), "fileutil.Shebang") && exprString(be.Y) == `""`
				}))
				firstLine := underEdges(g, b, anyAtom(func(a ast.Expr) bool { return posCallIs1(a, "Line") }))
				firstCol := underEdges(g, b, anyAtom(func(a ast.Expr) bool { return posCallIs1(a, "Col") }))
				r.Check(firstCol, "R05f", "syntax.(Printer).comments#minify write guarded by the first-column test", c.Pos(), "under <comment position>.Col() == 1",
					"under Minify a comment is written without testing that it starts the line: a shebang-looking comment after code on the first line is kept, and it is written at once, glued to the code before it")
				r.Check(shebang, "R05f", "syntax.(Printer).comments#minify write guarded by the shebang test", c.Pos(), "under fileutil.Shebang(...) != \"\"",
					"under Minify a comment is written without the shebang test: comments other than a shebang survive")
				r.Check(firstLine, "R05f", "syntax.(Printer).comments#minify write guarded by the first-line test", c.Pos(), "under <comment position>.Line() == 1",
					"under Minify a comment is written without testing that it is on the first source line: a shebang-like comment further down is kept")
			}
		}
	}
}

var c05MustSinkExceptions = map[string]string{
	"syntax.(Printer).assigns#a.Array.Last": "an Assign has a Value or an Array, never both: the path through `a.Value != nil` has no array to print",
	"syntax.(Printer).ifClause#el.CondLast": "el is only printed here when it is a plain else branch, which has no condition list (an elif goes through the recursive call)",
}

// c05SplitExceptions: function#list -> why one kept comment is all there can be.
var c05SplitExceptions = map[string]string{
	"syntax.(Printer).elemJoin#el.Comments": "the comments of an array element past its start are the one trailing comment of its line: the parser attaches what follows to the next element or to the array's Last (a comment continued by backslash-newline was tried and both were kept)",
	"syntax.(Printer).stmtList#s.Comments":  "past the end of the command a statement holds its one trailing comment (and the one after a here-document operator ends the loop only after the others were queued as mid-comments); tried with continued comments, all kept",
}

var c05Controls = []Control{
	{Name: "else-comments-split-keeps-one", Rule: "R05h", WantKey: "ifClause#split 1 of ic.Last", File: "syntax/printer.go",
		Mutate: ctlReplaceAnywhere("\t\t\t\t// All the remaining comments come after \"else\".\n\t\t\t\tleft = ic.Last[i:]\n", "\t\t\t\t_ = i\n\t\t\t\tleft = append(left, c)\n")},
	{Name: "statement-list-returns-before-its-last-comments", Rule: "R05j", WantKey: "stmtList#the comments in last", File: "syntax/printer.go",
		Mutate: ctlReplaceAnywhere("\tif len(stmts) == 1 && !sep {\n\t\tp.wantNewline = false\n\t}\n", "\tif len(stmts) == 1 && !sep {\n\t\tp.wantNewline = false\n\t\treturn\n\t}\n")},
	{Name: "nested-flush-depends-on-line", Rule: "R05i", WantKey: "flushHeredocs#p.pendingComments = coms overwrites an empty queue", File: "syntax/printer.go",
		Mutate: ctlReplaceAnywhere("\tp.stmtList(stmts, last)\n\tif closing.IsValid() {\n\t\tp.flushComments()", "\tp.stmtList(stmts, last)\n\tif closing.Line() > p.line {\n\t\tp.flushComments()")},
	{Name: "testdecl-body-comments-not-queued", Rule: "R05g", WantKey: "command#cmd.Body.Comments", File: "syntax/printer.go",
		Mutate: ctlReplaceAnywhere("\t\t// Such as the one in \"@test \"x\" { foo; } <<EOF # comment\".\n\t\tp.comments(cmd.Body.Comments...)\n", "")},
	{Name: "pipeline-lhs-keeps-its-comments", Rule: "R05g", WantKey: "command#cmd.X.Comments", File: "syntax/parser.go",
		Mutate: ctlReplaceAnywhere("\t\ts.Comments, b.X.Comments = b.X.Comments, nil\n\t\t// in \"! x | y\"", "\t\ts.Comments = append(s.Comments, b.X.Comments...)\n\t\t// in \"! x | y\"")},
	{Name: "minify-keeps-inline-backquote-comment", Rule: "R05f", WantKey: "cmdSubst#comment text written outside the queue", File: "syntax/printer.go",
		Mutate: ctlReplaceAnywhere("case cs.Backquotes && len(cs.Stmts) == 0 && !p.minify &&", "case cs.Backquotes && len(cs.Stmts) == 0 &&")},
	{Name: "empty-list-drops-its-comments", Rule: "R05b", WantKey: "followStmts#returns result 1 of stmtList on every path", File: "syntax/parser.go",
		Mutate: ctlReplaceAnywhere("\t\t\treturn nil, last // allow an empty list, which may still hold comments\n", "\t\t\treturn nil, nil // allow an empty list\n")},
	{Name: "binary-same-line-drops-rhs-comments", Rule: "R05g", WantKey: "command#cmd.Y.Comments", File: "syntax/printer.go",
		Mutate: ctlReplaceAnywhere("\t\t\t// Such as the one in \"foo | cat <<EOF # comment\".\n\t\t\tp.comments(cmd.Y.Comments...)\n", "")},
	{Name: "else-tail-comments-not-queued", Rule: "R05g", WantKey: "ifClause#el.Last", File: "syntax/printer.go",
		Mutate: ctlReplaceAnywhere("\t\tp.nestedStmts(el.Then, el.ThenLast, ic.FiPos)\n\t\tp.comments(el.Last...)\n", "\t\tp.nestedStmts(el.Then, el.ThenLast, ic.FiPos)\n")},
	{Name: "printer-forgets-case-last", Rule: "R05a", WantKey: "CaseClause.Last", File: "syntax/printer.go",
		Mutate: ctlReplaceAnywhere("\t\tp.comments(cmd.Last...)\n\t\tif p.swtCaseIndent {", "\t\tif p.swtCaseIndent {")},
	{Name: "case-last-discarded", Rule: "R05b", WantKey: "caseClause#accComs = nil", File: "syntax/parser.go",
		Mutate: ctlReplace("Parser.caseClause", "cc.Last, p.accComs = p.accComs, nil", "p.accComs = nil", 0)},
	{Name: "stmtlist-split-not-moved", Rule: "R05b", WantKey: "stmtList#accComs = accComs[split:]", File: "syntax/parser.go",
		Mutate: ctlReplace("Parser.stmtList", "last = p.accComs[:split]", "last = nil", 0)},
	{Name: "heredoc-queue-truncated-in-place", Rule: "R05c", WantKey: "flushHeredocs#truncates", File: "syntax/printer.go",
		Mutate: ctlReplaceAnywhere("\tcoms := p.pendingComments\n\tp.pendingComments = nil\n", "\tcoms := p.pendingComments\n\tp.pendingComments = p.pendingComments[:0]\n")},
	{Name: "heredoc-queue-not-restored", Rule: "R05c", WantKey: "flushHeredocs#sets the queue aside", File: "syntax/printer.go",
		Mutate: ctlReplaceAnywhere("\tp.pendingComments = coms\n", "\t_ = coms\n")},
	{Name: "gotStmtPipe-keeps-comments-on-nil", Rule: "R05d", WantKey: "gotStmtPipe#return nil", File: "syntax/parser.go",
		Mutate: ctlReplaceAnywhere("\t\tp.accComs = append(s.Comments, p.accComs...)\n", "")},
	{Name: "for-header-comments-overwrite", Rule: "R05e", WantKey: "forClause#s.Comments", File: "syntax/parser.go",
		Mutate: ctlReplaceAnywhere("\ts.Comments = append(s.Comments, p.accComs...)\n\tp.accComs = nil\n", "\ts.Comments, p.accComs = p.accComs, nil\n")},
	{Name: "minify-shebang-anywhere", Rule: "R05f", WantKey: "first-line test", File: "syntax/printer.go",
		Mutate: ctlReplace("Printer.comments", "c.Hash.Line() == 1", "p.line == 0", 0)},
}

var _ *packages.Package


// returnDropsLocal: position of a return statement, reachable from the assignment without passing a call that always
// reports an error, whose result at idx is not the local; "" if there is none.
func returnDropsLocal(p *Prog, pkg *packages.Package, fd *ast.FuncDecl, as *ast.AssignStmt, obj types.Object, idx int) string {
	info := pkg.TypesInfo
	fg := newFuncGraphs(pkg)
	errPass := lookupFunc(pkg, "Parser.errPass")
	if errPass == nil {
		return "(errPass not found)"
	}
	me := computeMustError(fg, errPass)
	g := NewFGraph(info, fd.Body, nil)
	blk, i := g.BlockOf(as)
	if blk == nil {
		return "(assignment not found in the flow graph)"
	}
	bad := ""
	seen := map[*FBlock]bool{}
	var walk func(b *FBlock, from int)
	walk = func(b *FBlock, from int) {
		for _, nd := range b.Nodes[from:] {
			if nodeCallsAny(info, nd, me) {
				return
			}
			if rs, ok := nd.(*ast.ReturnStmt); ok {
				if idx < len(rs.Results) {
					if id, ok := ast.Unparen(rs.Results[idx]).(*ast.Ident); !ok || info.ObjectOf(id) != obj {
						if bad == "" {
							bad = p.Position(rs.Pos())
						}
					}
				}
				return
			}
		}
		for _, e := range b.Succs {
			if !seen[e.To] {
				seen[e.To] = true
				walk(e.To, 0)
			}
		}
	}
	walk(blk, i+1)
	return bad
}
