package main

import (
	"fmt"
	"go/ast"
	goprinter "go/printer"
	"go/token"
	"go/types"
	"sort"
	"strings"

	"golang.org/x/tools/go/packages"
)

// R06h: every loop of the lexer and parser makes progress on every cycle.
func checkLoopProgress(p *Prog, r *Result, pkg *packages.Package) {
	info := pkg.TypesInfo
	fg := newFuncGraphs(pkg)
	errPass := lookupFunc(pkg, "Parser.errPass")
	runeFn := lookupFunc(pkg, "Parser.rune")
	if errPass == nil || runeFn == nil {
		r.Fatalf("anchors Parser.errPass / Parser.rune not found")
		return
	}
	// progress functions: always consume input or always report an error (least fixpoint)
	prog := computeMustError(fg, errPass)
	prog[runeFn] = true
	for changed := true; changed; {
		changed = false
		for fo := range fg.decls {
			if prog[fo] {
				continue
			}
			g := fg.graph(fo)
			if !g.Reachable(g.Entry, nil)[g.Exit] {
				continue
			}
			if ok, _ := g.MustPass(g.Entry, -1, g.Exit, func(n ast.Node) bool { return nodeCallsAny(info, n, prog) }, nil); ok {
				prog[fo] = true
				changed = true
			}
		}
	}
	var names []string
	for fo := range prog {
		names = append(names, fo.Name())
	}
	sort.Strings(names)
	r.Notef("R06h: %d functions always consume input or report an error (computed): %s", len(names), strings.Join(names, ", "))

	parserT := lookupType(pkg, "Parser")
	rg := buildRefGraph(p)
	nextFn := lookupFunc(pkg, "Parser.next")
	reachesNext := map[*types.Func]bool{}
	for fo := range fg.decls {
		if nextFn != nil && rg.reachable(fo)[nextFn] {
			reachesNext[fo] = true
		}
	}
	nToken := 0
	var fos []*types.Func
	for fo := range fg.decls {
		fos = append(fos, fo)
	}
	sort.Slice(fos, func(i, j int) bool { return fos[i].Pos() < fos[j].Pos() })
	for _, fo := range fos {
		sig := fo.Type().(*types.Signature)
		if sig.Recv() == nil || namedOf(sig.Recv().Type()) != parserT {
			continue
		}
		fd := fg.decls[fo]
		var loops []*ast.ForStmt
		ast.Inspect(fd.Body, func(n ast.Node) bool {
			if fs, ok := n.(*ast.ForStmt); ok {
				loops = append(loops, fs)
			}
			return true
		})
		if len(loops) == 0 {
			continue
		}
		for li, fs := range loops {
			// the graph of the innermost function body holding the loop
			body := fd.Body
			ast.Inspect(fd.Body, func(n ast.Node) bool {
				if lit, ok := n.(*ast.FuncLit); ok && lit.Body.Pos() <= fs.Pos() && fs.End() <= lit.Body.End() {
					body = lit.Body
				}
				return true
			})
			var g *FGraph
			if body == fd.Body {
				g = fg.graph(fo)
			} else {
				g = NewFGraph(info, body, nil)
			}
			key := fmt.Sprintf("%s#for loop %d (%s)", funcObjKey(fo), li+1, loopHeader(fs))
			// token-level loops (those that advance tokens through next) are out of scope:
			// their termination rests on _EOF being absorbing, which is not a shape fact
			tokenLevel := false
			for _, part := range []ast.Node{fs.Cond, fs.Body, fs.Post} {
				if part == nil || (fs.Cond == nil && part == ast.Node(fs.Cond)) {
					continue
				}
				ast.Inspect(part, func(n ast.Node) bool {
					if c, ok := n.(*ast.CallExpr); ok {
						if fn := calleeOf(info, c); fn != nil && reachesNext[fn] {
							tokenLevel = true
						}
					}
					return true
				})
			}
			if tokenLevel {
				nToken++
				continue
			}
			if why, ok := shrinkingSlice(info, fs); ok {
				r.OK("R06h", key, fs.Pos(), why)
				continue
			}
			if why, ok := refillLoop(info, fs, g, lookupFunc(pkg, "Parser.fill")); ok {
				r.OK("R06h", key, fs.Pos(), why)
				continue
			}
			if why, ok := structurallyBounded(info, fs); ok {
				r.OK("R06h", key, fs.Pos(), why)
				continue
			}
			var head, done *FBlock
			for _, b := range g.Blocks {
				if b.Stmt == ast.Stmt(fs) {
					switch b.Kind {
					case "for.loop":
						head = b
					case "for.done":
						done = b
					}
				}
			}
			if head == nil {
				r.Undecided("R06h", key, fs.Pos(), "loop header not found in the flow graph")
				continue
			}
			loopBlocks := map[*FBlock]bool{}
			fwd := g.Reachable(head, func(e *FEdge) bool { return e.To != done && e.To != g.Exit && e.To != g.Abort })
			for b := range fwd {
				if b == head || g.Reachable(b, func(e *FEdge) bool { return e.To != done })[head] {
					loopBlocks[b] = true
				}
			}
			isProgress := func(n ast.Node) bool { return nodeCallsAny(info, n, prog) }
			if !cycleAvoiding(g, head, loopBlocks, isProgress) {
				// consuming stops at end of input: the loop must leave when it sees the EOF sentinel
				if eofLeaves(info, g, loopBlocks) {
					r.OK("R06h", key, fs.Pos(), "every cycle calls a function that always consumes input or reports an error, and the end-of-input sentinel leaves the loop")
				} else if why, ok := runeSwitchLeaves(info, g, head, loopBlocks); ok {
					r.OK("R06h", key, fs.Pos(), "every cycle consumes input; "+why)
				} else if why, ok := eofBoundedCond(info, fs); ok {
					r.OK("R06h", key, fs.Pos(), "every cycle consumes input; "+why)
				} else {
					r.Bad("R06h", key, fs.Pos(), "every cycle reads a rune, but no test of the end-of-input sentinel leaves the loop: at end of input rune() keeps returning runeEOF and the loop spins")
				}
				continue
			}
			r.Bad("R06h", key, fs.Pos(), "some cycle through the loop neither consumes input nor reports an error: on the input that takes that path forever the parser hangs")
		}
	}
	r.Notef("R06h: %d token-level loops (they call next, directly or not) are out of scope: their termination rests on _EOF being absorbing", nToken)
	// loops made of a backward goto (next() starts over after a comment). rune() and fill() are the two functions the
	// notion of progress is built on; their own retry labels are the subject of R06e and R06k.
	for _, fo := range fos {
		sig := fo.Type().(*types.Signature)
		if sig.Recv() == nil || namedOf(sig.Recv().Type()) != parserT || fo == runeFn || fo.Name() == "fill" {
			continue
		}
		fd := fg.decls[fo]
		labels := map[string]token.Pos{}
		inspectNoLit(fd.Body, func(n ast.Node) bool {
			if ls, ok := n.(*ast.LabeledStmt); ok {
				labels[ls.Label.Name] = ls.Pos()
			}
			return true
		})
		k := 0
		inspectNoLit(fd.Body, func(n ast.Node) bool {
			bs, ok := n.(*ast.BranchStmt)
			if !ok || bs.Tok != token.GOTO || bs.Label == nil {
				return true
			}
			at, ok := labels[bs.Label.Name]
			if !ok || at > bs.Pos() {
				return true // a forward jump closes no loop
			}
			k++
			key := fmt.Sprintf("%s#goto loop %d (%s)", funcObjKey(fo), k, bs.Label.Name)
			g := fg.graph(fo)
			from, _ := g.BlockOf(bs)
			if from == nil || len(from.Succs) != 1 {
				r.Undecided("R06h", key, bs.Pos(), "the jump was not found in the flow graph")
				return true
			}
			head := from.Succs[0].To
			loopBlocks := map[*FBlock]bool{}
			for b := range g.Reachable(head, func(e *FEdge) bool { return e.To != g.Exit && e.To != g.Abort }) {
				if b == head || g.Reachable(b, nil)[from] {
					loopBlocks[b] = true
				}
			}
			isProgress := func(n ast.Node) bool { return nodeCallsAny(info, n, prog) }
			if why, ok := oneShotJump(info, g, from, loopBlocks); ok {
				r.OK("R06h", key, bs.Pos(), why)
				return true
			}
			switch {
			case cycleAvoiding(g, head, loopBlocks, isProgress):
				r.Bad("R06h", key, bs.Pos(), "some path from the label back to this jump neither consumes input nor reports an error: on the input that takes that path forever the parser hangs")
			case eofLeaves(info, g, loopBlocks):
				r.OK("R06h", key, bs.Pos(), "every path from the label to the jump calls a function that always consumes input or reports an error, and the end-of-input sentinel leaves the loop")
			default:
				r.Bad("R06h", key, bs.Pos(), "every cycle reads a rune, but no test of the end-of-input sentinel leaves the loop: at end of input rune() keeps returning runeEOF and the loop spins")
			}
			return true
		})
	}
}

// eofBoundedCond: the loop condition compares the rune with a constant other than the
// sentinel using ==, so the sentinel makes it false.
func eofBoundedCond(info *types.Info, fs *ast.ForStmt) (string, bool) {
	if fs.Cond == nil {
		return "", false
	}
	for _, cj := range conjuncts(fs.Cond) {
		be, ok := ast.Unparen(cj).(*ast.BinaryExpr)
		if ok && be.Op == token.LSS {
			// a presence test: the cursor is inside the read buffer; at end of input nothing is buffered
			if fv := selectorField(info, stripConv(info, be.X)); fv != nil && fv.Name() == "bsp" {
				if c, isCall := stripConv(info, be.Y).(*ast.CallExpr); isCall && isBuiltinCall(info, c, "len") && len(c.Args) == 1 {
					if bf := selectorField(info, c.Args[0]); bf != nil && bf.Name() == "bs" {
						return "the condition requires a byte to be buffered at the cursor, and at end of input none is", true
					}
				}
			}
		}
		if !ok || be.Op != token.EQL {
			continue
		}
		tv := info.Types[be.Y]
		if tv.Value == nil {
			continue
		}
		if id, ok := ast.Unparen(be.Y).(*ast.Ident); ok && id.Name == "runeEOF" {
			continue
		}
		if t, ok := info.TypeOf(be.X).Underlying().(*types.Basic); ok && t.Kind() == types.Int32 {
			return "the condition requires the rune to equal " + exprString(be.Y) + ", which the end-of-input sentinel is not", true
		}
		// p.peek() == c: peek answers utf8.RuneSelf at end of input
		if c, ok := ast.Unparen(be.X).(*ast.CallExpr); ok {
			if fn := calleeOf(info, c); fn != nil && fn.Name() == "peek" {
				if v := tv.Value.String(); v != "128" {
					return "the condition requires peek() to equal " + exprString(be.Y) + ", and peek() answers utf8.RuneSelf at end of input", true
				}
			}
		}
	}
	return "", false
}

// runeSwitchLeaves: every cycle passes a switch on the current rune whose default
// (taken by the end-of-input sentinel, which no case lists) leaves the loop.
func runeSwitchLeaves(info *types.Info, g *FGraph, head *FBlock, loopBlocks map[*FBlock]bool) (string, bool) {
	leaves := func(e *FEdge) bool { return !loopBlocks[e.To] }
	dom := g.Dominators()
	var latches []*FBlock
	for _, e := range head.Preds {
		if loopBlocks[e.From] {
			latches = append(latches, e.From)
		}
	}
	for _, b := range g.Blocks {
		for _, e := range b.Succs {
			if !e.Default || e.Tag == nil {
				continue
			}
			if tb, _ := g.BlockOf(e.Tag); tb == nil || !loopBlocks[tb] {
				continue
			}
			t, ok := info.TypeOf(e.Tag).Underlying().(*types.Basic)
			if !ok || t.Kind() != types.Int32 {
				continue
			}
			if !(leaves(e) || leavesAlways(g, e.To, leaves)) {
				continue
			}
			// no case of that switch lists the sentinel
			listsEOF := false
			for _, b2 := range g.Blocks {
				for _, e2 := range b2.Succs {
					if e2.Tag == e.Tag && e2.Cond != nil {
						if id, ok := ast.Unparen(e2.Cond).(*ast.Ident); ok && id.Name == "runeEOF" {
							listsEOF = true
						}
					}
				}
			}
			if listsEOF {
				continue
			}
			// the switch is on every cycle: its tag block dominates every latch
			tagBlk, _ := g.BlockOf(e.Tag)
			all := tagBlk != nil && len(latches) > 0
			for _, l := range latches {
				if !dom[l][tagBlk] {
					all = false
				}
			}
			if all {
				return "each cycle passes `switch " + exprString(e.Tag) + "`, whose default (taken by the end-of-input sentinel) leaves the loop", true
			}
		}
	}
	return "", false
}

func stmtString(s ast.Stmt) string {
	var b strings.Builder
	if err := goprinter.Fprint(&b, token.NewFileSet(), s); err != nil {
		return fmt.Sprintf("%T", s)
	}
	return b.String()
}

// eofLeaves: some edge inside the loop tests the sentinel runeEOF (or _EOF) and the
// branch taken at end of input leaves the loop on every path.
func eofLeaves(info *types.Info, g *FGraph, loopBlocks map[*FBlock]bool) bool {
	isEOF := func(e ast.Expr) bool {
		id, ok := ast.Unparen(e).(*ast.Ident)
		if !ok {
			return false
		}
		c, ok := info.ObjectOf(id).(*types.Const)
		return ok && (c.Name() == "runeEOF" || c.Name() == "_EOF")
	}
	leaves := func(e *FEdge) bool { return !loopBlocks[e.To] }
	for b := range loopBlocks {
		for _, e := range b.Succs {
			atEOF := false
			switch {
			case e.Tag != nil && e.Cond != nil && isEOF(e.Cond) && e.Pol:
				atEOF = true
			case e.Cond != nil:
				if be, ok := ast.Unparen(e.Cond).(*ast.BinaryExpr); ok && (isEOF(be.Y) || isEOF(be.X)) {
					atEOF = (be.Op == token.EQL && e.Pol) || (be.Op == token.NEQ && !e.Pol)
				}
			}
			if !atEOF {
				continue
			}
			if leaves(e) || leavesAlways(g, e.To, leaves) {
				return true
			}
		}
	}
	return false
}

// shrinkingSlice: `for len(x) > 0 && … { …; x = x[k:] }` where every cycle shortens the local slice.
func shrinkingSlice(info *types.Info, fs *ast.ForStmt) (string, bool) {
	if fs.Cond == nil {
		return "", false
	}
	var obj types.Object
	for _, cj := range conjuncts(fs.Cond) {
		be, ok := ast.Unparen(cj).(*ast.BinaryExpr)
		if !ok || be.Op != token.GTR {
			continue
		}
		c, ok := ast.Unparen(be.X).(*ast.CallExpr)
		if !ok || !isBuiltinCall(info, c, "len") || exprString(be.Y) != "0" {
			continue
		}
		if id, ok := ast.Unparen(c.Args[0]).(*ast.Ident); ok {
			obj = info.ObjectOf(id)
		}
	}
	if obj == nil || len(fs.Body.List) == 0 {
		return "", false
	}
	// the body is straight-line and contains x = x[k:], k a positive constant
	for _, st := range fs.Body.List {
		as, ok := st.(*ast.AssignStmt)
		if !ok {
			return "", false
		}
		if len(as.Lhs) != 1 || len(as.Rhs) != 1 {
			continue
		}
		id, ok := as.Lhs[0].(*ast.Ident)
		if !ok || info.ObjectOf(id) != obj {
			continue
		}
		se, ok := ast.Unparen(as.Rhs[0]).(*ast.SliceExpr)
		if !ok || se.High != nil || se.Low == nil {
			continue
		}
		if id2, ok := ast.Unparen(se.X).(*ast.Ident); !ok || info.ObjectOf(id2) != obj {
			continue
		}
		if tv := info.Types[se.Low]; tv.Value != nil && tv.Value.String() != "0" {
			return "every cycle shortens the local slice " + id.Name + " and the condition requires it to be non-empty", true
		}
	}
	return "", false
}

// refillLoop: `for <constant-bounded unread guard> { if p.fill() == 0 { break } }`: each cycle
// either adds at least one byte towards the constant bound or leaves.
func refillLoop(info *types.Info, fs *ast.ForStmt, g *FGraph, fill *types.Func) (string, bool) {
	if fs.Cond == nil || fill == nil {
		return "", false
	}
	var head *FBlock
	for _, b := range g.Blocks {
		if b.Stmt == ast.Stmt(fs) && b.Kind == "for.loop" {
			head = b
		}
	}
	if head == nil {
		return "", false
	}
	bounded := false
	for _, e := range head.Succs {
		if _, ok := unreadBound(info, e); ok && e.Pol {
			bounded = true
		}
	}
	if !bounded || len(fs.Body.List) != 1 {
		return "", false
	}
	is, ok := fs.Body.List[0].(*ast.IfStmt)
	if !ok || is.Else != nil || len(is.Body.List) != 1 {
		return "", false
	}
	be, ok := ast.Unparen(is.Cond).(*ast.BinaryExpr)
	if !ok || be.Op != token.EQL || exprString(be.Y) != "0" {
		return "", false
	}
	c, ok := ast.Unparen(be.X).(*ast.CallExpr)
	if !ok || calleeOf(info, c) != fill {
		return "", false
	}
	if br, ok := is.Body.List[0].(*ast.BranchStmt); !ok || br.Tok != token.BREAK {
		return "", false
	}
	return "refill loop: the condition is a constant-bounded `not enough bytes` guard and every cycle calls fill(), leaving when it returns 0", true
}

// structurallyBounded recognises loops whose iteration count is bounded by
// their header alone.
func structurallyBounded(info *types.Info, fs *ast.ForStmt) (string, bool) {
	if fs.Post == nil || fs.Cond == nil {
		return "", false
	}
	var v types.Object
	switch x := fs.Post.(type) {
	case *ast.IncDecStmt:
		if id, ok := x.X.(*ast.Ident); ok {
			v = info.ObjectOf(id)
		}
	case *ast.AssignStmt:
		if len(x.Lhs) == 1 {
			if id, ok := x.Lhs[0].(*ast.Ident); ok {
				switch x.Tok {
				case token.ADD_ASSIGN, token.SHL_ASSIGN, token.SUB_ASSIGN:
					v = info.ObjectOf(id)
				case token.ASSIGN:
					// x = x.F : walking an acyclic chain
					if se, ok := ast.Unparen(x.Rhs[0]).(*ast.SelectorExpr); ok {
						if id2, ok := ast.Unparen(se.X).(*ast.Ident); ok && info.ObjectOf(id2) == info.ObjectOf(id) {
							return "walks a chain of nodes: " + stmtString(x), true
						}
					}
				}
			}
		}
	}
	if v == nil {
		return "", false
	}
	if _, isLocal := v.(*types.Var); !isLocal || v.Parent() == nil {
		return "", false
	}
	// the condition compares that variable
	be, ok := ast.Unparen(fs.Cond).(*ast.BinaryExpr)
	if !ok {
		return "", false
	}
	if id, ok := ast.Unparen(be.X).(*ast.Ident); !ok || info.ObjectOf(id) != v {
		return "", false
	}
	// in the body the counter only moves the same way as in the post statement
	up := false
	switch x := fs.Post.(type) {
	case *ast.IncDecStmt:
		up = x.Tok == token.INC
	case *ast.AssignStmt:
		up = x.Tok == token.ADD_ASSIGN || x.Tok == token.SHL_ASSIGN
	}
	assigned := false
	ast.Inspect(fs.Body, func(n ast.Node) bool {
		switch x := n.(type) {
		case *ast.AssignStmt:
			for _, l := range x.Lhs {
				if id, ok := l.(*ast.Ident); ok && info.ObjectOf(id) == v {
					if !(up && x.Tok == token.ADD_ASSIGN) {
						assigned = true
					}
				}
			}
		case *ast.IncDecStmt:
			if id, ok := x.X.(*ast.Ident); ok && info.ObjectOf(id) == v {
				if !(up && x.Tok == token.INC) && !(!up && x.Tok == token.DEC) {
					assigned = true
				}
			}
		}
		return true
	})
	if assigned {
		return "", false
	}
	return "counter loop: " + exprString(fs.Cond) + " with " + stmtString(fs.Post), true
}

// oneShotJump: the jump is taken under `F == K1` and its block stores F = K2, another constant, before jumping, while
// nothing else in the loop stores F: the second time round the guard is false, so the jump is taken at most once per call.
func oneShotJump(info *types.Info, g *FGraph, from *FBlock, loopBlocks map[*FBlock]bool) (string, bool) {
	constOf := func(e ast.Expr) string {
		if tv, ok := info.Types[e]; ok && tv.Value != nil {
			return tv.Value.ExactString()
		}
		return ""
	}
	// the store in the jump's own block
	var field, k2 string
	for _, n := range from.Nodes {
		if as, ok := n.(*ast.AssignStmt); ok && as.Tok == token.ASSIGN && len(as.Lhs) == 1 && len(as.Rhs) == 1 {
			if c := constOf(as.Rhs[0]); c != "" && selectorField(info, as.Lhs[0]) != nil {
				field, k2 = exprString(as.Lhs[0]), c
			}
		}
	}
	if field == "" {
		return "", false
	}
	// every way into that block passes `field == K1` with K1 != K2
	guarded := underEdges(g, from, func(e *FEdge) bool {
		var x, y ast.Expr
		eq := false
		if e.Tag != nil {
			x, y, eq = e.Tag, e.Cond, e.Pol
		} else if be, ok := ast.Unparen(e.Cond).(*ast.BinaryExpr); ok {
			x, y = be.X, be.Y
			eq = (be.Op == token.EQL && e.Pol) || (be.Op == token.NEQ && !e.Pol)
		}
		if x == nil || y == nil || !eq {
			return false
		}
		k1 := constOf(y)
		return exprString(x) == field && k1 != "" && k1 != k2
	})
	if !guarded {
		return "", false
	}
	stores := 0
	for b := range loopBlocks {
		for _, n := range b.Nodes {
			inspectNoLit(n, func(m ast.Node) bool {
				if as, ok := m.(*ast.AssignStmt); ok {
					for _, l := range as.Lhs {
						if exprString(l) == field {
							stores++
						}
					}
				}
				return true
			})
		}
	}
	if stores != 1 {
		return "", false
	}
	return fmt.Sprintf("taken at most once per call: the jump runs under a test that %s equals one constant and stores another before jumping, and nothing else on the way back stores it", field), true
}
