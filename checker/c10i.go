package main

import (
	"fmt"
	"go/ast"
	"go/constant"
	"go/token"
	"go/types"
	"sort"
	"strings"

	"golang.org/x/tools/go/packages"
)

// R10i: pending here-document bodies are read where the newline token is produced — that is what keeps the statement
// that opened them "open" (openNodes > 0) while the body is read, and so what makes an input cut inside a body an
// incomplete one. Every store `p.tok = _Newl` is therefore followed, on every path to the function's return, by a call
// of doHeredocs, except on the false branch of the pending test (a condition over p.heredocs) — other conjuncts of that
// test may only exclude a quote state whose owner reads the bodies itself (every function that enters that state calls
// doHeredocs). A store inside the body reader (a function called only under `case <state entered by doHeredocs>` of the
// switch over p.quote) is exempt: it is the end of a body, not a line of the program.
func checkNewlineTokenReadsHeredocs(p *Prog, r *Result, pkg *packages.Package, rule string) {
	info := pkg.TypesInfo
	parserT := lookupType(pkg, "Parser")
	if parserT == nil {
		r.Fatalf("anchor syntax.Parser not found")
		return
	}
	field := func(name string) *types.Var {
		st := parserT.Underlying().(*types.Struct)
		for i := 0; i < st.NumFields(); i++ {
			if st.Field(i).Name() == name {
				return st.Field(i)
			}
		}
		return nil
	}
	tokF, quoteF, hdocsF := field("tok"), field("quote"), field("heredocs")
	doH := lookupFunc(pkg, "Parser.doHeredocs")
	newlC, _ := pkg.Types.Scope().Lookup("_Newl").(*types.Const)
	if tokF == nil || quoteF == nil || hdocsF == nil || doH == nil || newlC == nil {
		r.Fatalf("anchors Parser.tok / Parser.quote / Parser.heredocs / Parser.doHeredocs / _Newl not found")
		return
	}
	sameConst := func(e ast.Expr, c *types.Const) bool {
		tv, ok := info.Types[e]
		return ok && tv.Value != nil && tv.Value.Kind() == constant.Int && c.Val().Kind() == constant.Int &&
			types.Identical(tv.Type, c.Type()) && constant.Compare(tv.Value, token.EQL, c.Val())
	}
	fgs := newFuncGraphs(pkg)
	var fos []*types.Func
	for fo, fd := range fgs.decls {
		if strings.HasSuffix(pkg.Fset.Position(fd.Pos()).Filename, "_test.go") {
			continue
		}
		fos = append(fos, fo)
	}
	sort.Slice(fos, func(i, j int) bool { return fgs.decls[fos[i]].Pos() < fgs.decls[fos[j]].Pos() })

	// which functions store which constant into p.quote
	quoteStores := map[string]map[*types.Func]bool{} // constant value → functions
	constName := map[string]string{}
	callsDoH := map[*types.Func]bool{}
	type callSite struct {
		in   *types.Func
		call *ast.CallExpr
	}
	callers := map[*types.Func][]callSite{}
	for _, fo := range fos {
		fd := fgs.decls[fo]
		ast.Inspect(fd.Body, func(n ast.Node) bool {
			switch n := n.(type) {
			case *ast.AssignStmt:
				if len(n.Lhs) != len(n.Rhs) {
					return true
				}
				for i, l := range n.Lhs {
					if selectorField(info, l) != quoteF {
						continue
					}
					if tv, ok := info.Types[n.Rhs[i]]; ok && tv.Value != nil {
						k := tv.Value.ExactString()
						if quoteStores[k] == nil {
							quoteStores[k] = map[*types.Func]bool{}
						}
						quoteStores[k][fo] = true
						constName[k] = exprString(n.Rhs[i])
					}
				}
			case *ast.CallExpr:
				if c := calleeOf(info, n); c != nil {
					c = c.Origin()
					if c == doH {
						callsDoH[fo] = true
					}
					callers[c] = append(callers[c], callSite{fo, n})
				}
			}
			return true
		})
	}
	// states entered by doHeredocs itself: the body reader's
	bodyStates := map[string]bool{}
	for k, fns := range quoteStores {
		if fns[doH] {
			bodyStates[k] = true
		}
	}
	if len(bodyStates) == 0 {
		r.Fatalf("doHeredocs enters no quote state: the body reader cannot be told apart")
		return
	}
	isBodyClause := func(e *FEdge) bool {
		if e.Tag == nil || e.Clause == nil || selectorField(info, e.Tag) != quoteF || len(e.Clause.List) == 0 {
			return false
		}
		for _, ce := range e.Clause.List {
			tv, ok := info.Types[ce]
			if !ok || tv.Value == nil || !bodyStates[tv.Value.ExactString()] {
				return false
			}
		}
		return true
	}
	var onlyInBodyReader func(fo *types.Func, depth int) bool
	onlyInBodyReader = func(fo *types.Func, depth int) bool {
		cs := callers[fo]
		if len(cs) == 0 || depth > 3 {
			return false
		}
		for _, c := range cs {
			g := fgs.graph(c.in)
			b, _ := g.BlockOf(c.call)
			if b == nil {
				return false
			}
			if underEdges(g, b, isBodyClause) {
				continue
			}
			if c.in != fo && onlyInBodyReader(c.in, depth+1) {
				continue
			}
			return false
		}
		return true
	}
	mentions := func(e ast.Expr, f *types.Var) bool {
		found := false
		ast.Inspect(e, func(n ast.Node) bool {
			if se, ok := n.(*ast.SelectorExpr); ok && selectorField(info, se) == f {
				found = true
			}
			return true
		})
		return found
	}
	// an if statement that is the pending test: one conjunct is over p.heredocs, the others only exclude a quote state
	// whose every owner calls doHeredocs itself
	pendingTest := func(is *ast.IfStmt) (bool, string) {
		hasPending := false
		for _, c := range conjuncts(is.Cond) {
			if mentions(c, hdocsF) {
				hasPending = true
				continue
			}
			be, ok := ast.Unparen(c).(*ast.BinaryExpr)
			if !ok || be.Op != token.NEQ || selectorField(info, be.X) != quoteF {
				return false, fmt.Sprintf("the test has a conjunct %s which is neither the pending test nor the exclusion of a quote state", exprString(c))
			}
			tv, ok := info.Types[be.Y]
			if !ok || tv.Value == nil {
				return false, "the excluded quote state is not a constant"
			}
			owners := quoteStores[tv.Value.ExactString()]
			if len(owners) == 0 {
				return false, fmt.Sprintf("nothing enters the excluded quote state %s", exprString(be.Y))
			}
			for o := range owners {
				if !callsDoH[o] {
					return false, fmt.Sprintf("the excluded quote state %s is entered by %s, which does not read the pending bodies itself", exprString(be.Y), o.Name())
				}
			}
		}
		return hasPending, "no conjunct of the test is over p.heredocs"
	}

	n := 0
	for _, fo := range fos {
		fd := fgs.decls[fo]
		if recvTypeName(fd) != "Parser" {
			continue
		}
		var stores []*ast.AssignStmt
		inspectNoLit(fd.Body, func(m ast.Node) bool {
			as, ok := m.(*ast.AssignStmt)
			if !ok || len(as.Lhs) != len(as.Rhs) {
				return true
			}
			for i, l := range as.Lhs {
				if selectorField(info, l) == tokF && sameConst(as.Rhs[i], newlC) {
					stores = append(stores, as)
				}
			}
			return true
		})
		for si, as := range stores {
			n++
			key := fmt.Sprintf("%s#p.tok = _Newl", funcKey("syntax", fd))
			if len(stores) > 1 {
				key = fmt.Sprintf("%s (%d)", key, si+1)
			}
			if onlyInBodyReader(fo, 0) {
				var names []string
				for k := range bodyStates {
					names = append(names, constName[k])
				}
				sort.Strings(names)
				r.OK(rule, key, as.Pos(), fmt.Sprintf("%s runs only under `case %s` of the switch over p.quote — states entered by doHeredocs alone: this newline ends a body that is being read", fo.Name(), strings.Join(names, ", ")))
				continue
			}
			g := fgs.graph(fo)
			b, idx := g.BlockOf(as)
			if b == nil {
				r.Undecided(rule, key, as.Pos(), "the store was not found in the function's flow graph")
				continue
			}
			why := ""
			skip := func(e *FEdge) bool {
				if e.Cond == nil || e.Pol || e.Tag != nil || e.TypeCase {
					return false
				}
				is := enclosingIf(fd, e.Cond)
				if is == nil {
					return false
				}
				ok2, w := pendingTest(is)
				if !ok2 && mentions(is.Cond, hdocsF) {
					why = w
				}
				return ok2
			}
			hit := func(m ast.Node) bool {
				found := false
				inspectNoLit(m, func(k ast.Node) bool {
					if c, ok := k.(*ast.CallExpr); ok {
						if callee := calleeOf(info, c); callee != nil && callee.Origin() == doH {
							found = true
						}
					}
					return true
				})
				return found
			}
			ok, _ := g.MustPass(b, idx, g.Exit, hit, skip)
			msg := "a newline token is produced and a path returns without reading the pending here-document bodies: they are then read outside the statement that opened them, and an input cut inside a body is reported as `unclosed here-document` that is not incomplete"
			if why != "" {
				msg += " (" + why + ")"
			}
			r.Check(ok, rule, key, as.Pos(), "every path from the store to the return calls doHeredocs, or has failed the pending test over p.heredocs", msg)
		}
	}
	r.Notef("%s: %d stores of the newline token; body-reader states: %d", rule, n, len(bodyStates))
}

// enclosingIf returns the innermost if statement of fd whose condition contains e.
func enclosingIf(fd *ast.FuncDecl, e ast.Expr) *ast.IfStmt {
	var out *ast.IfStmt
	ast.Inspect(fd.Body, func(n ast.Node) bool {
		if is, ok := n.(*ast.IfStmt); ok && is.Cond.Pos() <= e.Pos() && e.End() <= is.Cond.End() {
			out = is
		}
		return true
	})
	return out
}
