package main

import (
	"fmt"
	"go/ast"
	"go/types"
	"sort"
	"strings"
)

// R04f: `x[i]` and `x[$i]` mean different things when x is an associative array (the simplifier's own comment), so
// inlining `$name` to `name` is never applied to an array index — the whole index or any arithmetic node inside it.
// Derived from the types: every node type with an `Index ArithmExpr` field has a clause in simplifier.visit that hands
// that field to the marking helper (the one function that stores into the simplifier's inIndex set), and never to
// anything that can reach the inlining rewrite; and in the clauses for the arithmetic node types themselves, every
// call that can reach the inlining rewrite is under the failing branch of a test of that set. On the pinned tree only
// a parameter that was the *entire* index was protected: "${m[$i + 1]}" became "${m[i + 1]}".
func checkIndexNotInlined(p *Prog, r *Result, si *syntaxInfo, rule string) {
	pkg := si.pkg
	info := pkg.TypesInfo
	visit := p.FuncDecl("syntax", "simplifier.visit")
	inline := lookupFunc(pkg, "simplifier.inlineSimpleParams")
	simpT := lookupType(pkg, "simplifier")
	arithT, _ := pkg.Types.Scope().Lookup("ArithmExpr").(*types.TypeName)
	if visit == nil || inline == nil || simpT == nil || arithT == nil {
		r.Fatalf("anchors simplifier.visit / inlineSimpleParams / ArithmExpr not found")
		return
	}
	g := buildRefGraph(p)
	reachesInline := func(fn *types.Func) bool {
		if fn == nil {
			return false
		}
		return fn.Origin() == inline || g.reachable(fn.Origin())[inline]
	}
	// the marking set: a map-typed field of the simplifier keyed by ArithmExpr
	var setF *types.Var
	st := simpT.Underlying().(*types.Struct)
	for i := 0; i < st.NumFields(); i++ {
		if m, ok := st.Field(i).Type().Underlying().(*types.Map); ok && types.Identical(m.Key(), arithT.Type()) {
			setF = st.Field(i)
		}
	}
	// the functions that store into it
	markers := map[*types.Func]bool{}
	if setF != nil {
		for fo, fd := range g.decl {
			if g.pkgOf[fo] != pkg || fd.Body == nil {
				continue
			}
			ast.Inspect(fd.Body, func(n ast.Node) bool {
				if as, ok := n.(*ast.AssignStmt); ok {
					for _, l := range as.Lhs {
						if ie, ok := ast.Unparen(l).(*ast.IndexExpr); ok && selectorField(info, ie.X) == setF {
							markers[fo] = true
						}
					}
				}
				return true
			})
		}
	}
	// the type switch of visit
	var ts *ast.TypeSwitchStmt
	ast.Inspect(visit.Body, func(n ast.Node) bool {
		if t, ok := n.(*ast.TypeSwitchStmt); ok && ts == nil {
			ts = t
		}
		return true
	})
	if ts == nil {
		r.Undecided(rule, "syntax.(simplifier).visit#type switch", visit.Pos(), "the type switch over the node was not found")
		return
	}
	clauseOf := map[*types.TypeName]*ast.CaseClause{}
	for _, st := range ts.Body.List {
		cc := st.(*ast.CaseClause)
		for _, e := range cc.List {
			if pt, ok := info.TypeOf(e).(*types.Pointer); ok {
				if nt := namedOf(pt.Elem()); nt != nil {
					clauseOf[nt.Obj()] = cc
				}
			}
		}
	}
	// 1. node types with an Index ArithmExpr field
	var withIndex []*types.TypeName
	for tn := range si.isNode {
		stt, ok := tn.Type().Underlying().(*types.Struct)
		if !ok {
			continue
		}
		for i := 0; i < stt.NumFields(); i++ {
			if stt.Field(i).Name() == "Index" && types.Identical(stt.Field(i).Type(), arithT.Type()) {
				withIndex = append(withIndex, tn)
			}
		}
	}
	sort.Slice(withIndex, func(i, j int) bool { return withIndex[i].Name() < withIndex[j].Name() })
	for _, tn := range withIndex {
		key := fmt.Sprintf("syntax.(simplifier).visit#%s.Index is marked and never inlined", tn.Name())
		cc := clauseOf[tn]
		if cc == nil {
			r.Bad(rule, key, visit.Pos(), fmt.Sprintf("%s has an index and visit has no clause for it: the arithmetic nodes inside the index are visited with nothing telling the inlining rewrite to leave them alone", tn.Name()))
			continue
		}
		marked, inlined := false, ""
		ast.Inspect(cc, func(n ast.Node) bool {
			c, ok := n.(*ast.CallExpr)
			if !ok || len(c.Args) == 0 {
				return true
			}
			se, ok := ast.Unparen(c.Args[0]).(*ast.SelectorExpr)
			if !ok || se.Sel.Name != "Index" {
				return true
			}
			callee := calleeOf(info, c)
			if callee == nil {
				return true
			}
			if markers[callee.Origin()] {
				marked = true
			}
			if reachesInline(callee) {
				inlined = callee.Name()
			}
			return true
		})
		switch {
		case inlined != "":
			r.Bad(rule, key, cc.Pos(), fmt.Sprintf("the index of a %s is handed to %s, which can inline `$name` to `name`: for an associative array x[$i] and x[i] are different keys", tn.Name(), inlined))
		case !marked:
			r.Bad(rule, key, cc.Pos(), fmt.Sprintf("the clause for %s does not hand its index to the marking helper: the binary and parenthesised expressions inside the index have their parameters inlined when they are visited", tn.Name()))
		default:
			r.OK(rule, key, cc.Pos(), "the clause hands the index to the marking helper and to nothing that can inline")
		}
	}
	// 2. the clauses for arithmetic node types: inlining only under the failing branch of the set test
	fg := NewFGraph(info, visit.Body, nil)
	var arithNodes []*types.TypeName
	for tn := range clauseOf {
		if si.isNode[tn] && types.Implements(types.NewPointer(tn.Type()), arithT.Type().Underlying().(*types.Interface)) {
			arithNodes = append(arithNodes, tn)
		}
	}
	sort.Slice(arithNodes, func(i, j int) bool { return arithNodes[i].Name() < arithNodes[j].Name() })
	for _, tn := range arithNodes {
		if tn.Name() == "Word" {
			continue
		}
		cc := clauseOf[tn]
		seen := 0
		ast.Inspect(cc, func(n ast.Node) bool {
			c, ok := n.(*ast.CallExpr)
			if !ok {
				return true
			}
			callee := calleeOf(info, c)
			if callee == nil || !reachesInline(callee) {
				return true
			}
			seen++
			key := fmt.Sprintf("syntax.(simplifier).visit#%s: inlining #%d only outside an index", tn.Name(), seen)
			blk := blockContaining(fg, c)
			under := blk != nil && setF != nil && underEdges(fg, blk, func(e *FEdge) bool {
				if e.Cond == nil || e.Pol || e.Tag != nil || e.TypeCase {
					return false
				}
				ie, ok := ast.Unparen(e.Cond).(*ast.IndexExpr)
				return ok && selectorField(info, ie.X) == setF
			})
			r.Check(under, rule, key, c.Pos(), "reached only when the node was not marked as part of an index",
				fmt.Sprintf("in the clause for %s the inlining rewrite runs whether or not the node is part of an array index: \"${m[$i + 1]}\" becomes \"${m[i + 1]}\", another key when m is associative", tn.Name()))
			return true
		})
	}
	_ = strings.Join
}
