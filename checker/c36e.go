package main

import (
	"fmt"
	"go/ast"
	"go/constant"
	rsyntax "regexp/syntax"
	"strings"
)

// R36e: which files a tree run touches is decided by regular-expression literals (the VCS directories to skip, the
// shell extensions, the shebang). In an alternation `^a|b|c$` the anchors bind to the first and last branch only, so
// extending an anchored pattern without regrouping turns "is exactly one of" into "starts with, contains, or ends
// with" — and a tree run then skips (or picks up) other files than the ones the file and stdin modes agree on. For
// every constant pattern handed to regexp.MustCompile/Compile in cmd/shfmt and fileutil: if the pattern is a top-level
// alternation, all branches begin with the same begin-anchor (or none does) and all end with the same end-anchor (or
// none does).
func checkRegexpAnchoring(p *Prog, r *Result, rule string, rels []string) int {
	n := 0
	for _, rel := range rels {
		pkg := p.Pkg(rel)
		if pkg == nil {
			continue
		}
		info := pkg.TypesInfo
		for _, f := range pkg.Syntax {
			if strings.HasSuffix(p.Position(f.Pos()), "_test.go") {
				continue
			}
			ast.Inspect(f, func(m ast.Node) bool {
				c, ok := m.(*ast.CallExpr)
				if !ok || len(c.Args) != 1 {
					return true
				}
				callee := calleeOf(info, c)
				if callee == nil || (qualName(callee) != "regexp.MustCompile" && qualName(callee) != "regexp.Compile") {
					return true
				}
				tv, ok := info.Types[c.Args[0]]
				if !ok || tv.Value == nil || tv.Value.Kind() != constant.String {
					return true
				}
				pat := constant.StringVal(tv.Value)
				n++
				key := fmt.Sprintf("%s#regexp %s anchors every branch alike", rel, exprString(c.Args[0]))
				re, err := rsyntax.Parse(pat, rsyntax.Perl)
				if err != nil {
					r.Bad(rule, key, c.Pos(), "the pattern does not parse: "+err.Error())
					return true
				}
				if re.Op != rsyntax.OpAlternate {
					r.OK(rule, key, c.Pos(), "not a top-level alternation")
					return true
				}
				begins, ends := 0, 0
				for _, sub := range re.Sub {
					first, last := sub, sub
					if sub.Op == rsyntax.OpConcat && len(sub.Sub) > 0 {
						first, last = sub.Sub[0], sub.Sub[len(sub.Sub)-1]
					}
					if first.Op == rsyntax.OpBeginText || first.Op == rsyntax.OpBeginLine {
						begins++
					}
					if last.Op == rsyntax.OpEndText || last.Op == rsyntax.OpEndLine {
						ends++
					}
				}
				okAll := (begins == 0 || begins == len(re.Sub)) && (ends == 0 || ends == len(re.Sub))
				r.Check(okAll, rule, key, c.Pos(), "every branch of the alternation carries the same anchors",
					fmt.Sprintf("the pattern is a top-level alternation of %d branches of which %d begin with ^ and %d end with $: the anchors bind to single branches, so the others match anywhere in the name — directories and files other than the intended ones are skipped or picked up by a tree run, while naming the file or formatting stdin treats them differently", len(re.Sub), begins, ends))
				return true
			})
		}
	}
	return n
}

// R36f: the language a source is parsed as is taken from its shebang when -ln=auto finds no extension. The file mode
// and the stdin mode agree only if both look at the same bytes: in every function of cmd/shfmt that calls
// formatBytes(src, …, l), each fileutil.Shebang(x) whose result is handed to l.Set has x equal to src — the bytes that
// are formatted — not a prefix of them.
func checkShebangFromFormattedBytes(p *Prog, r *Result, rule string) int {
	pkg := p.Pkg("cmd/shfmt")
	info := pkg.TypesInfo
	n := 0
	for _, fd := range p.AllFuncDecls("cmd/shfmt") {
		if fd.Body == nil || strings.HasSuffix(p.Position(fd.Pos()), "_test.go") {
			continue
		}
		var srcs []string
		ast.Inspect(fd.Body, func(m ast.Node) bool {
			if c, ok := m.(*ast.CallExpr); ok && len(c.Args) >= 1 {
				if callee := calleeOf(info, c); callee != nil && callee.Name() == "formatBytes" {
					srcs = append(srcs, exprString(c.Args[0]))
				}
			}
			return true
		})
		if len(srcs) == 0 {
			continue
		}
		// Shebang calls whose result reaches a Set call (directly, or through a local)
		seen := 0
		ast.Inspect(fd.Body, func(m ast.Node) bool {
			c, ok := m.(*ast.CallExpr)
			if !ok || len(c.Args) != 1 {
				return true
			}
			se, ok := ast.Unparen(c.Fun).(*ast.SelectorExpr)
			if !ok || se.Sel.Name != "Set" {
				return true
			}
			arg := ast.Unparen(c.Args[0])
			if id, ok := arg.(*ast.Ident); ok {
				if def := singleDef(info, fd, info.ObjectOf(id)); def != nil {
					arg = ast.Unparen(def)
				}
			}
			sc, ok := arg.(*ast.CallExpr)
			if !ok || len(sc.Args) != 1 {
				return true
			}
			if callee := calleeOf(info, sc); callee == nil || !strings.HasSuffix(qualName(callee), "fileutil.Shebang") {
				return true
			}
			n++
			seen++
			key := fmt.Sprintf("%s#the language comes from the shebang of the bytes that are formatted", funcKey("cmd/shfmt", fd))
			if seen > 1 {
				key += fmt.Sprintf("#%d", seen)
			}
			got := exprString(sc.Args[0])
			same := false
			for _, s := range srcs {
				if s == got {
					same = true
				}
			}
			r.Check(same, rule, key, sc.Pos(), "Shebang is given "+got+", which is what formatBytes receives",
				fmt.Sprintf("the language is set from fileutil.Shebang(%s) while formatBytes receives %s: a shebang line that does not fit in the part that is looked at gives one language for this mode and another for the mode that looks at everything", got, strings.Join(srcs, " / ")))
			return true
		})
	}
	return n
}

// R36g: the file mode formats what is in the file. formatPath fills readBuf in two steps (a short read to sniff the
// shebang, then the rest of the file); whatever goes into readBuf must be exactly what was read, because formatBytes
// compares its input with the formatted output to decide "differs", and -w writes that output back: a transformed
// copy (a stripped byte-order mark, say) makes the file mode format other bytes than `shfmt <file` does. Every
// readBuf.Write(x) has x = buf[:n] where n is the count returned by a read into buf, and every other fill of readBuf is
// io.Copy/io.CopyBuffer from the opened file.
func checkFileBytesUntouched(p *Prog, r *Result, rule string) int {
	pkg := p.Pkg("cmd/shfmt")
	info := pkg.TypesInfo
	fd := p.FuncDecl("cmd/shfmt", "formatPath")
	if fd == nil {
		r.Fatalf("anchor cmd/shfmt.formatPath not found")
		return 0
	}
	// the buffer handed to formatBytes
	var bufName string
	ast.Inspect(fd.Body, func(m ast.Node) bool {
		if c, ok := m.(*ast.CallExpr); ok && len(c.Args) >= 1 {
			if callee := calleeOf(info, c); callee != nil && callee.Name() == "formatBytes" {
				if bc, ok := ast.Unparen(c.Args[0]).(*ast.CallExpr); ok {
					if se, ok := ast.Unparen(bc.Fun).(*ast.SelectorExpr); ok && se.Sel.Name == "Bytes" {
						bufName = exprString(se.X)
					}
				}
			}
		}
		return true
	})
	if bufName == "" {
		r.Undecided(rule, "cmd/shfmt.formatPath#what formatBytes receives", fd.Pos(), "formatBytes is not given <buffer>.Bytes()")
		return 0
	}
	n := 0
	seen := map[string]int{}
	ast.Inspect(fd.Body, func(m ast.Node) bool {
		c, ok := m.(*ast.CallExpr)
		if !ok {
			return true
		}
		se, isSel := ast.Unparen(c.Fun).(*ast.SelectorExpr)
		callee := calleeOf(info, c)
		switch {
		case isSel && exprString(se.X) == bufName && strings.HasPrefix(se.Sel.Name, "Write") && len(c.Args) == 1:
			n++
			key := fmt.Sprintf("cmd/shfmt.formatPath#%s receives exactly what was read", exprString(c))
			seen[key]++
			if seen[key] > 1 {
				key += fmt.Sprintf("#%d", seen[key])
			}
			okArg := false
			if sl, ok := ast.Unparen(c.Args[0]).(*ast.SliceExpr); ok && sl.Low == nil && sl.High != nil {
				if id, ok := ast.Unparen(sl.High).(*ast.Ident); ok {
					if def := singleDef(info, fd, info.ObjectOf(id)); def != nil {
						if rc, ok := ast.Unparen(def).(*ast.CallExpr); ok {
							// n, err := io.ReadAtLeast(f, buf[:k], m) / f.Read(buf)
							for _, a := range rc.Args {
								if strings.HasPrefix(exprString(a), exprString(sl.X)) {
									okArg = true
								}
							}
						}
					}
				}
			}
			r.Check(okArg, rule, key, c.Pos(), "the slice the preceding read filled, up to the count it returned",
				fmt.Sprintf("%s is filled with %s, which is not the slice a read just filled: the file mode then formats, compares and writes back other bytes than the file holds (and than `shfmt <file` formats)", bufName, exprString(c.Args[0])))
		case callee != nil && (qualName(callee) == "io.Copy" || qualName(callee) == "io.CopyBuffer") && len(c.Args) >= 2 && strings.Contains(exprString(c.Args[0]), bufName):
			n++
			key := fmt.Sprintf("cmd/shfmt.formatPath#%s copies from the opened file", exprString(c.Fun))
			src := ast.Unparen(c.Args[1])
			okSrc := false
			if id, ok := src.(*ast.Ident); ok {
				if def := singleDef(info, fd, info.ObjectOf(id)); def != nil {
					if oc, ok := ast.Unparen(def).(*ast.CallExpr); ok {
						if cal := calleeOf(info, oc); cal != nil && (qualName(cal) == "os.Open" || qualName(cal) == "os.OpenFile") {
							okSrc = true
						}
					}
				}
			}
			r.Check(okSrc, rule, key, c.Pos(), "the source is the file opened from the path",
				"the rest of the buffer is not copied straight from the opened file: the file mode formats other bytes than the file holds")
		}
		return true
	})
	return n
}
