package main

import (
	"fmt"
	"go/ast"
	"go/types"
	"sort"
)

// R04g: reader/writer agreement on where single quotes are literal. The simplifier turns "\$foo" into '$foo', which is
// only right where a single quote is a quoting character. The lexer says where it is not: the states of `switch
// p.quote` in nextKeepSpaces whose clause dispatches to dqToken (the double-quote token set). The parser says which
// syntax carries text lexed in those states: a function that enters such a state either returns the node it built
// (dblQuoted → *DblQuoted) or stores the word it read into a field of a node (doHeredocs → Redirect.Hdoc). For each
// carrier, simplifier.visit has a clause that hands the node (or that field) to a function that stores into the
// simplifier's set of words not to be re-quoted. On the pinned tree only DblQuoted was marked; inside a here-document
// `${a:-"\$b"}` became `${a:-'$b'}`, which prints the quotes.
func checkQuoteContextsMarked(p *Prog, r *Result, si *syntaxInfo, rule string) {
	pkg := si.pkg
	info := pkg.TypesInfo
	lexFD := p.FuncDecl("syntax", "Parser.nextKeepSpaces")
	visit := p.FuncDecl("syntax", "simplifier.visit")
	simpT := lookupType(pkg, "simplifier")
	dq := lookupFunc(pkg, "Parser.dqToken")
	wordT := lookupType(pkg, "Word")
	if lexFD == nil || visit == nil || simpT == nil || dq == nil || wordT == nil {
		r.Fatalf("anchors Parser.nextKeepSpaces / dqToken / simplifier.visit not found")
		return
	}
	// 1. the states in which a single quote is an ordinary character
	states := map[string]string{} // constant value → name
	ast.Inspect(lexFD.Body, func(n ast.Node) bool {
		sw, ok := n.(*ast.SwitchStmt)
		if !ok || sw.Tag == nil {
			return true
		}
		if fv := selectorField(info, sw.Tag); fv == nil || fv.Name() != "quote" {
			return true
		}
		for _, st := range sw.Body.List {
			cc := st.(*ast.CaseClause)
			calls := false
			ast.Inspect(cc, func(m ast.Node) bool {
				if c, ok := m.(*ast.CallExpr); ok {
					if callee := calleeOf(info, c); callee != nil && callee.Origin() == dq {
						calls = true
					}
				}
				return true
			})
			if !calls {
				continue
			}
			for _, ce := range cc.List {
				if tv, ok := info.Types[ce]; ok && tv.Value != nil {
					states[tv.Value.ExactString()] = exprString(ce)
				}
			}
		}
		return true
	})
	if len(states) == 0 {
		r.Undecided(rule, "syntax.(Parser).nextKeepSpaces#states that use the double-quote token set", lexFD.Pos(), "no clause of the switch over p.quote dispatches to dqToken")
		return
	}
	// 2. carriers
	type carrier struct {
		t     *types.TypeName
		field string
		from  string
	}
	carriers := map[string]carrier{}
	for _, fd := range p.AllFuncDecls("syntax") {
		if fd.Body == nil || recvTypeName(fd) != "Parser" {
			continue
		}
		enters := false
		ast.Inspect(fd.Body, func(n ast.Node) bool {
			if as, ok := n.(*ast.AssignStmt); ok && len(as.Lhs) == len(as.Rhs) {
				for i, l := range as.Lhs {
					if fv := selectorField(info, l); fv != nil && fv.Name() == "quote" {
						if tv, ok := info.Types[as.Rhs[i]]; ok && tv.Value != nil && states[tv.Value.ExactString()] != "" {
							enters = true
						}
					}
				}
			}
			return true
		})
		if !enters {
			continue
		}
		// returns a node?
		if fd.Type.Results != nil && len(fd.Type.Results.List) >= 1 {
			if pt, ok := info.TypeOf(fd.Type.Results.List[0].Type).(*types.Pointer); ok {
				if nt := namedOf(pt.Elem()); nt != nil && si.isNode[nt.Obj()] && nt != wordT {
					carriers[nt.Obj().Name()] = carrier{nt.Obj(), "", fd.Name.Name}
				}
			}
		}
		// stores a word it read into a node's field?
		ast.Inspect(fd.Body, func(n ast.Node) bool {
			as, ok := n.(*ast.AssignStmt)
			if !ok || len(as.Lhs) != 1 || len(as.Rhs) != 1 {
				return true
			}
			se, ok := ast.Unparen(as.Lhs[0]).(*ast.SelectorExpr)
			if !ok {
				return true
			}
			fv := selectorField(info, se)
			if fv == nil {
				return true
			}
			if pt, ok := fv.Type().(*types.Pointer); !ok || namedOf(pt.Elem()) != wordT {
				return true
			}
			owner := namedOf(derefType(info.TypeOf(se.X)))
			if owner == nil || !si.isNode[owner.Obj()] {
				return true
			}
			if _, isCall := ast.Unparen(as.Rhs[0]).(*ast.CallExpr); !isCall {
				return true
			}
			carriers[owner.Obj().Name()+"."+fv.Name()] = carrier{owner.Obj(), fv.Name(), fd.Name.Name}
			return true
		})
	}
	// 3. the simplifier's marking functions: those that store into a map[*Word]bool field of the simplifier
	var setF *types.Var
	st := simpT.Underlying().(*types.Struct)
	for i := 0; i < st.NumFields(); i++ {
		if m, ok := st.Field(i).Type().Underlying().(*types.Map); ok {
			if pt, ok := m.Key().(*types.Pointer); ok && namedOf(pt.Elem()) == wordT {
				setF = st.Field(i)
			}
		}
	}
	g := buildRefGraph(p)
	markers := map[*types.Func]bool{}
	if setF != nil {
		for fo, fd := range g.decl {
			if g.pkgOf[fo] != pkg || fd.Body == nil {
				continue
			}
			ast.Inspect(fd.Body, func(n ast.Node) bool {
				if as, ok := n.(*ast.AssignStmt); ok {
					for _, l := range as.Lhs {
						if ie, ok := ast.Unparen(l).(*ast.IndexExpr); ok && selectorField(info, ie.X) == setF {
							markers[fo] = true
						}
					}
				}
				return true
			})
		}
	}
	var ts *ast.TypeSwitchStmt
	ast.Inspect(visit.Body, func(n ast.Node) bool {
		if t, ok := n.(*ast.TypeSwitchStmt); ok && ts == nil {
			ts = t
		}
		return true
	})
	var keys []string
	for k := range carriers {
		keys = append(keys, k)
	}
	sort.Strings(keys)
	var names []string
	for _, v := range states {
		names = append(names, v)
	}
	sort.Strings(names)
	for _, k := range keys {
		c := carriers[k]
		key := fmt.Sprintf("syntax.(simplifier).visit#words inside %s are not re-quoted", k)
		var cc *ast.CaseClause
		if ts != nil {
			for _, st := range ts.Body.List {
				for _, e := range st.(*ast.CaseClause).List {
					if pt, ok := info.TypeOf(e).(*types.Pointer); ok && namedOf(pt.Elem()) != nil && namedOf(pt.Elem()).Obj() == c.t {
						cc = st.(*ast.CaseClause)
					}
				}
			}
		}
		marked := false
		if cc != nil {
			ast.Inspect(cc, func(n ast.Node) bool {
				call, ok := n.(*ast.CallExpr)
				if !ok || len(call.Args) == 0 {
					return true
				}
				callee := calleeOf(info, call)
				if callee == nil || !markers[callee.Origin()] {
					return true
				}
				arg := ast.Unparen(call.Args[0])
				nodeVar := info.Implicits[cc] // the variable the type switch binds in this clause
				if c.field == "" {
					// the node itself, not a part of it
					if id, isID := arg.(*ast.Ident); isID && nodeVar != nil && info.ObjectOf(id) == nodeVar {
						marked = true
					}
				} else if se, ok := arg.(*ast.SelectorExpr); ok && se.Sel.Name == c.field {
					if id, isID := ast.Unparen(se.X).(*ast.Ident); isID && nodeVar != nil && info.ObjectOf(id) == nodeVar {
						marked = true
					}
				}
				return true
			})
		}
		r.Check(marked, rule, key, visit.Pos(), fmt.Sprintf("%s() reads it in a state (%v) where a single quote is an ordinary character, and visit hands it to the marking helper", c.from, names),
			fmt.Sprintf("%s() reads %s in a lexer state where a single quote is an ordinary character (%v), and simplifier.visit does not mark the words inside it: `\"\\$foo\"` there is rewritten to `'$foo'`, which keeps the quote characters", c.from, k, names))
	}
	if len(keys) == 0 {
		r.Undecided(rule, "syntax#carriers of double-quote-like text", visit.Pos(), "no function that enters such a state returns a node or stores a word into one")
	}
}
