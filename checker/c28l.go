package main

import (
	"fmt"
	"go/ast"
	"go/token"
	"go/types"
	"strings"

	"golang.org/x/tools/go/packages"
)

// R28l: maps.Clone(nil) is nil, and a variable declared without a value (`declare -A m`) has a nil map. A map that a
// function took from maps.Clone is therefore written (m[k] = v, m[k]++, maps.Copy(m, …)) only after a nil test on that
// very expression, or after it was replaced by a fresh map — the idiom of every such site on the pinned tree
// (`x = maps.Clone(x); if x == nil { x = make(…) }; x[k] = v`). Forward dataflow of "may still be the nil clone",
// keyed by the expression's text; reading, ranging and delete are fine on a nil map.
func checkClonedMapWrites(p *Prog, r *Result, pkg *packages.Package, rel, rule string) int {
	info := pkg.TypesInfo
	n := 0
	isMapExpr := func(e ast.Expr) bool {
		t := info.TypeOf(e)
		if t == nil {
			return false
		}
		_, ok := t.Underlying().(*types.Map)
		return ok
	}
	isClone := func(e ast.Expr) bool {
		c, ok := ast.Unparen(e).(*ast.CallExpr)
		if !ok {
			return false
		}
		callee := calleeOf(info, c)
		return callee != nil && qualName(callee) == "maps.Clone"
	}
	for _, fd := range p.AllFuncDecls(rel) {
		if fd.Body == nil || strings.HasSuffix(p.Position(fd.Pos()), "_test.go") {
			continue
		}
		hasClone := false
		ast.Inspect(fd.Body, func(m ast.Node) bool {
			if e, ok := m.(ast.Expr); ok && isClone(e) {
				hasClone = true
			}
			return !hasClone
		})
		if !hasClone {
			continue
		}
		g := NewFGraph(info, fd.Body, nil)
		type fact map[string]bool
		with := func(f fact, k string, v bool) fact {
			if f[k] == v {
				return f
			}
			nf := fact{}
			for a, b := range f {
				if b {
					nf[a] = true
				}
			}
			if v {
				nf[k] = true
			} else {
				delete(nf, k)
			}
			return nf
		}
		res := runForward(g, flowSpec[fact]{
			Init: fact{},
			Join: func(a, b fact) fact {
				if len(b) == 0 {
					return a
				}
				nf := fact{}
				for k, v := range a {
					if v {
						nf[k] = true
					}
				}
				for k, v := range b {
					if v {
						nf[k] = true
					}
				}
				return nf
			},
			Equal: func(a, b fact) bool {
				if len(a) != len(b) {
					return false
				}
				for k := range a {
					if !b[k] {
						return false
					}
				}
				return true
			},
			Node: func(f fact, nd ast.Node) fact {
				as, ok := nd.(*ast.AssignStmt)
				if !ok || len(as.Lhs) != len(as.Rhs) {
					return f
				}
				for i, l := range as.Lhs {
					if !isMapExpr(l) {
						continue
					}
					if _, isIdx := ast.Unparen(l).(*ast.IndexExpr); isIdx {
						continue
					}
					k := exprString(l)
					f = with(f, k, isClone(as.Rhs[i]))
				}
				return f
			},
			Edge: func(f fact, e *FEdge) fact {
				if e.Cond == nil || e.Tag != nil || e.TypeCase {
					return f
				}
				be, ok := ast.Unparen(e.Cond).(*ast.BinaryExpr)
				if !ok {
					return f
				}
				x, y := be.X, be.Y
				if isNilIdent(info, x) {
					x, y = y, x
				}
				if !isNilIdent(info, y) {
					return f
				}
				if (be.Op == token.EQL && !e.Pol) || (be.Op == token.NEQ && e.Pol) {
					return with(f, exprString(x), false)
				}
				return f
			},
		})
		report := func(at ast.Node, target ast.Expr, how string) {
			k := exprString(target)
			// only expressions this function takes from maps.Clone somewhere
			cloned := false
			ast.Inspect(fd.Body, func(m ast.Node) bool {
				if as, ok := m.(*ast.AssignStmt); ok && len(as.Lhs) == len(as.Rhs) {
					for i, l := range as.Lhs {
						if exprString(l) == k && isClone(as.Rhs[i]) {
							cloned = true
						}
					}
				}
				return true
			})
			if !cloned {
				return
			}
			n++
			key := fmt.Sprintf("%s#%s %s", funcKey(rel, fd), how, k)
			var f fact
			found := false
			if ff, ok := res.Before(at); ok {
				f, found = ff, true
			} else if b := blockContaining(g, at); b != nil {
				for i, nd := range b.Nodes {
					if nd.Pos() <= at.Pos() && at.End() <= nd.End() {
						f, found = res.At(b, i)
					}
				}
			}
			if !found {
				r.Undecided(rule, key, at.Pos(), "the write was not found in the function's flow graph")
				return
			}
			r.Check(!f[k], rule, key, at.Pos(), "on every path from the clone to the write the map was tested against nil or replaced by a fresh one",
				fmt.Sprintf("%s is taken from maps.Clone, which returns nil for a nil map (a variable declared without a value has one), and is written on a path with no nil test: assignment to entry in nil map panics the interpreter", k))
		}
		inspectNoLit(fd.Body, func(m ast.Node) bool {
			switch x := m.(type) {
			case *ast.AssignStmt:
				for _, l := range x.Lhs {
					if ie, ok := ast.Unparen(l).(*ast.IndexExpr); ok && isMapExpr(ie.X) {
						report(x, ie.X, "stores into")
					}
				}
			case *ast.IncDecStmt:
				if ie, ok := ast.Unparen(x.X).(*ast.IndexExpr); ok && isMapExpr(ie.X) {
					report(x, ie.X, "stores into")
				}
			case *ast.CallExpr:
				if callee := calleeOf(info, x); callee != nil && qualName(callee) == "maps.Copy" && len(x.Args) == 2 {
					report(x, x.Args[0], "copies into")
				}
			}
			return true
		})
	}
	return n
}
