package main

import (
	"fmt"
	"go/ast"
	"go/constant"
	"go/token"
	"go/types"
)

func init() {
	register(&Property{
		ID:  "C34",
		Run: runC34,
		Decided: "the sort before duplicate elimination in listEnviron_ is stable, which 'last value wins' relies on (R34a); the sort comparator, the duplicate test and Get's binary search " +
			"order names only through listEnviron.compare, so the case-insensitive build sorts and searches alike (R34b); on a duplicate the earlier element is the one removed, invalid pairs " +
			"are removed, Each ranges over the list in order without writing to it, and FuncEnviron maps the empty value to the unset Variable (R34c).",
		NotDecided:  "correctness of the comparator (prefix names such as A and AB versus the '=' byte) and of the binary-search bounds: those are value-level questions.",
		Assumptions: []string{"slices.SortStableFunc, slices.Delete, slices.BinarySearchFunc behave as documented"},
		Controls:    c34Controls,
	})
}

func isStringType(t types.Type) bool {
	b, ok := t.Underlying().(*types.Basic)
	return ok && b.Info()&types.IsString != 0
}

// directStringOrderings finds comparisons of two non-constant strings that do
// not go through the allowed comparator, inside node n.
func directStringOrderings(info *types.Info, n ast.Node, allowed *types.Func) []ast.Node {
	var out []ast.Node
	ast.Inspect(n, func(x ast.Node) bool {
		switch e := x.(type) {
		case *ast.BinaryExpr:
			switch e.Op {
			case token.LSS, token.GTR, token.LEQ, token.GEQ, token.EQL, token.NEQ:
				tx, ty := info.Types[e.X], info.Types[e.Y]
				if tx.Type != nil && ty.Type != nil && isStringType(tx.Type) && isStringType(ty.Type) && tx.Value == nil && ty.Value == nil {
					out = append(out, e)
				}
			}
		case *ast.CallExpr:
			fn := calleeOf(info, e)
			if fn == nil || fn == allowed || fn.Pkg() == nil {
				return true
			}
			full := fn.Pkg().Path() + "." + fn.Name()
			switch full {
			case "strings.Compare", "cmp.Compare", "cmp.Less", "strings.EqualFold", "slices.Sort", "sort.Strings", "slices.Compare":
				for _, a := range e.Args {
					if t := info.TypeOf(a); t != nil {
						if isStringType(t) {
							out = append(out, e)
							break
						}
						if sl, ok := t.Underlying().(*types.Slice); ok && isStringType(sl.Elem()) {
							out = append(out, e)
							break
						}
					}
				}
			}
		}
		return true
	})
	return out
}

func runC34(p *Prog, r *Result) {
	pkg := p.Pkg("expand")
	if pkg == nil {
		r.Fatalf("package expand not loaded")
		return
	}
	info := pkg.TypesInfo
	r.Rule("R34a", "every sort in listEnviron_ is a stable sort and one precedes the duplicate-elimination loop", 1)
	r.Rule("R34b", "names are ordered only through listEnviron.compare in listEnviron_ and listEnviron.Get", 3)
	r.Rule("R34d", "every path of listEnviron_ that stores the pairs has passed the stable sort and the duplicate-elimination loop", 1)
	r.Rule("R34e", "listEnviron_ sorts and cuts a copy of the caller's slice", 1)
	checkListEnvironPaths(p, r)
	r.Rule("R34f", "listEnviron.Get answers \"set\" only on paths that have failed strings.Contains(name, \"=\")", 1)
	checkGetRejectsEqualsInName(p, r, "R34f")
	r.Rule("R34c", "dedup removes the earlier duplicate and invalid pairs; Each is a read-only in-order range; funcEnviron.Get maps \"\" to the zero Variable", 5)

	le := p.FuncDecl("expand", "listEnviron_")
	get := p.FuncDecl("expand", "listEnviron.Get")
	each := p.FuncDecl("expand", "listEnviron.Each")
	fget := p.FuncDecl("expand", "funcEnviron.Get")
	cmpFn := lookupFunc(pkg, "listEnviron.compare")
	if le == nil || get == nil || each == nil || fget == nil || cmpFn == nil {
		r.Fatalf("anchors listEnviron_/listEnviron.Get/Each/compare/funcEnviron.Get not all found")
		return
	}

	// ---- R34a
	stable := map[string]bool{"slices.SortStableFunc": true, "sort.Stable": true, "sort.SliceStable": true}
	unstable := map[string]bool{"slices.SortFunc": true, "slices.Sort": true, "sort.Sort": true, "sort.Slice": true, "sort.Strings": true}
	var sorts []*ast.CallExpr
	var loop *ast.ForStmt
	ast.Inspect(le.Body, func(n ast.Node) bool {
		switch x := n.(type) {
		case *ast.CallExpr:
			if fn := calleeOf(info, x); fn != nil && fn.Pkg() != nil {
				full := fn.Pkg().Path() + "." + fn.Name()
				if stable[full] || unstable[full] {
					sorts = append(sorts, x)
				}
			}
		case *ast.ForStmt:
			if loop == nil {
				loop = x
			}
		}
		return true
	})
	if len(sorts) == 0 || loop == nil {
		r.Undecided("R34a", "expand.listEnviron_#sort", le.Pos(), "no sort call or no deduplication loop found")
	}
	for _, s := range sorts {
		fn := calleeOf(info, s)
		full := fn.Pkg().Path() + "." + fn.Name()
		okPos := loop == nil || s.End() <= loop.Pos()
		r.Check(stable[full] && okPos, "R34a", "expand.listEnviron_#"+full, s.Pos(), "stable sort before the deduplication loop",
			full+" is not a stable sort (or runs after deduplication): pairs with equal names may be reordered, so the surviving duplicate is not the last one given")
	}

	// ---- R34b
	for _, site := range []struct {
		fd  *ast.FuncDecl
		key string
	}{{le, "expand.listEnviron_"}, {get, "expand.(listEnviron).Get"}} {
		bad := directStringOrderings(info, site.fd.Body, cmpFn)
		detail := ""
		for _, b := range bad {
			detail += fmt.Sprintf(" %s at %s;", exprStringNode(b), p.Position(b.Pos()))
		}
		r.Check(len(bad) == 0, "R34b", site.key+"#orders names only via compare", site.fd.Pos(), "no direct string comparison of two non-constant strings",
			"names are compared without listEnviron.compare:"+detail+" the case-insensitive variant sorts and searches with different orders")
		// and it does call compare
		calls := 0
		ast.Inspect(site.fd.Body, func(n ast.Node) bool {
			if c, ok := n.(*ast.CallExpr); ok && calleeOf(info, c) == cmpFn {
				calls++
			}
			return true
		})
		r.Check(calls > 0, "R34b", site.key+"#uses compare", site.fd.Pos(), fmt.Sprintf("%d calls of listEnviron.compare", calls), "listEnviron.compare is never called here")
	}
	// the comparator passed to the sort and to the search must itself call compare
	checkFuncLitArgCalls := func(fd *ast.FuncDecl, key string) {
		ast.Inspect(fd.Body, func(n ast.Node) bool {
			call, ok := n.(*ast.CallExpr)
			if !ok {
				return true
			}
			fn := calleeOf(info, call)
			if fn == nil || fn.Pkg() == nil || fn.Pkg().Path() != "slices" {
				return true
			}
			for _, a := range call.Args {
				if fl, ok := ast.Unparen(a).(*ast.FuncLit); ok {
					found := false
					allReturnsViaCompare := true
					ast.Inspect(fl.Body, func(m ast.Node) bool {
						if c, ok := m.(*ast.CallExpr); ok && calleeOf(info, c) == cmpFn {
							found = true
						}
						return true
					})
					_ = allReturnsViaCompare
					r.Check(found, "R34b", key+"#comparator of slices."+fn.Name(), fl.Pos(), "comparator calls listEnviron.compare", "the comparator handed to slices."+fn.Name()+" does not use listEnviron.compare")
				}
			}
			return true
		})
	}
	checkFuncLitArgCalls(le, "expand.listEnviron_")
	checkFuncLitArgCalls(get, "expand.(listEnviron).Get")

	// ---- R34c: dedup shape
	if loop != nil {
		var idx types.Object
		if as, ok := loop.Init.(*ast.AssignStmt); ok && len(as.Lhs) == 1 {
			if id, ok := as.Lhs[0].(*ast.Ident); ok {
				idx = info.Defs[id]
			}
		}
		nDup, nInv := 0, 0
		for _, st := range loop.Body.List {
			ifs, ok := st.(*ast.IfStmt)
			if !ok {
				continue
			}
			// which slices.Delete is in the body?
			var del *ast.CallExpr
			ast.Inspect(ifs.Body, func(n ast.Node) bool {
				if c, ok := n.(*ast.CallExpr); ok {
					if fn := calleeOf(info, c); fn != nil && fn.Pkg() != nil && fn.Pkg().Path() == "slices" && fn.Name() == "Delete" {
						del = c
					}
				}
				return true
			})
			if del == nil || len(del.Args) != 3 {
				continue
			}
			isIdx := func(e ast.Expr) bool {
				id, ok := ast.Unparen(e).(*ast.Ident)
				return ok && idx != nil && info.Uses[id] == idx
			}
			isIdxMinus1 := func(e ast.Expr) bool {
				be, ok := ast.Unparen(e).(*ast.BinaryExpr)
				if !ok || be.Op != token.SUB || !isIdx(be.X) {
					return false
				}
				tv := info.Types[be.Y]
				return tv.Value != nil && tv.Value.ExactString() == "1"
			}
			isIdxPlus1 := func(e ast.Expr) bool {
				be, ok := ast.Unparen(e).(*ast.BinaryExpr)
				if !ok || be.Op != token.ADD || !isIdx(be.X) {
					return false
				}
				tv := info.Types[be.Y]
				return tv.Value != nil && tv.Value.ExactString() == "1"
			}
			// duplicate branch: condition calls compare(...) == 0
			isDup := false
			ast.Inspect(ifs.Cond, func(n ast.Node) bool {
				if c, ok := n.(*ast.CallExpr); ok && calleeOf(info, c) == cmpFn {
					isDup = true
				}
				return true
			})
			if isDup {
				nDup++
				r.Check(isIdxMinus1(del.Args[1]) && isIdx(del.Args[2]), "R34c", "expand.listEnviron_#duplicate removes the earlier element", del.Pos(),
					"slices.Delete(list, i-1, i) under compare(last, name) == 0", "on a duplicate name the element removed is not the earlier one (i-1): the first value given wins instead of the last")
			} else {
				nInv++
				r.Check(isIdx(del.Args[1]) && isIdxPlus1(del.Args[2]), "R34c", "expand.listEnviron_#invalid pair removed", del.Pos(),
					"slices.Delete(list, i, i+1) for an empty name or a pair without '='", "an invalid pair is not removed from the list at its own index")
				// the condition must cover both `name == ""` and `!ok`
				ds := disjuncts(ifs.Cond)
				r.Check(len(ds) == 2, "R34c", "expand.listEnviron_#invalid pair test", ifs.Pos(), "tests both the empty name and the missing '='", "the invalid-pair test no longer covers both an empty name and a missing '='")
			}
		}
		if nDup != 1 || nInv != 1 {
			r.Undecided("R34c", "expand.listEnviron_#dedup shape", loop.Pos(), fmt.Sprintf("expected one duplicate branch and one invalid-pair branch with slices.Delete, found %d and %d", nDup, nInv))
		}
	}
	// Each: a single range over l.pairs; no assignment through l.pairs
	okEach := false
	var recv types.Object
	if each.Recv != nil && len(each.Recv.List[0].Names) == 1 {
		recv = info.Defs[each.Recv.List[0].Names[0]]
	}
	nRange := 0
	for _, st := range each.Body.List {
		if rs, ok := st.(*ast.RangeStmt); ok {
			nRange++
			if se, ok := ast.Unparen(rs.X).(*ast.SelectorExpr); ok && se.Sel.Name == "pairs" {
				if id, ok := ast.Unparen(se.X).(*ast.Ident); ok && info.Uses[id] == recv {
					okEach = true
				}
			}
		}
	}
	writes := 0
	ast.Inspect(each.Body, func(n ast.Node) bool {
		if as, ok := n.(*ast.AssignStmt); ok {
			for _, l := range as.Lhs {
				root := ast.Unparen(l)
				for {
					if ix, ok := root.(*ast.IndexExpr); ok {
						root = ast.Unparen(ix.X)
						continue
					}
					break
				}
				if se, ok := root.(*ast.SelectorExpr); ok && se.Sel.Name == "pairs" {
					writes++
				}
			}
		}
		return true
	})
	r.Check(okEach && nRange == 1 && writes == 0, "R34c", "expand.(listEnviron).Each#in-order read-only range", each.Pos(), "one `range l.pairs`, no store to the list",
		"Each does not simply range over the sorted list, or writes to it")

	// funcEnviron.Get: value == "" => return Variable{}
	okF := false
	ast.Inspect(fget.Body, func(n ast.Node) bool {
		ifs, ok := n.(*ast.IfStmt)
		if !ok {
			return true
		}
		be, ok := ast.Unparen(ifs.Cond).(*ast.BinaryExpr)
		if !ok || be.Op != token.EQL {
			return true
		}
		tv := info.Types[be.Y]
		if tv.Value == nil || tv.Value.Kind() != constant.String || constant.StringVal(tv.Value) != "" {
			return true
		}
		for _, st := range ifs.Body.List {
			if rs, ok := st.(*ast.ReturnStmt); ok && len(rs.Results) == 1 {
				if cl, ok := ast.Unparen(rs.Results[0]).(*ast.CompositeLit); ok && len(cl.Elts) == 0 {
					okF = true
				}
			}
		}
		return true
	})
	r.Check(okF, "R34c", "expand.(funcEnviron).Get#empty is unset", fget.Pos(), "returns Variable{} when the function yields \"\"", "FuncEnviron no longer treats an empty value as unset")
}

func exprStringNode(n ast.Node) string {
	if e, ok := n.(ast.Expr); ok {
		return shortExpr(e)
	}
	return fmt.Sprintf("%T", n)
}

var c34Controls = []Control{
	{Name: "get-fast-path-before-the-equals-guard", Rule: "R34f", WantKey: "Get#answers set only for a name without '='", File: "expand/environ.go",
		Mutate: ctlReplaceAnywhere("func (l listEnviron) Get(name string) Variable {\n", "func (l listEnviron) Get(name string) Variable {\n\tif len(l.pairs) == 1 && strings.HasPrefix(l.pairs[0], name+\"=\") {\n\t\treturn Variable{Set: true, Exported: true, Kind: String, Str: l.pairs[0][len(name)+1:]}\n\t}\n")},
	{Name: "sorted-input-shortcut", Rule: "R34d", WantKey: "pairs stored only after the sort", File: "expand/environ.go",
		Mutate: ctlReplaceAnywhere("\tenv := listEnviron{caseInsensitive: caseInsensitive}\n\tslices.SortStableFunc(", "\tenv := listEnviron{caseInsensitive: caseInsensitive}\n\tif slices.IsSorted(list) {\n\t\tenv.pairs = list\n\t\treturn env\n\t}\n\tslices.SortStableFunc(")},
	{Name: "sorts-the-callers-slice", Rule: "R34e", WantKey: "sorts and cuts a copy", File: "expand/environ.go",
		Mutate: ctlReplaceAnywhere("\tlist := slices.Clone(pairs)\n\tenv := listEnviron{", "\tlist := pairs\n\tenv := listEnviron{")},
	{Name: "unstable-sort", Rule: "R34a", WantKey: "slices.SortFunc", File: "expand/environ.go",
		Mutate: ctlReplace("listEnviron_", "slices.SortStableFunc", "slices.SortFunc", 0)},
	{Name: "dedup-direct-compare", Rule: "R34b", WantKey: "listEnviron_#orders names only via compare", File: "expand/environ.go",
		Mutate: ctlReplace("listEnviron_", "env.compare(last, name) == 0", "last == name", 0)},
	{Name: "first-wins", Rule: "R34c", WantKey: "duplicate removes the earlier element", File: "expand/environ.go",
		Mutate: ctlReplace("listEnviron_", "slices.Delete(list, i-1, i)", "slices.Delete(list, i, i+1)", 0)},
	{Name: "funcenviron-empty-set", Rule: "R34c", WantKey: "empty is unset", File: "expand/environ.go",
		Mutate: ctlReplace("funcEnviron.Get", "if value == \"\" {\n\t\treturn Variable{}\n\t}", "", 0)},
}
