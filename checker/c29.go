package main

import (
	"fmt"
	"go/ast"
	"go/types"
	"sort"
	"strings"

	"golang.org/x/tools/go/ssa"
)

func init() {
	register(&Property{
		ID:  "C29",
		Run: runC29,
		Decided: "the interpreter and the expansion code never store into a syntax tree they were given: every store to a field of a syntax node, every element store or append on a slice of nodes, " +
			"and every call of a syntax mutator (SplitBraces, Simplify) acts on a copy or literal created in the same activation; callbacks are covered by showing that every invocation hands them " +
			"a fresh node (R29a); the Environ given through the Env option is only read: it flows into Get/Each calls and into the parent link of non-function overlays, and nothing asserts it to a WriteEnviron (R29b); the lists and maps inside variables obtained from it are never written in place (R27a, shared with C27).",
		NotDecided:  "writes performed by user-supplied handlers.",
		Assumptions: []string{"no reflection/unsafe in interp, expand, shell (checked)"},
		Controls:    c29Controls,
		Matrix:      true,
	})
}

func isSyntaxType(t types.Type, syn *types.Package) bool {
	for {
		switch x := t.(type) {
		case *types.Pointer:
			t = x.Elem()
			continue
		case *types.Slice:
			t = x.Elem()
			continue
		case *types.Named:
			if x.Obj().Pkg() != syn {
				return false
			}
			// tree types only: the parser and printer are mutable tools, not trees
			switch x.Obj().Name() {
			case "Parser", "Printer":
				return false
			}
			return true
		case *types.Alias:
			t = types.Unalias(x)
			continue
		}
		return false
	}
}

func runC29(p *Prog, r *Result) {
	r.Rule("R29a", "stores into syntax nodes, their slices, and calls of syntax mutators only on storage created in the same activation", 10)
	r.Rule("R29b", "Runner.Env is only read: Get/Each, parent of non-function overlays; never asserted to WriteEnviron", 3)
	r.Rule("R27a", "writes to variable storage only through storage created in the same activation (shared with C27: the lists and maps of variables that come from Env are storage the caller owns)", 60)
	checkOwnership(p, r, "R27a", false)
	prog := p.SSA()
	synPkg := p.Pkg("syntax")
	if synPkg == nil {
		r.Fatalf("package syntax not loaded")
		return
	}
	syn := synPkg.Types
	pkgs := []*ssa.Package{p.SSAPkg("interp"), p.SSAPkg("expand"), p.SSAPkg("shell")}
	for _, sp := range pkgs {
		if sp == nil {
			r.Fatalf("SSA package missing (interp/expand/shell)")
			return
		}
	}
	for _, rel := range []string{"interp", "expand", "shell"} {
		for _, imp := range p.Pkg(rel).Types.Imports() {
			if imp.Path() == "unsafe" || imp.Path() == "reflect" {
				r.Undecided("R29a", rel+"#imports "+imp.Path(), 0, "package imports "+imp.Path()+": writes through it are invisible to the provenance analysis")
			}
		}
	}
	e := newProvEngine(prog, provPolicy{})
	fns := moduleFunctions(prog, pkgs...)
	inScope := map[*ssa.Function]bool{}
	for _, fn := range fns {
		inScope[fn] = true
	}

	// mutators of package syntax: functions that store through a node argument
	synFns := moduleFunctions(prog, p.SSAPkg("syntax"))
	allFns := append(append([]*ssa.Function{}, fns...), synFns...)
	wt := writesThroughSummary(e, allFns, true)

	// static callers
	callers := map[*ssa.Function][]*ssa.Call{}
	for _, fn := range allFns {
		for _, b := range fn.Blocks {
			for _, ins := range b.Instrs {
				if c, ok := ins.(*ssa.Call); ok {
					if callee := c.Common().StaticCallee(); callee != nil {
						callers[callee] = append(callers[callee], c)
					}
				}
			}
		}
	}

	resolve := func(fn *ssa.Function, os originSet) originSet {
		// closure parameters: replace by what every invocation passes
		out := originSet{}
		for o := range os {
			if o.kind == oParam && fn.Parent() != nil {
				if got, ok := callbackArgOrigins(e, fn, o.param, map[*ssa.Function]bool{}); ok {
					out.addAll(got)
					continue
				}
			}
			out.add(o)
		}
		return out
	}

	for _, fn := range fns {
		if fn.Synthetic != "" && fn.Name() == "init" {
			continue
		}
		fkey := ssaFuncKey(fn)
		for _, ws := range writeSites(fn, true) {
			// relevant: field store on a syntax struct, or element store/append on a slice of syntax things
			relevant := false
			switch {
			case strings.HasPrefix(ws.kind, "field store"):
				relevant = isSyntaxType(ws.container.Type(), syn)
			default:
				relevant = isSyntaxType(ws.container.Type(), syn)
			}
			if !relevant {
				continue
			}
			// stores to a local struct variable (alloc) are writes to a copy
			os := resolve(fn, e.of(ws.container))
			key := fmt.Sprintf("%s#%s on %s", fkey, ws.kind, describeValue(ws.container))
			switch {
			case len(os.borrowed()) > 0:
				r.Bad("R29a", key, ws.instr.Pos(), "stores into syntax tree storage it does not own: "+strings.Join(os.borrowed(), "; "))
			case len(os.params()) > 0:
				// a parameter of a named function: judged where the function is called; if it has no
				// static caller in the module it is an API entry point and the argument is the user's tree
				if fn.Parent() == nil && len(callers[fn]) == 0 {
					r.Bad("R29a", key, ws.instr.Pos(), fmt.Sprintf("%s has no caller inside the module (it is an entry point) and stores through its parameter: the caller's syntax tree is modified", fkey))
				} else if fn.Parent() != nil {
					r.Bad("R29a", key, ws.instr.Pos(), "callback stores through its node parameter, and not every invocation could be shown to pass a fresh node")
				}
			case len(os.unknown()) > 0:
				r.Undecided("R29a", key, ws.instr.Pos(), "origin of the written storage could not be resolved: "+strings.Join(os.unknown(), "; "))
			default:
				how := "fresh"
				if ws.kind == "append" {
					how = "base slice is fresh or nil"
				}
				r.OK("R29a", key, ws.instr.Pos(), "storage is "+how)
			}
		}
		// calls handing a node to a function that stores through it
		for _, b := range fn.Blocks {
			for _, ins := range b.Instrs {
				call, ok := ins.(*ssa.Call)
				if !ok {
					continue
				}
				callee := call.Common().StaticCallee()
				if callee == nil || wt[callee] == nil {
					continue
				}
				var idxs []int
				for i := range wt[callee] {
					idxs = append(idxs, i)
				}
				sort.Ints(idxs)
				for _, i := range idxs {
					if i >= len(call.Common().Args) {
						continue
					}
					arg := call.Common().Args[i]
					if !isSyntaxType(arg.Type(), syn) {
						continue
					}
					os := resolve(fn, e.of(arg))
					key := fmt.Sprintf("%s#passes %s to %s (stores through it)", fkey, describeValue(arg), callee.Name())
					switch {
					case len(os.borrowed()) > 0:
						r.Bad("R29a", key, call.Pos(), "hands a node it does not own to "+callee.Name()+", which modifies it: "+strings.Join(os.borrowed(), "; "))
					case len(os.params()) > 0:
						if fn.Parent() == nil && len(callers[fn]) == 0 {
							r.Bad("R29a", key, call.Pos(), fmt.Sprintf("%s is an entry point and hands its parameter to %s, which modifies it", fkey, callee.Name()))
						} else if fn.Parent() != nil {
							r.Bad("R29a", key, call.Pos(), "callback hands its node parameter to "+callee.Name()+", which modifies it, and not every invocation could be shown to pass a fresh node")
						}
					case len(os.unknown()) > 0:
						r.Undecided("R29a", key, call.Pos(), "origin of the node could not be resolved: "+strings.Join(os.unknown(), "; "))
					default:
						r.OK("R29a", key, call.Pos(), "node is a fresh copy or literal")
					}
				}
			}
		}
	}

	checkEnvReadOnly(p, r)
}

// callbackArgOrigins: fn is a closure; what do the invocations of it pass as
// parameter pi? Resolved when the closure is only handed, as an argument, to
// static callees, and invoked there through that parameter.
func callbackArgOrigins(e *provEngine, fn *ssa.Function, pi int, visiting map[*ssa.Function]bool) (originSet, bool) {
	if visiting[fn] {
		return originSet{}, true // coinductive: assume fresh while proving
	}
	visiting[fn] = true
	defer delete(visiting, fn)
	parent := fn.Parent()
	if parent == nil {
		return nil, false
	}
	out := originSet{}
	found := false
	for _, b := range parent.Blocks {
		for _, ins := range b.Instrs {
			mc, ok := ins.(*ssa.MakeClosure)
			if !ok || mc.Fn != fn {
				continue
			}
			found = true
			for _, ref := range *mc.Referrers() {
				switch u := ref.(type) {
				case *ssa.Call:
					c := u.Common()
					if c.Value == mc {
						// called directly
						if pi < len(c.Args) {
							if !collectArg(e, u.Parent(), c.Args[pi], out, visiting) {
								return nil, false
							}
						}
						continue
					}
					callee := c.StaticCallee()
					if callee == nil {
						return nil, false
					}
					// which parameter receives the closure?
					for ai, a := range c.Args {
						if a != mc || ai >= len(callee.Params) {
							continue
						}
						q := callee.Params[ai]
						if !collectInvocations(e, callee, q, pi, out, visiting) {
							return nil, false
						}
					}
				case *ssa.Store:
					// stored into a local (e.g. `expand := func...`): follow loads of that local
					if alloc, ok := u.Addr.(*ssa.Alloc); ok {
						for _, r2 := range *alloc.Referrers() {
							ld, ok := r2.(*ssa.UnOp)
							if !ok {
								continue
							}
							for _, r3 := range *ld.Referrers() {
								if call, ok := r3.(*ssa.Call); ok && call.Common().Value == ld && pi < len(call.Common().Args) {
									if !collectArg(e, call.Parent(), call.Common().Args[pi], out, visiting) {
										return nil, false
									}
								} else {
									return nil, false
								}
							}
						}
						continue
					}
					return nil, false
				case *ssa.MakeClosure:
					// captured by another closure: invocations through the free variable
					inner := u.Fn.(*ssa.Function)
					for fi, bnd := range u.Bindings {
						if bnd == mc && fi < len(inner.FreeVars) {
							if !collectInvocationsVal(e, inner, inner.FreeVars[fi], pi, out, visiting) {
								return nil, false
							}
						}
					}
				default:
					return nil, false
				}
			}
		}
	}
	return out, found
}

// collectInvocations: inside callee (and its closures), every call through
// parameter q passes as argument pi something whose origins are added to out.
func collectInvocations(e *provEngine, callee *ssa.Function, q *ssa.Parameter, pi int, out originSet, visiting map[*ssa.Function]bool) bool {
	return collectInvocationsVal(e, callee, q, pi, out, visiting)
}

func collectInvocationsVal(e *provEngine, fn *ssa.Function, q ssa.Value, pi int, out originSet, visiting map[*ssa.Function]bool) bool {
	refs := q.Referrers()
	if refs == nil {
		return true
	}
	for _, ref := range *refs {
		switch u := ref.(type) {
		case *ssa.Call:
			c := u.Common()
			if c.Value == q {
				if pi < len(c.Args) {
					if !collectArg(e, fn, c.Args[pi], out, visiting) {
						return false
					}
				}
				continue
			}
			// q passed along to another static callee (e.g. the recursive call)
			callee := c.StaticCallee()
			if callee == nil {
				return false
			}
			for ai, a := range c.Args {
				if a == q && ai < len(callee.Params) {
					if callee == fn {
						continue // same function, same parameter: already covered
					}
					if !collectInvocationsVal(e, callee, callee.Params[ai], pi, out, visiting) {
						return false
					}
				}
			}
		case *ssa.MakeClosure:
			inner := u.Fn.(*ssa.Function)
			for fi, bnd := range u.Bindings {
				if bnd == q && fi < len(inner.FreeVars) {
					if !collectInvocationsVal(e, inner, inner.FreeVars[fi], pi, out, visiting) {
						return false
					}
				}
			}
		case *ssa.DebugRef:
		case *ssa.Store:
			// spilled into a variable cell (captured by reference): follow the cell
			cell, ok := u.Addr.(*ssa.Alloc)
			if !ok || u.Val != q {
				return false
			}
			// the cell must only ever hold q
			for _, sv := range cellStores(cell) {
				if sv != q {
					return false
				}
			}
			if !followCell(e, cell, pi, out, visiting, map[ssa.Value]bool{}) {
				return false
			}
		default:
			return false
		}
	}
	return true
}

// followCell: every load of the cell (in the owner or in capturing closures)
// is only used to invoke the function it holds, or to pass it on.
func followCell(e *provEngine, ptr ssa.Value, pi int, out originSet, visiting map[*ssa.Function]bool, seen map[ssa.Value]bool) bool {
	if seen[ptr] || ptr.Referrers() == nil {
		return true
	}
	seen[ptr] = true
	for _, ref := range *ptr.Referrers() {
		switch u := ref.(type) {
		case *ssa.Store:
		case *ssa.DebugRef:
		case *ssa.UnOp:
			if !collectInvocationsVal(e, u.Parent(), u, pi, out, visiting) {
				return false
			}
		case *ssa.MakeClosure:
			inner := u.Fn.(*ssa.Function)
			for i, b := range u.Bindings {
				if b == ptr && i < len(inner.FreeVars) {
					if !followCell(e, inner.FreeVars[i], pi, out, visiting, seen) {
						return false
					}
				}
			}
		default:
			return false
		}
	}
	return true
}

func collectArg(e *provEngine, fn *ssa.Function, arg ssa.Value, out originSet, visiting map[*ssa.Function]bool) bool {
	os := e.of(arg)
	for o := range os {
		if o.kind == oParam {
			// parameter of which function? the value's parent
			var pf *ssa.Function
			if pv, ok := arg.(*ssa.Parameter); ok {
				pf = pv.Parent()
			} else {
				pf = fn
			}
			if pf != nil && pf.Parent() != nil {
				got, ok := callbackArgOrigins(e, pf, o.param, visiting)
				if !ok {
					out.add(o)
					continue
				}
				out.addAll(got)
				continue
			}
		}
		out.add(o)
	}
	return true
}

// checkEnvReadOnly: R29b.
func checkEnvReadOnly(p *Prog, r *Result) {
	pkg := p.Pkg("interp")
	info := pkg.TypesInfo
	runnerT := lookupType(pkg, "Runner")
	if runnerT == nil {
		r.Fatalf("interp.Runner not found")
		return
	}
	// every use of the field Env
	n := 0
	for _, fd := range p.AllFuncDecls("interp") {
		var file *ast.File
		for _, f := range pkg.Syntax {
			if f.Pos() <= fd.Pos() && fd.End() <= f.End() {
				file = f
			}
		}
		_ = file
		ast.Inspect(fd.Body, func(nd ast.Node) bool {
			switch x := nd.(type) {
			case *ast.TypeAssertExpr:
				// X.(expand.WriteEnviron) where X mentions .Env
				mentions := false
				ast.Inspect(x.X, func(m ast.Node) bool {
					if f := selectorFieldNode(info, m); f != nil && f.Name() == "Env" {
						mentions = true
					}
					return true
				})
				if mentions {
					r.Bad("R29b", "interp."+fd.Name.Name+"#Env asserted", x.Pos(), "the Environ given by the user is type-asserted (to a writable environment?)")
				}
			case *ast.CallExpr:
				se, ok := ast.Unparen(x.Fun).(*ast.SelectorExpr)
				if !ok {
					return true
				}
				if f := selectorField(info, se.X); f != nil && f.Name() == "Env" && namedOf(fieldOwnerType(info, se.X)) == runnerT {
					n++
					okm := se.Sel.Name == "Get" || se.Sel.Name == "Each"
					r.Check(okm, "R29b", fmt.Sprintf("interp.%s#r.Env.%s", fd.Name.Name, se.Sel.Name), x.Pos(), "read-only method of expand.Environ", "a method other than Get/Each is called on the user's Environ")
				}
			}
			return true
		})
	}
	// where does r.Env flow? Only into newOverlayEnviron(r.Env, false) / overlayEnviron{parent: r.Env} without funcScope, or range/Get.
	flows := 0
	for _, fd := range p.AllFuncDecls("interp") {
		ast.Inspect(fd.Body, func(nd ast.Node) bool {
			se, ok := nd.(*ast.SelectorExpr)
			if !ok {
				return true
			}
			f := selectorField(info, se)
			if f == nil || f.Name() != "Env" || namedOf(fieldOwnerType(info, se)) != runnerT {
				return true
			}
			flows++
			return true
		})
	}
	r.Notef("R29b: %d mentions of Runner.Env in package interp, %d method calls on it", flows, n)
	// writeEnv is always an *overlayEnviron created in this package
	writes, _ := structFieldWrites(pkg, runnerT)
	for fv, ws := range writes {
		if fv.Name() != "writeEnv" {
			continue
		}
		for _, w := range ws {
			r.OK("R29b", "interp."+w.fn.Name.Name+"#assigns writeEnv", w.pos, "store to Runner.writeEnv (value checked below)")
		}
	}
	// each assignment's RHS: newOverlayEnviron(...), &overlayEnviron{...}, or a saved previous writeEnv
	for _, fd := range p.AllFuncDecls("interp") {
		ast.Inspect(fd.Body, func(nd ast.Node) bool {
			as, ok := nd.(*ast.AssignStmt)
			if !ok {
				return true
			}
			for i, l := range as.Lhs {
				f := selectorField(info, l)
				if f == nil || f.Name() != "writeEnv" || i >= len(as.Rhs) {
					continue
				}
				rhs := ast.Unparen(as.Rhs[i])
				ok := false
				how := ""
				switch x := rhs.(type) {
				case *ast.CallExpr:
					if fn := calleeOf(info, x); fn != nil && fn.Name() == "newOverlayEnviron" {
						ok, how = true, "newOverlayEnviron(...)"
					}
				case *ast.UnaryExpr:
					if cl, isLit := ast.Unparen(x.X).(*ast.CompositeLit); isLit && typeName(info.TypeOf(cl)) == "overlayEnviron" {
						ok, how = true, "&overlayEnviron{...}"
					}
				case *ast.Ident:
					// a local that saved the previous writeEnv
					if def := singleDef(info, fd, info.Uses[x]); def != nil {
						if sf := selectorField(info, def); sf != nil && sf.Name() == "writeEnv" {
							ok, how = true, "restores the saved previous writeEnv"
						}
					}
					if !ok {
						if t := info.TypeOf(x); t != nil && typeName(t) == "overlayEnviron" {
							ok, how = true, "a local *overlayEnviron"
						}
					}
				case *ast.SelectorExpr:
					if sf := selectorField(info, x); sf != nil && sf.Name() == "writeEnv" {
						ok, how = true, "another Runner's writeEnv"
					}
				}
				r.Check(ok, "R29b", "interp."+fd.Name.Name+"#writeEnv = "+shortExpr(rhs), as.Pos(), how,
					"Runner.writeEnv is assigned something that is not an overlay created by the interpreter: writes could reach the user's Environ")
			}
			return true
		})
	}
}

func fieldOwnerType(info *types.Info, e ast.Expr) types.Type {
	se, ok := ast.Unparen(e).(*ast.SelectorExpr)
	if !ok {
		return nil
	}
	return info.TypeOf(se.X)
}

var c29Controls = []Control{
	{Name: "fieldsseq-splits-braces-in-place", Rule: "R29a", WantKey: "SplitBraces", File: "expand/expand.go",
		Mutate: ctlChain(ctlReplaceAnywhere("\t\t\tword := *word // make a copy, since SplitBraces replaces the Parts slice\n", ""),
			ctlReplaceAnywhere("if !syntax.SplitBraces(&word) {\n\t\t\t\tif expandWord(&word) {", "if !syntax.SplitBraces(word) {\n\t\t\t\tif expandWord(word) {"),
			ctlReplaceAnywhere("range BracesSeq(cfg, &word) {", "range BracesSeq(cfg, word) {"))},
	{Name: "hdoc-scratch-aliases-tree", Rule: "R29a", WantKey: "hdocString", File: "interp/runner.go",
		Mutate: ctlReplace("Runner.hdocString", "var cur []syntax.WordPart", "cur := rd.Hdoc.Parts[:0]", 0)},
	{Name: "env-asserted-writable", Rule: "R29b", WantKey: "Env", File: "interp/api.go",
		Mutate: ctlReplace("Runner.Reset", "r.writeEnv = &overlayEnviron{parent: r.Env}", "r.writeEnv = &overlayEnviron{parent: r.Env}\n\tif w, ok := r.Env.(expand.WriteEnviron); ok {\n\t\t_ = w.Set(\"SHLVL\", expand.Variable{})\n\t}", 0)},
	{Name: "env-used-as-writeEnv", Rule: "R29b", WantKey: "writeEnv", File: "interp/api.go",
		Mutate: ctlReplace("Runner.Reset", "r.writeEnv = &overlayEnviron{parent: r.Env}", "r.writeEnv = &overlayEnviron{parent: r.Env}\n\tif w, ok := r.Env.(expand.WriteEnviron); ok {\n\t\tr.writeEnv = w\n\t}", 0)},
}
