package main

import (
	"fmt"
	"go/ast"
	"go/constant"
	"go/token"
	"go/types"
	"sort"
	"strings"
)

// R15i: who may ask a node where it is. Node.Pos() and Node.End() of the syntax package assume a tree as the parser
// builds it (a Word has parts, a BinaryCmd has both sides): R06i's index exceptions rest on that. The decoder works on
// nodes it is still filling in, so in package typedjson Pos/End are called only from the encoding side — functions
// reachable from Encode and not from Decode. A position computed for an error message on a half-decoded node is a nil
// dereference or an index out of range, on JSON that merely has an unknown key.
func checkPosCallsOnlyWhenEncoding(p *Prog, r *Result, rule string) {
	pkg := p.Pkg("syntax/typedjson")
	if pkg == nil {
		r.Fatalf("package syntax/typedjson not loaded")
		return
	}
	info := pkg.TypesInfo
	g := buildRefGraph(p)
	var decRoots []*types.Func
	for _, n := range []string{"DecodeOptions.Decode", "Decode"} {
		if f := lookupFunc(pkg, n); f != nil {
			decRoots = append(decRoots, f)
		}
	}
	if len(decRoots) == 0 {
		r.Fatalf("anchor typedjson.Decode not found")
		return
	}
	fromDecode := g.reachable(decRoots...)
	for _, f := range decRoots {
		fromDecode[f] = true
	}
	n := 0
	var fos []*types.Func
	for fo, fd := range g.decl {
		if g.pkgOf[fo] == pkg && fd.Body != nil && !strings.HasSuffix(p.Position(fd.Pos()), "_test.go") {
			fos = append(fos, fo)
		}
	}
	sort.Slice(fos, func(i, j int) bool { return g.decl[fos[i]].Pos() < g.decl[fos[j]].Pos() })
	for _, fo := range fos {
		fd := g.decl[fo]
		seen := map[string]int{}
		ast.Inspect(fd.Body, func(m ast.Node) bool {
			c, ok := m.(*ast.CallExpr)
			if !ok {
				return true
			}
			callee := calleeOf(info, c)
			if callee == nil || (callee.Name() != "Pos" && callee.Name() != "End") || callee.Pkg() == nil || !strings.HasSuffix(callee.Pkg().Path(), "/syntax") {
				return true
			}
			sig, ok := callee.Type().(*types.Signature)
			if !ok || sig.Recv() == nil || sig.Params().Len() != 0 {
				return true
			}
			n++
			key := fmt.Sprintf("%s#%s is not reachable from Decode", funcKey("syntax/typedjson", fd), exprString(c))
			seen[key]++
			if seen[key] > 1 {
				key += fmt.Sprintf("#%d", seen[key])
			}
			r.Check(!fromDecode[fo], rule, key, c.Pos(), "only the encoding side asks a node for its position",
				fmt.Sprintf("%s is reachable from Decode and asks a node for its %s: the decoder holds nodes it is still filling in, and the position methods of the syntax package index and dereference children a parsed tree always has — a nil dereference or index out of range on JSON with, say, an unknown key", fd.Name.Name, callee.Name()))
			return true
		})
	}
	if n == 0 {
		r.Bad(rule, "syntax/typedjson#no call of Pos/End found", fos[0].Pos(), "the encoder no longer asks nodes for their positions: the rule does not see the construct it is about")
	}
}

// R15j: a buffer taken from a sync.Pool still holds what its previous user left in it unless someone emptied it. For
// every `x := pool.Get().(*T)` where *T has a Reset method, the first thing done with x on every path is x.Reset() —
// or every Put of x is preceded by x.Reset() on every path from the Get. (0 instances on the pinned tree.)
func checkPooledBufferReset(p *Prog, r *Result, rel, rule string) int {
	pkg := p.Pkg(rel)
	info := pkg.TypesInfo
	n := 0
	for _, fd := range p.AllFuncDecls(rel) {
		if fd.Body == nil || strings.HasSuffix(p.Position(fd.Pos()), "_test.go") {
			continue
		}
		var g *FGraph
		inspectNoLit(fd.Body, func(m ast.Node) bool {
			as, ok := m.(*ast.AssignStmt)
			if !ok || len(as.Lhs) != 1 || len(as.Rhs) != 1 {
				return true
			}
			ta, ok := ast.Unparen(as.Rhs[0]).(*ast.TypeAssertExpr)
			if !ok {
				return true
			}
			call, ok := ast.Unparen(ta.X).(*ast.CallExpr)
			if !ok {
				return true
			}
			if callee := calleeOf(info, call); callee == nil || qualName(callee) != "sync.(Pool).Get" {
				return true
			}
			id, ok := as.Lhs[0].(*ast.Ident)
			if !ok {
				return true
			}
			obj := info.ObjectOf(id)
			if ms := types.NewMethodSet(obj.Type()); ms.Lookup(nil, "Reset") == nil {
				return true
			}
			n++
			key := fmt.Sprintf("%s#%s from a pool is emptied before use", funcKey(rel, fd), id.Name)
			if g == nil {
				g = NewFGraph(info, fd.Body, nil)
			}
			b, idx := g.BlockOf(as)
			if b == nil {
				r.Undecided(rule, key, as.Pos(), "the Get was not found in the flow graph")
				return true
			}
			isReset := func(nd ast.Node) bool {
				found := false
				inspectNoLit(nd, func(k ast.Node) bool {
					if c, ok := k.(*ast.CallExpr); ok {
						if se, ok := ast.Unparen(c.Fun).(*ast.SelectorExpr); ok && se.Sel.Name == "Reset" {
							if x, ok := ast.Unparen(se.X).(*ast.Ident); ok && info.ObjectOf(x) == obj {
								found = true
							}
						}
					}
					return true
				})
				return found
			}
			uses := func(nd ast.Node) bool {
				found := false
				ast.Inspect(nd, func(k ast.Node) bool {
					if x, ok := k.(*ast.Ident); ok && info.Uses[x] == obj {
						found = true
					}
					return true
				})
				return found
			}
			// (a) Reset is the first use on every path
			first := true
			seenB := map[*FBlock]bool{}
			var walk func(blk *FBlock, from int)
			walk = func(blk *FBlock, from int) {
				for _, nd := range blk.Nodes[from:] {
					if isReset(nd) {
						return
					}
					if _, isDefer := nd.(*ast.DeferStmt); isDefer {
						continue // runs at the end
					}
					if uses(nd) {
						first = false
						return
					}
				}
				for _, e := range blk.Succs {
					if !seenB[e.To] {
						seenB[e.To] = true
						walk(e.To, 0)
					}
				}
			}
			walk(b, idx+1)
			if first {
				r.OK(rule, key, as.Pos(), "Reset() is the first thing done with it on every path")
				return true
			}
			// (b) every path from the Get to the exit passes Reset (so that what is put back is empty)
			ok2, _ := g.MustPass(b, idx, g.Exit, isReset, nil)
			r.Check(ok2, rule, key, as.Pos(), "Reset() on every path before it goes back to the pool",
				fmt.Sprintf("%s comes from a sync.Pool and is used without being emptied first, and some path returns it without Reset(): whatever an earlier user left in it (a document whose write failed half way) is prepended to the next one", id.Name))
			return true
		})
	}
	return n
}

// R15k: text that goes into the JSON document is produced by encoding/json. Go's own quoting (strconv.Quote and its
// relatives, the %q verb) is not JSON: it writes \x1b, \a and \x7f, which no JSON parser accepts, so a tree holding a raw
// control character in a literal, a quoted string, a here-document or a comment would fail to encode — or to decode
// again. Package typedjson calls none of them.
func checkNoGoQuoting(p *Prog, r *Result, rule string) int {
	pkg := p.Pkg("syntax/typedjson")
	info := pkg.TypesInfo
	n := 0
	for _, fd := range p.AllFuncDecls("syntax/typedjson") {
		if fd.Body == nil || strings.HasSuffix(p.Position(fd.Pos()), "_test.go") {
			continue
		}
		k := 0
		ast.Inspect(fd.Body, func(m ast.Node) bool {
			c, ok := m.(*ast.CallExpr)
			if !ok {
				return true
			}
			callee := calleeOf(info, c)
			if callee == nil || callee.Pkg() == nil {
				return true
			}
			bad := ""
			switch {
			case callee.Pkg().Path() == "strconv" && (strings.HasPrefix(callee.Name(), "Quote") || strings.HasPrefix(callee.Name(), "AppendQuote")):
				bad = "strconv." + callee.Name()
			case callee.Pkg().Path() == "fmt":
				for _, a := range c.Args {
					if tv, ok := info.Types[a]; ok && tv.Value != nil && tv.Value.Kind() == constant.String && strings.Contains(constant.StringVal(tv.Value), "%q") {
						// %q in an error message is fine; only a value that is returned as JSON text matters
						if strings.HasPrefix(callee.Name(), "Errorf") || strings.HasPrefix(callee.Name(), "Fprint") {
							continue
						}
						bad = "fmt." + callee.Name() + " with %q"
					}
				}
			}
			if bad == "" {
				return true
			}
			k++
			n++
			r.Bad(rule, fmt.Sprintf("%s#Go quoting %d (%s)", funcKey("syntax/typedjson", fd), k, bad), c.Pos(),
				bad+" writes Go syntax, not JSON: a control character comes out as \\x1b or \\a, which is not a JSON escape — Encode fails on a valid tree (a raw ESC in a literal or a comment), or writes a document Decode refuses")
			return true
		})
	}
	return n
}

// R15l: Decode builds positions with syntax.NewPos, which can produce every valid position and no other: an unset or a
// recovered position cannot be built from its numbers. So Encode writes a position only when it is valid — every store
// in encodePos is reached only past `val.IsValid()` — or a tree with such a position does not re-encode to the same
// bytes after a decode.
func checkOnlyValidPositionsEncoded(p *Prog, r *Result, rule string) int {
	pkg := p.Pkg("syntax/typedjson")
	info := pkg.TypesInfo
	fd := p.FuncDecl("syntax/typedjson", "encodePos")
	if fd == nil {
		r.Undecided(rule, "syntax/typedjson.encodePos", token.NoPos, "anchor not found")
		return 0
	}
	g := NewFGraph(info, fd.Body, nil)
	n := 0
	for _, b := range g.Blocks {
		for _, nd := range b.Nodes {
			writes := false
			for _, c := range nodeCalls(nd) {
				if se, ok := ast.Unparen(c.Fun).(*ast.SelectorExpr); ok && strings.HasPrefix(se.Sel.Name, "Set") {
					writes = true
				}
			}
			if !writes {
				continue
			}
			n++
			key := fmt.Sprintf("%s#write %d happens only for a valid position", funcKey("syntax/typedjson", fd), n)
			ok := underEdges(g, b, func(e *FEdge) bool {
				c, isCall := ast.Unparen(e.Cond).(*ast.CallExpr)
				if !isCall || e.Tag != nil {
					return false
				}
				se, isSel := ast.Unparen(c.Fun).(*ast.SelectorExpr)
				return isSel && se.Sel.Name == "IsValid" && e.Pol
			})
			r.Check(ok, rule, key, nd.Pos(), "reached only past the true answer of IsValid()",
				"encodePos writes a position on a path where IsValid() was not found true: a recovered (or unset) position is encoded as numbers from which Decode, which builds positions with NewPos, makes another position — the decoded tree re-encodes to different bytes")
		}
	}
	return n
}
