package main

import (
	"fmt"
	"go/ast"
	"go/token"
	"go/types"
	"strings"
)

// R31j: a process substitution's FIFO has two openers, and an open of a FIFO blocks until the other end is opened.
// The Runner opens its end with a plain os.OpenFile that does not watch the context (Runner.open, for `cmd < <(…)`),
// relying on the substitution's goroutine always opening the other. So in the function literal stored as
// Config.ProcSubst, every goroutine body that opens the FIFO at all does so on every path from its entry to its exit —
// a `return` before the open (on a cancelled context, say) leaves Run blocked for good, not for the kill timeout.
func checkProcSubstAlwaysOpens(p *Prog, r *Result, rule string) int {
	pkg := p.Pkg("interp")
	info := pkg.TypesInfo
	n := 0
	isOpen := func(nd ast.Node) bool {
		if nd == nil {
			return false
		}
		for _, c := range nodeCalls(nd) {
			if callee := calleeOf(info, c); callee != nil && callee.Pkg() != nil && callee.Pkg().Path() == "os" && (callee.Name() == "OpenFile" || callee.Name() == "Open") {
				return true
			}
		}
		return false
	}
	for _, fd := range p.AllFuncDecls("interp") {
		if fd.Body == nil || strings.HasSuffix(p.Position(fd.Pos()), "_test.go") {
			continue
		}
		ast.Inspect(fd.Body, func(m ast.Node) bool {
			kv, ok := m.(*ast.KeyValueExpr)
			if !ok {
				return true
			}
			k, ok := kv.Key.(*ast.Ident)
			if !ok || k.Name != "ProcSubst" {
				return true
			}
			fl, ok := ast.Unparen(kv.Value).(*ast.FuncLit)
			if !ok {
				return true
			}
			gi := 0
			inspectNoLit(fl.Body, func(q ast.Node) bool {
				gs, ok := q.(*ast.GoStmt)
				if !ok {
					return true
				}
				body, ok := ast.Unparen(gs.Call.Fun).(*ast.FuncLit)
				if !ok {
					return true
				}
				opens := false
				inspectNoLit(body.Body, func(x ast.Node) bool {
					if isOpen(x) {
						opens = true
					}
					return true
				})
				if !opens {
					return true
				}
				gi++
				n++
				key := fmt.Sprintf("%s#ProcSubst goroutine %d opens its end of the FIFO on every path", funcKey("interp", fd), gi)
				g := NewFGraph(info, body.Body, nil)
				ok2, _ := g.MustPass(g.Entry, -1, g.Exit, isOpen, nil)
				r.Check(ok2, rule, key, gs.Pos(), "every path from the goroutine's entry to its exit passes os.OpenFile on the FIFO (the other paths panic)",
					"the goroutine of a process substitution can return without opening its end of the FIFO: the Runner's own open of the other end (a redirection to or from the substitution) is a plain blocking open that does not watch the context, so it never returns and Run hangs for good")
				return true
			})
			return true
		})
	}
	return n
}

// R31k: R31d accepts a read of the standard input once a registrar was called on the context. That is worth something
// only if the registrar registers: every path through a function that ties the read deadline to the context
// (context.AfterFunc … SetReadDeadline) passes the AfterFunc call — except under a test that the file is a regular
// one, whose reads do not block. A test that lets the hook through for pipes only leaves sockets and terminals out.
func checkRegistrarAlwaysRegisters(p *Prog, r *Result, rule string) int {
	pkg := p.Pkg("interp")
	info := pkg.TypesInfo
	n := 0
	for _, fd := range p.AllFuncDecls("interp") {
		if fd.Body == nil || strings.HasSuffix(p.Position(fd.Pos()), "_test.go") {
			continue
		}
		isAfter := func(nd ast.Node) bool {
			if nd == nil {
				return false
			}
			for _, c := range nodeCalls(nd) {
				if callee := calleeOf(info, c); callee != nil && callee.Pkg() != nil && callee.Pkg().Path() == "context" && callee.Name() == "AfterFunc" {
					return true
				}
			}
			return false
		}
		has, deadline := false, false
		inspectNoLit(fd.Body, func(m ast.Node) bool {
			if isAfter(m) {
				has = true
			}
			return true
		})
		ast.Inspect(fd.Body, func(m ast.Node) bool {
			if c, ok := m.(*ast.CallExpr); ok {
				if se, ok := ast.Unparen(c.Fun).(*ast.SelectorExpr); ok && se.Sel.Name == "SetReadDeadline" {
					deadline = true
				}
			}
			return true
		})
		if !has || !deadline {
			continue
		}
		n++
		key := funcKey("interp", fd) + "#ties the read deadline to the context on every path"
		g := NewFGraph(info, fd.Body, nil)
		ok, _ := g.MustPass(g.Entry, -1, g.Exit, isAfter, func(e *FEdge) bool {
			// paths taken because the file is a regular one need no hook
			if e.Cond == nil || e.Tag != nil {
				return false
			}
			regular := false
			ast.Inspect(e.Cond, func(k ast.Node) bool {
				if c, ok := k.(*ast.CallExpr); ok {
					if se, ok := ast.Unparen(c.Fun).(*ast.SelectorExpr); ok && se.Sel.Name == "IsRegular" {
						regular = true
					}
				}
				return true
			})
			return regular && e.Pol
		})
		r.Check(ok, rule, key, fd.Pos(), "every path to the return passes context.AfterFunc (paths under an IsRegular() test aside)",
			"the function that arranges for a blocked read of the standard input to be interrupted on cancellation returns, on some path, without arranging it, and not because the file is a regular one: read, select and mapfile on a socket or a terminal then sit in Read until data arrives, whatever happens to the context")
	}
	_ = types.Typ
	_ = token.NoPos
	return n
}

// R31l: cancellation is recorded as a fatal exit status (exitStatus.fatal), and Run reports it by looking at that
// status when the program has unwound. Constructs that discard the status of what they ran (`!`, the condition of an
// `if`, `&&`/`||` operands) do so through exitStatus.clear(), which therefore leaves a fatal status alone: every store
// in clear() is reached only past the failing branch of a test of fatalExit (directly, or in a one-line predicate
// method of the same type).
func checkClearKeepsFatal(p *Prog, r *Result, rule string) int {
	pkg := p.Pkg("interp")
	info := pkg.TypesInfo
	fd := p.FuncDecl("interp", "exitStatus.clear")
	if fd == nil {
		r.Undecided(rule, "interp.(exitStatus).clear", token.NoPos, "anchor not found")
		return 0
	}
	mentionsFatal := func(e ast.Expr, depth int) bool { return false }
	var mf func(e ast.Expr, depth int) bool
	mf = func(e ast.Expr, depth int) bool {
		for _, d := range disjuncts(e) {
			d = ast.Unparen(d)
			if se, ok := d.(*ast.SelectorExpr); ok && se.Sel.Name == "fatalExit" {
				return true
			}
			if c, ok := d.(*ast.CallExpr); ok && depth < 2 {
				if callee := calleeOf(info, c); callee != nil && callee.Pkg() == pkg.Types {
					for _, cfd := range p.AllFuncDecls("interp") {
						if info.Defs[cfd.Name] == types.Object(callee) && cfd.Body != nil && len(cfd.Body.List) == 1 {
							if rs, ok := cfd.Body.List[0].(*ast.ReturnStmt); ok && len(rs.Results) == 1 && mf(rs.Results[0], depth+1) {
								return true
							}
						}
					}
				}
			}
		}
		return false
	}
	mentionsFatal = mf
	g := NewFGraph(info, fd.Body, nil)
	n := 0
	inspectNoLit(fd.Body, func(m ast.Node) bool {
		as, ok := m.(*ast.AssignStmt)
		if !ok {
			return true
		}
		for _, l := range as.Lhs {
			se, ok := ast.Unparen(l).(*ast.SelectorExpr)
			if !ok || (se.Sel.Name != "code" && se.Sel.Name != "err") {
				continue
			}
			n++
			key := fmt.Sprintf("%s#store to %s only when the status is not fatal", funcKey("interp", fd), se.Sel.Name)
			blk := blockContaining(g, as)
			ok2 := blk != nil && underEdges(g, blk, func(e *FEdge) bool {
				if e.Cond == nil || e.Tag != nil || e.Pol {
					return false
				}
				// the false edge of one disjunct of `a || b || fatal`: FGraph splits || into one edge per operand
				return mentionsFatal(e.Cond, 0)
			})
			r.Check(ok2, rule, key, as.Pos(), "reached only past the failing branch of a test of fatalExit",
				"clear() wipes the exit status without having tested fatalExit: a cancelled context is recorded as a fatal status, and `! (cmd)`, `if (cmd); …` and `cmd || …` clear the status of what they ran — the cancellation is forgotten, the final check in Run sees a status that still claims to be fatal but carries no error, and Run returns nil")
		}
		return true
	})
	return n
}

// R31m: opening a FIFO blocks until the other end is opened, and os.OpenFile takes no context. A path that comes from
// the program (`cat <$fifo`, `source $fifo`, `x=$(<$fifo)`) is therefore opened either with O_NONBLOCK or somewhere a
// cancelled context can abandon the wait — in a goroutine whose result is awaited together with ctx.Done(). Opens made
// inside a `go` statement are not on Run's path; the open of the interpreter's own FIFO is covered by R31j.
func checkOpensCanBeAbandoned(p *Prog, r *Result, rule string) int {
	pkg := p.Pkg("interp")
	info := pkg.TypesInfo
	n := 0
	for _, fd := range p.AllFuncDecls("interp") {
		if fd.Body == nil || strings.HasSuffix(p.Position(fd.Pos()), "_test.go") {
			continue
		}
		var goBodies []*ast.FuncLit
		ast.Inspect(fd.Body, func(m ast.Node) bool {
			if gs, ok := m.(*ast.GoStmt); ok {
				if fl, ok := ast.Unparen(gs.Call.Fun).(*ast.FuncLit); ok {
					goBodies = append(goBodies, fl)
				}
			}
			return true
		})
		k := 0
		var stack []ast.Node
		ast.Inspect(fd.Body, func(m ast.Node) bool {
			if m == nil {
				stack = stack[:len(stack)-1]
				return true
			}
			stack = append(stack, m)
			c, ok := m.(*ast.CallExpr)
			if !ok {
				return true
			}
			callee := calleeOf(info, c)
			if callee == nil || callee.Pkg() == nil || callee.Pkg().Path() != "os" || (callee.Name() != "OpenFile" && callee.Name() != "Open") || len(c.Args) == 0 {
				return true
			}
			if tv, ok := info.Types[c.Args[0]]; ok && tv.Value != nil {
				return true // a fixed path
			}
			for _, fl := range goBodies {
				if fl.Pos() <= c.Pos() && c.End() <= fl.End() {
					return true
				}
			}
			k++
			n++
			key := fmt.Sprintf("%s#open %d of a path from the program can be abandoned", funcKey("interp", fd), k)
			// O_NONBLOCK among the flags
			nonblock := false
			for _, a := range c.Args[1:] {
				ast.Inspect(a, func(q ast.Node) bool {
					if se, ok := q.(*ast.SelectorExpr); ok && se.Sel.Name == "O_NONBLOCK" {
						nonblock = true
					}
					return true
				})
			}
			if nonblock {
				r.OK(rule, key, c.Pos(), "opened with O_NONBLOCK")
				return true
			}
			// the interpreter's own FIFO: under a test that names the FIFO prefix
			own := false
			for i := len(stack) - 1; i >= 0; i-- {
				if is, ok := stack[i].(*ast.IfStmt); ok && i+1 < len(stack) && stack[i+1] == ast.Node(is.Body) {
					ast.Inspect(is.Cond, func(q ast.Node) bool {
						if id, ok := q.(*ast.Ident); ok && strings.Contains(strings.ToLower(id.Name), "fifo") {
							own = true
						}
						return true
					})
				}
			}
			if own {
				r.OK(rule, key, c.Pos(), "the interpreter's own FIFO, whose other end a process substitution's goroutine opens on every path (R31j)")
				return true
			}
			r.Bad(rule, key, c.Pos(), "opens a path that comes from the program with a plain os.OpenFile on Run's own goroutine: if it names a FIFO with no peer (`cat <$fifo`, `source $fifo`, `x=$(<$fifo)`) the open blocks, takes no context, and a cancelled Run does not return until some other process opens the other end")
			return true
		})
	}
	return n
}
