package main

import (
	"fmt"
	"go/ast"
	"go/types"
	"sort"
	"strings"

	"golang.org/x/tools/go/packages"
)

func init() {
	register(&Property{
		ID:  "C35",
		Run: runC35,
		Decided: "the only way shfmt modifies a path is renameio's WriteFile: no other file-mutating function of package os is reachable from main (R35a); that call is dominated by a " +
			"regular-file test on os.Lstat of the same path, and the permission bits written are that same FileInfo's (R35b); in the pinned renameio the write goes to a temporary file " +
			"that is removed on every incomplete exit, and the destination is replaced by fsync, then close, then rename, in that order on every path (R35c).",
		NotDecided:  "atomicity of rename(2) and durability semantics of fsync (trusted); the non-unix build of renameio/maybe, which falls back to a plain write (the source says so); behaviour under a kill between rename and exit is the kernel's.",
		Assumptions: []string{"rename(2) is atomic on the same file system; the temporary file is created next to the destination (renameio tempDir)", "analysed configuration: linux/amd64 (unix build of renameio)"},
		Controls:    c35Controls,
	})
}

// callSite is a call located in a graph.
type callSite struct {
	call *ast.CallExpr
	blk  *FBlock
	idx  int
}

func findCalls(g *FGraph, match func(*ast.CallExpr) bool) []callSite {
	var out []callSite
	for _, b := range g.Blocks {
		for i, n := range b.Nodes {
			var calls []*ast.CallExpr
			switch x := n.(type) {
			case *ast.DeferStmt:
				calls = append(calls, x.Call)
				calls = append(calls, nodeCalls(x.Call)...)
			default:
				calls = nodeCalls(n)
			}
			seen := map[*ast.CallExpr]bool{}
			for _, c := range calls {
				if !seen[c] && match(c) {
					seen[c] = true
					out = append(out, callSite{c, b, i})
				}
			}
		}
	}
	return out
}

// before reports whether a is evaluated before b on every path to b.
func before(dom map[*FBlock]map[*FBlock]bool, a, b callSite) bool {
	if a.blk == b.blk {
		return a.idx < b.idx || (a.idx == b.idx && a.call.Pos() < b.call.Pos())
	}
	return dom[b.blk][a.blk]
}

// underEdges reports whether block target is unreachable from entry once the
// edges selected by cut are removed: every path to target takes such an edge.
func underEdges(g *FGraph, target *FBlock, cut func(*FEdge) bool) bool {
	reach := g.Reachable(g.Entry, func(e *FEdge) bool { return !cut(e) })
	return !reach[target]
}

func qualName(fn *types.Func) string {
	if fn == nil {
		return ""
	}
	sig := fn.Type().(*types.Signature)
	p := ""
	if fn.Pkg() != nil {
		p = fn.Pkg().Path()
	}
	if sig.Recv() != nil {
		return p + ".(" + typeName(sig.Recv().Type()) + ")." + fn.Name()
	}
	return p + "." + fn.Name()
}

var osMutators = map[string]bool{
	"os.WriteFile": true, "os.Create": true, "os.CreateTemp": true, "os.OpenFile": true, "os.Rename": true, "os.Remove": true, "os.RemoveAll": true,
	"os.Chmod": true, "os.Chown": true, "os.Lchown": true, "os.Chtimes": true, "os.Truncate": true, "os.Mkdir": true, "os.MkdirAll": true, "os.MkdirTemp": true,
	"os.Symlink": true, "os.Link": true, "os.CopyFS": true,
	"os.(File).Write": true, "os.(File).WriteString": true, "os.(File).WriteAt": true, "os.(File).Truncate": true, "os.(File).Chmod": true, "os.(File).Chown": true,
	"os.(File).ReadFrom": true, "os.(File).WriteTo": false,
	"io/ioutil.WriteFile": true, "io/ioutil.TempFile": true, "io/ioutil.TempDir": true,
	"os.(Root).Create": true, "os.(Root).OpenFile": true, "os.(Root).Remove": true, "os.(Root).Rename": true, "os.(Root).Mkdir": true,
}

func runC35(p *Prog, r *Result) {
	pkg := p.Pkg("cmd/shfmt")
	if pkg == nil {
		r.Fatalf("package cmd/shfmt not loaded")
		return
	}
	info := pkg.TypesInfo
	r.Rule("R35a", "file-mutating functions of os/ioutil reachable from shfmt's main through the module's own code: none except through renameio's WriteFile; writes to *os.File only on os.Stdout/os.Stderr", 5)
	r.Rule("R35b", "the WriteFile call is dominated by os.Lstat(path) + Mode().IsRegular() on the same path, and writes that FileInfo's Mode().Perm()", 4)
	r.Rule("R35c", "pinned renameio: temp file + deferred Cleanup; Sync before Close before Rename on every path; done only after rename", 6)

	g := buildRefGraph(p)
	mainFn := lookupFunc(pkg, "main")
	if mainFn == nil {
		r.Fatalf("anchor cmd/shfmt.main not found")
		return
	}
	reach := g.reachable(mainFn)

	// ---- R35a
	var fns []*types.Func
	for fo := range reach {
		if g.decl[fo] != nil {
			fns = append(fns, fo)
		}
	}
	sort.Slice(fns, func(i, j int) bool { return funcObjKey(fns[i]) < funcObjKey(fns[j]) })
	nMut, nStd := 0, 0
	var writeFileCalls []struct {
		fo   *types.Func
		call *ast.CallExpr
	}
	for _, fo := range fns {
		fd := g.decl[fo]
		finfo := g.pkgOf[fo].TypesInfo
		ast.Inspect(fd.Body, func(n ast.Node) bool {
			call, ok := n.(*ast.CallExpr)
			if !ok {
				return true
			}
			callee := calleeOf(finfo, call)
			if callee == nil {
				return true
			}
			qn := qualName(callee)
			if strings.HasPrefix(qn, "github.com/google/renameio/v2") {
				if strings.HasSuffix(qn, ".WriteFile") {
					writeFileCalls = append(writeFileCalls, struct {
						fo   *types.Func
						call *ast.CallExpr
					}{fo, call})
					r.OK("R35a", funcObjKey(fo)+"#"+qn, call.Pos(), "the rename-based writer")
				} else {
					r.Bad("R35a", funcObjKey(fo)+"#"+qn, call.Pos(), "uses a renameio entry point other than WriteFile; its atomicity contract is not the one checked by R35c")
				}
				return true
			}
			if !osMutators[qn] {
				return true
			}
			key := funcObjKey(fo) + "#" + qn
			// writes to os.Stdout / os.Stderr are output, not file modification
			if strings.HasPrefix(qn, "os.(File).") {
				if se, ok := ast.Unparen(call.Fun).(*ast.SelectorExpr); ok {
					if rx, ok := ast.Unparen(se.X).(*ast.SelectorExpr); ok {
						if v, ok := finfo.Uses[rx.Sel].(*types.Var); ok && v.Pkg() != nil && v.Pkg().Path() == "os" && (v.Name() == "Stdout" || v.Name() == "Stderr") {
							nStd++
							r.OK("R35a", key+" on os."+v.Name(), call.Pos(), "standard stream")
							return true
						}
					}
				}
			}
			nMut++
			r.Bad("R35a", key, call.Pos(), "a file-mutating call reachable from shfmt's main outside the rename-based writer: a kill during it can leave a partially written or missing file")
			return true
		})
	}
	if len(writeFileCalls) == 0 {
		r.Bad("R35a", "cmd/shfmt#no rename-based writer", mainFn.Pos(), "shfmt never calls renameio's WriteFile: -w has no atomic write path")
	}
	r.Check(nMut == 0, "R35a", "cmd/shfmt#no other mutator", mainFn.Pos(), fmt.Sprintf("%d functions of the module reachable from main scanned; %d writes to standard streams", len(fns), nStd),
		fmt.Sprintf("%d file-mutating calls outside the atomic writer", nMut))

	// ---- R35b
	for _, wc := range writeFileCalls {
		fd := g.decl[wc.fo]
		fkey := funcObjKey(wc.fo)
		fg := NewFGraph(info, fd.Body, nil)
		if len(wc.call.Args) != 3 {
			r.Undecided("R35b", fkey+"#WriteFile args", wc.call.Pos(), "unexpected argument count")
			continue
		}
		pathObj := identObj(info, wc.call.Args[0])
		permObj := identObj(info, wc.call.Args[2])
		wblk, _ := fg.BlockOf(wc.call)
		// perm := info.Mode().Perm()
		permDef := singleDef(info, fd, permObj)
		var infoObj types.Object
		okPerm := false
		if c, ok := ast.Unparen(permDef).(*ast.CallExpr); ok && qualName(calleeOf(info, c)) == "io/fs.(FileMode).Perm" {
			if se, ok := ast.Unparen(c.Fun).(*ast.SelectorExpr); ok {
				if mc, ok := ast.Unparen(se.X).(*ast.CallExpr); ok {
					if ms, ok := ast.Unparen(mc.Fun).(*ast.SelectorExpr); ok && ms.Sel.Name == "Mode" {
						infoObj = identObj(info, ms.X)
						okPerm = infoObj != nil
					}
				}
			}
		}
		r.Check(okPerm, "R35b", fkey+"#perm is info.Mode().Perm()", wc.call.Pos(), "permission argument is defined once as <FileInfo>.Mode().Perm()",
			"the permission bits handed to the atomic writer are not taken from the file's own FileInfo: the replaced file can change mode")
		// info, err := os.Lstat(path)
		okLstat, which := false, ""
		if infoObj != nil {
			if def := singleDef(info, fd, infoObj); def != nil {
				if c, ok := ast.Unparen(def).(*ast.CallExpr); ok {
					which = qualName(calleeOf(info, c))
					if which == "os.Lstat" && len(c.Args) == 1 && identObj(info, c.Args[0]) == pathObj && pathObj != nil {
						okLstat = true
					}
				}
			}
		}
		r.Check(okLstat, "R35b", fkey+"#info is os.Lstat(path)", wc.call.Pos(), "FileInfo comes from os.Lstat of the very path that is written",
			"the FileInfo tested is not os.Lstat of the written path (found "+which+"): through os.Stat a symlink to a regular file passes the test and the link itself is replaced")
		// dominated by IsRegular() true edge on that info
		isRegEdge := func(e *FEdge) bool {
			if e.Cond == nil || !e.Pol {
				return false
			}
			c, ok := ast.Unparen(e.Cond).(*ast.CallExpr)
			if !ok || qualName(calleeOf(info, c)) != "io/fs.(FileMode).IsRegular" {
				return false
			}
			se, _ := ast.Unparen(c.Fun).(*ast.SelectorExpr)
			if se == nil {
				return false
			}
			mc, ok := ast.Unparen(se.X).(*ast.CallExpr)
			if !ok {
				return false
			}
			ms, ok := ast.Unparen(mc.Fun).(*ast.SelectorExpr)
			return ok && ms.Sel.Name == "Mode" && identObj(info, ms.X) == infoObj && infoObj != nil
		}
		r.Check(wblk != nil && underEdges(fg, wblk, isRegEdge), "R35b", fkey+"#guarded by IsRegular", wc.call.Pos(),
			"every path to the write takes the true edge of info.Mode().IsRegular()", "the write is reachable without passing the regular-file test: symlinks, FIFOs or directories can be replaced by a regular file")
		// and by the Lstat error check: err != nil returns
		// path must not be reassigned between Lstat and WriteFile
		r.Check(countAssigns(info, fd, pathObj) == 0, "R35b", fkey+"#path not reassigned", wc.call.Pos(), "path parameter is never assigned in the function",
			"the path variable is reassigned: the tested and the written path can differ")
	}

	// ---- R35c: the pinned dependency
	var rn, maybe *packages.Package
	for _, dp := range p.AllPkgs {
		switch dp.PkgPath {
		case "github.com/google/renameio/v2":
			rn = dp
		case "github.com/google/renameio/v2/maybe":
			maybe = dp
		}
	}
	if rn == nil || maybe == nil || len(rn.Syntax) == 0 {
		r.Fatalf("dependency github.com/google/renameio/v2 (and /maybe) not loaded with syntax")
		return
	}
	depFD := func(dp *packages.Package, recv, name string) *ast.FuncDecl {
		for _, f := range dp.Syntax {
			for _, d := range f.Decls {
				if fd, ok := d.(*ast.FuncDecl); ok && fd.Name.Name == name && recvTypeName(fd) == recv && fd.Body != nil {
					return fd
				}
			}
		}
		return nil
	}
	// maybe.WriteFile -> renameio.WriteFile
	if fd := depFD(maybe, "", "WriteFile"); fd != nil {
		ok := false
		if len(fd.Body.List) == 1 {
			if rs, isRet := fd.Body.List[0].(*ast.ReturnStmt); isRet && len(rs.Results) == 1 {
				if c, isCall := rs.Results[0].(*ast.CallExpr); isCall && qualName(calleeOf(maybe.TypesInfo, c)) == "github.com/google/renameio/v2.WriteFile" {
					ok = true
				}
			}
		}
		r.Check(ok, "R35c", "renameio/maybe.WriteFile#delegates", fd.Pos(), "returns renameio.WriteFile(filename, data, perm) in this build configuration",
			"maybe.WriteFile does not delegate to the atomic renameio.WriteFile in this build configuration")
	} else {
		r.Fatalf("renameio/maybe.WriteFile not found")
	}
	rinfo := rn.TypesInfo
	if fd := depFD(rn, "", "WriteFile"); fd != nil {
		fg := NewFGraph(rinfo, fd.Body, nil)
		dom := fg.Dominators()
		byName := func(name string) []callSite {
			return findCalls(fg, func(c *ast.CallExpr) bool { return strings.HasSuffix(qualName(calleeOf(rinfo, c)), name) })
		}
		npf, cl, wr, car := byName("renameio/v2.NewPendingFile"), byName("(PendingFile).Cleanup"), byName("(File).Write"), byName("(PendingFile).CloseAtomicallyReplace")
		ok := len(npf) == 1 && len(cl) == 1 && len(wr) == 1 && len(car) == 1
		if ok {
			_, isDefer := cl[0].blk.Nodes[cl[0].idx].(*ast.DeferStmt)
			ok = isDefer && before(dom, npf[0], cl[0]) && before(dom, cl[0], wr[0]) && before(dom, wr[0], car[0])
		}
		r.Check(ok, "R35c", "renameio.WriteFile#temp file, deferred cleanup, write, replace", fd.Pos(), "NewPendingFile → defer Cleanup → Write → CloseAtomicallyReplace, each dominating the next",
			"renameio.WriteFile no longer has the shape temp file / deferred cleanup / write / atomic replace")
		// WithPermissions(perm) among the options
		wp := byName("renameio/v2.WithPermissions")
		r.Check(len(wp) >= 1 && before(dom, wp[0], npf[0]), "R35c", "renameio.WriteFile#WithPermissions(perm)", fd.Pos(), "the requested permission bits are passed to the pending file",
			"the permission argument is not forwarded to the temporary file")
	} else {
		r.Fatalf("renameio.WriteFile not found")
	}
	if fd := depFD(rn, "PendingFile", "CloseAtomicallyReplace"); fd != nil {
		fg := NewFGraph(rinfo, fd.Body, nil)
		dom := fg.Dominators()
		by := func(suffix string) []callSite {
			return findCalls(fg, func(c *ast.CallExpr) bool { return strings.HasSuffix(qualName(calleeOf(rinfo, c)), suffix) })
		}
		syncs, closes := by("os.(File).Sync"), by("os.(File).Close")
		renames := append(by("os.Rename"), by("os.(Root).Rename")...)
		ok := len(syncs) == 1 && len(closes) == 1 && len(renames) >= 1
		if ok {
			ok = before(dom, syncs[0], closes[0])
			for _, rnm := range renames {
				if !before(dom, closes[0], rnm) {
					ok = false
				}
			}
		}
		r.Check(ok, "R35c", "renameio.(PendingFile).CloseAtomicallyReplace#sync, close, rename", fd.Pos(), "Sync dominates Close dominates every Rename",
			"the data is not fsynced and closed before the rename on every path: after a crash the destination can be an empty or partial file")
		// an error from Sync or Close returns before the rename: the rename blocks are only reachable through err == nil edges
		okErr := true
		for _, rnm := range renames {
			cut := func(e *FEdge) bool {
				if e.Cond == nil {
					return false
				}
				be, ok := ast.Unparen(e.Cond).(*ast.BinaryExpr)
				if !ok || !isNilIdent(rinfo, be.Y) {
					return false
				}
				// `err != nil` false edge == success
				return !e.Pol && be.Op.String() == "!="
			}
			if !underEdges(fg, rnm.blk, cut) {
				okErr = false
			}
		}
		r.Check(okErr, "R35c", "renameio.(PendingFile).CloseAtomicallyReplace#errors stop before rename", fd.Pos(), "rename reachable only through the err == nil edges of Sync and Close", "the rename can run after a failed Sync or Close")
		// t.done = true only after a rename
		okDone := true
		for _, b := range fg.Blocks {
			for i, n := range b.Nodes {
				as, ok := n.(*ast.AssignStmt)
				if !ok || len(as.Lhs) != 1 {
					continue
				}
				if f := selectorField(rinfo, as.Lhs[0]); f != nil && f.Name() == "done" {
					after := false
					for _, rnm := range renames {
						if before(dom, rnm, callSite{nil, b, i}) || rnm.blk == b {
							after = true
						}
					}
					// with two alternative renames (root / no root) neither dominates; require that every path to here passes one
					if !after {
						after = underEdges(fg, b, func(e *FEdge) bool {
							for _, rnm := range renames {
								if e.From == rnm.blk {
									return true
								}
							}
							return false
						})
					}
					if !after {
						okDone = false
					}
				}
			}
		}
		r.Check(okDone, "R35c", "renameio.(PendingFile).CloseAtomicallyReplace#done after rename", fd.Pos(), "done is set only after a rename succeeded (so Cleanup removes the temp file otherwise)", "done can be set without a completed rename: Cleanup would then leave the temporary file behind")
	} else {
		r.Fatalf("renameio.(PendingFile).CloseAtomicallyReplace not found")
	}
	if fd := depFD(rn, "PendingFile", "Cleanup"); fd != nil {
		fg := NewFGraph(rinfo, fd.Body, nil)
		rem := findCalls(fg, func(c *ast.CallExpr) bool {
			q := qualName(calleeOf(rinfo, c))
			return q == "os.Remove" || q == "os.(Root).Remove"
		})
		// every path from entry to exit passes a remove, except through the t.done true edge
		ok, _ := fg.MustPass(fg.Entry, -1, fg.Exit, func(n ast.Node) bool {
			for _, c := range nodeCalls(n) {
				q := qualName(calleeOf(rinfo, c))
				if q == "os.Remove" || q == "os.(Root).Remove" {
					return true
				}
			}
			return false
		}, func(e *FEdge) bool {
			if e.Cond == nil || !e.Pol {
				return false
			}
			f := selectorField(rinfo, e.Cond)
			return f != nil && f.Name() == "done"
		})
		r.Check(ok && len(rem) >= 1, "R35c", "renameio.(PendingFile).Cleanup#removes temp unless done", fd.Pos(), "every path not taken under t.done removes the temporary file", "Cleanup can return without removing the temporary file although the replace did not complete")
	} else {
		r.Fatalf("renameio.(PendingFile).Cleanup not found")
	}
}

func identObj(info *types.Info, e ast.Expr) types.Object {
	id, ok := ast.Unparen(e).(*ast.Ident)
	if !ok {
		return nil
	}
	if o := info.Uses[id]; o != nil {
		return o
	}
	return info.Defs[id]
}

// singleDef returns the defining expression of obj when it is assigned exactly
// once in fd (possibly as part of a tuple assignment from one call).
func singleDef(info *types.Info, fd *ast.FuncDecl, obj types.Object) ast.Expr {
	if obj == nil {
		return nil
	}
	var def ast.Expr
	n := 0
	ast.Inspect(fd.Body, func(nd ast.Node) bool {
		as, ok := nd.(*ast.AssignStmt)
		if !ok {
			return true
		}
		for i, l := range as.Lhs {
			id, ok := ast.Unparen(l).(*ast.Ident)
			if !ok || (info.Defs[id] != obj && info.Uses[id] != obj) {
				continue
			}
			n++
			if len(as.Lhs) == len(as.Rhs) {
				def = as.Rhs[i]
			} else if len(as.Rhs) == 1 {
				def = as.Rhs[0]
			}
		}
		return true
	})
	if n != 1 {
		return nil
	}
	return def
}

func countAssigns(info *types.Info, fd *ast.FuncDecl, obj types.Object) int {
	n := 0
	ast.Inspect(fd.Body, func(nd ast.Node) bool {
		switch x := nd.(type) {
		case *ast.AssignStmt:
			for _, l := range x.Lhs {
				if id, ok := ast.Unparen(l).(*ast.Ident); ok && (info.Uses[id] == obj || info.Defs[id] == obj) {
					n++
				}
			}
		case *ast.UnaryExpr:
			if x.Op.String() == "&" {
				if id, ok := ast.Unparen(x.X).(*ast.Ident); ok && info.Uses[id] == obj {
					n++
				}
			}
		}
		return true
	})
	return n
}

var c35Controls = []Control{
	{Name: "stat-instead-of-lstat", Rule: "R35b", WantKey: "info is os.Lstat(path)", File: "cmd/shfmt/main.go",
		Mutate: ctlReplace("formatBytes", "os.Lstat(path)", "os.Stat(path)", 0)},
	{Name: "regular-check-dropped", Rule: "R35b", WantKey: "guarded by IsRegular", File: "cmd/shfmt/main.go",
		Mutate: ctlReplace("formatBytes", "!info.Mode().IsRegular()", "!info.Mode().IsRegular() && info.Mode().IsDir()", 0)},
	{Name: "fixed-permissions", Rule: "R35b", WantKey: "perm is info.Mode().Perm()", File: "cmd/shfmt/main.go",
		Mutate: ctlReplace("formatBytes", "perm := info.Mode().Perm()", "perm := os.FileMode(0o644)", 0)},
	{Name: "plain-write-fallback", Rule: "R35a", WantKey: "os.WriteFile", File: "cmd/shfmt/main.go",
		Mutate: ctlReplace("formatBytes", "if err := maybeio.WriteFile(path, res, perm); err != nil {\n\t\t\t\treturn err\n\t\t\t}",
			"if err := maybeio.WriteFile(path, res, perm); err != nil {\n\t\t\t\tif err := os.WriteFile(path, res, perm); err != nil {\n\t\t\t\t\treturn err\n\t\t\t\t}\n\t\t\t}", 0)},
}
