package main

import (
	"fmt"
	"go/ast"
	"go/constant"
	"go/token"
	"go/types"
	"sort"
	"strings"

	"golang.org/x/tools/go/packages"
)

// R36d: the mode table. list/write/diff range over finite domains (the list
// flag's domain is what main's validation lets through), so formatBytes can be
// partially evaluated for every combination: conditional edges whose atomic
// condition only compares a flag with a constant are pruned, and the
// statements of the property are read off the pruned graph.

type flagEnv map[types.Object]constant.Value

type modeCtx struct {
	info    *types.Info
	pkg     *packages.Package
	flagObj map[string]types.Object // long name -> package-level variable
	flagDef map[string]constant.Value
	decls   map[*types.Func]*ast.FuncDecl
}

// evalFlagExpr evaluates an expression made of flag values and constants.
func (m *modeCtx) eval(e ast.Expr, env flagEnv) constant.Value {
	e = ast.Unparen(e)
	if tv, ok := m.info.Types[e]; ok && tv.Value != nil {
		return tv.Value
	}
	switch x := e.(type) {
	case *ast.Ident:
		if o := m.info.ObjectOf(x); o != nil {
			if v, ok := env[o]; ok {
				return v
			}
		}
	case *ast.SelectorExpr:
		// flag.val
		if id, ok := ast.Unparen(x.X).(*ast.Ident); ok && x.Sel.Name == "val" {
			if v, ok := env[m.info.ObjectOf(id)]; ok {
				return v
			}
		}
	case *ast.UnaryExpr:
		if x.Op == token.NOT {
			if v := m.eval(x.X, env); v != nil && v.Kind() == constant.Bool {
				return constant.MakeBool(!constant.BoolVal(v))
			}
		}
	case *ast.BinaryExpr:
		a, b := m.eval(x.X, env), m.eval(x.Y, env)
		if a == nil || b == nil {
			return nil
		}
		switch x.Op {
		case token.EQL, token.NEQ:
			if a.Kind() != b.Kind() {
				return nil
			}
			return constant.MakeBool(constant.Compare(a, x.Op, b))
		}
	}
	return nil
}

// feasible reports whether an edge can be taken under env (true when unknown).
func (m *modeCtx) feasible(e *FEdge, env flagEnv) bool {
	switch {
	case e.Tag != nil && e.Cond != nil:
		t, c := m.eval(e.Tag, env), m.eval(e.Cond, env)
		if t == nil || c == nil || t.Kind() != c.Kind() {
			return true
		}
		return constant.Compare(t, token.EQL, c) == e.Pol
	case e.Cond != nil && !e.TypeCase:
		v := m.eval(e.Cond, env)
		if v == nil || v.Kind() != constant.Bool {
			return true
		}
		return constant.BoolVal(v) == e.Pol
	}
	return true
}

// printsPath: does node n print one of the path objects (directly with
// fmt.Print*, or through a same-package function that does so under env)?
func (m *modeCtx) printsPath(n ast.Node, pathObjs map[types.Object]bool, env flagEnv, depth int) bool {
	for _, c := range nodeCalls(n) {
		fn := calleeOf(m.info, c)
		if fn == nil || fn.Pkg() == nil {
			continue
		}
		hasPath := false
		for _, a := range c.Args {
			if id, ok := ast.Unparen(a).(*ast.Ident); ok && pathObjs[m.info.ObjectOf(id)] {
				hasPath = true
			}
		}
		if !hasPath {
			continue
		}
		if fn.Pkg().Path() == "fmt" && strings.HasPrefix(fn.Name(), "Print") {
			return true
		}
		if fn.Pkg().Path() == "fmt" && strings.HasPrefix(fn.Name(), "Fprint") && len(c.Args) > 0 && exprString(c.Args[0]) == "os.Stdout" {
			return true
		}
		fd := m.decls[fn]
		if fd == nil || fd.Body == nil || depth >= 2 {
			continue
		}
		// bind parameters
		env2 := flagEnv{}
		for k, v := range env {
			env2[k] = v
		}
		paths2 := map[types.Object]bool{}
		i := 0
		for _, f := range fd.Type.Params.List {
			for _, nm := range f.Names {
				if i < len(c.Args) {
					po := m.info.Defs[nm]
					if v := m.eval(c.Args[i], env); v != nil {
						env2[po] = v
					}
					if id, ok := ast.Unparen(c.Args[i]).(*ast.Ident); ok && pathObjs[m.info.ObjectOf(id)] {
						paths2[po] = true
					}
				}
				i++
			}
		}
		g := NewFGraph(m.info, fd.Body, nil)
		reach := g.Reachable(g.Entry, func(e *FEdge) bool { return m.feasible(e, env2) })
		for b := range reach {
			for _, n2 := range b.Nodes {
				if m.printsPath(n2, paths2, env2, depth+1) {
					return true
				}
			}
		}
	}
	return false
}

func checkModeTable(p *Prog, r *Result, pkg *packages.Package, fb, mainFD *ast.FuncDecl, g *FGraph, eq callSite, resObj types.Object) {
	info := pkg.TypesInfo
	r.Rule("R36d", "mode table by partial evaluation of formatBytes over the finite flag domains: -l prints the path exactly when enabled and then (without -w/-d) always returns the differs status; -d always diffs and returns it; -w always reaches the writer; with none of them the result goes to stdout", 7)
	m := &modeCtx{info: info, pkg: pkg, flagObj: map[string]types.Object{}, flagDef: map[string]constant.Value{}, decls: map[*types.Func]*ast.FuncDecl{}}
	for _, fd := range p.AllFuncDecls("cmd/shfmt") {
		if fo, ok := info.Defs[fd.Name].(*types.Func); ok {
			m.decls[fo] = fd
		}
	}
	// flags: package-level `name = flagVal(short, long, default, …)`
	for _, f := range pkg.Syntax {
		for _, d := range f.Decls {
			gd, ok := d.(*ast.GenDecl)
			if !ok || gd.Tok != token.VAR {
				continue
			}
			for _, sp := range gd.Specs {
				vs := sp.(*ast.ValueSpec)
				for i, nm := range vs.Names {
					if i >= len(vs.Values) {
						continue
					}
					c, ok := vs.Values[i].(*ast.CallExpr)
					if !ok || len(c.Args) < 3 {
						continue
					}
					if fn := calleeOf(info, c); fn == nil || fn.Name() != "flagVal" {
						continue
					}
					long := info.Types[c.Args[1]].Value
					def := info.Types[c.Args[2]].Value
					if long == nil || long.Kind() != constant.String || def == nil {
						continue
					}
					m.flagObj[constant.StringVal(long)] = info.Defs[nm]
					m.flagDef[constant.StringVal(long)] = def
				}
			}
		}
	}
	for _, name := range []string{"list", "write", "diff"} {
		if m.flagObj[name] == nil {
			r.Fatalf("flag --%s not found as a package-level flagVal(...) variable in cmd/shfmt", name)
			return
		}
	}
	listObj, writeObj, diffObj := m.flagObj["list"], m.flagObj["write"], m.flagObj["diff"]
	// domain of list.val: main's validation `if list.val != A && list.val != B … { exit }`
	var domain []constant.Value
	ast.Inspect(mainFD.Body, func(n ast.Node) bool {
		is, ok := n.(*ast.IfStmt)
		if !ok || domain != nil {
			return true
		}
		var vals []constant.Value
		for _, cj := range conjuncts(is.Cond) {
			be, ok := ast.Unparen(cj).(*ast.BinaryExpr)
			if !ok || be.Op != token.NEQ {
				return true
			}
			se, ok := ast.Unparen(be.X).(*ast.SelectorExpr)
			if !ok || se.Sel.Name != "val" {
				return true
			}
			id, ok := ast.Unparen(se.X).(*ast.Ident)
			if !ok || info.ObjectOf(id) != listObj {
				return true
			}
			v := info.Types[be.Y].Value
			if v == nil {
				return true
			}
			vals = append(vals, v)
		}
		// the body must not continue normally
		leaves := false
		ast.Inspect(is.Body, func(x ast.Node) bool {
			switch y := x.(type) {
			case *ast.ReturnStmt:
				leaves = true
			case *ast.CallExpr:
				if fn := calleeOf(info, y); fn != nil && fn.Pkg() != nil && fn.Pkg().Path() == "os" && fn.Name() == "Exit" {
					leaves = true
				}
			}
			return true
		})
		if len(vals) >= 2 && leaves {
			domain = vals
		}
		return true
	})
	if domain == nil {
		r.Undecided("R36d", "cmd/shfmt.main#domain of --list", mainFD.Pos(), "main does not restrict list.val to a finite set of constants (expected `if list.val != \"true\" && … { exit }`): the mode table cannot be enumerated")
		return
	}
	sort.Slice(domain, func(i, j int) bool { return domain[i].ExactString() < domain[j].ExactString() })

	var pathObj types.Object
	if ps := fb.Type.Params.List; len(ps) > 1 && len(ps[1].Names) > 0 {
		pathObj = info.Defs[ps[1].Names[0]]
	}
	if pathObj == nil {
		r.Fatalf("formatBytes has no path parameter")
		return
	}
	pathObjs := map[types.Object]bool{pathObj: true}

	// the differs edge and its target
	var differsTo *FBlock
	for _, b := range g.Blocks {
		for _, e := range b.Succs {
			if e.Cond != nil && ast.Unparen(e.Cond) == ast.Expr(eq.call) && !e.Pol {
				differsTo = e.To
			}
		}
	}
	if differsTo == nil {
		r.Undecided("R36d", "cmd/shfmt.formatBytes#differs edge", fb.Pos(), "the false edge of the bytes.Equal comparison was not found")
		return
	}
	type retKind int
	const (
		retNil retKind = iota
		retDiffers
		retErr
	)
	classify := func(rs *ast.ReturnStmt) retKind {
		if len(rs.Results) != 1 {
			return retErr
		}
		if isNilIdent(info, rs.Results[0]) {
			return retNil
		}
		if id, ok := ast.Unparen(rs.Results[0]).(*ast.Ident); ok && id.Name == "errFormattingDiffers" {
			return retDiffers
		}
		// a call result may be nil (e.g. `return enc.Encode(…)`): treat as an error-or-nil we do not decide
		return retErr
	}
	// reachable returns from a block under env
	returnsFrom := func(from *FBlock, env flagEnv) map[retKind][]*ast.ReturnStmt {
		out := map[retKind][]*ast.ReturnStmt{}
		for b := range g.Reachable(from, func(e *FEdge) bool { return m.feasible(e, env) }) {
			for _, n := range b.Nodes {
				if rs, ok := n.(*ast.ReturnStmt); ok {
					k := classify(rs)
					out[k] = append(out[k], rs)
				}
			}
		}
		return out
	}
	// must-pass from the differs target to the exit, error returns count as hits
	mustBefore := func(from *FBlock, env flagEnv, hit func(ast.Node) bool) bool {
		ok, _ := g.MustPass(from, -1, g.Exit, func(n ast.Node) bool {
			if rs, isRet := n.(*ast.ReturnStmt); isRet && classify(rs) == retErr {
				return true
			}
			return hit(n)
		}, func(e *FEdge) bool { return !m.feasible(e, env) })
		return ok
	}
	show := func(v constant.Value) string {
		if v.Kind() == constant.String {
			return constant.StringVal(v)
		}
		return v.ExactString()
	}
	T, F := constant.MakeBool(true), constant.MakeBool(false)

	for _, v := range domain {
		enabled := !constant.Compare(v, token.EQL, m.flagDef["list"])
		env := flagEnv{listObj: v}
		printed := false
		for b := range g.Reachable(differsTo, func(e *FEdge) bool { return m.feasible(e, env) }) {
			for _, n := range b.Nodes {
				if m.printsPath(n, pathObjs, env, 0) {
					printed = true
				}
			}
		}
		key := fmt.Sprintf("cmd/shfmt.formatBytes#--list=%s prints the path of a differing file", show(v))
		if enabled {
			must := mustBefore(differsTo, env, func(n ast.Node) bool { return m.printsPath(n, pathObjs, env, 0) })
			r.Check(printed && must, "R36d", key, fb.Pos(), "printed on every non-error path through the differs branch",
				fmt.Sprintf("with --list=%s a file whose formatting differs is not (always) listed", show(v)))
			env2 := flagEnv{listObj: v, writeObj: F, diffObj: F}
			rets := returnsFrom(differsTo, env2)
			key2 := fmt.Sprintf("cmd/shfmt.formatBytes#--list=%s alone: differs status returned", show(v))
			r.Check(len(rets[retNil]) == 0 && len(rets[retDiffers]) > 0, "R36d", key2, fb.Pos(), "no `return nil` is reachable from the differs branch; errFormattingDiffers is",
				fmt.Sprintf("with --list=%s (no -w, no -d) a differing file is listed but formatBytes can return nil: shfmt exits 0 although it listed a file", show(v)))
		} else {
			r.Check(!printed, "R36d", fmt.Sprintf("cmd/shfmt.formatBytes#--list=%s prints no path", show(v)), fb.Pos(), "no path print reachable",
				"paths are listed although --list is off")
		}
	}
	// -d
	{
		env := flagEnv{diffObj: T}
		isDiff := func(n ast.Node) bool {
			for _, c := range nodeCalls(n) {
				if strings.HasSuffix(qualName(calleeOf(info, c)), "/diff.Diff") {
					return true
				}
			}
			return false
		}
		rets := returnsFrom(differsTo, env)
		ok := mustBefore(differsTo, env, isDiff) && len(rets[retNil]) == 0 && len(rets[retDiffers]) > 0
		r.Check(ok, "R36d", "cmd/shfmt.formatBytes#--diff: diff computed and differs status returned", fb.Pos(), "Diff on every non-error path of the differs branch; no `return nil` reachable",
			"with -d a differing file does not always get a diff, or formatBytes can return nil for it (exit status 0)")
	}
	// -w
	{
		env := flagEnv{writeObj: T}
		isWrite := func(n ast.Node) bool {
			for _, c := range nodeCalls(n) {
				if strings.HasSuffix(qualName(calleeOf(info, c)), "renameio/v2/maybe.WriteFile") {
					return true
				}
			}
			return false
		}
		r.Check(mustBefore(differsTo, env, isWrite), "R36d", "cmd/shfmt.formatBytes#--write: writer reached for every differing file", fb.Pos(), "WriteFile on every non-error path of the differs branch",
			"with -w some path through the differs branch returns without writing: a later `shfmt -l` still lists the file")
	}
	// none of them: result to stdout, equal or not
	{
		env := flagEnv{listObj: m.flagDef["list"], writeObj: F, diffObj: F}
		isOut := func(n ast.Node) bool {
			for _, c := range nodeCalls(n) {
				if qualName(calleeOf(info, c)) == "os.(File).Write" && len(c.Args) == 1 && identObj(info, c.Args[0]) == resObj {
					return true
				}
			}
			return false
		}
		// from the comparison node onwards (both outcomes)
		ok, _ := g.MustPass(eq.blk, eq.idx, g.Exit, func(n ast.Node) bool {
			if rs, isRet := n.(*ast.ReturnStmt); isRet && classify(rs) == retErr {
				return true
			}
			return isOut(n)
		}, func(e *FEdge) bool { return !m.feasible(e, env) })
		r.Check(ok, "R36d", "cmd/shfmt.formatBytes#no mode flag: result written to stdout", fb.Pos(), "os.Stdout.Write(res) on every non-error path after the comparison",
			"without -l/-w/-d the formatted result is not always written to stdout")
	}
	r.Notef("R36d: domain of --list taken from main's validation: {%s}; default %s", joinVals(domain, show), show(m.flagDef["list"]))
}

func joinVals(vs []constant.Value, show func(constant.Value) string) string {
	var out []string
	for _, v := range vs {
		out = append(out, show(v))
	}
	return strings.Join(out, ", ")
}

// checkPropsOptionsOnEveryPath (R36c extension): when EditorConfig is in use,
// every path to printer.Print passes propsOptions, the one place that resets
// all per-file printer options.
func checkPropsOptionsOnEveryPath(p *Prog, r *Result, pkg *packages.Package, fb *ast.FuncDecl, g *FGraph) {
	info := pkg.TypesInfo
	poObj := lookupFunc(pkg, "propsOptions")
	var ecEdges []*FEdge
	for _, b := range g.Blocks {
		for _, e := range b.Succs {
			if id, ok := e.Cond.(*ast.Ident); ok && e.Pol {
				if v, ok := info.ObjectOf(id).(*types.Var); ok && v.Parent() == pkg.Types.Scope() && v.Name() == "useEditorConfig" {
					ecEdges = append(ecEdges, e)
				}
			}
		}
	}
	if len(ecEdges) == 0 || poObj == nil {
		r.Undecided("R36c", "cmd/shfmt.formatBytes#EditorConfig branch", fb.Pos(), "no branch on useEditorConfig (or no propsOptions) found in formatBytes")
		return
	}
	prints := findCalls(g, func(c *ast.CallExpr) bool { return qualName(calleeOf(info, c)) == "mvdan.cc/sh/v3/syntax.(Printer).Print" })
	isPO := func(n ast.Node) bool {
		for _, c := range nodeCalls(n) {
			if calleeOf(info, c) == poObj {
				return true
			}
		}
		return false
	}
	ok := len(prints) > 0
	for _, e := range ecEdges {
		// is Print reachable from e.To without passing propsOptions?
		seen := map[*FBlock]bool{}
		var walk func(b *FBlock) bool
		walk = func(b *FBlock) bool {
			if seen[b] {
				return false
			}
			seen[b] = true
			for i, n := range b.Nodes {
				if isPO(n) {
					return false
				}
				for _, ps := range prints {
					if ps.blk == b && ps.idx == i {
						return true
					}
				}
			}
			for _, s := range b.Succs {
				if walk(s.To) {
					return true
				}
			}
			return false
		}
		if walk(e.To) {
			ok = false
		}
	}
	r.Check(ok, "R36c", "cmd/shfmt.formatBytes#EditorConfig in use: propsOptions before every Print", fb.Pos(), "every path from the useEditorConfig branch to printer.Print passes propsOptions (which resets every per-file option)",
		"with EditorConfig in use some path formats a file without going through propsOptions: the shared printer keeps the previous file's options, so -l/-d/-w disagree with formatting that file alone")
}
