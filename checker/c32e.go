package main

import (
	"fmt"
	"go/ast"
	"go/types"
	"strings"
)

// R32e: a background job runs on a copy of its shell (subshell(true)), and the copy shares the shell's output streams.
// So whatever the interpreter itself installs as the stdout or stderr of a Runner at run time is written by several
// goroutines as soon as that shell starts a job. Every such store (outside New, Reset and the options, where the
// stream is the caller's and the contract is the caller's) takes a stream that is safe for that: one inherited from a
// Runner (r.stdout, r.origStdout, a local that saved one), an *os.File or *io.PipeWriter, or io.Discard. A bare
// io.Writer handed in by other code — the strings.Builder that package expand passes to the command substitution
// callback — is not.
func checkInstalledWritersShared(p *Prog, r *Result, rule string) {
	pkg := p.Pkg("interp")
	info := pkg.TypesInfo
	runnerT := lookupType(pkg, "Runner")
	if runnerT == nil {
		r.Fatalf("anchor interp.Runner not found")
		return
	}
	streamField := func(e ast.Expr) *types.Var {
		fv := selectorField(info, e)
		if fv == nil {
			return nil
		}
		switch fv.Name() {
		case "stdout", "stderr", "origStdout", "origStderr":
		default:
			return nil
		}
		se := ast.Unparen(e).(*ast.SelectorExpr)
		if namedOf(derefType(info.TypeOf(se.X))) != runnerT {
			return nil
		}
		return fv
	}
	optT := lookupType(pkg, "RunnerOption")
	n := 0
	for _, fd := range p.AllFuncDecls("interp") {
		if fd.Body == nil || strings.HasSuffix(p.Position(fd.Pos()), "_test.go") {
			continue
		}
		// configuration time: New, Reset and functions that return a RunnerOption
		if fd.Name.Name == "New" || fd.Name.Name == "Reset" {
			continue
		}
		if fd.Type.Results != nil && len(fd.Type.Results.List) == 1 && optT != nil && namedOf(info.TypeOf(fd.Type.Results.List[0].Type)) == optT {
			continue
		}
		seen := map[string]int{}
		ast.Inspect(fd.Body, func(m ast.Node) bool {
			as, ok := m.(*ast.AssignStmt)
			if !ok || len(as.Lhs) != len(as.Rhs) {
				return true
			}
			for i, l := range as.Lhs {
				fv := streamField(l)
				if fv == nil || (fv.Name() != "stdout" && fv.Name() != "stderr") {
					continue
				}
				rhs := ast.Unparen(as.Rhs[i])
				n++
				key := fmt.Sprintf("%s#%s = %s can be shared with background jobs", funcKey("interp", fd), exprString(l), exprString(rhs))
				seen[key]++
				if seen[key] > 1 {
					key += fmt.Sprintf("#%d", seen[key])
				}
				why := ""
				classify := func(e ast.Expr) string {
					e = ast.Unparen(e)
					if streamField(e) != nil {
						return "inherited from a Runner's own stream"
					}
					if t := info.TypeOf(e); t != nil {
						switch t.String() {
						case "*os.File", "*io.PipeWriter":
							return "a " + t.String() + ", safe for concurrent writers"
						}
					}
					if se, ok := e.(*ast.SelectorExpr); ok {
						if id, ok := se.X.(*ast.Ident); ok && id.Name == "io" && se.Sel.Name == "Discard" {
							return "io.Discard"
						}
					}
					if c, ok := e.(*ast.CallExpr); ok {
						if callee := calleeOf(info, c); callee != nil && callee.Name() == "open" {
							if sig, ok := callee.Type().(*types.Signature); ok && sig.Recv() != nil && namedOf(derefType(sig.Recv().Type())) == runnerT {
								return "a file opened through the open handler (an *os.File by default; a custom handler answers for what it returns)"
							}
						}
					}
					return ""
				}
				why = classify(rhs)
				if why == "" {
					if id, ok := rhs.(*ast.Ident); ok {
						if def := singleDef(info, fd, info.ObjectOf(id)); def != nil {
							why = classify(def)
						} else {
							// every definition of the local is a stream of one of those kinds
							all, any := true, false
							ast.Inspect(fd.Body, func(k ast.Node) bool {
								if a2, ok := k.(*ast.AssignStmt); ok && len(a2.Lhs) == len(a2.Rhs) {
									for j, l2 := range a2.Lhs {
										if x, ok := l2.(*ast.Ident); ok && info.ObjectOf(x) == info.ObjectOf(id) {
											any = true
											if classify(a2.Rhs[j]) == "" {
												all = false
											}
										}
									}
								}
								return true
							})
							if any && all {
								why = "every definition of the local is such a stream"
							}
						}
					}
				}
				if why == "" {
					// name the site by where the stream comes from, not by the function and local that happen to hold
					// the store: a writer handed to a callback stored in a Config field keeps that name when the body
					// of the callback moves into a helper
					if root := callbackWriterRoot(p, info, fd, as, rhs, 0); root != "" {
						key = fmt.Sprintf("interp#the %s of a shell is the writer handed to the %s callback: can be shared with background jobs", fv.Name(), root)
					}
				}
				r.Check(why != "", rule, key, as.Pos(), why,
					fmt.Sprintf("%s is installed as the %s of a shell at run time and is neither inherited from a Runner, nor an *os.File / *io.PipeWriter, nor io.Discard: background jobs of that shell run on copies that share the stream and write to it from their own goroutines — a data race on a plain io.Writer such as a strings.Builder, and lost output", exprString(rhs), fv.Name()))
			}
			return true
		})
	}
	if n == 0 {
		r.Bad(rule, "interp#no run-time store to Runner.stdout found", runnerT.Obj().Pos(), "the rule no longer sees the stores it is about")
	}
}

// callbackWriterRoot: the identifier is a parameter of a function literal stored under a struct field (a key of a
// composite literal, or assigned to one): that field's name. A parameter of a declared function is followed to the
// argument at each of its call sites in the package; all of them must agree.
func callbackWriterRoot(p *Prog, info *types.Info, fd *ast.FuncDecl, at ast.Node, e ast.Expr, depth int) string {
	id, ok := ast.Unparen(e).(*ast.Ident)
	if !ok || depth > 3 {
		return ""
	}
	obj := info.ObjectOf(id)
	if obj == nil {
		return ""
	}
	// a parameter of an enclosing function literal?
	root := ""
	var stack []ast.Node
	ast.Inspect(fd.Body, func(n ast.Node) bool {
		if n == nil {
			stack = stack[:len(stack)-1]
			return true
		}
		stack = append(stack, n)
		fl, ok := n.(*ast.FuncLit)
		if !ok || fl.Type.Params == nil || !(fl.Pos() <= at.Pos() && at.End() <= fl.End()) {
			return true
		}
		for _, f := range fl.Type.Params.List {
			for _, nm := range f.Names {
				if info.ObjectOf(nm) == obj && len(stack) >= 2 {
					switch par := stack[len(stack)-2].(type) {
					case *ast.KeyValueExpr:
						if k, ok := par.Key.(*ast.Ident); ok {
							root = k.Name
						}
					case *ast.AssignStmt:
						for i, r := range par.Rhs {
							if r == ast.Expr(fl) && i < len(par.Lhs) {
								if se, ok := ast.Unparen(par.Lhs[i]).(*ast.SelectorExpr); ok {
									root = se.Sel.Name
								}
							}
						}
					}
				}
			}
		}
		return true
	})
	if root != "" {
		return root
	}
	// a parameter of the declared function: follow the call sites
	idx := -1
	k := 0
	if fd.Type.Params != nil {
		for _, f := range fd.Type.Params.List {
			for _, nm := range f.Names {
				if info.ObjectOf(nm) == obj {
					idx = k
				}
				k++
			}
		}
	}
	if idx < 0 {
		return ""
	}
	self, _ := info.Defs[fd.Name].(*types.Func)
	agreed, first := "", true
	for _, cfd := range p.AllFuncDecls("interp") {
		if cfd.Body == nil {
			continue
		}
		ast.Inspect(cfd.Body, func(n ast.Node) bool {
			c, ok := n.(*ast.CallExpr)
			if !ok || calleeOf(info, c) != self || idx >= len(c.Args) {
				return true
			}
			got := callbackWriterRoot(p, info, cfd, c, c.Args[idx], depth+1)
			if first {
				agreed, first = got, false
			} else if got != agreed {
				agreed = ""
			}
			return true
		})
	}
	return agreed
}
