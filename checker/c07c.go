package main

import (
	"fmt"
	"go/ast"
	"go/types"
)

// R07c: fill() slides the unread bytes to the start of the buffer and resets the read position, so a copy of the read
// position (or of a slice of the buffer) taken before a call that may refill does not point at the same bytes
// afterwards. A local that was assigned from p.bsp (plus a constant) or from a slice of p.bs must not be used after
// such a call: whether the call refilled depends on how the reader chunked the input. No such local exists on the
// pinned tree; the rule is kept armed by a control.
func checkStaleCursorCopies(p *Prog, r *Result, a *r07, rule string) {
	info := a.info
	n := 0
	for fo, fd := range a.decls {
		if fd.Body == nil {
			continue
		}
		// candidate locals
		type cand struct {
			obj types.Object
			def *ast.AssignStmt
		}
		var cands []cand
		inspectNoLit(fd.Body, func(nd ast.Node) bool {
			as, ok := nd.(*ast.AssignStmt)
			if !ok || len(as.Lhs) != len(as.Rhs) {
				return true
			}
			for i, l := range as.Lhs {
				id, ok := l.(*ast.Ident)
				if !ok || id.Name == "_" {
					continue
				}
				obj := info.ObjectOf(id)
				if obj == nil {
					continue
				}
				rhs := ast.Unparen(as.Rhs[i])
				isCopy := false
				if a.isBsp(rhs) {
					isCopy = true
				} else if be, ok := rhs.(*ast.BinaryExpr); ok {
					if _, okb := a.bspPlus(be); okb {
						isCopy = true
					}
				} else if c, ok := rhs.(*ast.CallExpr); ok && len(c.Args) == 1 {
					if tv, ok := info.Types[c.Fun]; ok && tv.IsType() {
						if _, okb := a.bspPlus(c.Args[0]); okb {
							isCopy = true
						}
					}
				}
				if isCopy {
					cands = append(cands, cand{obj, as})
				}
			}
			return true
		})
		if len(cands) == 0 {
			continue
		}
		g := NewFGraph(info, fd.Body, nil)
		mayMove := func(nd ast.Node) bool {
			for _, c := range nodeCalls(nd) {
				if callee := calleeOf(info, c); callee != nil && a.moves[callee.Origin()] {
					return true
				}
			}
			return false
		}
		for _, c := range cands {
			n++
			blk, idx := g.BlockOf(c.def)
			key := fmt.Sprintf("%s#copy of the read position in %s is not used across a refill", funcObjKey(fo), c.obj.Name())
			if blk == nil {
				r.Undecided(rule, key, c.def.Pos(), "definition not found in the flow graph")
				continue
			}
			// forward walk: state moved / not moved
			type st struct {
				b     *FBlock
				moved bool
			}
			seen := map[st]bool{}
			bad := ""
			var walk func(b *FBlock, from int, moved bool)
			walk = func(b *FBlock, from int, moved bool) {
				for _, nd := range b.Nodes[from:] {
					// a new definition of the local ends this copy's life
					if as, ok := nd.(*ast.AssignStmt); ok && as != c.def {
						for _, l := range as.Lhs {
							if id, ok := l.(*ast.Ident); ok && info.ObjectOf(id) == c.obj {
								return
							}
						}
					}
					if moved {
						used := false
						inspectNoLit(nd, func(m ast.Node) bool {
							if id, ok := m.(*ast.Ident); ok && info.Uses[id] == c.obj {
								used = true
							}
							return true
						})
						if used && bad == "" {
							bad = p.Position(nd.Pos())
						}
					}
					if mayMove(nd) {
						moved = true
					}
				}
				for _, e := range b.Succs {
					k := st{e.To, moved}
					if !seen[k] {
						seen[k] = true
						walk(e.To, 0, moved)
					}
				}
			}
			walk(blk, idx+1, false)
			r.Check(bad == "", rule, key, c.def.Pos(), "every use comes before any call that may refill the buffer",
				fmt.Sprintf("%s holds the read position from before a call that may refill the buffer and is used after it (at %s): fill() slides the buffer and resets the position, so the value points at other bytes exactly when the reader happened to split the input there", c.obj.Name(), bad))
		}
	}
	if n == 0 {
		r.Notef("%s: no local holds a copy of the read position today (kept armed by a control)", rule)
	}
}
