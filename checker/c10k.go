package main

import (
	"fmt"
	"go/ast"
	"go/token"
	"go/types"
	"sort"
	"strings"

	"golang.org/x/tools/go/packages"
)

// R10k: an unclosed here-document is reported by doHeredocs itself, and ParseError.Incomplete is then
// `tok == _EOF && (openNodes > 0 || …)`. So every call of doHeredocs made by the parser proper (the lexer's newline arm
// is R10i's) happens inside an open-node window: either between `p.openNodes++` and `p.openNodes--` in the same
// function, or in a function that is itself only ever called inside such a window (greatest fixpoint over the static
// call graph; exported methods, function values and function literals start outside). A call outside the window turns
// "the body has not been typed yet" into a hard syntax error.
func checkHeredocsReadInsideWindow(p *Prog, r *Result, pkg *packages.Package, rule string) {
	info := pkg.TypesInfo
	doH := lookupFunc(pkg, "Parser.doHeredocs")
	lexer := lookupFunc(pkg, "Parser.next")
	parserT := lookupType(pkg, "Parser")
	if doH == nil || lexer == nil || parserT == nil {
		r.Fatalf("anchors Parser.doHeredocs / Parser.next not found")
		return
	}
	var openF *types.Var
	st := parserT.Underlying().(*types.Struct)
	for i := 0; i < st.NumFields(); i++ {
		if st.Field(i).Name() == "openNodes" {
			openF = st.Field(i)
		}
	}
	if openF == nil {
		r.Fatalf("anchor Parser.openNodes not found")
		return
	}
	type unit struct {
		fo   *types.Func // enclosing declared function
		lit  *ast.FuncLit
		body *ast.BlockStmt
		g    *FGraph
	}
	var units []*unit
	declared := map[*types.Func]*unit{}
	for _, f := range pkg.Syntax {
		if strings.HasSuffix(pkg.Fset.Position(f.Pos()).Filename, "_test.go") {
			continue
		}
		for _, d := range f.Decls {
			fd, ok := d.(*ast.FuncDecl)
			if !ok || fd.Body == nil {
				continue
			}
			fo, _ := info.Defs[fd.Name].(*types.Func)
			if fo == nil {
				continue
			}
			u := &unit{fo: fo, body: fd.Body}
			units = append(units, u)
			declared[fo] = u
			ast.Inspect(fd.Body, func(n ast.Node) bool {
				if fl, ok := n.(*ast.FuncLit); ok {
					units = append(units, &unit{fo: fo, lit: fl, body: fl.Body})
				}
				return true
			})
		}
	}
	sort.Slice(units, func(i, j int) bool { return units[i].body.Pos() < units[j].body.Pos() })
	for _, u := range units {
		u.g = NewFGraph(info, u.body, nil)
	}
	// functions used as values (not in call position) may be called from anywhere
	usedAsValue := map[*types.Func]bool{}
	for _, u := range units {
		called := map[*ast.Ident]bool{}
		ast.Inspect(u.body, func(n ast.Node) bool {
			if c, ok := n.(*ast.CallExpr); ok {
				switch f := ast.Unparen(c.Fun).(type) {
				case *ast.Ident:
					called[f] = true
				case *ast.SelectorExpr:
					called[f.Sel] = true
				}
			}
			return true
		})
		ast.Inspect(u.body, func(n ast.Node) bool {
			if id, ok := n.(*ast.Ident); ok && !called[id] {
				if fo, ok := info.Uses[id].(*types.Func); ok {
					usedAsValue[fo.Origin()] = true
				}
			}
			return true
		})
	}
	windowOnly := map[*types.Func]bool{}
	for fo := range declared {
		windowOnly[fo] = !fo.Exported() && !usedAsValue[fo]
	}
	type fact struct{ depth int }
	flowOf := func(u *unit) *flowResult[fact] {
		init := 0
		if u.lit == nil && windowOnly[u.fo] {
			init = 1
		}
		return runForward(u.g, flowSpec[fact]{
			Init:  fact{init},
			Join:  func(a, b fact) fact { return fact{min(a.depth, b.depth)} },
			Equal: func(a, b fact) bool { return a == b },
			Node: func(f fact, n ast.Node) fact {
				if s, ok := n.(*ast.IncDecStmt); ok && selectorField(info, s.X) == openF {
					if s.Tok == token.INC {
						return fact{min(f.depth+1, 8)}
					}
					return fact{max(f.depth-1, 0)}
				}
				return f
			},
		})
	}
	type site struct {
		u    *unit
		call *ast.CallExpr
		open bool
	}
	var sites map[*types.Func][]site
	for round := 0; round < 50; round++ {
		sites = map[*types.Func][]site{}
		for _, u := range units {
			res := flowOf(u)
			for _, b := range u.g.Blocks {
				for i, nd := range b.Nodes {
					f, ok := res.At(b, i)
					inspectNoLit(nd, func(m ast.Node) bool {
						if c, isCall := m.(*ast.CallExpr); isCall {
							if callee := calleeOf(info, c); callee != nil {
								sites[callee.Origin()] = append(sites[callee.Origin()], site{u, c, ok && f.depth > 0})
							}
						}
						return true
					})
				}
			}
		}
		changed := false
		for fo := range declared {
			if !windowOnly[fo] {
				continue
			}
			ss := sites[fo]
			good := len(ss) > 0
			for _, s := range ss {
				if !s.open {
					good = false
				}
			}
			if !good {
				windowOnly[fo] = false
				changed = true
			}
		}
		if !changed {
			break
		}
	}
	n := 0
	perFn := map[string]int{}
	for _, s := range sites[doH] {
		if s.u.lit == nil && s.u.fo == lexer {
			continue
		}
		perFn[s.u.fo.Name()]++
	}
	seen := map[string]int{}
	ss := sites[doH]
	sort.Slice(ss, func(i, j int) bool { return ss[i].call.Pos() < ss[j].call.Pos() })
	nWin := 0
	for _, b := range windowOnly {
		if b {
			nWin++
		}
	}
	for _, s := range ss {
		if s.u.lit == nil && s.u.fo == lexer {
			r.Notef("%s: the lexer's own call of doHeredocs (in next) is governed by R10i", rule)
			continue
		}
		n++
		name := qualName(s.u.fo)
		name = "syntax." + strings.TrimPrefix(name, pkg.PkgPath+".")
		if s.u.lit != nil {
			name += "$lit"
		}
		key := name + "#doHeredocs inside an open-node window"
		seen[s.u.fo.Name()]++
		if perFn[s.u.fo.Name()] > 1 {
			key = fmt.Sprintf("%s (%d)", key, seen[s.u.fo.Name()])
		}
		how := "the call lies between p.openNodes++ and p.openNodes-- on every path"
		if s.u.lit == nil && windowOnly[s.u.fo] {
			how = s.u.fo.Name() + " is only ever called inside an open-node window (all of its call sites, transitively)"
		}
		r.Check(s.open, rule, key, s.call.Pos(), how,
			"pending here-document bodies are read with no node open on some path to this call: if the input ends there the `unclosed here-document` error is computed with openNodes == 0 and is not incomplete, although the body simply has not been supplied yet")
	}
	r.Notef("%s: %d parser-side doHeredocs calls; %d of %d functions run only inside an open-node window", rule, n, nWin, len(declared))

	// The lexer's own call (next(), at a newline) is inside the window only if every token of a statement — its
	// terminator included — is read before the window closes. So in a function that maintains the window, once
	// p.openNodes-- has run and until the next p.openNodes++, the only call that may advance the lexer is
	// got(_Newl): it advances only when the token in hand is a newline, by which time the pending bodies were read.
	newlC, _ := pkg.Types.Scope().Lookup("_Newl").(*types.Const)
	nextFn := lookupFunc(pkg, "Parser.next")
	runeFn := lookupFunc(pkg, "Parser.rune")
	gotFn := lookupFunc(pkg, "Parser.got")
	errPass := lookupFunc(pkg, "Parser.errPass")
	if newlC == nil || nextFn == nil || runeFn == nil || gotFn == nil || errPass == nil {
		r.Fatalf("anchors _Newl / Parser.next / rune / got / errPass not found")
		return
	}
	fgs := newFuncGraphs(pkg)
	reporters := computeMustError(fgs, errPass)
	adv := map[*types.Func]bool{nextFn: true, runeFn: true}
	for changed := true; changed; {
		changed = false
		for fo, fd := range fgs.decls {
			if adv[fo] {
				continue
			}
			inspectNoLit(fd.Body, func(m ast.Node) bool {
				if c, ok := m.(*ast.CallExpr); ok && !adv[fo] {
					if callee := calleeOf(info, c); callee != nil && adv[callee.Origin()] {
						adv[fo] = true
						changed = true
					}
				}
				return true
			})
		}
	}
	nAfter := 0
	for _, u := range units {
		hasInc, hasDec := false, false
		inspectNoLit(u.body, func(m ast.Node) bool {
			if s, ok := m.(*ast.IncDecStmt); ok && selectorField(info, s.X) == openF {
				if s.Tok == token.INC {
					hasInc = true
				} else {
					hasDec = true
				}
			}
			return true
		})
		if !hasInc || !hasDec {
			continue
		}
		res := runForward(u.g, flowSpec[bool]{
			Init:  false,
			Join:  func(a, b bool) bool { return a || b },
			Equal: func(a, b bool) bool { return a == b },
			Node: func(f bool, nd ast.Node) bool {
				if s, ok := nd.(*ast.IncDecStmt); ok && selectorField(info, s.X) == openF {
					return s.Tok == token.DEC
				}
				return f
			},
		})
		seenKeys := map[string]int{}
		for _, b := range u.g.Blocks {
			for i, nd := range b.Nodes {
				after, ok := res.At(b, i)
				if !ok || !after {
					continue
				}
				inspectNoLit(nd, func(m ast.Node) bool {
					c, isCall := m.(*ast.CallExpr)
					if !isCall {
						return true
					}
					callee := calleeOf(info, c)
					if callee == nil || !adv[callee.Origin()] || reporters[callee.Origin()] {
						return true
					}
					nAfter++
					name := "syntax." + strings.TrimPrefix(qualName(u.fo), pkg.PkgPath+".")
					key := fmt.Sprintf("%s#after the window closes only got(_Newl) advances the lexer: %s", name, exprString(c))
					seenKeys[key]++
					if seenKeys[key] > 1 {
						key += fmt.Sprintf("#%d", seenKeys[key])
					}
					okForm := false
					if callee.Origin() == gotFn && len(c.Args) == 1 {
						if tv, has := info.Types[c.Args[0]]; has && tv.Value != nil && types.Identical(tv.Type, newlC.Type()) && tv.Value.ExactString() == newlC.Val().ExactString() {
							okForm = true
						}
					}
					r.Check(okForm, rule, key, c.Pos(), "advances only when the token in hand is a newline, after the pending bodies were read",
						"after p.openNodes-- and before the next p.openNodes++ the lexer is advanced by something other than got(_Newl): a token of the statement (its terminator, say) is then read with no node open, and if that read reaches the newline the pending here-document bodies are read outside the window — cut there, the error is not incomplete")
					return true
				})
			}
		}
	}
	r.Notef("%s: %d lexer-advancing calls between a window's close and the next open", rule, nAfter)
}
