package main

import (
	"fmt"
	"go/ast"
	"go/token"
	"go/types"
	"sort"
	"strings"
)

// R04i: Simplify removes a subshell's parentheses where they change nothing: `$( (cmd) )`, `( (cmd) )` — places
// where the statements run in a copy of the shell anyway. Whether a place is such a place is not a fact about the
// syntax but about the interpreter: a pipeline's last element, for one, runs in the calling shell (like bash with
// lastpipe), so `echo hi | (read x)` and `echo hi | read x` differ. The rule therefore reads the isolated places off
// package interp — every call that runs the statements held in a field of a node (`X.stmts(ctx, node.F)`,
// `X.stmt(ctx, node.F)`), with X a local that only ever holds the result of subshell(), under the operator values
// of the enclosing case — and requires each call site of a simplifier function that unwraps a *Subshell to pass a
// field that runs isolated for every operator value the call can be made under.
func checkSubshellUnwrapContexts(p *Prog, r *Result, si *syntaxInfo, rule string) {
	spkg := si.pkg
	sinfo := spkg.TypesInfo
	ipkg := p.Pkg("interp")
	if ipkg == nil {
		r.Undecided(rule, "interp#package", token.NoPos, "package interp not loaded: the places that run in a copy of the shell cannot be read off the interpreter")
		return
	}
	iinfo := ipkg.TypesInfo
	// operator values a use of holder.Op-sensitive code at pos can run under: constants of the enclosing case clause of
	// `switch holder.Op`, or of an enclosing `if holder.Op == K || …`; nil when unconstrained
	opsAt := func(info *types.Info, body ast.Node, holder string, pos token.Pos) map[string]bool {
		var out map[string]bool
		ast.Inspect(body, func(n ast.Node) bool {
			switch x := n.(type) {
			case *ast.SwitchStmt:
				if x.Tag == nil || exprString(x.Tag) != holder+".Op" {
					return true
				}
				for _, c := range x.Body.List {
					cc := c.(*ast.CaseClause)
					if cc.Pos() <= pos && pos <= cc.End() && cc.List != nil {
						out = map[string]bool{}
						for _, e := range cc.List {
							if tv, ok := info.Types[e]; ok && tv.Value != nil {
								out[tv.Value.ExactString()] = true
							}
						}
					}
				}
			case *ast.IfStmt:
				if !(x.Body.Pos() <= pos && pos <= x.Body.End()) {
					return true
				}
				set := map[string]bool{}
				all := true
				for _, d := range disjuncts(x.Cond) {
					be, ok := ast.Unparen(d).(*ast.BinaryExpr)
					if !ok || be.Op != token.EQL || exprString(be.X) != holder+".Op" {
						all = false
						continue
					}
					if tv, ok := info.Types[be.Y]; ok && tv.Value != nil {
						set[tv.Value.ExactString()] = true
					} else {
						all = false
					}
				}
				if all && len(set) > 0 {
					out = set
				}
			}
			return true
		})
		return out
	}
	// interp: executions of node fields
	type exec struct {
		isolated bool
		ops      map[string]bool
		where    string
	}
	execs := map[string][]exec{} // "Type.Field"
	stmtFn, stmtsFn := lookupFunc(ipkg, "Runner.stmt"), lookupFunc(ipkg, "Runner.stmts")
	if stmtFn == nil || stmtsFn == nil {
		r.Undecided(rule, "interp#Runner.stmt / Runner.stmts", token.NoPos, "anchors not found")
		return
	}
	for _, fd := range p.AllFuncDecls("interp") {
		if fd.Body == nil || strings.HasSuffix(p.Position(fd.Pos()), "_test.go") {
			continue
		}
		ast.Inspect(fd.Body, func(n ast.Node) bool {
			c, ok := n.(*ast.CallExpr)
			if !ok || len(c.Args) != 2 {
				return true
			}
			callee := calleeOf(iinfo, c)
			if callee != stmtFn && callee != stmtsFn {
				return true
			}
			recv := ast.Unparen(ast.Unparen(c.Fun).(*ast.SelectorExpr).X)
			arg, ok := ast.Unparen(c.Args[1]).(*ast.SelectorExpr)
			var argFd *ast.FuncDecl = fd
			var argCall *ast.CallExpr = c
			type site struct {
				arg  *ast.SelectorExpr
				fd   *ast.FuncDecl
				call *ast.CallExpr
			}
			var more []site
			if !ok {
				// the statements come in as a parameter (the body of the construct was moved into a helper): the
				// field is named at the helper's call sites
				id, isID := ast.Unparen(c.Args[1]).(*ast.Ident)
				if !isID {
					return true
				}
				idx, k := -1, 0
				if fd.Type.Params != nil {
					for _, f := range fd.Type.Params.List {
						for _, nm := range f.Names {
							if iinfo.ObjectOf(nm) == iinfo.ObjectOf(id) {
								idx = k
							}
							k++
						}
					}
				}
				if idx < 0 {
					return true
				}
				self, _ := iinfo.Defs[fd.Name].(*types.Func)
				for _, cfd := range p.AllFuncDecls("interp") {
					if cfd.Body == nil {
						continue
					}
					ast.Inspect(cfd.Body, func(q ast.Node) bool {
						cc, isCall := q.(*ast.CallExpr)
						if !isCall || calleeOf(iinfo, cc) != self || idx >= len(cc.Args) {
							return true
						}
						if se, isSel := ast.Unparen(cc.Args[idx]).(*ast.SelectorExpr); isSel {
							if arg == nil {
								arg, argFd, argCall = se, cfd, cc
							} else {
								more = append(more, site{se, cfd, cc})
							}
						}
						return true
					})
				}
				if arg == nil {
					return true
				}
			}
			fv := selectorField(iinfo, arg)
			nt := namedOf(derefType(iinfo.TypeOf(arg.X)))
			if fv == nil || nt == nil || nt.Obj().Pkg() != spkg.Types {
				return true
			}
			isolated := false
			if id, ok := recv.(*ast.Ident); ok {
				obj := iinfo.ObjectOf(id)
				defs, allSub := 0, true
				ast.Inspect(fd.Body, func(m ast.Node) bool {
					as, ok := m.(*ast.AssignStmt)
					if !ok || len(as.Lhs) != len(as.Rhs) {
						return true
					}
					for i, l := range as.Lhs {
						if lid, ok := l.(*ast.Ident); ok && iinfo.ObjectOf(lid) == obj {
							defs++
							cc, ok := ast.Unparen(as.Rhs[i]).(*ast.CallExpr)
							if !ok || calleeOf(iinfo, cc) == nil || calleeOf(iinfo, cc).Name() != "subshell" {
								allSub = false
							}
						}
					}
					return true
				})
				isolated = defs > 0 && allSub
			}
			k := nt.Obj().Name() + "." + fv.Name()
			execs[k] = append(execs[k], exec{isolated, opsAt(iinfo, argFd.Body, exprString(arg.X), argCall.Pos()), p.Position(c.Pos())})
			for _, m := range more {
				if fv2, nt2 := selectorField(iinfo, m.arg), namedOf(derefType(iinfo.TypeOf(m.arg.X))); fv2 != nil && nt2 != nil && nt2.Obj().Pkg() == spkg.Types {
					k2 := nt2.Obj().Name() + "." + fv2.Name()
					execs[k2] = append(execs[k2], exec{isolated, opsAt(iinfo, m.fd.Body, exprString(m.arg.X), m.call.Pos()), p.Position(c.Pos())})
				}
			}
			return true
		})
	}
	// simplifier: functions that unwrap a *Subshell
	unwrappers := map[*types.Func]bool{}
	for _, fd := range p.AllFuncDecls("syntax") {
		if fd.Body == nil || recvTypeName(fd) != "simplifier" {
			continue
		}
		found := false
		ast.Inspect(fd.Body, func(n ast.Node) bool {
			if ta, ok := n.(*ast.TypeAssertExpr); ok && ta.Type != nil {
				if nt := namedOf(derefType(sinfo.TypeOf(ta.Type))); nt != nil && nt.Obj().Name() == "Subshell" {
					found = true
				}
			}
			return true
		})
		if found {
			if fo, ok := sinfo.Defs[fd.Name].(*types.Func); ok {
				unwrappers[fo] = true
			}
		}
	}
	n := 0
	for _, fd := range p.AllFuncDecls("syntax") {
		if fd.Body == nil || recvTypeName(fd) != "simplifier" {
			continue
		}
		seen := map[string]int{}
		ast.Inspect(fd.Body, func(m ast.Node) bool {
			c, ok := m.(*ast.CallExpr)
			if !ok || len(c.Args) != 1 {
				return true
			}
			callee := calleeOf(sinfo, c)
			if callee == nil || !unwrappers[callee] {
				return true
			}
			if self, _ := sinfo.Defs[fd.Name].(*types.Func); self == callee {
				return true
			}
			n++
			arg, ok := ast.Unparen(c.Args[0]).(*ast.SelectorExpr)
			what := exprString(c.Args[0])
			if ok {
				if nt := namedOf(derefType(sinfo.TypeOf(arg.X))); nt != nil {
					what = nt.Obj().Name() + "." + arg.Sel.Name
				}
			}
			key := fmt.Sprintf("%s#%s(%s) unwraps a subshell only where the statements run in a copy of the shell", funcKey("syntax", fd), callee.Name(), what)
			seen[key]++
			if seen[key] > 1 {
				key += fmt.Sprintf("#%d", seen[key])
			}
			if !ok {
				r.Undecided(rule, key, c.Pos(), "the argument is not a field of a node: the rule cannot tell which place of the tree loses its parentheses")
				return true
			}
			fv := selectorField(sinfo, arg)
			nt := namedOf(derefType(sinfo.TypeOf(arg.X)))
			if fv == nil || nt == nil {
				r.Undecided(rule, key, c.Pos(), "the argument is not a field of a node")
				return true
			}
			k := nt.Obj().Name() + "." + fv.Name()
			ops := opsAt(sinfo, fd.Body, exprString(arg.X), c.Pos())
			var relevant, bad []string
			for _, e := range execs[k] {
				meets := ops == nil || e.ops == nil
				for o := range ops {
					if e.ops[o] {
						meets = true
					}
				}
				if !meets {
					continue
				}
				relevant = append(relevant, e.where)
				if !e.isolated {
					bad = append(bad, e.where)
				}
			}
			sort.Strings(bad)
			switch {
			case len(relevant) == 0:
				r.Bad(rule, key, c.Pos(), fmt.Sprintf("package interp has no call that runs the statements of %s (under the operators this call is made for): nothing shows that they run in a copy of the shell, which is the only reason the parentheses are redundant", k))
			case len(bad) > 0:
				r.Bad(rule, key, c.Pos(), fmt.Sprintf("the interpreter runs %s in the calling shell at %s: parentheses there are what keeps assignments, cd and exit away from the caller (`echo hi | (read x)` against `echo hi | read x`), so removing them changes what the program does", k, strings.Join(bad, ", ")))
			default:
				r.OK(rule, key, c.Pos(), fmt.Sprintf("every run of %s in package interp (%s) is on a Runner made by subshell()", k, strings.Join(relevant, ", ")))
			}
			return true
		})
	}
	if n == 0 {
		r.Undecided(rule, "syntax.(simplifier)#subshell unwrapping", token.NoPos, "no call of a function that unwraps a *Subshell found in the simplifier: the rule no longer sees the rewrite it is about")
	}
}
