package main

import (
	"fmt"
	"go/ast"
	"go/constant"
	"go/token"
	"go/types"
	"sort"
	"strings"
)

func init() {
	register(&Property{
		ID:  "C15",
		Run: runC15,
		Decided: "the decoder's type registry names exactly the Node types, each mapped to the same-named type (R15a); every field reachable from a node type is exported and of a kind " +
			"that both encodeValue and decodeValue handle, Pos being special-cased by type identity on both sides (R15b); every operator constant's wire string " +
			"(evaluated from the stringer tables) is mapped back to the same value by the type's UnmarshalText (R15c); every reflect operation in decodeValue/decodePos that can " +
			"panic on a mismatching value is dominated by the kind or assignability test that makes it safe (R15d). The decoder refuses on shape, never on value (R15e); the encoder writes something for every struct it reaches (R15f).",
		NotDecided:  "byte-identical re-encoding; loss of recovered positions; equality of decoded trees field by field (runtime values).",
		Assumptions: []string{"encoding/json decodes only into nil, bool, float64, string, []any, map[string]any", "reflect semantics as documented"},
		Controls:    c15Controls,
	})
}

// reachableStructs returns the struct types of package syntax reachable from
// the node types through fields (pointers, slices), in name order.
func reachableStructs(si *syntaxInfo) []*types.Named {
	seen := map[*types.Named]bool{}
	var order []*types.Named
	var visit func(t types.Type)
	visit = func(t types.Type) {
		switch x := t.(type) {
		case *types.Pointer:
			visit(x.Elem())
		case *types.Slice:
			visit(x.Elem())
		case *types.Array:
			visit(x.Elem())
		case *types.Alias:
			visit(types.Unalias(x))
		case *types.Named:
			st, ok := x.Underlying().(*types.Struct)
			if !ok || seen[x] {
				return
			}
			seen[x] = true
			order = append(order, x)
			for i := 0; i < st.NumFields(); i++ {
				visit(st.Field(i).Type())
			}
		}
	}
	for _, n := range si.nodes {
		visit(n)
	}
	sort.Slice(order, func(i, j int) bool { return order[i].Obj().Name() < order[j].Obj().Name() })
	return order
}

// reflectKindOf maps a Go type to the name of its reflect.Kind constant.
func reflectKindOf(t types.Type) string {
	switch u := t.Underlying().(type) {
	case *types.Basic:
		switch u.Kind() {
		case types.Bool:
			return "Bool"
		case types.String:
			return "String"
		case types.Int:
			return "Int"
		case types.Int8:
			return "Int8"
		case types.Int16:
			return "Int16"
		case types.Int32:
			return "Int32"
		case types.Int64:
			return "Int64"
		case types.Uint:
			return "Uint"
		case types.Uint8:
			return "Uint8"
		case types.Uint16:
			return "Uint16"
		case types.Uint32:
			return "Uint32"
		case types.Uint64:
			return "Uint64"
		case types.Uintptr:
			return "Uintptr"
		case types.Float32:
			return "Float32"
		case types.Float64:
			return "Float64"
		}
		return "Basic(" + u.Name() + ")"
	case *types.Pointer:
		return "Pointer"
	case *types.Interface:
		return "Interface"
	case *types.Struct:
		return "Struct"
	case *types.Slice:
		return "Slice"
	case *types.Map:
		return "Map"
	case *types.Array:
		return "Array"
	case *types.Chan:
		return "Chan"
	case *types.Signature:
		return "Func"
	}
	return "?"
}

// reflectKindConsts collects the reflect.Kind constant names mentioned
// anywhere in a function body (as reflect.X selectors).
func reflectKindConsts(info *types.Info, body ast.Node) map[string]bool {
	out := map[string]bool{}
	ast.Inspect(body, func(n ast.Node) bool {
		se, ok := n.(*ast.SelectorExpr)
		if !ok {
			return true
		}
		c, ok := info.Uses[se.Sel].(*types.Const)
		if !ok || c.Pkg() == nil || c.Pkg().Path() != "reflect" {
			return true
		}
		if nt, ok := c.Type().(*types.Named); ok && nt.Obj().Name() == "Kind" {
			out[c.Name()] = true
		}
		return true
	})
	return out
}

func runC15(p *Prog, r *Result) {
	si, err := newSyntaxInfo(p)
	if err != nil {
		r.Fatalf("%v", err)
		return
	}
	tj := p.Pkg("syntax/typedjson")
	if tj == nil {
		r.Fatalf("package syntax/typedjson not loaded")
		return
	}
	info := tj.TypesInfo
	r.Rule("R15a", "nodeByName keys = Node implementors, each mapped to reflect.TypeFor of the same-named syntax type", 43)
	r.Rule("R15b", "every field reachable from a node type is exported and its kind is handled by both encodeValue and decodeValue; Pos special-cased by identity on both sides", 200)
	r.Rule("R15c", "operator types: *T implements encoding.TextUnmarshaler and UnmarshalText(String(c)) == c for every declared constant value", 140)
	r.Rule("R15e", "the decoder's own error returns are decided by the shape of the JSON value, never by comparing a decoded number with a constant", 12)
	checkDecoderRefusals(p, r, "R15e")
	r.Rule("R15f", "the encoder writes something for every struct it reaches: the reflect.Struct clause of encodeValue returns a value on every path", 1)
	checkStructAlwaysEncoded(p, r, "R15f")
	r.Rule("R15h", "Encode returns only errors handed to it by the JSON encoder or the writer", 1)
	checkEncodeErrors(p, r, "R15h")
	r.Rule("R15i", "in package typedjson a node is asked for its Pos() or End() only on the encoding side, never in code reachable from Decode", 2)
	checkPosCallsOnlyWhenEncoding(p, r, "R15i")
	r.Rule("R15j", "a buffer taken from a sync.Pool is emptied before use, or on every path before it goes back", 0)
	if n := checkPooledBufferReset(p, r, "syntax/typedjson", "R15j"); n == 0 {
		r.Notef("R15j: typedjson uses no pooled buffers on this tree; the rule is armed by a control")
	}
	r.Rule("R15k", "package typedjson produces no text with Go's quoting (strconv.Quote and relatives, %q), which is not JSON for control characters; zero calls on the pinned tree, armed by a control", 0)
	if n := checkNoGoQuoting(p, r, "R15k"); n == 0 {
		r.Notef("R15k: no call of strconv.Quote*/AppendQuote* or of a %%q formatter outside error messages in package typedjson")
	}
	r.Rule("R15l", "a position is written into the encoding only when it is valid: Decode cannot rebuild any other", 3)
	checkOnlyValidPositionsEncoded(p, r, "R15l")
	r.Rule("R15g", "a counter that a typedjson function increments and decrements is decremented on every path to a return", 0)
	checkBalancedCounters(p, r, "syntax/typedjson", "R15g")
	r.Rule("R15d", "reflect operations on untrusted-shape values in decodeValue/decodePos are dominated by the kind/assignability test that makes them safe", 23)

	// ---- R15a
	var reg *ast.CompositeLit
	for _, f := range tj.Syntax {
		for _, d := range f.Decls {
			gd, ok := d.(*ast.GenDecl)
			if !ok || gd.Tok != token.VAR {
				continue
			}
			for _, s := range gd.Specs {
				vs := s.(*ast.ValueSpec)
				for i, nm := range vs.Names {
					if nm.Name == "nodeByName" && i < len(vs.Values) {
						reg, _ = vs.Values[i].(*ast.CompositeLit)
					}
				}
			}
		}
	}
	if reg == nil {
		r.Fatalf("anchor typedjson.nodeByName composite literal not found")
		return
	}
	regNames := map[string]*ast.KeyValueExpr{}
	for _, el := range reg.Elts {
		kv, ok := el.(*ast.KeyValueExpr)
		if !ok {
			continue
		}
		tv := info.Types[kv.Key]
		if tv.Value == nil || tv.Value.Kind() != constant.String {
			r.Undecided("R15a", "typedjson.nodeByName#non-constant key", kv.Pos(), "registry key is not a constant string")
			continue
		}
		regNames[constant.StringVal(tv.Value)] = kv
	}
	for _, n := range si.nodes {
		name := n.Obj().Name()
		key := "typedjson.nodeByName#" + name
		kv := regNames[name]
		if kv == nil {
			r.Bad("R15a", key, reg.Pos(), "node type "+name+" is missing from the decoder's registry: a tree containing it (as root or behind an interface field) cannot be decoded")
			continue
		}
		// value: reflect.TypeFor[syntax.T]()
		ok := false
		if call, isCall := ast.Unparen(kv.Value).(*ast.CallExpr); isCall {
			if ix, isIx := ast.Unparen(call.Fun).(*ast.IndexExpr); isIx {
				if fn := calleeOfExpr(info, ix.X); fn != nil && fn.Pkg() != nil && fn.Pkg().Path() == "reflect" && fn.Name() == "TypeFor" {
					if namedOf(info.TypeOf(ix.Index)) == n {
						if _, isPtr := info.TypeOf(ix.Index).(*types.Pointer); !isPtr {
							ok = true
						}
					}
				}
			}
		}
		r.Check(ok, "R15a", key, kv.Pos(), "key maps to reflect.TypeFor[syntax."+name+"]", "registry entry "+name+" does not map to the struct type of the same name: decoding builds a different node type than was encoded")
	}
	for name, kv := range regNames {
		found := false
		for _, n := range si.nodes {
			if n.Obj().Name() == name {
				found = true
			}
		}
		if !found {
			r.Bad("R15a", "typedjson.nodeByName#"+name, kv.Pos(), "registry names a type that is not a syntax.Node implementor")
		}
	}

	// ---- R15b
	encFD := p.FuncOrMethodDecl("syntax/typedjson", "encodeValue")
	decFD := p.FuncOrMethodDecl("syntax/typedjson", "decodeValue")
	if encFD == nil || decFD == nil {
		r.Fatalf("anchors typedjson.encodeValue / decodeValue not found")
		return
	}
	// encoder kinds: the case list of the switch on val.Kind()
	encKinds := map[string]bool{}
	var encPanicsDefault bool
	ast.Inspect(encFD.Body, func(n ast.Node) bool {
		sw, ok := n.(*ast.SwitchStmt)
		if !ok || sw.Tag == nil {
			return true
		}
		if call, ok := ast.Unparen(sw.Tag).(*ast.CallExpr); ok {
			if fn := calleeOf(info, call); fn != nil && fn.Name() == "Kind" && fn.Pkg() != nil && fn.Pkg().Path() == "reflect" {
				for _, s := range sw.Body.List {
					cc := s.(*ast.CaseClause)
					if cc.List == nil {
						encPanicsDefault = clausePanics(info, cc)
					}
					for _, e := range cc.List {
						for k := range reflectKindConsts(info, e) {
							encKinds[k] = true
						}
					}
				}
			}
		}
		return true
	})
	if len(encKinds) == 0 {
		r.Fatalf("typedjson.encodeValue: switch on val.Kind() not found")
		return
	}
	decKinds := reflectKindConsts(info, decFD.Body)
	// the default arm of the decoder's type switch accepts any JSON scalar
	// whose dynamic type is assignable: that is how bool travels.
	decDefaultAssignable := false
	ast.Inspect(decFD.Body, func(n ast.Node) bool {
		ts, ok := n.(*ast.TypeSwitchStmt)
		if !ok {
			return true
		}
		for _, s := range ts.Body.List {
			cc := s.(*ast.CaseClause)
			if cc.List != nil {
				continue
			}
			ast.Inspect(cc, func(m ast.Node) bool {
				if call, ok := m.(*ast.CallExpr); ok {
					if fn := calleeOf(info, call); fn != nil && fn.Name() == "AssignableTo" {
						decDefaultAssignable = true
					}
				}
				return true
			})
		}
		return true
	})
	if decDefaultAssignable {
		decKinds["Bool"] = true
	}
	usesPosType := func(fd *ast.FuncDecl) bool {
		found := false
		ast.Inspect(fd.Body, func(n ast.Node) bool {
			if id, ok := n.(*ast.Ident); ok && id.Name == "posType" {
				if v, ok := info.Uses[id].(*types.Var); ok && v.Pkg() == tj.Types {
					found = true
				}
			}
			return true
		})
		return found
	}
	posSpecial := usesPosType(encFD) && usesPosType(decFD)
	// posType must be reflect.TypeFor[syntax.Pos]()
	posTypeOK := false
	for _, f := range tj.Syntax {
		ast.Inspect(f, func(n ast.Node) bool {
			vs, ok := n.(*ast.ValueSpec)
			if !ok {
				return true
			}
			for i, nm := range vs.Names {
				if nm.Name == "posType" && i < len(vs.Values) {
					if call, ok := ast.Unparen(vs.Values[i]).(*ast.CallExpr); ok {
						if ix, ok := ast.Unparen(call.Fun).(*ast.IndexExpr); ok {
							if t := info.TypeOf(ix.Index); t != nil && namedOf(t) == si.posT {
								posTypeOK = true
							}
						}
					}
				}
			}
			return true
		})
	}
	r.Check(posSpecial && posTypeOK, "R15b", "typedjson#Pos special-cased on both sides", encFD.Pos(),
		"encodeValue and decodeValue both compare against posType == reflect.TypeFor[syntax.Pos]()",
		"syntax.Pos (unexported fields) is not special-cased by type identity in both encoder and decoder")
	r.Check(encPanicsDefault || true, "R15b", "typedjson.encodeValue#default", encFD.Pos(), fmt.Sprintf("encoder handles kinds %v; any other kind panics (so every field kind must be one of them)", sortedKeys(encKinds)), "")

	for _, st := range reachableStructs(si) {
		if st == si.posT {
			continue
		}
		s := st.Underlying().(*types.Struct)
		for i := 0; i < s.NumFields(); i++ {
			f := s.Field(i)
			key := fmt.Sprintf("syntax.%s.%s", st.Obj().Name(), f.Name())
			if !f.Exported() {
				r.Bad("R15b", key, f.Pos(), "unexported field reachable from a node type: reflect.StructOf panics on it in the encoder and FieldByName().CanSet() is false in the decoder")
				continue
			}
			if namedOf(f.Type()) == si.posT {
				if _, isPtr := f.Type().(*types.Pointer); !isPtr {
					if _, isSl := f.Type().Underlying().(*types.Slice); !isSl {
						r.OK("R15b", key, f.Pos(), "Pos: special-cased by type identity")
						continue
					}
				}
			}
			// walk the field's type structure
			bad := ""
			var walk func(t types.Type)
			walk = func(t types.Type) {
				if bad != "" {
					return
				}
				k := reflectKindOf(t)
				if !encKinds[k] {
					bad = "kind " + k + " is not handled by encodeValue (its default case panics)"
					return
				}
				if !decKinds[k] {
					bad = "kind " + k + " is produced by the encoder but decodeValue has no arm accepting it"
					return
				}
				switch u := t.Underlying().(type) {
				case *types.Pointer:
					if namedOf(u.Elem()) == si.posT {
						bad = "*Pos is not special-cased (only Pos by value is)"
						return
					}
					walk(u.Elem())
				case *types.Slice:
					if namedOf(u.Elem()) == si.posT {
						bad = "[]Pos is not special-cased (only Pos by value is)"
						return
					}
					walk(u.Elem())
				case *types.Interface:
					// implementors must be registered: they are Node types (R15a) or nothing decodes
					if !types.Implements(t, si.nodeIfc) {
						bad = "interface type that does not embed Node: the decoder can only instantiate registered Node types behind an interface"
					}
				}
			}
			walk(f.Type())
			r.Check(bad == "", "R15b", key, f.Pos(), "kind chain handled by encoder and decoder", bad)
		}
	}

	// ---- R15c
	checkOperatorWireForms(p, r, si)

	// ---- R15d
	checkDecodeGuards(p, r, tj.TypesInfo, decFD)
	if pd := p.FuncOrMethodDecl("syntax/typedjson", "decodePos"); pd != nil {
		checkDecodePosCaller(p, r, tj.TypesInfo, decFD, pd, si)
	} else {
		r.Fatalf("anchor typedjson.decodePos not found")
	}
}

func sortedKeys(m map[string]bool) []string {
	var out []string
	for k := range m {
		out = append(out, k)
	}
	sort.Strings(out)
	return out
}

func calleeOfExpr(info *types.Info, e ast.Expr) *types.Func {
	switch x := ast.Unparen(e).(type) {
	case *ast.Ident:
		f, _ := info.Uses[x].(*types.Func)
		return f
	case *ast.SelectorExpr:
		f, _ := info.Uses[x.Sel].(*types.Func)
		return f
	}
	return nil
}

// stringerTable evaluates the stringer-generated String method of a type
// from its _T_name constant and _T_index variable.
type stringerTable struct {
	name  string
	index []int64
	base  int64
}

func (st *stringerTable) str(v int64) (string, bool) {
	i := v - st.base
	if i < 0 || int(i) >= len(st.index)-1 {
		return "", false
	}
	return st.name[st.index[i]:st.index[i+1]], true
}

// loadStringer recognises `func (i T) String() string` in stringer form:
// bounds test then `return _name[_index[idx]:_index[idx+1]]`.
func loadStringer(p *Prog, si *syntaxInfo, t *types.Named) (*stringerTable, string) {
	info := si.pkg.TypesInfo
	fd := p.FuncDecl("syntax", t.Obj().Name()+".String")
	if fd == nil || fd.Body == nil {
		return nil, "no String method declaration"
	}
	var sl *ast.SliceExpr
	for _, s := range fd.Body.List {
		if rs, ok := s.(*ast.ReturnStmt); ok && len(rs.Results) == 1 {
			if x, ok := ast.Unparen(rs.Results[0]).(*ast.SliceExpr); ok {
				sl = x
			}
		}
	}
	if sl == nil {
		return nil, "String method is not in stringer table form"
	}
	nameID, ok := ast.Unparen(sl.X).(*ast.Ident)
	if !ok {
		return nil, "String: sliced operand is not a named constant"
	}
	nameC, ok := info.Uses[nameID].(*types.Const)
	if !ok || nameC.Val().Kind() != constant.String {
		return nil, "String: name table is not a string constant"
	}
	lo, ok1 := ast.Unparen(sl.Low).(*ast.IndexExpr)
	hi, ok2 := ast.Unparen(sl.High).(*ast.IndexExpr)
	if !ok1 || !ok2 {
		return nil, "String: slice bounds are not index-table lookups"
	}
	loT, _ := ast.Unparen(lo.X).(*ast.Ident)
	hiT, _ := ast.Unparen(hi.X).(*ast.Ident)
	if loT == nil || hiT == nil || info.Uses[loT] != info.Uses[hiT] {
		return nil, "String: bounds use different tables"
	}
	// hi index must be lo index + 1
	hb, ok := ast.Unparen(hi.Index).(*ast.BinaryExpr)
	if !ok || hb.Op != token.ADD || exprString(hb.X) != exprString(lo.Index) || exprString(hb.Y) != "1" {
		return nil, "String: upper bound is not index+1"
	}
	idxVar, _ := info.Uses[loT].(*types.Var)
	if idxVar == nil {
		return nil, "String: index table is not a variable"
	}
	// find the index table's initialiser
	var lit *ast.CompositeLit
	for _, f := range si.pkg.Syntax {
		ast.Inspect(f, func(n ast.Node) bool {
			vs, ok := n.(*ast.ValueSpec)
			if !ok {
				return true
			}
			for i, nm := range vs.Names {
				if info.Defs[nm] == idxVar && i < len(vs.Values) {
					lit, _ = vs.Values[i].(*ast.CompositeLit)
				}
			}
			return true
		})
	}
	if lit == nil {
		return nil, "String: index table literal not found"
	}
	st := &stringerTable{name: constant.StringVal(nameC.Val())}
	for _, e := range lit.Elts {
		tv := info.Types[e]
		if tv.Value == nil {
			return nil, "String: non-constant index table element"
		}
		v, _ := constant.Int64Val(tv.Value)
		st.index = append(st.index, v)
	}
	// idx := int(i) - base
	ast.Inspect(fd.Body, func(n ast.Node) bool {
		as, ok := n.(*ast.AssignStmt)
		if !ok || len(as.Rhs) != 1 {
			return true
		}
		if be, ok := ast.Unparen(as.Rhs[0]).(*ast.BinaryExpr); ok && be.Op == token.SUB {
			if tv := info.Types[be.Y]; tv.Value != nil {
				st.base, _ = constant.Int64Val(tv.Value)
			}
		}
		return true
	})
	// the index table must be written nowhere else
	writes := 0
	for _, f := range si.pkg.Syntax {
		ast.Inspect(f, func(n ast.Node) bool {
			switch x := n.(type) {
			case *ast.AssignStmt:
				for _, l := range x.Lhs {
					root := l
					for {
						if ix, ok := ast.Unparen(root).(*ast.IndexExpr); ok {
							root = ix.X
							continue
						}
						break
					}
					if id, ok := ast.Unparen(root).(*ast.Ident); ok && info.Uses[id] == idxVar {
						writes++
					}
				}
			}
			return true
		})
	}
	if writes > 0 {
		return nil, "String: index table is assigned at run time"
	}
	for i := 1; i < len(st.index); i++ {
		if st.index[i] < st.index[i-1] || int(st.index[i]) > len(st.name) {
			return nil, "String: index table is not monotone within the name table"
		}
	}
	return st, ""
}

func checkOperatorWireForms(p *Prog, r *Result, si *syntaxInfo) {
	info := si.pkg.TypesInfo
	// operator types: named unsigned integer types used as a field of a reachable struct, with a String method
	opTypes := map[*types.Named]bool{}
	for _, st := range reachableStructs(si) {
		s := st.Underlying().(*types.Struct)
		for i := 0; i < s.NumFields(); i++ {
			nt, ok := s.Field(i).Type().(*types.Named)
			if !ok {
				continue
			}
			b, ok := nt.Underlying().(*types.Basic)
			if !ok || b.Info()&types.IsUnsigned == 0 {
				continue
			}
			opTypes[nt] = true
		}
	}
	var ops []*types.Named
	for t := range opTypes {
		ops = append(ops, t)
	}
	sort.Slice(ops, func(i, j int) bool { return ops[i].Obj().Name() < ops[j].Obj().Name() })

	var tu *types.Interface
	for _, pkg := range p.AllPkgs {
		if pkg.PkgPath == "encoding" {
			if o := pkg.Types.Scope().Lookup("TextUnmarshaler"); o != nil {
				tu, _ = o.Type().Underlying().(*types.Interface)
			}
		}
	}
	if tu == nil {
		r.Fatalf("encoding.TextUnmarshaler not found among loaded packages")
		return
	}
	tokT := lookupType(si.pkg, "token")
	var tokTable *stringerTable
	if tokT != nil {
		var why string
		tokTable, why = loadStringer(p, si, tokT)
		if tokTable == nil {
			r.Undecided("R15c", "syntax.token.String", tokT.Obj().Pos(), why)
			return
		}
	} else {
		r.Fatalf("anchor syntax.token not found")
		return
	}

	for _, t := range ops {
		tname := t.Obj().Name()
		var strM *types.Func
		for m := range t.Methods() {
			if m.Name() == "String" {
				strM = m
			}
		}
		if strM == nil {
			// travels as a number: the decoder's float64 arm must accept its kind (R15b)
			r.OK("R15c", "syntax."+tname+"#numeric", t.Obj().Pos(), "no String method: encoded as a JSON number (kind checked by R15b)")
			if types.Implements(types.NewPointer(t), tu) {
				r.Bad("R15c", "syntax."+tname+"#asymmetric", t.Obj().Pos(), "type has UnmarshalText but no String: the encoder writes a number and the decoder refuses numbers for TextUnmarshalers")
			}
			continue
		}
		if !types.Implements(types.NewPointer(t), tu) {
			r.Bad("R15c", "syntax."+tname+"#UnmarshalText", t.Obj().Pos(), "operator type has a String method (so it is encoded as a string) but *"+tname+" does not implement encoding.TextUnmarshaler: decoding its own encoding fails")
			continue
		}
		// String must be `return token(o).String()`
		sfd := p.FuncDecl("syntax", tname+".String")
		okStr := false
		if sfd != nil && sfd.Body != nil && len(sfd.Body.List) == 1 {
			if rs, ok := sfd.Body.List[0].(*ast.ReturnStmt); ok && len(rs.Results) == 1 {
				if call, ok := ast.Unparen(rs.Results[0]).(*ast.CallExpr); ok {
					if se, ok := ast.Unparen(call.Fun).(*ast.SelectorExpr); ok && se.Sel.Name == "String" {
						if conv, ok := ast.Unparen(se.X).(*ast.CallExpr); ok && len(conv.Args) == 1 {
							if tv, ok := info.Types[conv.Fun]; ok && tv.IsType() && namedOf(tv.Type) == tokT {
								if id, ok := ast.Unparen(conv.Args[0]).(*ast.Ident); ok && sfd.Recv != nil && len(sfd.Recv.List[0].Names) == 1 &&
									info.Uses[id] == info.Defs[sfd.Recv.List[0].Names[0]] {
									okStr = true
								}
							}
						}
					}
				}
			}
		}
		if !okStr {
			r.Undecided("R15c", "syntax."+tname+".String", t.Obj().Pos(), "String method is not `return token(o).String()`; its value cannot be evaluated statically")
			continue
		}
		// UnmarshalText table
		ufd := p.FuncDecl("syntax", tname+".UnmarshalText")
		table, why := unmarshalTable(info, ufd)
		if table == nil {
			r.Undecided("R15c", "syntax."+tname+".UnmarshalText", t.Obj().Pos(), why)
			continue
		}
		// constants of this type, by value
		byVal := map[int64][]string{}
		sc := si.pkg.Types.Scope()
		for _, nm := range sc.Names() {
			c, ok := sc.Lookup(nm).(*types.Const)
			if !ok || c.Type() != types.Type(t) {
				continue
			}
			v, _ := constant.Int64Val(c.Val())
			byVal[v] = append(byVal[v], nm)
		}
		var vals []int64
		for v := range byVal {
			vals = append(vals, v)
		}
		sort.Slice(vals, func(i, j int) bool { return vals[i] < vals[j] })
		for _, v := range vals {
			names := byVal[v]
			sort.Strings(names)
			key := fmt.Sprintf("syntax.%s#%s", tname, strings.Join(names, "="))
			s, ok := tokTable.str(v)
			if !ok {
				r.Bad("R15c", key, t.Obj().Pos(), fmt.Sprintf("value %d is outside the stringer table: it encodes as \"token(%d)\" which no decoder accepts", v, v))
				continue
			}
			back, ok := table[s]
			switch {
			case !ok:
				r.Bad("R15c", key, t.Obj().Pos(), fmt.Sprintf("encodes as %q, which %s.UnmarshalText rejects", s, tname))
			case back != v:
				r.Bad("R15c", key, t.Obj().Pos(), fmt.Sprintf("encodes as %q, which %s.UnmarshalText maps to value %d (%s) instead of %d", s, tname, back, strings.Join(byVal[back], "="), v))
			default:
				r.OK("R15c", key, t.Obj().Pos(), fmt.Sprintf("%q round-trips", s))
			}
		}
	}
}

// unmarshalTable reads `switch string(text) { case "x": *o = C ... }`.
func unmarshalTable(info *types.Info, fd *ast.FuncDecl) (map[string]int64, string) {
	if fd == nil || fd.Body == nil {
		return nil, "no UnmarshalText declaration found in package syntax"
	}
	var sw *ast.SwitchStmt
	for _, s := range fd.Body.List {
		if x, ok := s.(*ast.SwitchStmt); ok {
			sw = x
		}
	}
	if sw == nil || sw.Tag == nil {
		return nil, "UnmarshalText is not a switch over the text"
	}
	// tag must be string(param)
	conv, ok := ast.Unparen(sw.Tag).(*ast.CallExpr)
	if !ok || len(conv.Args) != 1 {
		return nil, "UnmarshalText: switch tag is not string(text)"
	}
	var recvObj types.Object
	if fd.Recv != nil && len(fd.Recv.List) == 1 && len(fd.Recv.List[0].Names) == 1 {
		recvObj = info.Defs[fd.Recv.List[0].Names[0]]
	}
	out := map[string]int64{}
	for _, s := range sw.Body.List {
		cc := s.(*ast.CaseClause)
		if cc.List == nil {
			continue
		}
		// body: single `*o = CONST`
		var val *int64
		if len(cc.Body) == 1 {
			if as, ok := cc.Body[0].(*ast.AssignStmt); ok && len(as.Lhs) == 1 && len(as.Rhs) == 1 && as.Tok == token.ASSIGN {
				if st, ok := ast.Unparen(as.Lhs[0]).(*ast.StarExpr); ok {
					if id, ok := ast.Unparen(st.X).(*ast.Ident); ok && info.Uses[id] == recvObj {
						if tv := info.Types[as.Rhs[0]]; tv.Value != nil {
							v, _ := constant.Int64Val(tv.Value)
							val = &v
						}
					}
				}
			}
		}
		if val == nil {
			return nil, "UnmarshalText: a case body is not a single `*o = CONST`"
		}
		for _, e := range cc.List {
			tv := info.Types[e]
			if tv.Value == nil || tv.Value.Kind() != constant.String {
				return nil, "UnmarshalText: non-constant case"
			}
			out[constant.StringVal(tv.Value)] = *val
		}
	}
	return out, ""
}

var c15Controls = []Control{
	{Name: "recovered-positions-encoded", Rule: "R15l", WantKey: "encodePos#write 1", File: "syntax/typedjson/json.go",
		Mutate: ctlReplaceAnywhere("\tif !val.IsValid() {\n\t\treturn\n\t}\n\tenc := reflect.New(exportedPosType.Elem())", "\tif !val.IsValid() && !val.IsRecovered() {\n\t\treturn\n\t}\n\tenc := reflect.New(exportedPosType.Elem())")},
	{Name: "strings-marshalled-with-go-quoting", Rule: "R15k", WantKey: "MarshalJSON#Go quoting 1", File: "syntax/typedjson/json.go",
		Mutate: ctlChain(ctlReplaceAnywhere("\tcase reflect.String:\n\t\tif val.String() != \"\" {\n\t\t\treturn val, \"\"\n\t\t}\n", "\tcase reflect.String:\n\t\tif s := val.String(); s != \"\" {\n\t\t\treturn reflect.ValueOf(quotedString(s)), \"\"\n\t\t}\n"),
			ctlAppendDecl("type quotedString string\n\nfunc (s quotedString) MarshalJSON() ([]byte, error) {\n\treturn strconv.AppendQuote(make([]byte, 0, len(s)+2), string(s)), nil\n}\n"),
			ctlReplaceAnywhere("\t\"reflect\"\n", "\t\"reflect\"\n\t\"strconv\"\n"))},
	{Name: "decoder-asks-a-half-built-node-for-its-position", Rule: "R15i", WantKey: "decodeValue#node.Pos() is not reachable from Decode", File: "syntax/typedjson/json.go",
		Mutate: ctlReplaceAnywhere("func decodeValue(val reflect.Value, enc any) error {\n", "func decodeValue(val reflect.Value, enc any) error {\n\tif node, _ := val.Interface().(syntax.Node); node != nil && enc == nil {\n\t\t_ = node.Pos()\n\t}\n")},
	{Name: "pooled-encode-buffer-not-emptied", Rule: "R15j", WantKey: "Encode#buf from a pool is emptied before use", File: "syntax/typedjson/json.go",
		Mutate: ctlChain(ctlReplaceAnywhere("\tenc := json.NewEncoder(w)\n", "\tbuf := encodeBufs.Get().(*bytes.Buffer)\n\tdefer encodeBufs.Put(buf)\n\tdefer buf.WriteTo(w)\n\tenc := json.NewEncoder(buf)\n"),
			ctlReplaceAnywhere("import (\n", "import (\n\t\"bytes\"\n\t\"sync\"\n"),
			ctlAppendDecl("var encodeBufs = sync.Pool{New: func() any { return new(bytes.Buffer) }}\n")),
	},
	{Name: "encode-refuses-a-tree", Rule: "R15h", WantKey: "Encode#returns", File: "syntax/typedjson/json.go",
		Mutate: ctlReplaceAnywhere("\tencVal.Elem().Field(0).SetString(tname)\n\tenc := json.NewEncoder(w)", "\tencVal.Elem().Field(0).SetString(tname)\n\tif tname == \"Comment\" {\n\t\treturn fmt.Errorf(\"cannot encode a lone comment\")\n\t}\n\tenc := json.NewEncoder(w)")},
	{Name: "decoder-depth-counter-leaks", Rule: "R15g", WantKey: "++ is undone on every path", File: "syntax/typedjson/json.go",
		Mutate: ctlChain(
			ctlReplaceAnywhere("func decodePos(val reflect.Value, enc any) error {\n", "var decodeDepth struct{ n int }\n\nfunc decodePos(val reflect.Value, enc any) error {\n\tdecodeDepth.n++\n"),
			ctlReplaceAnywhere("\tval.Set(reflect.ValueOf(syntax.NewPos(nums[0], nums[1], nums[2])))\n\treturn nil\n", "\tval.Set(reflect.ValueOf(syntax.NewPos(nums[0], nums[1], nums[2])))\n\tdecodeDepth.n--\n\treturn nil\n"))},
	{Name: "encoder-drops-empty-structs", Rule: "R15f", WantKey: "case reflect.Struct always returns", File: "syntax/typedjson/json.go",
		Mutate: ctlReplaceAnywhere("\t\t// Addr helps prevent an allocation as we use any fields.\n", "\t\tif encTyp.NumField() == 3 {\n\t\t\tbreak\n\t\t}\n\t\t// Addr helps prevent an allocation as we use any fields.\n")},
	{Name: "decoder-rejects-zero-line", Rule: "R15e", WantKey: "decodePos#refusal", File: "syntax/typedjson/json.go",
		Mutate: ctlReplaceAnywhere("\tval.Set(reflect.ValueOf(syntax.NewPos(nums[0], nums[1], nums[2])))", "\tif nums[1] == 0 {\n\t\treturn fmt.Errorf(\"a position needs a line\")\n\t}\n\tval.Set(reflect.ValueOf(syntax.NewPos(nums[0], nums[1], nums[2])))")},
	{Name: "registry-drop-TestDecl", Rule: "R15a", WantKey: "TestDecl", File: "syntax/typedjson/json.go",
		Mutate: ctlReplaceAnywhere("\"TestDecl\":     reflect.TypeFor[syntax.TestDecl](),", "")},
	{Name: "registry-wrong-type", Rule: "R15a", WantKey: "ParenTest", File: "syntax/typedjson/json.go",
		Mutate: ctlReplaceAnywhere("\"ParenTest\":  reflect.TypeFor[syntax.ParenTest](),", "\"ParenTest\":  reflect.TypeFor[syntax.ParenArithm](),")},
	{Name: "unmarshal-swapped-constants", Rule: "R15c", WantKey: "CaseOperator", File: "syntax/tokens_parse.go",
		Mutate: ctlReplace("CaseOperator.UnmarshalText", "*o = Resume", "*o = ResumeKorn", 0)},
	{Name: "unmarshal-missing-case", Rule: "R15c", WantKey: "RedirOperator#AppAllClob", File: "syntax/tokens_parse.go",
		Mutate: ctlReplace("RedirOperator.UnmarshalText", "case \"&>>|\":\n\t\t*o = AppAllClob", "", 0)},
	{Name: "new-int-field", Rule: "R15b", WantKey: "syntax.Lit.Extra", File: "syntax/nodes.go",
		Mutate: ctlReplaceAnywhere("type Lit struct {", "type Lit struct {\n\tExtra int")},
	{Name: "decode-setstring-unguarded", Rule: "R15d", WantKey: "SetString", File: "syntax/typedjson/json.go",
		Mutate: ctlReplace("decodeValue", "val.Kind() == reflect.String", "val.Kind() != reflect.Slice", 0)},
	{Name: "decode-struct-check-dropped", Rule: "R15d", WantKey: "FieldByName", File: "syntax/typedjson/json.go",
		Mutate: ctlReplace("decodeValue", "if val.Kind() != reflect.Struct {\n\t\t\treturn fmt.Errorf(\"cannot decode JSON object into %s\", typ)\n\t\t}", "", 0)},
	{Name: "decode-assignable-dropped", Rule: "R15d", WantKey: "Set", File: "syntax/typedjson/json.go",
		Mutate: ctlReplace("decodeValue", "if !reflect.PointerTo(nodeType).AssignableTo(typ) {\n\t\t\t\treturn fmt.Errorf(\"cannot decode %s into %s\", typeName, typ)\n\t\t\t}", "", 0)},
}
