package main

import (
	"go/constant"
	"fmt"
	"go/ast"
	"go/token"
	"go/types"
	"sort"
	"strings"
)

func init() {
	register(&Property{
		ID:  "C31",
		Run: runC31,
		Decided: "every place where the interpreter can wait is cancellable: each loop of package interp that can run user code or block consults the context on every cycle in a way that leaves the loop " +
			"(R31a); each channel receive, select and WaitGroup.Wait has a ctx.Done() arm or is structurally bounded (R31b); external commands are started with exec.CommandContext on the caller's " +
			"context and a Cancel override always comes with a WaitDelay (R31c); every read from the Runner's standard input happens after the read deadline has been tied to the context (R31d); " +
			"Runner.stop consults ctx.Err() before it can answer false, and stmt/call ask it first (R31e); callbacks that capture a context and live in Runner state (command and process substitution) " +
			"are rebuilt by every Run call from that call's context (R31f). Every started command has a WaitDelay (R31c); a nested Runner inherits the configured kill timeout (R31g); Fd() is not called on what may be the stdin unless it is a character device (R31h); Run consults ctx.Err() before it can return nil (R31i).",
		NotDecided:  "the numeric bound; the blocking FIFO open in the process-substitution goroutine (it can outlive Run, which returns once R31b holds); handlers supplied by the user; writes to a full pipe.",
		Assumptions: []string{"go statements, channel operations, selects and WaitGroup.Wait are the only blocking primitives besides I/O (enumerated syntactically over the whole package)", "SetReadDeadline unblocks a pending Read (os.File on pollable descriptors)"},
		Controls:    c31Controls,
		Matrix:      true,
	})
}

func runC31(p *Prog, r *Result) {
	pkg := p.Pkg("interp")
	if pkg == nil {
		r.Fatalf("package interp not loaded")
		return
	}
	info := pkg.TypesInfo
	r.Rule("R31a", "every loop in package interp that can run user code or block contains, on every cycle, a context check whose outcome leaves the loop", 5)
	r.Rule("R31b", "every channel receive, select without default and WaitGroup.Wait in package interp has a ctx.Done() arm or is structurally bounded", 4)
	r.Rule("R31c", "os/exec commands are created with exec.CommandContext on the enclosing function's context; cmd.Cancel is only overridden together with cmd.WaitDelay before Start", 2)
	r.Rule("R31d", "every read from Runner.stdin is dominated by the registration of the cancel deadline on the enclosing function's context", 2)
	r.Rule("R31e", "Runner.stop evaluates ctx.Err() before any `return false`; stmt and call test stop(ctx) first", 3)
	r.Rule("R31f", "functions that store context-capturing callbacks in Runner state are re-run by Run with its own context on every path before anything executes", 1)

	r.Rule("R31g", "a Runner the interpreter creates while a program runs receives an exec handler built from the configured kill timeout, handed down from DefaultExecHandler's parameter", 2)
	checkNestedRunnerTimeout(p, r, "R31g")
	r.Rule("R31h", "Fd() is not called on a value that can be the runner's stdin unless it is known to be a character device, and the stdin is not handed to os/exec: either makes later reads uninterruptible", 2)
	checkStdinFd(p, r, "R31h")
	r.Rule("R31i", "in Run every path from the execution of the node (and of the exit trap) to `return nil` consults ctx.Err(): a cancelled run cannot report success", 4)
	checkRunReportsCancel(p, r, "R31i")
	r.Rule("R31j", "the goroutine of a process substitution opens its end of the FIFO on every path: the Runner's own open of the other end does not watch the context", 1)
	checkProcSubstAlwaysOpens(p, r, "R31j")
	r.Rule("R31l", "exitStatus.clear() leaves a fatal status — which is how a cancelled context is recorded — alone", 2)
	checkClearKeepsFatal(p, r, "R31l")
	r.Rule("R31m", "a path that comes from the program is opened with O_NONBLOCK or where a cancelled context can abandon the wait: a FIFO with no peer blocks os.OpenFile for good", 2)
	checkOpensCanBeAbandoned(p, r, "R31m")
	r.Rule("R31k", "the function that ties the standard input's read deadline to the context does so on every path (regular files aside): R31d relies on it", 1)
	checkRegistrarAlwaysRegisters(p, r, "R31k")

	runnerT := lookupType(pkg, "Runner")
	stopFn := lookupFunc(pkg, "Runner.stop")
	stmtFn := lookupFunc(pkg, "Runner.stmt")
	cmdFn := lookupFunc(pkg, "Runner.cmd")
	callFn := lookupFunc(pkg, "Runner.call")
	if runnerT == nil || stopFn == nil || stmtFn == nil || cmdFn == nil || callFn == nil {
		r.Fatalf("anchors Runner / stop / stmt / cmd / call not found")
		return
	}
	sstruct := runnerT.Underlying().(*types.Struct)
	var stdinF *types.Var
	handlerFields := map[*types.Var]bool{}
	for i := 0; i < sstruct.NumFields(); i++ {
		f := sstruct.Field(i)
		if f.Name() == "stdin" {
			stdinF = f
		}
		if _, ok := f.Type().Underlying().(*types.Signature); ok {
			handlerFields[f] = true
		}
	}
	if stdinF == nil {
		r.Fatalf("anchor Runner.stdin not found")
		return
	}
	g := buildRefGraph(p)
	isCtx := func(t types.Type) bool {
		n := namedOf(t)
		return n != nil && n.Obj().Pkg() != nil && n.Obj().Pkg().Path() == "context" && n.Obj().Name() == "Context"
	}
	// ---- deadline registrars: functions calling context.AfterFunc with a literal that calls SetReadDeadline on r.stdin
	registrars := map[*types.Func]bool{}
	for _, fd := range p.AllFuncDecls("interp") {
		fo, _ := info.Defs[fd.Name].(*types.Func)
		ast.Inspect(fd.Body, func(n ast.Node) bool {
			c, ok := n.(*ast.CallExpr)
			if !ok {
				return true
			}
			if fn := calleeOf(info, c); fn == nil || fn.Pkg() == nil || fn.Pkg().Path() != "context" || fn.Name() != "AfterFunc" || len(c.Args) != 2 {
				return true
			}
			lit, ok := c.Args[1].(*ast.FuncLit)
			if !ok {
				return true
			}
			sets := false
			ast.Inspect(lit.Body, func(m ast.Node) bool {
				if mc, ok := m.(*ast.CallExpr); ok {
					if se, ok := mc.Fun.(*ast.SelectorExpr); ok && se.Sel.Name == "SetReadDeadline" && selectorField(info, se.X) == stdinF {
						sets = true
					}
				}
				return true
			})
			if sets && fo != nil {
				registrars[fo] = true
			}
			return true
		})
	}

	// user-code / blocking classification of a subtree
	execRoots := g.reachable(stmtFn, cmdFn, callFn)
	_ = execRoots
	reachesExec := map[*types.Func]bool{}
	for fo := range g.decl {
		if g.pkgOf[fo] != pkg {
			continue
		}
		rs := g.reachable(fo)
		if rs[stmtFn] || rs[cmdFn] || rs[callFn] {
			reachesExec[fo] = true
		}
	}
	type loopFacts struct {
		userCode, stdinRead, chanOp bool
		why                         []string
	}
	classify := func(nodes ...ast.Node) loopFacts {
		var lf loopFacts
		for _, root := range nodes {
			if root == nil {
				continue
			}
			inspectNoLit(root, func(n ast.Node) bool {
				switch x := n.(type) {
				case *ast.CallExpr:
					if fn := calleeOf(info, x); fn != nil {
						if reachesExec[fn] {
							lf.userCode = true
							lf.why = append(lf.why, "calls "+fn.Name())
						}
					} else if fv := selectorField(info, x.Fun); fv != nil && handlerFields[fv] {
						lf.userCode = true
						lf.why = append(lf.why, "calls handler "+fv.Name())
					}
					if isStdinRead(info, x, stdinF) {
						lf.stdinRead = true
						lf.why = append(lf.why, "reads r.stdin")
					}
				case *ast.UnaryExpr:
					if x.Op == token.ARROW {
						lf.chanOp = true
						lf.why = append(lf.why, "channel receive")
					}
				case *ast.SelectStmt:
					lf.chanOp = true
					lf.why = append(lf.why, "select")
				}
				return true
			})
		}
		return lf
	}

	// ---- R31a
	type fnBody struct {
		key  string
		body *ast.BlockStmt
		fd   *ast.FuncDecl
	}
	var bodies []fnBody
	for _, fd := range p.AllFuncDecls("interp") {
		bodies = append(bodies, fnBody{funcKey("interp", fd), fd.Body, fd})
		n := 0
		ast.Inspect(fd.Body, func(x ast.Node) bool {
			if lit, ok := x.(*ast.FuncLit); ok {
				n++
				bodies = append(bodies, fnBody{fmt.Sprintf("%s$%d", funcKey("interp", fd), n), lit.Body, fd})
			}
			return true
		})
	}
	sort.SliceStable(bodies, func(i, j int) bool { return bodies[i].body.Pos() < bodies[j].body.Pos() })
	outOfScope := 0
	for _, fb := range bodies {
		var loops []*ast.ForStmt
		inspectNoLit(fb.body, func(n ast.Node) bool {
			if fs, ok := n.(*ast.ForStmt); ok {
				loops = append(loops, fs)
			}
			return true
		})
		if len(loops) == 0 {
			continue
		}
		fg := NewFGraph(info, fb.body, nil)
		// stdin scanners: locals assigned from a call taking r.stdin
		stdinLocals := map[types.Object]bool{}
		inspectNoLit(fb.body, func(n ast.Node) bool {
			as, ok := n.(*ast.AssignStmt)
			if !ok || len(as.Rhs) != 1 || len(as.Lhs) != 1 {
				return true
			}
			if c, ok := ast.Unparen(as.Rhs[0]).(*ast.CallExpr); ok && isStdinRead(info, c, stdinF) {
				if id, ok := as.Lhs[0].(*ast.Ident); ok {
					stdinLocals[info.ObjectOf(id)] = true
				}
			}
			return true
		})
		usesStdinLocal := func(nodes ...ast.Node) bool {
			hit := false
			for _, root := range nodes {
				if root == nil {
					continue
				}
				inspectNoLit(root, func(n ast.Node) bool {
					if c, ok := n.(*ast.CallExpr); ok {
						if se, ok := c.Fun.(*ast.SelectorExpr); ok {
							if id, ok := ast.Unparen(se.X).(*ast.Ident); ok && stdinLocals[info.ObjectOf(id)] {
								hit = true
							}
						}
					}
					return true
				})
			}
			return hit
		}
		for li, fs := range loops {
			var condN, postN ast.Node
			if fs.Cond != nil {
				condN = fs.Cond
			}
			if fs.Post != nil {
				postN = fs.Post
			}
			lf := classify(condN, fs.Body, postN)
			if usesStdinLocal(condN, fs.Body) {
				lf.stdinRead = true
				lf.why = append(lf.why, "reads r.stdin through a local reader")
			}
			if !lf.userCode && !lf.stdinRead && !lf.chanOp {
				outOfScope++
				continue
			}
			key := fmt.Sprintf("%s#for loop %d (%s)", fb.key, li+1, loopHeader(fs))
			// the natural loop: blocks reachable from the loop header without
			// passing its done block, and from which the header is reachable
			var head, done *FBlock
			for _, b := range fg.Blocks {
				if b.Stmt == ast.Stmt(fs) {
					switch b.Kind {
					case "for.loop":
						head = b
					case "for.done":
						done = b
					}
				}
			}
			loopBlocks := map[*FBlock]bool{}
			if head != nil {
				fwd := fg.Reachable(head, func(e *FEdge) bool { return e.To != done && e.To != fg.Exit && e.To != fg.Abort })
				for b := range fwd {
					if b == head || fg.Reachable(b, func(e *FEdge) bool { return e.To != done })[head] {
						loopBlocks[b] = true
					}
				}
			}
			leaves := func(e *FEdge) bool { return !loopBlocks[e.To] }
			// effective checks
			eff := map[ast.Node]string{}
			for b := range loopBlocks {
				for _, n := range b.Nodes {
					for _, c := range nodeCalls(n) {
						fn := calleeOf(info, c)
						switch {
						case fn == stopFn:
							// must be (part of) a condition with an edge leaving the loop
							for _, e := range b.Succs {
								if e.Cond == n && leaves(e) {
									eff[n] = "r.stop(ctx) in a condition that leaves the loop"
								}
							}
							// conjunct of the loop condition: the false edge may lead to another conjunct's block; accept if some edge from this cond node reaches outside without passing loop body statements
							if _, ok := eff[n]; !ok && fs.Cond != nil && inLoopCond(fs, n) {
								eff[n] = "r.stop(ctx) in the loop condition"
							}
						case fn != nil && callsWithCtx(info, c, isCtx) && readsStdinCancelably(p, info, g, fn, registrars):
							// e.g. readLine(ctx): its error must leave the loop
							if errLeaves(info, fg, b, n, leaves) {
								eff[n] = fn.Name() + "(ctx) (deadline tied to ctx) with its error leaving the loop"
							}
						}
					}
				}
			}
			// every cycle through the loop passes an effective check: remove check nodes, look for a cycle within the loop
			cycleFree := true
			if head != nil {
				cycleFree = !cycleAvoiding(fg, head, loopBlocks, func(n ast.Node) bool { _, ok := eff[n]; return ok })
			}
			var idioms []string
			for _, v := range eff {
				idioms = append(idioms, v)
			}
			sort.Strings(idioms)
			idioms = uniq(idioms)
			switch {
			case lf.stdinRead && !lf.userCode && !lf.chanOp:
				// a read loop: cancellable iff the deadline registration dominates the loop (R31d decides the read itself) and a failed read leaves the loop
				regDom := registrarDominates(info, fg, fs, registrars, isCtx)
				r.Check(regDom, "R31a", key, fs.Pos(), "read loop on r.stdin entered after the read deadline was tied to the context",
					"the loop blocks reading the standard input and nothing ties that read to the context: cancelling Run's context does not end it")
			case head == nil:
				r.Undecided("R31a", key, fs.Pos(), "no back edge found for the loop")
			case cycleFree && len(eff) > 0:
				r.OK("R31a", key, fs.Pos(), strings.Join(idioms, "; "))
			default:
				r.Bad("R31a", key, fs.Pos(), fmt.Sprintf("the loop can run user code or block (%s) and some cycle through it does not consult the context in a way that leaves the loop: once started it ignores cancellation", strings.Join(uniq(lf.why), ", ")))
			}
		}
	}
	r.Notef("R31a: %d other for-loops in package interp neither run user code nor block (argument parsing, bounded retries): out of scope", outOfScope)

	// ---- R31b
	for _, fb := range bodies {
		fg := (*FGraph)(nil)
		_ = fg
		// ctx.Done() recognition
		isDoneRecv := func(e ast.Expr) bool {
			ue, ok := ast.Unparen(e).(*ast.UnaryExpr)
			if !ok || ue.Op != token.ARROW {
				return false
			}
			c, ok := ast.Unparen(ue.X).(*ast.CallExpr)
			if !ok {
				return false
			}
			se, ok := c.Fun.(*ast.SelectorExpr)
			return ok && se.Sel.Name == "Done" && isCtx(info.TypeOf(se.X))
		}
		inSelect := map[ast.Node]bool{}
		inspectNoLit(fb.body, func(n ast.Node) bool {
			sel, ok := n.(*ast.SelectStmt)
			if !ok {
				return true
			}
			hasDefault, hasDone := false, false
			for _, cl := range sel.Body.List {
				cc := cl.(*ast.CommClause)
				if cc.Comm == nil {
					hasDefault = true
					continue
				}
				ast.Inspect(cc.Comm, func(m ast.Node) bool {
					if ue, ok := m.(*ast.UnaryExpr); ok && ue.Op == token.ARROW {
						inSelect[ue] = true
						if isDoneRecv(ue) {
							hasDone = true
						}
					}
					return true
				})
			}
			key := fb.key + "#select on " + selectChans(sel)
			r.Check(hasDefault || hasDone, "R31b", key, sel.Pos(), "has a ctx.Done() arm (or a default)",
				"the select waits without a ctx.Done() arm: cancelling the context does not wake it")
			return true
		})
		inspectNoLit(fb.body, func(n ast.Node) bool {
			switch x := n.(type) {
			case *ast.UnaryExpr:
				if x.Op != token.ARROW || inSelect[x] {
					return true
				}
				key := fb.key + "#receive " + exprString(x.X)
				if isDoneRecv(x) {
					r.OK("R31b", key, x.Pos(), "receives from ctx.Done() itself")
					return true
				}
				// closed by an AfterFunc callback registered in the enclosing declaration
				if id, ok := ast.Unparen(x.X).(*ast.Ident); ok && closedInAfterFunc(info, fb.fd, info.ObjectOf(id)) {
					r.OK("R31b", key, x.Pos(), "completion handshake: the channel is closed by the context.AfterFunc callback registered in the same function, and is only awaited once that callback has started")
					return true
				}
				r.Bad("R31b", key, x.Pos(), "a bare channel receive that nothing ties to the context: if the sender never finishes, Run never returns after cancellation")
			case *ast.CallExpr:
				fn := calleeOf(info, x)
				if fn == nil || fn.Name() != "Wait" || fn.Pkg() == nil || fn.Pkg().Path() != "sync" {
					return true
				}
				se, _ := x.Fun.(*ast.SelectorExpr)
				key := fb.key + "#" + exprString(x.Fun)
				var wgObj types.Object
				if se != nil {
					if id, ok := ast.Unparen(se.X).(*ast.Ident); ok {
						wgObj = info.ObjectOf(id)
					}
				}
				ok, why := waitGroupBounded(info, fb.body, wgObj, runnerT, isCtx)
				r.Check(ok, "R31b", key, x.Pos(), "waits only for goroutines that run Runner methods on the same context", "WaitGroup.Wait waits for work that is not tied to the context: "+why)
			}
			return true
		})
	}

	// ---- R31c
	for _, fb := range bodies {
		var fg *FGraph
		inspectNoLit(fb.body, func(n ast.Node) bool {
			switch x := n.(type) {
			case *ast.CallExpr:
				fn := calleeOf(info, x)
				if fn == nil || fn.Pkg() == nil || fn.Pkg().Path() != "os/exec" {
					return true
				}
				switch fn.Name() {
				case "Command":
					r.Bad("R31c", fb.key+"#exec.Command", x.Pos(), "an external command is created without a context: cancelling Run's context does not kill it")
				case "CommandContext":
					okCtx := false
					if len(x.Args) > 0 {
						if id, ok := ast.Unparen(x.Args[0]).(*ast.Ident); ok {
							if v, ok := info.ObjectOf(id).(*types.Var); ok && isCtx(v.Type()) && isParamOfEnclosing(info, fb, v) {
								okCtx = true
							}
						}
					}
					r.Check(okCtx, "R31c", fb.key+"#exec.CommandContext", x.Pos(), "created on the context parameter of the enclosing function",
						"exec.CommandContext is given something other than the caller's context: cancellation of Run's context does not reach the process")
				}
			case *ast.AssignStmt:
				// cmd := exec.CommandContext(…): WaitDelay is set on every path before the command starts. Without it
				// Wait keeps reading the output pipes until every orphaned grandchild has closed them, however promptly
				// the command itself was killed.
				if len(x.Lhs) == 1 && len(x.Rhs) == 1 {
					if c, ok := ast.Unparen(x.Rhs[0]).(*ast.CallExpr); ok {
						if fn := calleeOf(info, c); fn != nil && fn.Pkg() != nil && fn.Pkg().Path() == "os/exec" && fn.Name() == "CommandContext" {
							if fg == nil {
								fg = NewFGraph(info, fb.body, nil)
							}
							recv := exprString(x.Lhs[0])
							blk, idx := fg.BlockOf(x)
							startFirst := blk == nil
							seen := map[*FBlock]bool{}
							var walk func(b *FBlock, from int)
							walk = func(b *FBlock, from int) {
								for _, m := range b.Nodes[from:] {
									if as, ok := m.(*ast.AssignStmt); ok {
										for _, l2 := range as.Lhs {
											if s2, ok := ast.Unparen(l2).(*ast.SelectorExpr); ok && s2.Sel.Name == "WaitDelay" && exprString(s2.X) == recv {
												return
											}
										}
									}
									for _, c2 := range nodeCalls(m) {
										if s2, ok := c2.Fun.(*ast.SelectorExpr); ok && (s2.Sel.Name == "Start" || s2.Sel.Name == "Run" || s2.Sel.Name == "Output" || s2.Sel.Name == "CombinedOutput") && exprString(s2.X) == recv {
											startFirst = true
											return
										}
									}
								}
								for _, e := range b.Succs {
									if !seen[e.To] {
										seen[e.To] = true
										walk(e.To, 0)
									}
								}
							}
							if blk != nil {
								walk(blk, idx+1)
							}
							r.Check(!startFirst, "R31c", fb.key+"#"+recv+" started with WaitDelay", x.Pos(), "WaitDelay is assigned on every path before the command starts",
								"some path starts the command without a WaitDelay: after cancellation the command is killed, but Wait keeps reading its output pipes until every orphaned grandchild has closed them, so Run returns when they exit rather than within the kill timeout")
						}
					}
				}
				for _, l := range x.Lhs {
					se, ok := ast.Unparen(l).(*ast.SelectorExpr)
					if !ok || se.Sel.Name != "Cancel" {
						continue
					}
					if n := namedOf(info.TypeOf(se.X)); n == nil || n.Obj().Name() != "Cmd" || n.Obj().Pkg().Path() != "os/exec" {
						continue
					}
					if fg == nil {
						fg = NewFGraph(info, fb.body, nil)
					}
					blk, idx := fg.BlockOf(x)
					recv := exprString(se.X)
					isDelay := func(m ast.Node) bool {
						as, ok := m.(*ast.AssignStmt)
						if !ok {
							return false
						}
						for _, l2 := range as.Lhs {
							if s2, ok := ast.Unparen(l2).(*ast.SelectorExpr); ok && s2.Sel.Name == "WaitDelay" && exprString(s2.X) == recv {
								return true
							}
						}
						return false
					}
					isStart := func(m ast.Node) bool {
						for _, c := range nodeCalls(m) {
							if s2, ok := c.Fun.(*ast.SelectorExpr); ok && (s2.Sel.Name == "Start" || s2.Sel.Name == "Run" || s2.Sel.Name == "Output" || s2.Sel.Name == "CombinedOutput") && exprString(s2.X) == recv {
								return true
							}
						}
						return false
					}
					ok2 := false
					if blk != nil {
						// WaitDelay set before Start on every path from the Cancel override
						ok2, _ = fg.MustPass(blk, idx, fg.Exit, func(m ast.Node) bool { return isDelay(m) }, nil)
						if ok2 {
							// and no Start in between: Start must not be reachable without passing the delay
							reach, _ := fg.MustPass(blk, idx, fg.Exit, func(m ast.Node) bool { return isDelay(m) || isStart(m) }, nil)
							_ = reach
							startFirst := false
							// walk: from the override, stop at delay; if a start node is seen first -> bad
							seen := map[*FBlock]bool{}
							var walk func(b *FBlock, from int)
							walk = func(b *FBlock, from int) {
								for _, m := range b.Nodes[from:] {
									if isDelay(m) {
										return
									}
									if isStart(m) {
										startFirst = true
										return
									}
								}
								for _, e := range b.Succs {
									if !seen[e.To] {
										seen[e.To] = true
										walk(e.To, 0)
									}
								}
							}
							walk(blk, idx+1)
							ok2 = !startFirst
						}
					}
					// the delay must be positive: a zero WaitDelay means "wait without limit", i.e. no escalation to a kill
					if ok2 {
						for _, b2 := range fg.Blocks {
							for _, m := range b2.Nodes {
								if !isDelay(m) {
									continue
								}
								as := m.(*ast.AssignStmt)
								for i, l2 := range as.Lhs {
									s2, ok := ast.Unparen(l2).(*ast.SelectorExpr)
									if !ok || s2.Sel.Name != "WaitDelay" || i >= len(as.Rhs) {
										continue
									}
									rhs := ast.Unparen(as.Rhs[i])
									positive := false
									if tv, ok := info.Types[rhs]; ok && tv.Value != nil {
										positive = constant.Sign(tv.Value) > 0
									} else if id, ok := rhs.(*ast.Ident); ok {
										o := info.ObjectOf(id)
										positive = underEdges(fg, b2, func(e *FEdge) bool {
											be, ok := ast.Unparen(e.Cond).(*ast.BinaryExpr)
											if !ok || !e.Pol {
												return false
											}
											bid, ok := ast.Unparen(be.X).(*ast.Ident)
											if !ok || info.ObjectOf(bid) != o {
												return false
											}
											tv, ok := info.Types[be.Y]
											return ok && tv.Value != nil && be.Op == token.GTR && constant.Sign(tv.Value) >= 0
										})
									}
									r.Check(positive, "R31c", fb.key+"#"+recv+".WaitDelay is positive", as.Pos(), "a positive constant, or a value tested `> 0` on the way",
										"the WaitDelay that goes with the Cancel override may be zero, which means no limit: a process that ignores the interrupt is never killed and Run waits for it")
								}
							}
						}
					}
					r.Check(ok2, "R31c", fb.key+"#"+recv+".Cancel override", x.Pos(), "WaitDelay is assigned on every path before the command starts",
						"cmd.Cancel is replaced (the process is no longer killed on cancellation) and some path starts the command without a WaitDelay: a process that ignores the signal keeps Run waiting forever")
				}
			}
			return true
		})
	}

	// ---- R31d
	for _, fb := range bodies {
		var reads []*ast.CallExpr
		inspectNoLit(fb.body, func(n ast.Node) bool {
			if c, ok := n.(*ast.CallExpr); ok && isStdinRead(info, c, stdinF) {
				reads = append(reads, c)
			}
			return true
		})
		if len(reads) == 0 {
			continue
		}
		fg := NewFGraph(info, fb.body, nil)
		dom := fg.Dominators()
		regs := findCalls(fg, func(c *ast.CallExpr) bool {
			return registrars[calleeOf(info, c)] && callsWithCtx(info, c, isCtx) ||
				(func() bool { // context.AfterFunc directly in this body (the registrar itself)
					fn := calleeOf(info, c)
					return fn != nil && fn.Pkg() != nil && fn.Pkg().Path() == "context" && fn.Name() == "AfterFunc"
				})()
		})
		for _, c := range reads {
			if fn := calleeOf(info, c); fn != nil && fn.Pkg() != nil && fn.Pkg().Path() == "golang.org/x/term" {
				// no registration helps: the package reads the descriptor itself, in blocking mode
				r.Bad("R31d", fb.key+"#reads the terminal: "+exprString(c.Fun), c.Pos(), "reads the terminal through golang.org/x/term, which reads the descriptor directly: no deadline and no context reach that read, so `read -s` on a terminal sits there until a line is typed, whatever happens to the context")
				continue
			}
			blk, idx := fg.BlockOf(c)
			ok := false
			for _, rg := range regs {
				if blk != nil && (dom[blk][rg.blk] && (rg.blk != blk || rg.idx < idx)) {
					ok = true
				}
			}
			r.Check(ok, "R31d", fb.key+"#reads r.stdin: "+exprString(c.Fun), c.Pos(), "after the read deadline was tied to the context (context.AfterFunc → SetReadDeadline)",
				"reads the Runner's standard input without first arranging for the read to be interrupted when the context is done: a blocked read ignores cancellation")
		}
	}
	if len(registrars) == 0 {
		r.Bad("R31d", "interp#no deadline registrar", token.NoPos, "no function ties r.stdin's read deadline to a context (context.AfterFunc + SetReadDeadline)")
	}
	// the registrar's stop function is called
	for fo := range registrars {
		fd := g.decl[fo]
		if fd == nil {
			continue
		}
		stopCalled := false
		var stopObj types.Object
		ast.Inspect(fd.Body, func(n ast.Node) bool {
			as, ok := n.(*ast.AssignStmt)
			if ok && len(as.Rhs) == 1 {
				if c, ok := as.Rhs[0].(*ast.CallExpr); ok {
					if fn := calleeOf(info, c); fn != nil && fn.Name() == "AfterFunc" && fn.Pkg().Path() == "context" {
						if id, ok := as.Lhs[0].(*ast.Ident); ok {
							stopObj = info.ObjectOf(id)
						}
					}
				}
			}
			return true
		})
		ast.Inspect(fd.Body, func(n ast.Node) bool {
			if c, ok := n.(*ast.CallExpr); ok {
				if id, ok := c.Fun.(*ast.Ident); ok && stopObj != nil && info.ObjectOf(id) == stopObj {
					stopCalled = true
				}
			}
			return true
		})
		r.Check(stopCalled, "R31d", funcObjKey(fo)+"#AfterFunc stop is called", fd.Pos(), "the stop function of the AfterFunc is called when reading is over (and the deadline reset if it fired)",
			"the AfterFunc registration is never stopped: a later cancellation sets a read deadline on a file the interpreter no longer reads (e.g. the caller's os.Stdin)")
	}

	// ---- R31e
	if fd := p.FuncDecl("interp", "Runner.stop"); fd != nil {
		fg := NewFGraph(info, fd.Body, nil)
		dom := fg.Dominators()
		var errBlk *FBlock
		errIdx := -1
		for _, b := range fg.Blocks {
			for i, n := range b.Nodes {
				for _, c := range nodeCalls(n) {
					if se, ok := c.Fun.(*ast.SelectorExpr); ok && se.Sel.Name == "Err" && isCtx(info.TypeOf(se.X)) {
						errBlk, errIdx = b, i
					}
				}
			}
		}
		okAll := errBlk != nil
		nFalse := 0
		for _, b := range fg.Blocks {
			for i, n := range b.Nodes {
				rs, ok := n.(*ast.ReturnStmt)
				if !ok || len(rs.Results) != 1 {
					continue
				}
				if id, ok := ast.Unparen(rs.Results[0]).(*ast.Ident); ok && id.Name == "false" {
					nFalse++
					if errBlk == nil || !(dom[b][errBlk] && (b != errBlk || errIdx < i)) {
						okAll = false
					}
				} else if id, ok := ast.Unparen(rs.Results[0]).(*ast.Ident); !ok || id.Name != "true" {
					okAll = false // a computed answer: not the shape we can decide
				}
			}
		}
		// the err != nil edge returns true
		if errBlk != nil {
			found := false
			for _, b := range fg.Blocks {
				for _, e := range b.Succs {
					if be, ok := e.Cond.(*ast.BinaryExpr); ok && be.Op == token.NEQ && isNilIdent(info, be.Y) && e.Pol && dom[b][errBlk] {
						// true edge must reach only `return true`
						ok2, _ := fg.MustPass(e.To, -1, fg.Exit, func(m ast.Node) bool {
							rs, ok := m.(*ast.ReturnStmt)
							if !ok || len(rs.Results) != 1 {
								return false
							}
							id, ok := rs.Results[0].(*ast.Ident)
							return ok && id.Name == "true"
						}, nil)
						if ok2 {
							found = true
						}
					}
				}
			}
			okAll = okAll && found
		}
		r.Check(okAll && nFalse > 0, "R31e", "interp.(Runner).stop#ctx.Err() before answering false", fd.Pos(), fmt.Sprintf("ctx.Err() dominates all %d `return false`; a non-nil error returns true", nFalse),
			"Runner.stop can answer false without having consulted ctx.Err() (or ignores its result): loops and statements keep running after cancellation")
	} else {
		r.Fatalf("anchor Runner.stop not found")
	}
	checkCtxStorers(p, r, isCtx)
	for _, name := range []string{"Runner.stmt", "Runner.call"} {
		fd := p.FuncDecl("interp", name)
		if fd == nil {
			r.Fatalf("anchor %s not found", name)
			continue
		}
		fg := NewFGraph(info, fd.Body, nil)
		ok := false
		if len(fg.Entry.Nodes) > 0 {
			first := fg.Entry.Nodes[0]
			for _, c := range nodeCalls(first) {
				if calleeOf(info, c) == stopFn {
					for _, e := range fg.Entry.Succs {
						if e.Cond == first && e.Pol {
							// true edge returns at once
							ok2, _ := fg.MustPass(e.To, -1, fg.Exit, func(m ast.Node) bool { _, isRet := m.(*ast.ReturnStmt); return isRet }, nil)
							if ok2 && len(e.To.Nodes) > 0 {
								if _, isRet := e.To.Nodes[0].(*ast.ReturnStmt); isRet {
									ok = true
								}
							}
						}
					}
				}
			}
		}
		r.Check(ok, "R31e", funcKey("interp", fd)+"#asks stop(ctx) first", fd.Pos(), "the first thing evaluated is r.stop(ctx), and a true answer returns",
			fd.Name.Name+" does not begin by asking r.stop(ctx): statements (or calls) keep being executed after the context is cancelled")
	}
}

// checkCtxStorers implements R31f.
func checkCtxStorers(p *Prog, r *Result, isCtx func(types.Type) bool) {
	pkg := p.Pkg("interp")
	info := pkg.TypesInfo
	runnerT := lookupType(pkg, "Runner")
	runFD := p.FuncDecl("interp", "Runner.Run")
	if runFD == nil {
		r.Fatalf("anchor Runner.Run not found")
		return
	}
	sstruct := runnerT.Underlying().(*types.Struct)
	isRunnerField := map[*types.Var]bool{}
	for i := 0; i < sstruct.NumFields(); i++ {
		isRunnerField[sstruct.Field(i)] = true
	}
	storers := map[*types.Func]string{}
	for _, fd := range p.AllFuncDecls("interp") {
		fo, _ := info.Defs[fd.Name].(*types.Func)
		if fo == nil || fd.Type.Params == nil {
			continue
		}
		var ctxObj types.Object
		for _, f := range fd.Type.Params.List {
			for _, nm := range f.Names {
				if o := info.Defs[nm]; o != nil && isCtx(o.Type()) {
					ctxObj = o
				}
			}
		}
		if ctxObj == nil {
			continue
		}
		ast.Inspect(fd.Body, func(n ast.Node) bool {
			as, ok := n.(*ast.AssignStmt)
			if !ok {
				return true
			}
			for i, l := range as.Lhs {
				fv := selectorField(info, l)
				if fv == nil || !isRunnerField[fv] || i >= len(as.Rhs) {
					continue
				}
				captures := false
				ast.Inspect(as.Rhs[i], func(m ast.Node) bool {
					lit, ok := m.(*ast.FuncLit)
					if !ok {
						return true
					}
					ast.Inspect(lit.Body, func(k ast.Node) bool {
						if id, ok := k.(*ast.Ident); ok && info.Uses[id] == ctxObj {
							captures = true
						}
						return true
					})
					return true
				})
				if captures {
					storers[fo] = fv.Name()
				}
			}
			return true
		})
	}
	if len(storers) == 0 {
		r.Notef("R31f: no function stores a context-capturing callback in Runner state")
		return
	}
	execFns := map[*types.Func]bool{}
	for _, n := range []string{"Runner.stmts", "Runner.stmt", "Runner.cmd"} {
		if f := lookupFunc(pkg, n); f != nil {
			execFns[f] = true
		}
	}
	var runCtx types.Object
	for _, f := range runFD.Type.Params.List {
		for _, nm := range f.Names {
			if o := info.Defs[nm]; o != nil && isCtx(o.Type()) {
				runCtx = o
			}
		}
	}
	g := NewFGraph(info, runFD.Body, nil)
	execs := findCalls(g, func(c *ast.CallExpr) bool { return execFns[calleeOf(info, c)] })
	var fos []*types.Func
	for fo := range storers {
		fos = append(fos, fo)
	}
	sort.Slice(fos, func(i, j int) bool { return fos[i].Name() < fos[j].Name() })
	for _, fo := range fos {
		isStore := func(n ast.Node) bool {
			for _, c := range nodeCalls(n) {
				if calleeOf(info, c) != fo {
					continue
				}
				for _, a := range c.Args {
					if id, ok := ast.Unparen(a).(*ast.Ident); ok && info.ObjectOf(id) == runCtx {
						return true
					}
				}
			}
			return false
		}
		ok := len(execs) > 0
		for _, s := range execs {
			if reachesWithout(g, s.blk, s.idx, isStore) {
				ok = false
			}
		}
		r.Check(ok, "R31f", "interp.(Runner).Run#rebuilds "+storers[fo]+" via "+fo.Name()+"(ctx)", runFD.Pos(),
			fmt.Sprintf("%s(ctx) with Run's own context precedes all %d execution calls on every path", fo.Name(), len(execs)),
			fo.Name()+" stores callbacks that capture its context in Runner."+storers[fo]+", and Run can execute without calling it with the current context: command and process substitutions of a reused Runner keep running on an earlier Run call's context and ignore this call's cancellation")
	}
}

func uniq(s []string) []string {
	var out []string
	seen := map[string]bool{}
	for _, x := range s {
		if !seen[x] {
			seen[x] = true
			out = append(out, x)
		}
	}
	return out
}

func loopHeader(fs *ast.ForStmt) string {
	var parts []string
	if fs.Init != nil {
		parts = append(parts, "init")
	}
	if fs.Cond != nil {
		parts = append(parts, "cond "+exprString(fs.Cond))
	} else {
		parts = append(parts, "no condition")
	}
	return strings.Join(parts, ", ")
}

func inLoopCond(fs *ast.ForStmt, n ast.Node) bool {
	return fs.Cond != nil && fs.Cond.Pos() <= n.Pos() && n.End() <= fs.Cond.End()
}

// isStdinRead: a method call Read on r.stdin, or r.stdin passed as an argument
// whose parameter type is an io.Reader-like interface.
func isStdinRead(info *types.Info, c *ast.CallExpr, stdinF *types.Var) bool {
	// a read through the descriptor: golang.org/x/term reads the terminal itself, with no deadline and no context
	if fn := calleeOf(info, c); fn != nil && fn.Pkg() != nil && fn.Pkg().Path() == "golang.org/x/term" && strings.HasPrefix(fn.Name(), "Read") {
		return true
	}
	if se, ok := c.Fun.(*ast.SelectorExpr); ok && selectorField(info, se.X) == stdinF {
		switch se.Sel.Name {
		case "Read", "ReadAt", "ReadFrom", "WriteTo":
			return true
		}
		return false
	}
	sig, ok := info.TypeOf(c.Fun).(*types.Signature)
	if !ok {
		return false
	}
	// Handing the file to a function of this module is not a read here: the
	// callee's own uses are judged where they happen (StdIO stores it).
	if fn := calleeOf(info, c); fn != nil && fn.Pkg() != nil && strings.HasPrefix(fn.Pkg().Path(), modPath) {
		return false
	}
	for i, a := range c.Args {
		if selectorField(info, a) != stdinF {
			continue
		}
		var pt types.Type
		switch {
		case i < sig.Params().Len():
			pt = sig.Params().At(i).Type()
		case sig.Variadic() && sig.Params().Len() > 0:
			pt = sig.Params().At(sig.Params().Len() - 1).Type()
		}
		if pt == nil {
			continue
		}
		if ifc, ok := pt.Underlying().(*types.Interface); ok {
			for m := range ifc.Methods() {
				if m.Name() == "Read" {
					return true
				}
			}
		}
	}
	return false
}

func callsWithCtx(info *types.Info, c *ast.CallExpr, isCtx func(types.Type) bool) bool {
	for _, a := range c.Args {
		if id, ok := ast.Unparen(a).(*ast.Ident); ok {
			if v, ok := info.ObjectOf(id).(*types.Var); ok && isCtx(v.Type()) {
				return true
			}
		}
	}
	return false
}

// readsStdinCancelably: fn (e.g. readLine) registers the deadline itself or calls a registrar.
func readsStdinCancelably(p *Prog, info *types.Info, g *refGraph, fn *types.Func, registrars map[*types.Func]bool) bool {
	if registrars[fn] {
		return false // the registrar itself does not read
	}
	fd := g.decl[fn]
	if fd == nil || fd.Body == nil {
		return false
	}
	calls := false
	ast.Inspect(fd.Body, func(n ast.Node) bool {
		if c, ok := n.(*ast.CallExpr); ok && registrars[calleeOf(info, c)] {
			calls = true
		}
		return true
	})
	return calls
}

// errLeaves: node n defines an error variable whose `!= nil` test has an edge leaving the loop.
func errLeaves(info *types.Info, g *FGraph, b *FBlock, n ast.Node, leaves func(*FEdge) bool) bool {
	as, ok := n.(*ast.AssignStmt)
	if !ok {
		return false
	}
	var errObj types.Object
	for _, l := range as.Lhs {
		if id, ok := l.(*ast.Ident); ok {
			if o := info.ObjectOf(id); o != nil && o.Type().String() == "error" {
				errObj = o
			}
		}
	}
	if errObj == nil {
		return false
	}
	dom := g.Dominators()
	for _, blk := range g.Blocks {
		if !dom[blk][b] {
			continue
		}
		for _, e := range blk.Succs {
			be, ok := e.Cond.(*ast.BinaryExpr)
			if !ok || be.Op != token.NEQ || !isNilIdent(info, be.Y) || !e.Pol {
				continue
			}
			if id, ok := ast.Unparen(be.X).(*ast.Ident); ok && info.ObjectOf(id) == errObj {
				// the true edge must leave the loop on every path (break / return)
				if leavesAlways(g, e.To, leaves) {
					return true
				}
			}
		}
	}
	return false
}

// leavesAlways: every path from b stays acyclic inside the loop and ends on a leaving edge.
func leavesAlways(g *FGraph, b *FBlock, leaves func(*FEdge) bool) bool {
	seen := map[*FBlock]bool{}
	var walk func(x *FBlock) bool
	walk = func(x *FBlock) bool {
		if seen[x] {
			return false // came back: a cycle inside the loop
		}
		seen[x] = true
		if len(x.Succs) == 0 {
			return true
		}
		for _, e := range x.Succs {
			if e.Back {
				return false
			}
			if leaves(e) {
				continue
			}
			if !walk(e.To) {
				return false
			}
		}
		return true
	}
	return walk(b)
}

// cycleAvoiding: is there a cycle through head inside the block set that avoids all nodes satisfying stop?
func cycleAvoiding(g *FGraph, head *FBlock, in map[*FBlock]bool, stop func(ast.Node) bool) bool {
	blocked := func(b *FBlock) bool {
		for _, n := range b.Nodes {
			if stop(n) {
				return true
			}
		}
		return false
	}
	if blocked(head) {
		return false
	}
	seen := map[*FBlock]bool{}
	var work []*FBlock
	for _, e := range head.Succs {
		if in[e.To] && !seen[e.To] {
			seen[e.To] = true
			work = append(work, e.To)
		}
	}
	for len(work) > 0 {
		b := work[len(work)-1]
		work = work[:len(work)-1]
		if b == head {
			return true
		}
		if blocked(b) {
			continue
		}
		for _, e := range b.Succs {
			if in[e.To] && !seen[e.To] {
				seen[e.To] = true
				work = append(work, e.To)
			}
		}
	}
	return false
}

func registrarDominates(info *types.Info, g *FGraph, fs *ast.ForStmt, registrars map[*types.Func]bool, isCtx func(types.Type) bool) bool {
	// block of the loop head: the first block holding a node inside fs (cond or first body stmt)
	var first *FBlock
	for _, b := range g.Blocks {
		for _, n := range b.Nodes {
			if fs.Pos() <= n.Pos() && n.End() <= fs.End() && first == nil {
				first = b
			}
		}
	}
	if first == nil {
		return false
	}
	dom := g.Dominators()
	regs := findCalls(g, func(c *ast.CallExpr) bool {
		fn := calleeOf(info, c)
		if registrars[fn] && callsWithCtx(info, c, isCtx) {
			return true
		}
		return fn != nil && fn.Pkg() != nil && fn.Pkg().Path() == "context" && fn.Name() == "AfterFunc"
	})
	for _, rg := range regs {
		if rg.call.Pos() < fs.Pos() && dom[first][rg.blk] {
			return true
		}
	}
	return false
}

func selectChans(sel *ast.SelectStmt) string {
	var out []string
	for _, cl := range sel.Body.List {
		cc := cl.(*ast.CommClause)
		if cc.Comm == nil {
			out = append(out, "default")
			continue
		}
		ast.Inspect(cc.Comm, func(n ast.Node) bool {
			if ue, ok := n.(*ast.UnaryExpr); ok && ue.Op == token.ARROW {
				out = append(out, exprString(ue.X))
			}
			return true
		})
	}
	return strings.Join(out, ", ")
}

// closedInAfterFunc: obj is closed inside a function literal passed to context.AfterFunc within fd.
func closedInAfterFunc(info *types.Info, fd *ast.FuncDecl, obj types.Object) bool {
	if obj == nil {
		return false
	}
	found := false
	ast.Inspect(fd.Body, func(n ast.Node) bool {
		c, ok := n.(*ast.CallExpr)
		if !ok {
			return true
		}
		fn := calleeOf(info, c)
		if fn == nil || fn.Pkg() == nil || fn.Pkg().Path() != "context" || fn.Name() != "AfterFunc" || len(c.Args) != 2 {
			return true
		}
		lit, ok := c.Args[1].(*ast.FuncLit)
		if !ok {
			return true
		}
		ast.Inspect(lit.Body, func(m ast.Node) bool {
			if mc, ok := m.(*ast.CallExpr); ok && isBuiltinCall(info, mc, "close") && len(mc.Args) == 1 {
				if id, ok := ast.Unparen(mc.Args[0]).(*ast.Ident); ok && info.ObjectOf(id) == obj {
					found = true
				}
			}
			return true
		})
		return true
	})
	return found
}

// waitGroupBounded: every wg.Go(func(){…}) on the same WaitGroup runs only Runner
// methods that take a context argument (plus Close calls and plain assignments).
func waitGroupBounded(info *types.Info, body *ast.BlockStmt, wg types.Object, runnerT *types.Named, isCtx func(types.Type) bool) (bool, string) {
	if wg == nil {
		return false, "the WaitGroup is not a local variable"
	}
	n := 0
	why := ""
	ast.Inspect(body, func(x ast.Node) bool {
		c, ok := x.(*ast.CallExpr)
		if !ok {
			return true
		}
		se, ok := c.Fun.(*ast.SelectorExpr)
		if !ok {
			return true
		}
		id, ok := ast.Unparen(se.X).(*ast.Ident)
		if !ok || info.ObjectOf(id) != wg {
			return true
		}
		switch se.Sel.Name {
		case "Go":
			n++
			lit, ok := c.Args[0].(*ast.FuncLit)
			if !ok {
				why = "wg.Go is given something other than a function literal"
				return true
			}
			ast.Inspect(lit.Body, func(m ast.Node) bool {
				mc, ok := m.(*ast.CallExpr)
				if !ok {
					return true
				}
				fn := calleeOf(info, mc)
				switch {
				case fn == nil:
					why = "calls " + exprString(mc.Fun) + " (not statically resolved)"
				case fn.Name() == "Close":
				case fn.Type().(*types.Signature).Recv() != nil && namedOf(fn.Type().(*types.Signature).Recv().Type()) == runnerT && callsWithCtx(info, mc, isCtx):
				default:
					why = "calls " + fn.FullName() + ", which does not take the context"
				}
				return true
			})
		case "Add":
			why = "wg.Add with go statements: not the enumerated shape"
		}
		return true
	})
	if n == 0 && why == "" {
		why = "no wg.Go call found for this WaitGroup"
	}
	return why == "", why
}

func isParamOfEnclosing(info *types.Info, fb struct {
	key  string
	body *ast.BlockStmt
	fd   *ast.FuncDecl
}, v *types.Var) bool {
	found := false
	check := func(ft *ast.FuncType) {
		if ft.Params == nil {
			return
		}
		for _, f := range ft.Params.List {
			for _, nm := range f.Names {
				if info.Defs[nm] == v {
					found = true
				}
			}
		}
	}
	check(fb.fd.Type)
	ast.Inspect(fb.fd.Body, func(n ast.Node) bool {
		if lit, ok := n.(*ast.FuncLit); ok {
			check(lit.Type)
		}
		return true
	})
	return found
}

var c31Controls = []Control{
	{Name: "clear-forgets-a-fatal-status", Rule: "R31l", WantKey: "clear#store to code only when the status is not fatal", File: "interp/api.go",
		Mutate: ctlReplaceAnywhere("\tif e.returning || e.exiting || e.fatalExit {\n\t\treturn\n\t}\n\te.code = 0\n", "\tif e.returning || e.exiting {\n\t\treturn\n\t}\n\te.code = 0\n")},
	{Name: "process-substitution-skips-its-open-when-cancelled", Rule: "R31j", WantKey: "fillExpandConfig#ProcSubst goroutine 1", File: "interp/runner.go",
		Mutate: ctlReplaceAnywhere("\t\t\t\tswitch ps.Op {\n\t\t\t\tcase syntax.CmdIn:\n\t\t\t\t\tf, err := os.OpenFile(path, os.O_WRONLY, 0)", "\t\t\t\tif r2.stop(ctx) {\n\t\t\t\t\treturn\n\t\t\t\t}\n\t\t\t\tswitch ps.Op {\n\t\t\t\tcase syntax.CmdIn:\n\t\t\t\t\tf, err := os.OpenFile(path, os.O_WRONLY, 0)")},
	{Name: "stdin-hook-only-for-pipes", Rule: "R31k", WantKey: "unblockStdinOnCancel#ties the read deadline", File: "interp/builtin.go",
		Mutate: ctlReplaceAnywhere("func (r *Runner) unblockStdinOnCancel(ctx context.Context) (restore func()) {\n", "func (r *Runner) unblockStdinOnCancel(ctx context.Context) (restore func()) {\n\tif fi, err := r.stdin.Stat(); err == nil && fi.Mode()&os.ModeNamedPipe == 0 {\n\t\treturn func() {}\n\t}\n")},
	{Name: "zero-kill-timeout-never-kills", Rule: "R31c", WantKey: "WaitDelay is positive", File: "interp/handler.go",
		Mutate: ctlReplaceAnywhere("if killTimeout > 0 && runtime.GOOS != \"windows\" {", "if killTimeout >= 0 && runtime.GOOS != \"windows\" {")},
	{Name: "exit-trap-runs-after-the-cancellation-check", Rule: "R31i", WantKey: "Run#after trapCallback", File: "interp/api.go",
		Mutate: ctlReplaceAnywhere("\t// A bare Command bypasses stmt, which normally updates lastExit.\n\tr.lastExit = r.exit\n", "\t// A bare Command bypasses stmt, which normally updates lastExit.\n\tr.lastExit = r.exit\n\tif r.exit.exiting {\n\t\tr.trapCallback(ctx, r.callbackExit, \"exit\")\n\t}\n")},
	{Name: "run-returns-nil-when-cancelled", Rule: "R31i", WantKey: "Run#after stmts", File: "interp/api.go",
		Mutate: ctlReplaceAnywhere("if err := ctx.Err(); err != nil && r.exit.ok() {\n\t\tr.exit.fatal(err)\n\t}", "")},
	{Name: "test-t-calls-fd-on-stdin", Rule: "R31h", WantKey: "f.Fd()", File: "interp/test.go",
		Mutate: ctlReplaceAnywhere("\t\t\t_, ok := stdinTerminal(r.stdin)\n\t\t\treturn ok\n", "\t\t\tf = r.stdin\n")},
	{Name: "stdin-terminal-drops-mode-check", Rule: "R31h", WantKey: "stdinTerminal#stdin.Fd()", File: "interp/stdin_os.go",
		Mutate: ctlReplaceAnywhere("if err != nil || fi.Mode()&os.ModeCharDevice == 0 {", "if err != nil || fi == nil {")},
	{Name: "enoexec-runner-default-timeout", Rule: "R31g", WantKey: "runScriptENOEXEC#nested New", File: "interp/handler.go",
		Mutate: ctlReplaceAnywhere("\t\tExecHandler(DefaultExecHandler(killTimeout)),\n", "")},
	{Name: "expand-config-built-once", Rule: "R31f", WantKey: "Run#rebuilds ecfg", File: "interp/api.go",
		Mutate: ctlReplace("Runner.Run", "r.fillExpandConfig(ctx)", "if r.ecfg == nil {\n\t\tr.fillExpandConfig(ctx)\n\t}", 0)},
	{Name: "cstyle-loop-ignores-context", Rule: "R31a", WantKey: "cmd#for loop", File: "interp/runner.go",
		Mutate: ctlReplace("Runner.cmd", "!r.stop(ctx) && (y.Cond == nil || r.arithm(y.Cond) != 0)", "y.Cond == nil || r.arithm(y.Cond) != 0", 0)},
	{Name: "select-menu-ignores-read-error", Rule: "R31a", WantKey: "cmd#for loop", File: "interp/runner.go",
		Mutate: ctlReplaceAnywhere("\t\t\t\t\t\tr.exit.code = 1\n\t\t\t\t\t\tbreak\n", "\t\t\t\t\t\tr.exit.code = 1\n\t\t\t\t\t\tcontinue\n")},
	{Name: "mapfile-without-deadline", Rule: "R31d", WantKey: "reads r.stdin", File: "interp/builtin.go",
		Mutate: ctlReplaceAnywhere("\t\tdefer r.unblockStdinOnCancel(ctx)()\n\t\tscanner", "\t\tscanner")},
	{Name: "wait-bare-receive", Rule: "R31b", WantKey: "builtin#receive bg.done", File: "interp/builtin.go",
		Mutate: ctlReplaceAnywhere("\t\t\tselect {\n\t\t\tcase <-bg.done:\n\t\t\tcase <-ctx.Done():\n\t\t\t\texit.fatal(ctx.Err())\n\t\t\t\treturn exit\n\t\t\t}\n", "\t\t\t<-bg.done\n")},
	{Name: "wait-select-without-ctx", Rule: "R31b", WantKey: "builtin#select on bg.done", File: "interp/builtin.go",
		Mutate: ctlReplaceAnywhere("\t\t\t\tselect {\n\t\t\t\tcase <-bg.done:\n\t\t\t\tcase <-ctx.Done():\n\t\t\t\t\texit.fatal(ctx.Err())\n\t\t\t\t\treturn exit\n\t\t\t\t}\n", "\t\t\t\tselect {\n\t\t\t\tcase <-bg.done:\n\t\t\t\t}\n")},
	{Name: "exec-on-background-context", Rule: "R31c", WantKey: "exec.CommandContext", File: "interp/handler.go",
		Mutate: ctlReplace("DefaultExecHandler", "exec.CommandContext(ctx, path)", "exec.CommandContext(context.WithoutCancel(ctx), path)", 0)},
	{Name: "cancel-override-without-waitdelay", Rule: "R31c", WantKey: "Cancel override", File: "interp/handler.go",
		Mutate: ctlReplaceAnywhere("\t\t\tcmd.WaitDelay = killTimeout\n", "")},
	{Name: "stop-skips-ctx-when-noexec", Rule: "R31e", WantKey: "stop#ctx.Err()", File: "interp/runner.go",
		Mutate: ctlReplaceAnywhere("\tif err := ctx.Err(); err != nil {\n\t\tr.exit.fatal(err)\n\t\treturn true\n\t}\n\tif r.opts[optNoExec] {\n\t\treturn true\n\t}\n\treturn false\n",
			"\tif !r.opts[optXTrace] {\n\t\treturn false\n\t}\n\tif err := ctx.Err(); err != nil {\n\t\tr.exit.fatal(err)\n\t\treturn true\n\t}\n\tif r.opts[optNoExec] {\n\t\treturn true\n\t}\n\treturn false\n")},
	{Name: "call-skips-stop", Rule: "R31e", WantKey: "call#asks stop", File: "interp/runner.go",
		Mutate: ctlReplaceAnywhere("func (r *Runner) call(ctx context.Context, pos syntax.Pos, args []string) {\n\tif r.stop(ctx) {\n\t\treturn\n\t}\n", "func (r *Runner) call(ctx context.Context, pos syntax.Pos, args []string) {\n")},
}
