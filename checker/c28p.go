package main

import (
	"fmt"
	"go/ast"
	"go/constant"
	"go/types"
	"strings"

	"golang.org/x/tools/go/packages"
)

// R28p: a fixed-size table indexed by a character-like value (a byte, a uint16) whose type can hold more than the table has entries — a byte into a
// [128]T — panics for the values beyond it (a non-ASCII option letter in `set -é`). Every index of an array (not a
// slice) by a non-constant integer whose type's range exceeds the array's length is under a test that bounds that
// value from above, or the value comes from a `range` over the same array.
func checkArrayIndexFits(p *Prog, r *Result, pkg *packages.Package, rel, rule string) int {
	info := pkg.TypesInfo
	n := 0
	for _, fd := range p.AllFuncDecls(rel) {
		if fd.Body == nil || strings.HasSuffix(p.Position(fd.Pos()), "_test.go") || strings.HasSuffix(p.Position(fd.Pos()), "_string.go") {
			continue
		}
		var g *FGraph
		seen := map[string]int{}
		inspectNoLit(fd.Body, func(m ast.Node) bool {
			ix, ok := m.(*ast.IndexExpr)
			if !ok {
				return true
			}
			t := info.TypeOf(ix.X)
			if t == nil {
				return true
			}
			if pt, isPtr := t.Underlying().(*types.Pointer); isPtr {
				t = pt.Elem()
			}
			at, ok := t.Underlying().(*types.Array)
			if !ok {
				return true
			}
			tv, has := info.Types[ix.Index]
			if !has || tv.Value != nil {
				return true // constants are checked by the compiler
			}
			bt, ok := tv.Type.Underlying().(*types.Basic)
			if !ok || bt.Info()&types.IsInteger == 0 {
				return true
			}
			var maxV int64
			switch bt.Kind() {
			case types.Uint8:
				maxV = 255
			case types.Uint16:
				maxV = 65535
			default:
				return true // a wide index is not a table lookup by character; integers from the program are R28c's
			}
			if maxV < at.Len() {
				return true // the type itself cannot exceed the table
			}
			n++
			key := fmt.Sprintf("%s#%s fits the table", funcKey(rel, fd), exprString(ix))
			seen[key]++
			if seen[key] > 1 {
				key += fmt.Sprintf("#%d", seen[key])
			}
			// the index is the key of a range over the same array
			ranged := false
			ast.Inspect(fd.Body, func(k ast.Node) bool {
				if rs, ok := k.(*ast.RangeStmt); ok && rs.Key != nil && exprString(rs.X) == exprString(ix.X) && exprString(rs.Key) == exprString(ix.Index) && rs.Body.Pos() <= ix.Pos() && ix.End() <= rs.Body.End() {
					ranged = true
				}
				return true
			})
			if ranged {
				r.OK(rule, key, ix.Pos(), "the index is the key of a range over the same array")
				return true
			}
			// some identifier of the index expression is bounded from above on every path
			var objs []types.Object
			ast.Inspect(ix.Index, func(k ast.Node) bool {
				if id, ok := k.(*ast.Ident); ok {
					if o := info.ObjectOf(id); o != nil {
						if _, isVar := o.(*types.Var); isVar {
							objs = append(objs, o)
						}
					}
				}
				return true
			})
			if g == nil {
				g = NewFGraph(info, fd.Body, nil)
			}
			blk := blockContaining(g, ix)
			guarded := false
			for _, o := range objs {
				if blk != nil && underEdges(g, blk, func(e *FEdge) bool {
					k := boundsKind(info, e, o)
					return k == "upper" || k == "both"
				}) {
					guarded = true
				}
			}
			// x % N and x & (N-1) bound the value themselves
			if be, ok := ast.Unparen(ix.Index).(*ast.BinaryExpr); ok && (be.Op.String() == "%" || be.Op.String() == "&") {
				if ytv, ok := info.Types[be.Y]; ok && ytv.Value != nil {
					if v, exact := constant.Int64Val(constant.ToInt(ytv.Value)); exact && ((be.Op.String() == "%" && v <= at.Len()) || (be.Op.String() == "&" && v < at.Len())) {
						guarded = true
					}
				}
			}
			r.Check(guarded, rule, key, ix.Pos(), "the index is bounded from above on every path to the access",
				fmt.Sprintf("a table of %d entries is indexed by a %s, which can be larger, on a path with no test that bounds it from above: the values beyond the table panic with index out of range", at.Len(), bt.Name()))
			return true
		})
	}
	return n
}
