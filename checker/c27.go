package main

import (
	"fmt"
	"go/ast"
	"go/constant"
	"go/token"
	"go/types"
	"sort"
	"strings"

	"golang.org/x/tools/go/ssa"
)

func init() {
	register(&Property{
		ID:  "C27",
		Run: runC27,
		Decided: "no code path of the interpreter writes through variable storage it shares with another shell: every element store, map update, delete, clear, copy, in-place sort/insert/delete, " +
			"and every append whose base may have spare capacity, on a list/index/map of a shell variable or on the positional parameters, is applied to storage created in the same activation " +
			"(clone, make, literal), as computed by an SSA provenance walk with reaching stores for local structs (R27a); subshell() gives the copy fresh maps, slices and environment, apart from a " +
			"named table of fields shared by design (R27b); an overlay environment writes to its parent only in function scope, which only function calls create (R27c). Inside every isolating construct (command/process substitution callbacks, the Subshell clause, the pipeline clause, the background branch) calls that can change variables, functions, aliases, options, directory or positional parameters run on a runner made by subshell() (R27d).",
		NotDecided:  "isolation of cd, shell options and traps beyond `the field is copied by value`; behaviour of user-supplied handlers and Environ implementations.",
		Assumptions: []string{"no reflection/unsafe in interp, expand, internal (checked)", "storage returned by Environ.Get / lookupVar / Resolve and received as a parameter is shared; clones and makes are not"},
		Controls:    c27Controls,
		Matrix:      true,
	})
}

func isVarContainerType(t types.Type) bool {
	switch u := t.Underlying().(type) {
	case *types.Slice:
		if b, ok := u.Elem().Underlying().(*types.Basic); ok {
			return b.Kind() == types.String || b.Kind() == types.Int
		}
	case *types.Map:
		if k, ok := u.Key().Underlying().(*types.Basic); ok && k.Kind() == types.String {
			return true
		}
	}
	return false
}

// varStoragePolicy: what counts as shared variable storage.
func varStoragePolicy(p *Prog) provPolicy {
	expandPkg := p.Pkg("expand")
	var variableT *types.Named
	if expandPkg != nil {
		variableT = lookupType(expandPkg, "Variable")
	}
	hasVariable := func(t types.Type) bool {
		if variableT == nil {
			return false
		}
		if namedOf(t) == variableT {
			return true
		}
		if tup, ok := t.(*types.Tuple); ok {
			for i := 0; i < tup.Len(); i++ {
				if namedOf(tup.At(i).Type()) == variableT {
					return true
				}
			}
		}
		return false
	}
	return provPolicy{
		fieldLoad: func(base ssa.Value, st *types.Named, f *types.Var) *origin {
			if st == nil {
				return nil
			}
			switch st.Obj().Name() + "." + f.Name() {
			case "Runner.Params":
				return &origin{kind: oBorrowed, reason: "Runner.Params (shared with the parent shell by subshell)"}
			case "Runner.dirStack", "Runner.Vars", "Runner.Funcs", "Runner.alias", "overlayEnviron.values", "Runner.bgProcs", "Runner.opts":
				// each Runner / overlay owns these (R27b checks that subshell copies them)
				return &origin{kind: oFresh}
			}
			return nil
		},
		callResult: func(call *ssa.Call, callee *ssa.Function, idx int) originSet {
			c := call.Common()
			name := ""
			if callee != nil {
				name = callee.Name()
			} else if c.Method != nil {
				name = c.Method.Name()
			}
			rt := c.Signature().Results()
			var t types.Type
			switch {
			case idx >= 0 && idx < rt.Len():
				t = rt.At(idx).Type()
			case rt.Len() == 1:
				t = rt.At(0).Type()
			}
			if t != nil && hasVariable(t) {
				switch name {
				case "Get", "lookupVar", "Resolve":
					return single(origin{kind: oBorrowed, reason: "variable obtained from " + name + "()"})
				}
			}
			return nil
		},
	}
}

func runC27(p *Prog, r *Result) {
	r.Rule("R27a", "writes to variable storage (lists, indexes, maps, positional parameters) only through storage created in the same activation", 60)
	r.Rule("R27b", "subshell(): every map/slice/pointer field of the new Runner is a fresh copy, except the table of fields shared by design", 8)
	r.Rule("R27c", "overlayEnviron.Set writes to its parent only under funcScope; funcScope is only set by (*Runner).call; no function that reads overlayEnviron.parent hands out an environment", 5)
	r.Rule("R27d", "inside every isolating construct (command/process substitution callbacks, the Subshell clause, the pipeline clause, the background branch) calls that can change variables, functions, aliases, options, directory or positional parameters run on a runner made by subshell(), never on the parent", 6)
	checkOwnership(p, r, "R27a", false)
	checkIsolationRegions(p, r, "R27d")
	checkSubshellCopies(p, r)
	checkOverlayDirection(p, r)
}

// checkOwnership is shared by C27 (variable storage) and, with ast=true, C29.
func checkOwnership(p *Prog, r *Result, rule string, _ bool) {
	prog := p.SSA()
	pkgs := []*ssa.Package{p.SSAPkg("interp"), p.SSAPkg("expand"), p.SSAPkg("internal")}
	for _, sp := range pkgs {
		if sp == nil {
			r.Fatalf("SSA package missing (interp/expand/internal)")
			return
		}
	}
	// no reflection / unsafe in these packages
	for _, rel := range []string{"interp", "expand", "internal"} {
		for _, imp := range p.Pkg(rel).Types.Imports() {
			if imp.Path() == "unsafe" || imp.Path() == "reflect" {
				r.Undecided(rule, rel+"#imports "+imp.Path(), token.NoPos, "package imports "+imp.Path()+": writes through it are invisible to the provenance analysis")
			}
		}
	}
	e := newProvEngine(prog, varStoragePolicy(p))
	fns := moduleFunctions(prog, pkgs...)
	wt := writesThroughSummary(e, fns, false)

	nUnknown := 0
	for _, fn := range fns {
		fkey := ssaFuncKey(fn)
		if fn.Synthetic != "" && fn.Name() == "init" {
			continue // package initialisers run once, before any shell exists
		}
		for _, ws := range writeSites(fn, false) {
			if !isVarContainerType(ws.container.Type()) {
				continue
			}
			os := e.of(ws.container)
			key := fmt.Sprintf("%s#%s on %s", fkey, ws.kind, describeValue(ws.container))
			switch {
			case len(os.borrowed()) > 0:
				what := "writes into"
				if ws.kind == "append" {
					what = "appends onto (and, with spare capacity, writes into)"
				}
				r.Bad(rule, key, ws.instr.Pos(), fmt.Sprintf("%s storage it does not own: %s. A subshell, command substitution or background job running this code changes the parent's variable (and races with it)", what, strings.Join(os.borrowed(), "; ")))
			case len(os.unknown()) > 0 && len(os.params()) == 0:
				nUnknown++
				r.Notef("%s: origin not resolved at %s (%s): %s", rule, key, p.Position(ws.instr.Pos()), strings.Join(os.unknown(), "; "))
			case len(os.params()) > 0:
				// stores through a parameter: judged at the call sites
			default:
				r.OK(rule, key, ws.instr.Pos(), "storage is "+os.String())
			}
		}
		// call sites handing borrowed storage to a function that stores through it
		for _, b := range fn.Blocks {
			for _, ins := range b.Instrs {
				call, ok := ins.(*ssa.Call)
				if !ok {
					continue
				}
				callee := call.Common().StaticCallee()
				if callee == nil || wt[callee] == nil {
					continue
				}
				var idxs []int
				for i := range wt[callee] {
					idxs = append(idxs, i)
				}
				sort.Ints(idxs)
				for _, i := range idxs {
					if i >= len(call.Common().Args) {
						continue
					}
					arg := call.Common().Args[i]
					var os originSet
					switch {
					case isVarContainerType(arg.Type()):
						os = e.of(arg)
					default:
						// a struct passed by value carries its containers along
						st, ok := arg.Type().Underlying().(*types.Struct)
						if !ok {
							continue
						}
						os = originSet{}
						for fi := 0; fi < st.NumFields(); fi++ {
							if isVarContainerType(st.Field(fi).Type()) {
								os.addAll(e.structValueField(arg, fi, call, map[ssa.Value]bool{}))
							}
						}
						if len(os) == 0 {
							continue
						}
					}
					key := fmt.Sprintf("%s#passes %s to %s (stores through it)", fkey, describeValue(arg), callee.Name())
					switch {
					case len(os.borrowed()) > 0:
						r.Bad(rule, key, call.Pos(), fmt.Sprintf("hands storage it does not own to %s, which stores through that argument: %s", callee.Name(), strings.Join(os.borrowed(), "; ")))
					case len(os.params()) > 0 || len(os.unknown()) > 0:
					default:
						r.OK(rule, key, call.Pos(), "argument storage is "+os.String())
					}
				}
			}
		}
	}
	if nUnknown > 0 {
		r.Notef("%s: %d write sites with unresolved origin (listed above; not counted as discharged)", rule, nUnknown)
	}
}

// describeValue renders an SSA value as the source-level thing it came from.
func describeValue(v ssa.Value) string {
	switch x := v.(type) {
	case *ssa.UnOp:
		if fa, ok := x.X.(*ssa.FieldAddr); ok {
			base := "?"
			switch b := fa.X.(type) {
			case *ssa.Alloc:
				base = b.Comment
			case *ssa.Parameter:
				base = b.Name()
			default:
				base = typeName(fa.X.Type())
			}
			return base + "." + fieldNameOf(fa)
		}
		if a, ok := x.X.(*ssa.Alloc); ok && a.Comment != "" {
			return a.Comment
		}
		if fv, ok := x.X.(*ssa.FreeVar); ok {
			return fv.Name()
		}
		return "*" + typeName(x.X.Type())
	case *ssa.Parameter:
		return x.Name()
	case *ssa.Phi:
		if x.Comment != "" {
			return x.Comment
		}
	case *ssa.Field:
		if s, ok := x.X.Type().Underlying().(*types.Struct); ok {
			return describeValue(x.X) + "." + s.Field(x.Field).Name()
		}
	case *ssa.Call:
		return "result of " + x.Common().String()
	case *ssa.Extract:
		return fmt.Sprintf("result #%d of %s", x.Index, x.Tuple.Name())
	case *ssa.Slice:
		return describeValue(x.X) + "[:]"
	case *ssa.Const:
		return "nil"
	case *ssa.MakeSlice, *ssa.MakeMap:
		return "made " + v.Type().String()
	case *ssa.Alloc:
		if x.Comment != "" {
			return x.Comment
		}
	}
	// anonymous temporaries: name them by type, not by register number
	return "a " + strings.ReplaceAll(v.Type().String(), modPath+"/", "") + " value"
}

func checkSubshellCopies(p *Prog, r *Result) {
	prog := p.SSA()
	sp := p.SSAPkg("interp")
	runnerT := lookupType(p.Pkg("interp"), "Runner")
	if sp == nil || runnerT == nil {
		r.Fatalf("interp.Runner not found")
		return
	}
	fn := prog.LookupMethod(types.NewPointer(runnerT), p.Pkg("interp").Types, "subshell")
	if fn == nil {
		r.Fatalf("anchor (*Runner).subshell not found")
		return
	}
	e := newProvEngine(prog, provPolicy{})
	// the new Runner
	var alloc *ssa.Alloc
	for _, b := range fn.Blocks {
		for _, ins := range b.Instrs {
			if a, ok := ins.(*ssa.Alloc); ok && namedOf(a.Type()) == runnerT {
				alloc = a
			}
		}
	}
	if alloc == nil {
		r.Fatalf("(*Runner).subshell: allocation of the new Runner not found")
		return
	}
	shared := map[string]string{
		"Params": "positional parameters: shared, and R27a forbids element writes to them", "ectx": "context of the running program",
		"callHandler": "handler", "execHandler": "handler", "openHandler": "handler", "readDirHandler": "handler", "statHandler": "handler", "accessHandler": "handler",
		"stdin": "stream", "stdout": "stream", "stderr": "stream", "origStdout": "stream kept for process substitutions",
	}
	st := runnerT.Underlying().(*types.Struct)
	stored := map[int][]ssa.Value{}
	for _, b := range fn.Blocks {
		for _, ins := range b.Instrs {
			if s, ok := ins.(*ssa.Store); ok {
				if fa, ok := s.Addr.(*ssa.FieldAddr); ok && fa.X == alloc {
					stored[fa.Field] = append(stored[fa.Field], s.Val)
				}
			}
		}
	}
	var zero []string
	for i := 0; i < st.NumFields(); i++ {
		f := st.Field(i)
		switch f.Type().Underlying().(type) {
		case *types.Map, *types.Slice, *types.Pointer, *types.Interface, *types.Signature, *types.Chan:
		default:
			continue
		}
		key := "interp.(Runner).subshell#field " + f.Name()
		vals := stored[i]
		if len(vals) == 0 {
			zero = append(zero, f.Name())
			continue
		}
		os := originSet{}
		for _, v := range vals {
			os.addAll(e.of(v))
		}
		switch {
		case os.onlyFresh():
			r.OK("R27b", key, vals[0].Pos(), "fresh copy ("+os.String()+")")
		case shared[f.Name()] != "":
			r.OK("R27b", key, vals[0].Pos(), "shared by design: "+shared[f.Name()])
			r.Except("interp.Runner."+f.Name(), "shared with subshells: "+shared[f.Name()])
		default:
			r.Bad("R27b", key, vals[0].Pos(), fmt.Sprintf("the subshell's %s is not a fresh copy (origin: %s): the child and the parent share it, so a change in the subshell is visible in the parent", f.Name(), os.String()))
		}
	}
	sort.Strings(zero)
	r.Notef("R27b: reference-typed Runner fields left zero in a subshell: %s", strings.Join(zero, ", "))
	// newOverlayEnviron(parent, background): background copies every variable
	// (checked structurally: the background arm ranges over parent.Each and Sets into the new overlay)
	if fd := p.FuncDecl("interp", "newOverlayEnviron"); fd != nil {
		info := p.Pkg("interp").TypesInfo
		okBg := false
		ast.Inspect(fd.Body, func(n ast.Node) bool {
			ifs, ok := n.(*ast.IfStmt)
			if !ok || ifs.Else == nil {
				return true
			}
			// if !background { oenv.parent = parent } else { for ... range parent.Each { oenv.Set } }
			parentSetInThen, eachInElse := false, false
			ast.Inspect(ifs.Body, func(m ast.Node) bool {
				if as, ok := m.(*ast.AssignStmt); ok {
					for _, l := range as.Lhs {
						if f := selectorField(info, l); f != nil && f.Name() == "parent" {
							parentSetInThen = true
						}
					}
				}
				return true
			})
			ast.Inspect(ifs.Else, func(m ast.Node) bool {
				if rs, ok := m.(*ast.RangeStmt); ok {
					if se, ok := ast.Unparen(rs.X).(*ast.SelectorExpr); ok && se.Sel.Name == "Each" {
						eachInElse = true
					}
				}
				return true
			})
			if u, ok := ast.Unparen(ifs.Cond).(*ast.UnaryExpr); ok && u.Op == token.NOT && parentSetInThen && eachInElse {
				okBg = true
			}
			return true
		})
		// parent must not be assigned anywhere else in the function
		r.Check(okBg, "R27b", "interp.newOverlayEnviron#background copies, foreground overlays", fd.Pos(), "parent is linked only when !background; otherwise every variable is copied",
			"newOverlayEnviron no longer has the shape `if !background { parent = p } else { copy every variable }`: a background copy may read through to a live parent environment")
	} else {
		r.Fatalf("anchor interp.newOverlayEnviron not found")
	}
}

func checkOverlayDirection(p *Prog, r *Result) {
	pkg := p.Pkg("interp")
	info := pkg.TypesInfo
	set := p.FuncDecl("interp", "overlayEnviron.Set")
	if set == nil {
		r.Fatalf("anchor overlayEnviron.Set not found")
		return
	}
	var file *ast.File
	for _, f := range pkg.Syntax {
		if f.Pos() <= set.Pos() && set.End() <= f.End() {
			file = f
		}
	}
	// every call of a Set method on o.parent is under o.funcScope
	n := 0
	ast.Inspect(set.Body, func(nd ast.Node) bool {
		call, ok := nd.(*ast.CallExpr)
		if !ok {
			return true
		}
		se, ok := ast.Unparen(call.Fun).(*ast.SelectorExpr)
		if !ok || se.Sel.Name != "Set" {
			return true
		}
		// receiver expression mentions o.parent
		mentions := false
		ast.Inspect(se.X, func(m ast.Node) bool {
			if f := selectorFieldNode(info, m); f != nil && f.Name() == "parent" {
				mentions = true
			}
			return true
		})
		if !mentions {
			return true
		}
		n++
		guarded := false
		for _, a := range positiveAtoms(enclosingConds(file, call)) {
			if f := selectorField(info, a); f != nil && f.Name() == "funcScope" {
				guarded = true
			}
		}
		r.Check(guarded, "R27c", "interp.(overlayEnviron).Set#write to parent under funcScope", call.Pos(), "guarded by o.funcScope",
			"an overlay writes to its parent environment outside function scope: assignments in a subshell reach the parent shell")
		return true
	})
	if n == 0 {
		r.Notef("R27c: overlayEnviron.Set never writes to its parent")
	}
	// Nobody hands out an ancestor environment: a function that reads overlayEnviron.parent and returns an environment
	// (a pointer or an interface value) gives its callers something to call Set on that lies beyond the current
	// overlay — across a subshell boundary, which is exactly what an overlay is there to stop. Get and Each read through
	// the parent and return variables, not environments.
	nParentReaders := 0
	for _, fd := range p.AllFuncDecls("interp") {
		reads := false
		ast.Inspect(fd.Body, func(nd ast.Node) bool {
			if f := selectorFieldNode(info, nd); f != nil && f.Name() == "parent" {
				if sel, ok := nd.(*ast.SelectorExpr); ok && typeName(derefType(info.TypeOf(sel.X))) == "overlayEnviron" {
					reads = true
				}
			}
			return true
		})
		if !reads {
			continue
		}
		nParentReaders++
		handsOut := false
		if fd.Type.Results != nil {
			for _, res := range fd.Type.Results.List {
				t := info.TypeOf(res.Type)
				if t == nil {
					continue
				}
				switch t.Underlying().(type) {
				case *types.Pointer, *types.Interface:
					if t.String() != "error" {
						handsOut = true
					}
				}
			}
		}
		// the constructor returns the new overlay, whose parent it just stored
		isCtor := false
		ast.Inspect(fd.Body, func(nd ast.Node) bool {
			if cl, ok := nd.(*ast.CompositeLit); ok && typeName(info.TypeOf(cl)) == "overlayEnviron" {
				isCtor = true
			}
			return true
		})
		// a walk that only follows parents of function-scope overlays stays inside the current shell: every read of
		// .parent sits in the body of an `if`/`for` whose condition has funcScope as a positive atom
		onlyFuncScopes := true
		if handsOut && !isCtor {
			ast.Inspect(fd.Body, func(nd ast.Node) bool {
				sel, ok := nd.(*ast.SelectorExpr)
				if !ok || sel.Sel.Name != "parent" || typeName(derefType(info.TypeOf(sel.X))) != "overlayEnviron" {
					return true
				}
				guarded := false
				ast.Inspect(fd.Body, func(m ast.Node) bool {
					var cond ast.Expr
					var body *ast.BlockStmt
					switch y := m.(type) {
					case *ast.IfStmt:
						cond, body = y.Cond, y.Body
					case *ast.ForStmt:
						cond, body = y.Cond, y.Body
					}
					if cond == nil || body == nil || !(body.Pos() <= sel.Pos() && sel.End() <= body.End()) {
						return true
					}
					for _, a := range conjuncts(cond) {
						if f := selectorField(info, a); f != nil && f.Name() == "funcScope" {
							guarded = true
						}
					}
					return true
				})
				if !guarded {
					onlyFuncScopes = false
				}
				return true
			})
		}
		r.Check(!handsOut || isCtor || onlyFuncScopes, "R27c", funcKey("interp", fd)+"#reads overlayEnviron.parent without handing out an environment", fd.Pos(),
			"reads through the parent and returns no environment (or is the constructor, or only climbs out of function scopes)",
			"this function follows overlayEnviron.parent and returns an environment: its callers can Set variables in an ancestor of the current overlay, i.e. in the shell a subshell was copied from")
	}
	// other writes to the parent field's target: stores to o.parent are only in newOverlayEnviron / literals
	// funcScope: true literals only in (*Runner).call
	for _, fd := range p.AllFuncDecls("interp") {
		ast.Inspect(fd.Body, func(nd ast.Node) bool {
			switch x := nd.(type) {
			case *ast.CompositeLit:
				if typeName(info.TypeOf(x)) != "overlayEnviron" {
					return true
				}
				for _, el := range x.Elts {
					if kv, ok := el.(*ast.KeyValueExpr); ok {
						if k, ok := kv.Key.(*ast.Ident); ok && k.Name == "funcScope" {
							tv := info.Types[kv.Value]
							isFalse := tv.Value != nil && tv.Value.Kind() == constant.Bool && !constant.BoolVal(tv.Value)
							if !isFalse {
								r.Check(fd.Name.Name == "call" && recvTypeName(fd) == "Runner", "R27c", "interp."+fd.Name.Name+"#overlayEnviron{funcScope: true}", x.Pos(),
									"function-scope overlays are created by (*Runner).call only", "a function-scope overlay (which writes globals into its parent) is created outside (*Runner).call")
							}
						}
					}
				}
			case *ast.AssignStmt:
				for _, l := range x.Lhs {
					if f := selectorField(info, l); f != nil && f.Name() == "funcScope" {
						r.Bad("R27c", "interp."+fd.Name.Name+"#assigns funcScope", x.Pos(), "funcScope is assigned after construction")
					}
				}
			}
			return true
		})
	}
}

func selectorFieldNode(info *types.Info, n ast.Node) *types.Var {
	if e, ok := n.(ast.Expr); ok {
		return selectorField(info, e)
	}
	return nil
}

var c27Controls = []Control{
	{Name: "subshell-clause-runs-on-parent", Rule: "R27d", WantKey: "case *syntax.Subshell: r.stmts", File: "interp/runner.go",
		Mutate: ctlReplaceAnywhere("r2.stmts(ctx, cm.Stmts)\n\t\tr2.exit.exiting", "r.stmts(ctx, cm.Stmts)\n\t\tr2.exit.exiting")},
	{Name: "background-job-runs-on-parent", Rule: "R27d", WantKey: "if Stmt.Background: r.Run", File: "interp/runner.go",
		Mutate: ctlReplaceAnywhere("r2.Run(ctx, &st2)", "r.Run(ctx, &st2)")},
	{Name: "cmdsubst-expands-on-parent", Rule: "R27d", WantKey: "CmdSubst callback: r.fields", File: "interp/runner.go",
		Mutate: ctlReplaceAnywhere("r2 := r.subshell(false)\n\t\t\tr2.stdout = w\n", "r2 := r.subshell(false)\n\t\t\tr2.stdout = w\n\t\t\tif len(cs.Stmts) == 1 {\n\t\t\t\tif ce, ok := cs.Stmts[0].Cmd.(*syntax.CallExpr); ok && len(ce.Args) > 7 {\n\t\t\t\t\t_ = r.fields(ce.Args...)\n\t\t\t\t}\n\t\t\t}\n")},
	{Name: "setVarWithIndex-drops-clone", Rule: "R27a", WantKey: "setVarWithIndex", File: "interp/vars.go",
		Mutate: ctlReplace("Runner.setVarWithIndex", "list = slices.Clone(prev.List)", "list = prev.List", 0)},
	{Name: "unsetElem-map-no-clone", Rule: "R27a", WantKey: "unsetElem#delete", File: "interp/vars.go",
		Mutate: ctlReplace("Runner.unsetElem", "vr.Map = maps.Clone(vr.Map)", "", 0)},
	{Name: "subshell-clips-dirstack", Rule: "R27b", WantKey: "field dirStack", File: "interp/api.go",
		Mutate: ctlReplace("Runner.subshell", "r2.dirStack = append(r2.dirBootstrap[:0], r.dirStack...)", "r2.dirStack = slices.Clip(r.dirStack)", 0)},
	{Name: "subshell-shares-funcs", Rule: "R27b", WantKey: "field Funcs", File: "interp/api.go",
		Mutate: ctlReplace("Runner.subshell", "r2.Funcs = maps.Clone(r.Funcs)", "r2.Funcs = r.Funcs", 0)},
	{Name: "overlay-writes-parent-always", Rule: "R27c", WantKey: "write to parent under funcScope", File: "interp/vars.go",
		Mutate: ctlReplace("overlayEnviron.Set", "o.funcScope && !vr.Local && !prev.Local", "o.parent != nil && !vr.Local && !prev.Local", 0)},
}
