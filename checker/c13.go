package main

import (
	"fmt"
	"go/ast"
	"go/constant"
	"go/token"
	"go/types"
	"strings"

	"golang.org/x/tools/go/ast/astutil"
)

func init() {
	register(&Property{
		ID:  "C13",
		Run: runC13,
		Decided: "Quote refuses only for its four documented reasons, each under its documented condition and variant (R13a); every rune that starts a token for the lexer " +
			"(regOps) triggers quoting, and the unquoted return is reachable only for strings with no shell character, no non-printable rune and that are not keywords (R13b); " +
			"the double-quote fallback escapes every rune the lexer treats specially inside double quotes, plus the backslash (R13c). The $-quote escapes Quote writes agree with the escape switch of package expand in letter, byte and hexadecimal width (R13e); the double-quote fallback writes its backslash unconditionally (R13c); RuneError tests carry the width conjunct (R13g).",
		NotDecided:  "that the chosen quoting style expands back to the input in each shell (needs the shells); correctness of the $'..' escape sequences.",
		Assumptions: []string{},
		Controls:    c13Controls,
	})
}

// enclosingCond is a condition known to hold at a node because of the
// control statements that enclose it (AST ancestors).
type enclosingCond struct {
	Expr   ast.Expr
	Pos    bool     // Expr holds (true) or its negation holds (false)
	Tag    ast.Expr // for tagged switches: Tag equals one of Values
	Values []ast.Expr
	Disj   []ast.Expr // tagless switch clause: one of these holds
}

func enclosingConds(file *ast.File, n ast.Node) []enclosingCond {
	path, _ := astutil.PathEnclosingInterval(file, n.Pos(), n.End())
	var out []enclosingCond
	for i := 0; i+1 < len(path); i++ {
		child, parent := path[i], path[i+1]
		switch x := parent.(type) {
		case *ast.IfStmt:
			if child == ast.Node(x.Body) {
				out = append(out, enclosingCond{Expr: x.Cond, Pos: true})
			} else if x.Else != nil && child == ast.Node(x.Else) {
				out = append(out, enclosingCond{Expr: x.Cond, Pos: false})
			}
		case *ast.CaseClause:
			// find the switch
			if i+3 < len(path) {
				if sw, ok := path[i+3].(*ast.SwitchStmt); ok {
					if sw.Tag != nil {
						out = append(out, enclosingCond{Tag: sw.Tag, Values: x.List})
					} else if len(x.List) == 1 {
						out = append(out, enclosingCond{Expr: x.List[0], Pos: true})
					} else {
						out = append(out, enclosingCond{Disj: x.List})
					}
				}
			}
		}
	}
	return out
}

// conjuncts splits a && b && c.
func conjuncts(e ast.Expr) []ast.Expr {
	e = ast.Unparen(e)
	if be, ok := e.(*ast.BinaryExpr); ok && be.Op == token.LAND {
		return append(conjuncts(be.X), conjuncts(be.Y)...)
	}
	return []ast.Expr{e}
}

func disjuncts(e ast.Expr) []ast.Expr {
	e = ast.Unparen(e)
	if be, ok := e.(*ast.BinaryExpr); ok && be.Op == token.LOR {
		return append(disjuncts(be.X), disjuncts(be.Y)...)
	}
	return []ast.Expr{e}
}

// positiveAtoms returns the atomic conditions that must hold at the node.
func positiveAtoms(conds []enclosingCond) []ast.Expr {
	var out []ast.Expr
	for _, c := range conds {
		if c.Expr != nil && c.Pos {
			out = append(out, conjuncts(c.Expr)...)
		}
	}
	return out
}

// langInCall recognises X.in(S) and returns the constant value of S.
func langInCall(info *types.Info, e ast.Expr) (uint64, bool) {
	call, ok := ast.Unparen(e).(*ast.CallExpr)
	if !ok || len(call.Args) != 1 {
		return 0, false
	}
	fn := calleeOf(info, call)
	if fn == nil || fn.Name() != "in" || typeName(fn.Type().(*types.Signature).Recv().Type()) != "LangVariant" {
		return 0, false
	}
	tv := info.Types[call.Args[0]]
	if tv.Value == nil {
		return 0, false
	}
	v, _ := constant.Uint64Val(tv.Value)
	return v, true
}

func langConst(pkg *types.Package, name string) uint64 {
	c, ok := pkg.Scope().Lookup(name).(*types.Const)
	if !ok {
		return 0
	}
	v, _ := constant.Uint64Val(c.Val())
	return v
}

func runC13(p *Prog, r *Result) {
	pkg := p.Pkg("syntax")
	if pkg == nil {
		r.Fatalf("package syntax not loaded")
		return
	}
	info := pkg.TypesInfo
	r.Rule("R13a", "QuoteError is constructed exactly at the four documented refusals, each under its documented guard; Quote returns no other error", 5)
	r.Rule("R13b", "lexer token runes (regOps) ⊆ runes that trigger quoting; the unquoted return is guarded by !shellChars && !nonPrintable && !IsKeyword", 18)
	r.Rule("R13c", "double-quote fallback escapes every rune special to the lexer inside double quotes, and the backslash", 2)

	r.Rule("R13e", "every $'…' escape Quote writes has a case in the expansion side's escape switch, and fixed-width hexadecimal escapes are exactly as wide as the most the reader takes", 10)
	checkEscapeAgreement(p, r, "R13e")
	r.Rule("R13g", "in Quote every test of a decoded rune against utf8.RuneError is conjoined with a test of its width against 1 (a valid U+FFFD decodes to the same rune)", 2)
	checkRuneErrorWidth(p, r, "R13g")
	r.Rule("R13h", "every non-error return of Quote is the string itself, a builder's contents or single quotes around the string; the double-quote fallback's return is only reached through its escaping loop", 5)
	checkQuoteReturns(p, r, "R13h")
	r.Rule("R13i", "every word the statement parser dispatches on is quoted by Quote: it holds a character Quote quotes for, or a word predicate negated before the bare return lists it", 25)
	checkQuoteCoversParserWords(p, r, p.Pkg("syntax"), "R13i")
	r.Rule("R13j", "in Quote a rune is narrowed to a byte only where it is known to be below utf8.RuneSelf: \\xHH in $'…' is a byte, not a code point (0 instances on the pinned tree, which writes the input's own byte; armed by a control; the check is C17's R17d)", 0)
	checkRuneNarrowingIn(p, r, "syntax", "Quote", "R13j", "a \\xHH escape in $'…' is one byte, so U+00A0 written as \\xa0 expands to an invalid lone byte instead of the two bytes of the character")

	fd := p.FuncDecl("syntax", "Quote")
	if fd == nil || fd.Body == nil {
		r.Fatalf("anchor syntax.Quote not found")
		return
	}
	var file *ast.File
	for _, f := range pkg.Syntax {
		if f.Pos() <= fd.Pos() && fd.End() <= f.End() {
			file = f
		}
	}
	qe := lookupType(pkg, "QuoteError")
	if qe == nil {
		r.Fatalf("anchor syntax.QuoteError not found")
		return
	}
	posix, mksh := langConst(pkg.Types, "LangPOSIX"), langConst(pkg.Types, "LangMirBSDKorn")

	// ---- R13a: construction sites in the whole module
	g := buildRefGraph(p)
	sites := g.constructionSites(qe)
	nSites := 0
	for fo, ps := range sites {
		for _, pos := range ps {
			nSites++
			if g.decl[fo] != fd {
				r.Bad("R13a", "syntax.QuoteError#constructed in "+funcObjKey(fo), pos, "QuoteError is constructed outside Quote: a refusal the documentation does not list")
			}
		}
	}
	seenMsg := map[string]int{}
	ast.Inspect(fd.Body, func(n ast.Node) bool {
		cl, ok := n.(*ast.CompositeLit)
		if !ok || namedOf(info.TypeOf(cl)) != qe {
			return true
		}
		msg := ""
		for _, el := range cl.Elts {
			if kv, ok := el.(*ast.KeyValueExpr); ok {
				if k, ok := kv.Key.(*ast.Ident); ok && k.Name == "Message" {
					if id, ok := ast.Unparen(kv.Value).(*ast.Ident); ok {
						if c, ok := info.Uses[id].(*types.Const); ok {
							msg = c.Name()
						}
					}
				}
			}
		}
		seenMsg[msg]++
		key := "syntax.Quote#refusal " + msg
		conds := enclosingConds(file, cl)
		atoms := positiveAtoms(conds)
		hasLang := func(want uint64) bool {
			for _, a := range atoms {
				if v, ok := langInCall(info, a); ok && v == want {
					return true
				}
			}
			return false
		}
		hasCmp := func(op token.Token, lhsIsRune bool, rhs string) bool {
			for _, a := range atoms {
				if be, ok := ast.Unparen(a).(*ast.BinaryExpr); ok && be.Op == op {
					if tv := info.Types[be.Y]; tv.Value != nil && tv.Value.ExactString() == rhs {
						return true
					}
				}
			}
			return false
		}
		switch msg {
		case "quoteErrNull":
			ok := false
			for _, c := range conds {
				if c.Tag != nil {
					for _, v := range c.Values {
						if tv := info.Types[v]; tv.Value != nil && tv.Value.ExactString() == "0" {
							ok = true
						}
					}
				}
			}
			r.Check(ok, "R13a", key, cl.Pos(), "under `case '\\x00'` of the rune switch", "the NUL refusal is not guarded by a NUL rune test")
		case "quoteErrPOSIX":
			okLang := hasLang(posix)
			// the enclosing if must be the invalid-or-nonprintable test
			okCond := false
			for _, c := range conds {
				if c.Expr != nil && c.Pos {
					ds := disjuncts(c.Expr)
					var hasErr, hasPrint bool
					for _, d := range ds {
						s := exprString(d)
						if strings.Contains(s, "RuneError") {
							hasErr = true
						}
						if strings.Contains(s, "IsPrint") && strings.HasPrefix(strings.TrimSpace(s), "!") {
							hasPrint = true
						}
					}
					if len(ds) == 2 && hasErr && hasPrint {
						okCond = true
					}
				}
			}
			r.Check(okLang && okCond, "R13a", key, cl.Pos(), "under lang.in(LangPOSIX) inside the invalid-or-non-printable test",
				fmt.Sprintf("the POSIX refusal must apply only to POSIX and only to invalid/non-printable runes (variant guard found: %v, rune guard found: %v)", okLang, okCond))
		case "quoteErrRange":
			r.Check(hasCmp(token.GTR, true, "1114111"), "R13a", key, cl.Pos(), "under r > utf8.MaxRune", "the out-of-range refusal is not guarded by r > utf8.MaxRune")
		case "quoteErrMksh":
			r.Check(hasLang(mksh) && hasCmp(token.GTR, true, "65533"), "R13a", key, cl.Pos(), "under lang.in(LangMirBSDKorn) && r > 0xFFFD",
				"the mksh refusal must apply only to mksh and only above U+FFFD")
		default:
			r.Bad("R13a", "syntax.Quote#refusal "+exprString(cl), cl.Pos(), "a QuoteError with a message that is not one of the four documented reasons")
		}
		return true
	})
	for _, m := range []string{"quoteErrNull", "quoteErrPOSIX", "quoteErrRange", "quoteErrMksh"} {
		if seenMsg[m] != 1 {
			r.Bad("R13a", "syntax.Quote#refusal "+m+" count", fd.Pos(), fmt.Sprintf("expected exactly one construction of this refusal, found %d", seenMsg[m]))
		}
	}
	// any other non-nil error return
	otherErr := 0
	ast.Inspect(fd.Body, func(n ast.Node) bool {
		if _, ok := n.(*ast.FuncLit); ok {
			return false
		}
		rs, ok := n.(*ast.ReturnStmt)
		if !ok || len(rs.Results) != 2 {
			return true
		}
		e := ast.Unparen(rs.Results[1])
		if isNilIdent(info, e) {
			return true
		}
		if u, ok := e.(*ast.UnaryExpr); ok && u.Op == token.AND {
			if cl, ok := ast.Unparen(u.X).(*ast.CompositeLit); ok && namedOf(info.TypeOf(cl)) == qe {
				return true
			}
		}
		otherErr++
		r.Bad("R13a", "syntax.Quote#return "+shortExpr(e), rs.Pos(), "Quote returns an error that is not one of the documented QuoteError refusals")
		return true
	})
	r.Check(otherErr == 0 && nSites == 4, "R13a", "syntax.Quote#refusals are exactly four", fd.Pos(), "4 QuoteError constructions in the module, all in Quote; no other error return",
		fmt.Sprintf("%d QuoteError constructions, %d other error returns (want 4, 0)", nSites, otherErr))

	// ---- R13b
	regFD := p.FuncDecl("syntax", "regOps")
	if regFD == nil {
		r.Fatalf("anchor syntax.regOps not found")
		return
	}
	regSw := valueSwitches(regFD.Body)
	qSw := valueSwitches(fd.Body)
	if len(regSw) != 1 || len(qSw) < 1 {
		r.Undecided("R13b", "syntax.Quote#shape", fd.Pos(), "rune switches not found")
		return
	}
	reg := runeCases(info, regSw[0], func(cc *ast.CaseClause) bool { return bodyReturnsTrue(info, cc.Body) })
	var shellVar types.Object
	shell := runeCases(info, qSw[0], func(cc *ast.CaseClause) bool {
		for _, st := range cc.Body {
			if as, ok := st.(*ast.AssignStmt); ok && len(as.Lhs) == 1 && len(as.Rhs) == 1 {
				if tv := info.Types[as.Rhs[0]]; tv.Value != nil && tv.Value.Kind() == constant.Bool && constant.BoolVal(tv.Value) {
					if id, ok := ast.Unparen(as.Lhs[0]).(*ast.Ident); ok {
						shellVar = info.Uses[id]
						return true
					}
				}
			}
		}
		return false
	})
	for rn := range reg {
		r.Check(shell[rn], "R13b", fmt.Sprintf("syntax.Quote#token rune %q triggers quoting", rn), qSw[0].Pos(), "in the shellChars case list",
			fmt.Sprintf("%q starts a token in the lexer (regOps) but Quote returns strings containing it unquoted: the result is not one word", rn))
	}
	// whitespace and the comment/escape characters the lexer also acts on
	for _, rn := range []rune{' ', '\t', '\n', '\\', '#'} {
		r.Check(shell[rn], "R13b", fmt.Sprintf("syntax.Quote#separator rune %q triggers quoting", rn), qSw[0].Pos(), "in the shellChars case list",
			fmt.Sprintf("%q separates words / starts a comment / escapes, but does not trigger quoting", rn))
	}
	// ---- R13d: characters that start an expansion of an unquoted word trigger quoting unconditionally
	{
		type trig struct {
			r      rune
			why    string
			pos    token.Pos
			source string
		}
		var trigs []trig
		// pathname expansion: the bytes pattern.HasMeta reports (a word containing them is globbed)
		if pp := p.Pkg("pattern"); pp != nil {
			if hm := p.FuncDecl("pattern", "HasMeta"); hm != nil {
				pinfo := pp.TypesInfo
				if hsw := valueSwitches(hm.Body); len(hsw) == 1 {
					flagVars := map[types.Object]bool{}
					for _, st0 := range hsw[0].Body.List {
						for _, st := range st0.(*ast.CaseClause).Body {
							if ifs, ok := st.(*ast.IfStmt); ok {
								if id, ok := ast.Unparen(ifs.Cond).(*ast.Ident); ok && bodyReturnsTrue(pinfo, ifs.Body.List) {
									flagVars[pinfo.Uses[id]] = true
								}
							}
						}
					}
					for rn := range runeCases(pinfo, hsw[0], func(cc *ast.CaseClause) bool {
						if bodyReturnsTrue(pinfo, cc.Body) {
							return true
						}
						for _, st := range cc.Body {
							if as, ok := st.(*ast.AssignStmt); ok && len(as.Lhs) == 1 {
								if id, ok := ast.Unparen(as.Lhs[0]).(*ast.Ident); ok && flagVars[pinfo.Uses[id]] {
									return true
								}
							}
						}
						return false
					}) {
						trigs = append(trigs, trig{rn, "pattern.HasMeta treats it as a glob metacharacter", hm.Pos(), "pattern.HasMeta"})
					}
				}
			}
		}
		// brace expansion: the string SplitBraces looks for before doing any work
		if sb := p.FuncDecl("syntax", "SplitBraces"); sb != nil {
			ast.Inspect(sb.Body, func(n ast.Node) bool {
				c, ok := n.(*ast.CallExpr)
				if !ok || qualName(calleeOf(info, c)) != "strings.Contains" || len(c.Args) != 2 {
					return true
				}
				if tv := info.Types[c.Args[1]]; tv.Value != nil && tv.Value.Kind() == constant.String {
					for _, rn := range constant.StringVal(tv.Value) {
						trigs = append(trigs, trig{rn, "SplitBraces starts brace expansion on it", c.Pos(), "syntax.SplitBraces"})
					}
				}
				return true
			})
		}
		// tilde expansion: the prefix expandUser cuts
		if ep := p.Pkg("expand"); ep != nil {
			if eu := p.FuncDecl("expand", "Config.expandUser"); eu != nil {
				einfo := ep.TypesInfo
				ast.Inspect(eu.Body, func(n ast.Node) bool {
					c, ok := n.(*ast.CallExpr)
					if !ok || len(c.Args) != 2 {
						return true
					}
					if q := qualName(calleeOf(einfo, c)); q != "strings.CutPrefix" && q != "strings.HasPrefix" {
						return true
					}
					if tv := einfo.Types[c.Args[1]]; tv.Value != nil && tv.Value.Kind() == constant.String {
						for _, rn := range constant.StringVal(tv.Value) {
							trigs = append(trigs, trig{rn, "expandUser starts tilde expansion on it", c.Pos(), "expand.(Config).expandUser"})
						}
					}
					return true
				})
			}
		}
		r.Rule("R13d", "runes on which an unquoted word is expanded (glob metacharacters of pattern.HasMeta, the brace SplitBraces looks for, the tilde expandUser cuts) set shellChars unconditionally", 4)
		seenT := map[rune]bool{}
		for _, t := range trigs {
			if seenT[t.r] {
				continue
			}
			seenT[t.r] = true
			r.Check(shell[t.r], "R13d", fmt.Sprintf("syntax.Quote#expansion trigger %q triggers quoting", t.r), t.pos, "in the unconditional shellChars case list ("+t.why+")",
				fmt.Sprintf("%s (%s), but Quote does not always quote strings containing %q: the result can expand to something other than the input", t.source, t.why, t.r))
		}
		if len(trigs) == 0 {
			r.Undecided("R13d", "syntax.Quote#expansion triggers", fd.Pos(), "none of the anchors pattern.HasMeta / syntax.SplitBraces / expandUser yielded a trigger rune")
		}
	}

	// the unquoted return: `return s, nil` with s the parameter
	var sParam types.Object
	if len(fd.Type.Params.List) > 0 && len(fd.Type.Params.List[0].Names) > 0 {
		sParam = info.Defs[fd.Type.Params.List[0].Names[0]]
	}
	nUnq := 0
	ast.Inspect(fd.Body, func(n ast.Node) bool {
		rs, ok := n.(*ast.ReturnStmt)
		if !ok || len(rs.Results) != 2 {
			return true
		}
		id, ok := ast.Unparen(rs.Results[0]).(*ast.Ident)
		if !ok || info.Uses[id] != sParam {
			return true
		}
		nUnq++
		atoms := positiveAtoms(enclosingConds(file, rs))
		var hasShell, hasKw, hasNP bool
		for _, a := range atoms {
			u, ok := ast.Unparen(a).(*ast.UnaryExpr)
			if !ok || u.Op != token.NOT {
				continue
			}
			if id, ok := ast.Unparen(u.X).(*ast.Ident); ok {
				if info.Uses[id] == shellVar && shellVar != nil {
					hasShell = true
				} else if id.Name == "nonPrintable" {
					hasNP = true
				}
			}
			if call, ok := ast.Unparen(u.X).(*ast.CallExpr); ok {
				if fn := calleeOf(info, call); fn != nil && fn.Name() == "IsKeyword" && len(call.Args) == 1 {
					if a, ok := ast.Unparen(call.Args[0]).(*ast.Ident); ok && info.Uses[a] == sParam {
						hasKw = true
					}
				}
			}
		}
		r.Check(hasShell && hasKw && hasNP, "R13b", "syntax.Quote#unquoted return guarded", rs.Pos(), "under !shellChars && !nonPrintable && !IsKeyword(s)",
			fmt.Sprintf("the string is returned unquoted without all three tests (shellChars:%v nonPrintable:%v keyword:%v)", hasShell, hasNP, hasKw))
		return true
	})
	if nUnq == 0 {
		r.Notef("R13b: Quote has no unquoted return")
	}
	// shellChars must not be reset to false after being set
	resets := 0
	ast.Inspect(fd.Body, func(n ast.Node) bool {
		if as, ok := n.(*ast.AssignStmt); ok && as.Tok == token.ASSIGN && len(as.Lhs) == 1 && len(as.Rhs) == 1 {
			if id, ok := ast.Unparen(as.Lhs[0]).(*ast.Ident); ok && shellVar != nil && info.Uses[id] == shellVar {
				if tv := info.Types[as.Rhs[0]]; !(tv.Value != nil && tv.Value.Kind() == constant.Bool && constant.BoolVal(tv.Value)) {
					resets++
				}
			}
		}
		return true
	})
	r.Check(resets == 0, "R13b", "syntax.Quote#shellChars is sticky", fd.Pos(), "only ever assigned true", "shellChars is assigned something other than true: an earlier shell character can be forgotten")

	// ---- R13c: double-quote fallback
	var dqLexer map[rune]bool
	if nk := p.FuncDecl("syntax", "Parser.nextKeepSpaces"); nk != nil {
		ast.Inspect(nk.Body, func(n ast.Node) bool {
			cc, ok := n.(*ast.CaseClause)
			if !ok || len(cc.List) != 1 {
				return true
			}
			if id, ok := ast.Unparen(cc.List[0]).(*ast.Ident); ok && id.Name == "dblQuotes" {
				for _, st := range cc.Body {
					if sw, ok := st.(*ast.SwitchStmt); ok {
						dqLexer = runeCases(info, sw, nil)
					}
				}
			}
			return true
		})
	}
	if dqLexer == nil {
		r.Undecided("R13c", "syntax.(Parser).nextKeepSpaces#dblQuotes arm", fd.Pos(), "lexer's double-quote state switch not found")
		return
	}
	var dqEsc map[rune]bool
	for _, sw := range qSw[1:] {
		m := runeCases(info, sw, nil)
		if m['"'] && sw.Tag != nil {
			dqEsc = m
		}
	}
	if dqEsc == nil {
		r.Undecided("R13c", "syntax.Quote#double-quote fallback", fd.Pos(), "escaping switch of the double-quote fallback not found")
		return
	}
	okDQ, miss := subset(dqLexer, dqEsc)
	r.Check(okDQ, "R13c", "syntax.Quote#double-quote escapes ⊇ lexer specials", fd.Pos(), "lexer specials "+runeSetString(dqLexer)+" ⊆ escaped "+runeSetString(dqEsc),
		fmt.Sprintf("inside double quotes the lexer acts on %q but Quote's fallback leaves it unescaped: the result expands to something else", string(miss)))
	r.Check(dqEsc['\\'], "R13c", "syntax.Quote#double-quote escapes backslash", fd.Pos(), "backslash is escaped", "backslash is not escaped inside the double-quote fallback")
	// the other direction (after seed C13-13): a backslash inside double quotes is removed only before the runes the
	// expansion side lists; before any other rune it stays, so escaping one more rune adds a backslash to the value
	if epkg := p.Pkg("expand"); epkg != nil {
		if wf := p.FuncDecl("expand", "Config.wordField"); wf != nil {
			var removed map[rune]bool
			ast.Inspect(wf.Body, func(n ast.Node) bool {
				if sw, ok := n.(*ast.SwitchStmt); ok && sw.Tag != nil && removed == nil {
					if ix, ok := ast.Unparen(sw.Tag).(*ast.IndexExpr); ok {
						if be, ok := ast.Unparen(ix.Index).(*ast.BinaryExpr); ok && be.Op == token.ADD {
							if m := runeCases(epkg.TypesInfo, sw, nil); m['\\'] {
								removed = m
							}
						}
					}
				}
				return true
			})
			if removed == nil {
				r.Undecided("R13c", "expand.(Config).wordField#backslash removal inside double quotes", wf.Pos(), "the switch that removes a backslash before a special rune was not found")
			} else {
				okRem, extra := subset(dqEsc, removed)
				r.Check(okRem, "R13c", "syntax.Quote#double-quote escapes ⊆ what the expansion un-escapes", fd.Pos(), "escaped "+runeSetString(dqEsc)+" ⊆ un-escaped "+runeSetString(removed),
					fmt.Sprintf("Quote's double-quote fallback writes a backslash before %q, which the expansion of a double-quoted string does not remove (it only does before %s): the backslash becomes part of the value", string(extra), runeSetString(removed)))
			}
		}
	}
	// the escape is written unconditionally in every clause that lists one of those runes
	for _, sw := range qSw[1:] {
		if m := runeCases(info, sw, nil); !(m['"'] && sw.Tag != nil) {
			continue
		}
		for _, st := range sw.Body.List {
			cc := st.(*ast.CaseClause)
			lists := false
			for _, e := range cc.List {
				if tv, ok := info.Types[e]; ok && tv.Value != nil {
					if v, ok := constant.Int64Val(tv.Value); ok && (dqLexer[rune(v)] || v == '\\') {
						lists = true
					}
				}
			}
			if !lists {
				continue
			}
			uncond := false
			for _, b := range cc.Body {
				es, ok := b.(*ast.ExprStmt)
				if !ok {
					continue
				}
				if call, ok := es.X.(*ast.CallExpr); ok {
					for _, a := range call.Args {
						if tv, ok := info.Types[a]; ok && tv.Value != nil {
							if v, ok := constant.Int64Val(tv.Value); ok && v == '\\' {
								uncond = true
							}
							if tv.Value.Kind() == constant.String && constant.StringVal(tv.Value) == "\\" {
								uncond = true
							}
						}
					}
				}
			}
			r.Check(uncond, "R13c", "syntax.Quote#double-quote escape written unconditionally: "+exprString(cc.List[0]), cc.Pos(), "the clause writes the backslash before the rune on every path",
				"a rune that is special inside double quotes is only escaped under a further condition: in the remaining cases it is written bare (a trailing backslash then escapes the closing quote)")
		}
	}
}

var c13Controls = []Control{
	{Name: "double-quote-fallback-escapes-the-bang", Rule: "R13c", WantKey: "Quote#double-quote escapes ⊆ what the expansion un-escapes", File: "syntax/quote.go",
		Mutate: ctlReplaceAnywhere("\t\tcase '\"', '\\\\', '`', '$':\n\t\t\tb.WriteByte('\\\\')", "\t\tcase '\"', '\\\\', '`', '$', '!':\n\t\t\tb.WriteByte('\\\\')")},
	{Name: "latin1-code-points-written-as-one-byte", Rule: "R13j", WantKey: "Quote#byte(r)", File: "syntax/quote.go",
		Mutate: ctlReplaceAnywhere("\t\t\tcase r < utf8.RuneSelf, r == utf8.RuneError && size == 1:\n\t\t\t\t// \\xXX, fixed at two hexadecimal characters.\n\t\t\t\tfmt.Fprintf(&b, \"\\\\x%02x\", rem[0])\n", "\t\t\tcase r <= 0xff, r == utf8.RuneError && size == 1:\n\t\t\t\tc := rem[0]\n\t\t\t\tif size > 1 {\n\t\t\t\t\tc = byte(r)\n\t\t\t\t}\n\t\t\t\tfmt.Fprintf(&b, \"\\\\x%02x\", c)\n")},
	{Name: "elif-not-a-keyword", Rule: "R13i", WantKey: "the parser's word \"elif\" is quoted", File: "syntax/parser.go",
		Mutate: ctlReplaceAnywhere("\t\t\"done\",\n\t\t\"elif\",\n", "\t\t\"done\",\n")},
	{Name: "clause-words-returned-bare", Rule: "R13i", WantKey: "the parser's word \"let\" is quoted", File: "syntax/quote.go",
		Mutate: ctlReplaceAnywhere("!IsKeyword(s) && !startsClause(s) {", "!IsKeyword(s) {")},
	{Name: "double-quote-fast-path", Rule: "R13h", WantKey: "syntax.Quote#return", File: "syntax/quote.go",
		Mutate: ctlReplaceAnywhere("\t// The string contains single quotes,\n\t// so fall back to double quotes.\n", "\tif !strings.ContainsAny(s, \"\\\"$`\") {\n\t\treturn \"\\\"\" + s + \"\\\"\", nil\n\t}\n")},
	{Name: "runeerror-without-width", Rule: "R13g", WantKey: "with a width test", File: "syntax/quote.go",
		Mutate: ctlReplaceAnywhere("r == utf8.RuneError && size == 1:", "r == utf8.RuneError:")},
	{Name: "short-U-escape", Rule: "R13e", WantKey: "escape \\U width 6", File: "syntax/quote.go",
		Mutate: ctlReplaceAnywhere(`"\\U%08x"`, `"\\U%06x"`)},
	{Name: "brace-quoted-only-before-comma", Rule: "R13d", WantKey: "expansion trigger '{'", File: "syntax/quote.go",
		Mutate: ctlReplaceAnywhere("\t\t\t// Might result in brace expansion.\n\t\t\t'{',\n", "")},
	{Name: "posix-refusal-for-all-variants", Rule: "R13a", WantKey: "refusal quoteErrPOSIX", File: "syntax/quote.go",
		Mutate: ctlReplace("Quote", "lang.in(LangPOSIX)", "lang.in(LangPOSIX | LangMirBSDKorn)", 0)},
	{Name: "fifth-refusal", Rule: "R13a", WantKey: "refusals are exactly four", File: "syntax/quote.go",
		Mutate: ctlReplace("Quote", "case r == '\\v':\n\t\t\t\tb.WriteString(`\\v`)", "case r == '\\v':\n\t\t\t\treturn \"\", &QuoteError{ByteOffset: offs, Message: quoteErrRange}", 0)},
	{Name: "forget-backquote", Rule: "R13b", WantKey: "token rune '`'", File: "syntax/quote.go",
		Mutate: ctlReplace("Quote", "'`'", "'%'", 1)},
	{Name: "forget-keyword-test", Rule: "R13b", WantKey: "unquoted return guarded", File: "syntax/quote.go",
		Mutate: ctlReplace("Quote", "!shellChars && !nonPrintable && !IsKeyword(s)", "!shellChars && !nonPrintable", 0)},
	{Name: "dq-forget-dollar", Rule: "R13c", WantKey: "double-quote escapes", File: "syntax/quote.go",
		Mutate: ctlReplace("Quote", "'$'", "'%'", 2)},
}
