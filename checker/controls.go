package main

import (
	"fmt"
	"go/ast"
	"go/token"
	"strings"
)

// ctlReplace builds a control mutation: inside the function named fn
// ("Walk", "Parser.reset", ...) find the occurrence-th (1-based; 0 = must be
// unique) AST node whose source text equals old, and replace it by new.
// The target is found by syntax, so the control follows the code when it
// moves; if it is gone the control is skipped.
func ctlReplace(fn, old, new string, occurrence int) func([]byte, *token.FileSet, *ast.File) ([]byte, error) {
	return func(src []byte, fset *token.FileSet, f *ast.File) ([]byte, error) {
		var fd *ast.FuncDecl
		recv, name := "", fn
		if i := strings.LastIndex(fn, "."); i >= 0 {
			recv, name = fn[:i], fn[i+1:]
		}
		for _, d := range f.Decls {
			if x, ok := d.(*ast.FuncDecl); ok && x.Name.Name == name && recvTypeName(x) == recv {
				fd = x
			}
		}
		if fd == nil || fd.Body == nil {
			return nil, fmt.Errorf("function %s not found", fn)
		}
		tf := fset.File(f.Pos())
		text := func(n ast.Node) string {
			return string(src[tf.Offset(n.Pos()):tf.Offset(n.End())])
		}
		var hits []ast.Node
		ast.Inspect(fd.Body, func(n ast.Node) bool {
			if n == nil {
				return true
			}
			if n.Pos().IsValid() && n.End() <= fd.Body.End() && text(n) == old {
				// keep the outermost node with this text only
				if len(hits) == 0 || !(hits[len(hits)-1].Pos() == n.Pos() && hits[len(hits)-1].End() == n.End()) {
					hits = append(hits, n)
				}
			}
			return true
		})
		if len(hits) == 0 {
			return nil, fmt.Errorf("%q not found in %s", old, fn)
		}
		var target ast.Node
		switch {
		case occurrence == 0 && len(hits) == 1:
			target = hits[0]
		case occurrence == 0:
			return nil, fmt.Errorf("%q occurs %d times in %s", old, len(hits), fn)
		case occurrence <= len(hits):
			target = hits[occurrence-1]
		default:
			return nil, fmt.Errorf("%q occurs only %d times in %s", old, len(hits), fn)
		}
		s, e := tf.Offset(target.Pos()), tf.Offset(target.End())
		out := append([]byte{}, src[:s]...)
		out = append(out, new...)
		out = append(out, src[e:]...)
		return out, nil
	}
}

// ctlAppendDecl appends top-level declarations to the file.
func ctlAppendDecl(decl string) func([]byte, *token.FileSet, *ast.File) ([]byte, error) {
	return func(src []byte, fset *token.FileSet, f *ast.File) ([]byte, error) {
		return append(append([]byte{}, src...), "\n"+decl+"\n"...), nil
	}
}

// ctlChain applies several mutations to the same file in order. Each later
// mutation re-parses the output of the previous one.
func ctlChain(ms ...func([]byte, *token.FileSet, *ast.File) ([]byte, error)) func([]byte, *token.FileSet, *ast.File) ([]byte, error) {
	return func(src []byte, fset *token.FileSet, f *ast.File) ([]byte, error) {
		cur := src
		for i, m := range ms {
			if i > 0 {
				var err error
				fset, f, err = reparse(cur)
				if err != nil {
					return nil, err
				}
			}
			out, err := m(cur, fset, f)
			if err != nil {
				return nil, err
			}
			cur = out
		}
		return cur, nil
	}
}

func reparse(src []byte) (*token.FileSet, *ast.File, error) {
	fset := token.NewFileSet()
	f, err := parserParseFile(fset, src)
	return fset, f, err
}
