package main

import (
	"fmt"
	"go/ast"
	"go/constant"
	"go/token"
	"go/types"
	"sort"
	"strings"
)

func init() {
	register(&Property{
		ID:  "C17",
		Run: runC17,
		Decided: "Three structural clauses of \"Regexp returns an expression that compiles and accepts exactly what the pattern matches\": the lexer's end-of-pattern sentinel is never " +
			"written into the expression (R17a); text taken from the pattern reaches the expression only through regexp.QuoteMeta, as a rune known to be one of listed constants or non-ASCII, " +
			"as a validated character-class name, or as an ordinary member of a bracket expression whose switch handles the four characters that are special there (R17b); every Mode bit the " +
			"package exports is consulted somewhere in Regexp's call tree (R17c).",
		NotDecided: "that the expression compiles for every pattern, that it accepts exactly the strings bash's matcher accepts, the translation of each operator, range validity inside brackets " +
			"(two such defects were found by execution and repaired, DESIGN §4 #63, #64); these clauses are necessary conditions only.",
		Assumptions: []string{"inside a Go regexp bracket expression only \\ ] [ - (and a leading ^) are special; non-ASCII runes are never regexp metacharacters"},
		Controls:    c17Controls,
	})
}

var c17Controls = []Control{
	{Name: "slash-appended-to-a-bracket-at-its-close", Rule: "R17i", WantKey: "regexpNext#the clause that closes a bracket", File: "pattern/pattern.go",
		Mutate: ctlReplaceAnywhere("\t\t\t\tbsb.WriteByte(']')\n\t\t\t\tsb.WriteString(bsb.String())", "\t\t\t\tif filenames {\n\t\t\t\t\tbsb.WriteByte('/')\n\t\t\t\t}\n\t\t\t\tbsb.WriteByte(']')\n\t\t\t\tsb.WriteString(bsb.String())")},
	{Name: "escaped-character-read-as-one-byte", Rule: "R17h", WantKey: "regexpNext#rune of a pattern byte 1", File: "pattern/pattern.go",
		Mutate: ctlReplaceAnywhere("\t\tc = sl.next()\n\t\tif c == '\\x00' {\n\t\t\treturn &SyntaxError{msg: `\\ at end of pattern`}\n\t\t}\n", "\t\tif sl.i >= len(sl.s) {\n\t\t\treturn &SyntaxError{msg: `\\ at end of pattern`}\n\t\t}\n\t\tc = rune(sl.s[sl.i])\n\t\tsl.i++\n")},
	{Name: "escaped-slash-in-a-bracket-not-recorded", Rule: "R17g", WantKey: "regexpNext#bsb.WriteString(regexp.QuoteMeta(string(c)))", File: "pattern/pattern.go",
		Mutate: ctlReplaceAnywhere("\t\t\t\tdefault:\n\t\t\t\t\tif filenames && c == '/' {\n\t\t\t\t\t\thasSlash = true\n\t\t\t\t\t}\n\t\t\t\t\tbsb.WriteString(regexp.QuoteMeta(string(c)))", "\t\t\t\tdefault:\n\t\t\t\t\tbsb.WriteString(regexp.QuoteMeta(string(c)))")},
	{Name: "lexer-caches-the-previous-rune", Rule: "R17e", WantKey: "regexpNext#store 1 of the position keeps prev in step", File: "pattern/pattern.go",
		Mutate: ctlChain(ctlReplaceAnywhere("type stringLexer struct {\n\ts string\n\ti int\n}", "type stringLexer struct {\n\ts string\n\ti int\n\tprev rune\n}"),
			ctlReplaceAnywhere("\tc, size := utf8.DecodeRuneInString(sl.s[sl.i:])\n\tsl.i += size\n\treturn c\n", "\tc, size := utf8.DecodeRuneInString(sl.s[sl.i:])\n\tsl.i += size\n\tsl.prev = c\n\treturn c\n"))},
	{Name: "negated-group-trims-both-ends", Rule: "R17f", WantKey: "extNegatedMatcher#name begins with prefix and ends with suffix", File: "internal/pattern.go",
		Mutate: ctlReplaceAnywhere("\t\tend := len(name) - len(suffix)\n\t\tif end < len(prefix) {\n\t\t\treturn false // prefix and suffix overlap in name\n\t\t}\n\t\tmiddle := name[len(prefix):end]\n", "\t\tmiddle := strings.TrimSuffix(strings.TrimPrefix(name, prefix), suffix)\n")},
	{Name: "unclosed-extglob-writes-the-sentinel", Rule: "R17a", WantKey: "regexpNext#writes sl.next()", File: "pattern/pattern.go",
		Mutate: ctlReplaceAnywhere("\t\t\tif sl.peekNext() != ')' {\n\t\t\t\t// Like Bash, an unmatched \"(\" makes the operator a literal;", "\t\t\tif false {\n\t\t\t\t// Like Bash, an unmatched \"(\" makes the operator a literal;")},
	{Name: "escaped-rune-written-raw", Rule: "R17b", WantKey: "regexpNext#pattern text written: c", File: "pattern/pattern.go",
		Mutate: ctlReplaceAnywhere("\t\t\treturn &SyntaxError{msg: `\\ at end of pattern`}\n\t\t}\n\t\tsb.WriteString(regexp.QuoteMeta(string(c)))", "\t\t\treturn &SyntaxError{msg: `\\ at end of pattern`}\n\t\t}\n\t\tsb.WriteRune(c)")},
	{Name: "rune-truncated-to-a-byte", Rule: "R17d", WantKey: "regexpNext#byte(c)", File: "pattern/pattern.go",
		Mutate: ctlReplaceAnywhere("\t\tif c > utf8.RuneSelf {\n\t\t\tsb.WriteRune(c)\n\t\t} else {", "\t\tif c == 'é' {\n\t\t\tsb.WriteByte(byte(c))\n\t\t} else if c > utf8.RuneSelf {\n\t\t\tsb.WriteRune(c)\n\t\t} else {")},
	{Name: "mode-bit-never-read", Rule: "R17c", WantKey: "pattern.NoGlobStar is consulted", File: "pattern/pattern.go",
		Mutate: ctlReplaceAnywhere("if mode&NoGlobStar == 0 && singleBefore && singleAfter {", "if singleBefore && singleAfter {")},
}

func runC17(p *Prog, r *Result) {
	pkg := p.Pkg("pattern")
	if pkg == nil {
		r.Fatalf("package pattern not loaded")
		return
	}
	r.Rule("R17a", "the pattern lexer's end-of-pattern sentinel is never written into the regular expression (shared with C28 R28n)", 6)
	checkPatternSentinelWrites(p, r, "R17a")
	r.Rule("R17b", "text taken from the pattern is written into the regular expression only quoted, as a known or non-ASCII rune, as a validated class name, or as an ordinary bracket member", 6)
	checkPatternTextQuoted(p, r, "R17b")
	r.Rule("R17c", "every exported Mode bit is consulted in Regexp's call tree", 7)
	checkModeBitsConsulted(p, r, "R17c")
	r.Rule("R17d", "a rune is narrowed to a byte, in Regexp's call tree, only where it is known to be below utf8.RuneSelf (0 instances on the pinned tree; armed by a control)", 0)
	checkRuneNarrowing(p, r, "R17d")
	r.Rule("R17e", "every field of the pattern lexer that next() keeps up to date besides the position is kept in step wherever else the position is stored (0 instances on the pinned tree, whose lexer has only the position; armed by a control)", 0)
	if n := checkLexerFieldsMoveTogether(p, r, "R17e"); n == 0 {
		r.Notef("R17e: stringLexer.next() stores only the position on this tree; the rule is armed by a control")
	}
	r.Rule("R17g", "every write of pattern text into a bracket expression comes after the text was looked at for a slash (or is of a rune known to be another character): in Filenames mode a bracket never matches a path separator", 4)
	checkBracketSlashesNoticed(p, r, "R17g")
	r.Rule("R17h", "no byte of the pattern is promoted to a rune without a test that it is below utf8.RuneSelf (0 instances on the pinned tree, which decodes runes; armed by a control; shared with C18 as R18c)", 0)
	if n := checkByteWidenedToRune(p, r, "R17h"); n == 0 {
		r.Notef("R17h: package pattern converts no string byte to a rune on this tree")
	}
	r.Rule("R17i", "the clause that closes a bracket expression appends nothing to it but the closing bracket: an appended member would pair with a trailing literal dash", 1)
	checkBracketCloserAddsNothing(p, r, "R17i")
	r.Rule("R17j", "a pattern found to have no metacharacters is used as text only with its escapes removed (the check is C18's R18d: the matchers built around Regexp compare such text with the string)", 1)
	checkLiteralPatternsUnescaped(p, r, "R17j")
	r.Rule("R17f", "a string tested for a variable prefix and a variable suffix has the three lengths compared: the two are matched by disjoint parts", 1)
	checkPrefixSuffixDisjoint(p, r, "R17f")
}

func checkModeBitsConsulted(p *Prog, r *Result, rule string) {
	pkg := p.Pkg("pattern")
	info := pkg.TypesInfo
	modeT := lookupType(pkg, "Mode")
	regexpFn := lookupFunc(pkg, "Regexp")
	if modeT == nil || regexpFn == nil {
		r.Fatalf("anchors pattern.Mode / pattern.Regexp not found")
		return
	}
	g := buildRefGraph(p)
	reach := g.reachable(regexpFn)
	used := map[types.Object]bool{}
	for fo, fd := range g.decl {
		if !reach[fo] || fd.Body == nil || g.pkgOf[fo] != pkg {
			continue
		}
		ast.Inspect(fd.Body, func(n ast.Node) bool {
			if id, ok := n.(*ast.Ident); ok {
				if c, ok := info.Uses[id].(*types.Const); ok && namedOf(c.Type()) == modeT {
					used[c] = true
				}
			}
			return true
		})
	}
	var names []string
	for _, nm := range pkg.Types.Scope().Names() {
		if c, ok := pkg.Types.Scope().Lookup(nm).(*types.Const); ok && c.Exported() && namedOf(c.Type()) == modeT {
			names = append(names, nm)
		}
	}
	sort.Strings(names)
	for _, nm := range names {
		c := pkg.Types.Scope().Lookup(nm)
		r.Check(used[c], rule, "pattern."+nm+" is consulted", c.Pos(), "read in Regexp's call tree",
			"the mode bit pattern."+nm+" is never read by Regexp or anything it calls: setting it cannot have the effect its documentation gives it")
	}
}

func checkPatternTextQuoted(p *Prog, r *Result, rule string) {
	pkg := p.Pkg("pattern")
	info := pkg.TypesInfo
	regexpFn := lookupFunc(pkg, "Regexp")
	lexT := lookupType(pkg, "stringLexer")
	charClassFn := lookupFunc(pkg, "charClass")
	if regexpFn == nil || lexT == nil {
		r.Fatalf("anchors pattern.Regexp / stringLexer not found")
		return
	}
	g := buildRefGraph(p)
	reach := g.reachable(regexpFn)
	isLexCall := func(e ast.Expr, names ...string) bool {
		c, ok := ast.Unparen(e).(*ast.CallExpr)
		if !ok {
			return false
		}
		callee := calleeOf(info, c)
		if callee == nil {
			return false
		}
		sig, ok := callee.Type().(*types.Signature)
		if !ok || sig.Recv() == nil || namedOf(sig.Recv().Type()) != lexT {
			return false
		}
		for _, n := range names {
			if callee.Name() == n {
				return true
			}
		}
		return len(names) == 0
	}
	n := 0
	var fos []*types.Func
	for fo := range g.decl {
		if reach[fo] && g.pkgOf[fo] == pkg && g.decl[fo].Body != nil {
			fos = append(fos, fo)
		}
	}
	sort.Slice(fos, func(i, j int) bool { return g.decl[fos[i]].Pos() < g.decl[fos[j]].Pos() })
	for _, fo := range fos {
		fd := g.decl[fo]
		// flow-insensitive taint of locals: runes and strings that come from the pattern
		tainted := map[types.Object]bool{}
		validated := map[types.Object]types.Object{} // n := charClass(rest): n validates rest[:n]
		for _, f := range fd.Type.Params.List {
			for _, nm := range f.Names {
				if o := info.Defs[nm]; o != nil {
					if b, ok := o.Type().Underlying().(*types.Basic); ok && b.Info()&types.IsString != 0 {
						tainted[o] = true // the pattern itself
					}
				}
			}
		}
		var isTainted func(e ast.Expr) bool
		isTainted = func(e ast.Expr) bool {
			hit := false
			ast.Inspect(e, func(m ast.Node) bool {
				switch x := m.(type) {
				case *ast.CallExpr:
					if isLexCall(x) {
						hit = true
					}
					if callee := calleeOf(info, x); callee != nil && (qualName(callee) == "regexp.QuoteMeta" || quotingHelper(info, g, callee)) {
						return false
					}
				case *ast.SelectorExpr:
					if namedOf(info.TypeOf(x.X)) == lexT && x.Sel.Name == "s" {
						hit = true
					}
				case *ast.Ident:
					if o := info.ObjectOf(x); o != nil && tainted[o] {
						hit = true
					}
				}
				return !hit
			})
			return hit
		}
		for changed, rounds := true, 0; changed && rounds < 6; rounds++ {
			changed = false
			ast.Inspect(fd.Body, func(m ast.Node) bool {
				as, ok := m.(*ast.AssignStmt)
				if !ok {
					return true
				}
				for i, l := range as.Lhs {
					id, ok := l.(*ast.Ident)
					if !ok || id.Name == "_" {
						continue
					}
					o := info.ObjectOf(id)
					if o == nil || tainted[o] {
						continue
					}
					var rhs ast.Expr
					if len(as.Rhs) == len(as.Lhs) {
						rhs = as.Rhs[i]
					} else if len(as.Rhs) == 1 {
						rhs = as.Rhs[0]
					}
					if rhs == nil {
						continue
					}
					if c, ok := ast.Unparen(rhs).(*ast.CallExpr); ok && charClassFn != nil && i == 0 {
						if callee := calleeOf(info, c); callee != nil && callee.Origin() == charClassFn && len(c.Args) == 1 {
							if aid, ok := ast.Unparen(c.Args[0]).(*ast.Ident); ok {
								validated[o] = info.ObjectOf(aid)
							}
							continue
						}
					}
					bt, isBasic := o.Type().Underlying().(*types.Basic)
					if !isBasic || (bt.Kind() != types.Int32 && bt.Info()&types.IsString == 0 && bt.Kind() != types.Uint8) {
						continue
					}
					if isTainted(rhs) {
						tainted[o] = true
						changed = true
					}
				}
				return true
			})
		}
		// flow-sensitive: which tainted rune variables are known to be a listed constant or non-ASCII
		fg := NewFGraph(info, fd.Body, nil)
		identObj := func(e ast.Expr) types.Object {
			if x, ok := ast.Unparen(e).(*ast.Ident); ok {
				return info.ObjectOf(x)
			}
			return nil
		}
		isConst := func(e ast.Expr) bool {
			tv, ok := info.Types[e]
			return ok && tv.Value != nil
		}
		bigConst := func(e ast.Expr) bool {
			tv, ok := info.Types[e]
			if !ok || tv.Value == nil {
				return false
			}
			v, exact := constant.Int64Val(constant.ToInt(tv.Value))
			return exact && v >= 127
		}
		type fact string // sorted ids of variables known safe
		idOf := func(o types.Object) string { return fmt.Sprintf("%s@%d", o.Name(), o.Pos()) }
		hasF := func(f fact, o types.Object) bool { return o != nil && strings.Contains(","+string(f)+",", ","+idOf(o)+",") }
		setF := func(f fact, o types.Object, v bool) fact {
			if o == nil || hasF(f, o) == v {
				return f
			}
			var parts []string
			if f != "" {
				parts = strings.Split(string(f), ",")
			}
			if v {
				parts = append(parts, idOf(o))
			} else {
				out := parts[:0]
				for _, x := range parts {
					if x != idOf(o) {
						out = append(out, x)
					}
				}
				parts = out
			}
			sortStrings(parts)
			return fact(strings.Join(parts, ","))
		}
		res := runForward(fg, flowSpec[fact]{
			Init: "",
			Join: func(a, b fact) fact {
				if a == b {
					return a
				}
				var out []string
				for _, x := range strings.Split(string(a), ",") {
					if x != "" && strings.Contains(","+string(b)+",", ","+x+",") {
						out = append(out, x)
					}
				}
				return fact(strings.Join(out, ","))
			},
			Equal: func(a, b fact) bool { return a == b },
			Node: func(f fact, nd ast.Node) fact {
				if as, ok := nd.(*ast.AssignStmt); ok && len(as.Lhs) == len(as.Rhs) {
					for i, l := range as.Lhs {
						o := identObj(l)
						if o == nil || !tainted[o] {
							continue
						}
						if src := identObj(as.Rhs[i]); src != nil {
							f = setF(f, o, hasF(f, src))
						} else {
							f = setF(f, o, false)
						}
					}
				}
				return f
			},
			Edge: func(f fact, e *FEdge) fact {
				if e.TypeCase || e.Cond == nil {
					return f
				}
				if e.Tag != nil {
					if o := identObj(e.Tag); o != nil && e.Pol && isConst(e.Cond) {
						f = setF(f, o, true)
					}
					return f
				}
				be0, ok := ast.Unparen(e.Cond).(*ast.BinaryExpr)
				if !ok {
					return f
				}
				be := *be0
				if isConst(be.X) { // the constant may be written on either side
					be.X, be.Y = be.Y, be.X
					switch be.Op {
					case token.LSS:
						be.Op = token.GTR
					case token.LEQ:
						be.Op = token.GEQ
					case token.GTR:
						be.Op = token.LSS
					case token.GEQ:
						be.Op = token.LEQ
					}
				}
				o := identObj(be.X)
				if o == nil {
					return f
				}
				switch {
				case isConst(be.Y) && ((be.Op == token.EQL && e.Pol) || (be.Op == token.NEQ && !e.Pol)):
					f = setF(f, o, true)
				case bigConst(be.Y) && (be.Op == token.GTR || be.Op == token.GEQ) && e.Pol:
					f = setF(f, o, true)
				}
				return f
			},
		})
		// sinks
		seen := map[string]int{}
		inspectNoLit(fd.Body, func(m ast.Node) bool {
			c, ok := m.(*ast.CallExpr)
			if !ok || len(c.Args) != 1 {
				return true
			}
			callee := calleeOf(info, c)
			if callee == nil || !strings.HasPrefix(qualName(callee), "strings.(Builder).Write") {
				return true
			}
			arg := ast.Unparen(c.Args[0])
			if !isTainted(arg) {
				return true
			}
			n++
			key := fmt.Sprintf("%s#pattern text written: %s", funcKey("pattern", fd), exprString(arg))
			seen[key]++
			if seen[key] > 1 {
				key += fmt.Sprintf("#%d", seen[key])
			}
			// a direct read from the lexer is R17a's: it is a known constant there or a violation there
			if isLexCall(arg, "next") {
				r.OK(rule, key, c.Pos(), "a rune read and written in one step: R17a requires that it was just peeked and compared with a constant")
				return true
			}
			// rest[:n] with n := charClass(rest)
			if se, ok := arg.(*ast.SliceExpr); ok && se.Low == nil && se.High != nil {
				if hi := identObj(se.High); hi != nil && validated[hi] != nil && validated[hi] == identObj(se.X) {
					r.OK(rule, key, c.Pos(), "the prefix that charClass recognised as a character class")
					return true
				}
			}
			o := identObj(arg)
			if o == nil {
				r.Bad(rule, key, c.Pos(), "text taken from the pattern is written into the regular expression without regexp.QuoteMeta: a metacharacter in it changes what the expression accepts, or makes it fail to compile")
				return true
			}
			var f fact
			found := false
			if b := blockContaining(fg, c); b != nil {
				for i, nd := range b.Nodes {
					if nd.Pos() <= c.Pos() && c.End() <= nd.End() {
						f, found = res.At(b, i)
						break
					}
				}
			}
			if found && hasF(f, o) {
				r.OK(rule, key, c.Pos(), o.Name()+" is one of the constants it was just compared with, or above the ASCII range")
				return true
			}
			// an ordinary member of a bracket expression: the default clause of a switch over the rune that has clauses
			// for the characters special inside brackets
			if bracketDefault(info, fd, c, o) {
				r.OK(rule, key, c.Pos(), "an ordinary member of a bracket expression: the switch has clauses for \\ ] [ and -")
				return true
			}
			r.Bad(rule, key, c.Pos(), fmt.Sprintf("%s holds a rune taken from the pattern and is written into the regular expression raw, on a path where it is not known to be a listed constant or non-ASCII: a regexp metacharacter in the pattern changes what the expression accepts, or makes it fail to compile", o.Name()))
			return true
		})
	}
	if n == 0 {
		r.Bad(rule, "pattern#no write of pattern text found", token.NoPos, "the rule no longer sees the writes it is about")
	}
}

// bracketDefault: call is inside the default clause of a `switch o` that has case clauses for '\\', ']', '[' and '-'.
func bracketDefault(info *types.Info, fd *ast.FuncDecl, call *ast.CallExpr, o types.Object) bool {
	ok := false
	ast.Inspect(fd.Body, func(n ast.Node) bool {
		sw, isSw := n.(*ast.SwitchStmt)
		if !isSw || sw.Tag == nil {
			return true
		}
		id, isID := ast.Unparen(sw.Tag).(*ast.Ident)
		if !isID || info.ObjectOf(id) != o {
			return true
		}
		listed := map[rune]bool{}
		var def *ast.CaseClause
		for _, st := range sw.Body.List {
			cc := st.(*ast.CaseClause)
			if cc.List == nil {
				def = cc
			}
			for _, ce := range cc.List {
				if tv, has := info.Types[ce]; has && tv.Value != nil && tv.Value.Kind() == constant.Int {
					if v, exact := constant.Int64Val(tv.Value); exact {
						listed[rune(v)] = true
					}
				}
			}
		}
		if def != nil && def.Pos() <= call.Pos() && call.End() <= def.End() && listed['\\'] && listed[']'] && listed['['] && listed['-'] {
			ok = true
		}
		return true
	})
	return ok
}

// quotingHelper: a function of the package every return of which is regexp.QuoteMeta(…), a constant, a constant
// followed by string(c), or string(c) — where c is a rune parameter that the clause it sits in has compared with
// constants or found above the ASCII range. Its result is as good as QuoteMeta's.
func quotingHelper(info *types.Info, g *refGraph, fn *types.Func) bool {
	fd := g.decl[fn.Origin()]
	if fd == nil || fd.Body == nil || fd.Type.Results == nil || len(fd.Type.Results.List) != 1 {
		return false
	}
	params := map[types.Object]bool{}
	for _, f := range fd.Type.Params.List {
		for _, nm := range f.Names {
			params[info.Defs[nm]] = true
		}
	}
	fg := NewFGraph(info, fd.Body, nil)
	knownAt := func(at ast.Node, o types.Object) bool {
		b := blockContaining(fg, at)
		if b == nil {
			return false
		}
		return underEdges(fg, b, func(e *FEdge) bool {
			if e.Cond == nil || e.TypeCase {
				return false
			}
			if e.Tag != nil {
				id, ok := ast.Unparen(e.Tag).(*ast.Ident)
				tv, has := info.Types[e.Cond]
				return ok && info.ObjectOf(id) == o && e.Pol && has && tv.Value != nil
			}
			be, ok := ast.Unparen(e.Cond).(*ast.BinaryExpr)
			if !ok {
				return false
			}
			id, ok := ast.Unparen(be.X).(*ast.Ident)
			if !ok || info.ObjectOf(id) != o {
				return false
			}
			tv, has := info.Types[be.Y]
			if !has || tv.Value == nil {
				return false
			}
			if (be.Op == token.EQL && e.Pol) || (be.Op == token.NEQ && !e.Pol) {
				return true
			}
			if v, exact := constant.Int64Val(constant.ToInt(tv.Value)); exact && v >= 127 && (be.Op == token.GTR || be.Op == token.GEQ) && e.Pol {
				return true
			}
			return false
		})
	}
	var safe func(at ast.Node, e ast.Expr) bool
	safe = func(at ast.Node, e ast.Expr) bool {
		e = ast.Unparen(e)
		if tv, ok := info.Types[e]; ok && tv.Value != nil {
			return true
		}
		switch x := e.(type) {
		case *ast.BinaryExpr:
			return x.Op == token.ADD && safe(at, x.X) && safe(at, x.Y)
		case *ast.CallExpr:
			if callee := calleeOf(info, x); callee != nil && qualName(callee) == "regexp.QuoteMeta" {
				return true
			}
			if tv, ok := info.Types[x.Fun]; ok && tv.IsType() && len(x.Args) == 1 {
				if id, ok := ast.Unparen(x.Args[0]).(*ast.Ident); ok && params[info.ObjectOf(id)] {
					return knownAt(at, info.ObjectOf(id))
				}
			}
		}
		return false
	}
	ok, any := true, false
	inspectNoLit(fd.Body, func(n ast.Node) bool {
		if rs, isRet := n.(*ast.ReturnStmt); isRet && len(rs.Results) == 1 {
			any = true
			if !safe(rs, rs.Results[0]) {
				ok = false
			}
		}
		return true
	})
	return ok && any
}

// checkRuneNarrowing (R17d): byte(c) of a rune keeps the low eight bits; for anything at or above utf8.RuneSelf that is
// another character, or half of one. In Regexp's call tree every conversion of a rune-typed value to a byte is under
// a test that the value is below utf8.RuneSelf (c < 128, c <= 127, or the failing branch of c >= 128 / c > 127).
func checkRuneNarrowing(p *Prog, r *Result, rule string) {
	checkRuneNarrowingIn(p, r, "pattern", "Regexp", rule, "a non-ASCII character of the pattern is written as one stray byte — the expression matches another character, or is not valid UTF-8 and does not compile")
}

// checkRuneNarrowingIn: in the call tree of rel.root, byte(r) of a rune variable only where r is known to be ASCII.
func checkRuneNarrowingIn(p *Prog, r *Result, rel, root, rule, consequence string) {
	pkg := p.Pkg(rel)
	info := pkg.TypesInfo
	regexpFn := lookupFunc(pkg, root)
	if regexpFn == nil {
		r.Fatalf("anchor %s.%s not found", rel, root)
		return
	}
	g := buildRefGraph(p)
	reach := g.reachable(regexpFn)
	n := 0
	var fos []*types.Func
	for fo := range g.decl {
		if (reach[fo] || fo == regexpFn) && g.pkgOf[fo] == pkg && g.decl[fo].Body != nil {
			fos = append(fos, fo)
		}
	}
	sort.Slice(fos, func(i, j int) bool { return g.decl[fos[i]].Pos() < g.decl[fos[j]].Pos() })
	for _, fo := range fos {
		fd := g.decl[fo]
		var fg *FGraph
		seen := map[string]int{}
		inspectNoLit(fd.Body, func(m ast.Node) bool {
			c, ok := m.(*ast.CallExpr)
			if !ok || len(c.Args) != 1 {
				return true
			}
			tv, ok := info.Types[c.Fun]
			if !ok || !tv.IsType() {
				return true
			}
			bt, ok := tv.Type.Underlying().(*types.Basic)
			if !ok || bt.Kind() != types.Uint8 {
				return true
			}
			at, ok := info.TypeOf(c.Args[0]).Underlying().(*types.Basic)
			if !ok || at.Kind() != types.Int32 {
				return true
			}
			if atv, ok := info.Types[c.Args[0]]; ok && atv.Value != nil {
				return true // a constant
			}
			id, ok := ast.Unparen(c.Args[0]).(*ast.Ident)
			n++
			key := fmt.Sprintf("%s#%s", funcKey(rel, fd), exprString(c))
			seen[key]++
			if seen[key] > 1 {
				key += fmt.Sprintf("#%d", seen[key])
			}
			if !ok {
				r.Bad(rule, key, c.Pos(), "a rune-valued expression is narrowed to a byte: anything at or above utf8.RuneSelf becomes another character")
				return true
			}
			o := info.ObjectOf(id)
			if fg == nil {
				fg = NewFGraph(info, fd.Body, nil)
			}
			blk := blockContaining(fg, c)
			under := blk != nil && underEdges(fg, blk, func(e *FEdge) bool {
				if e.Cond == nil || e.Tag != nil || e.TypeCase {
					return false
				}
				be, ok := ast.Unparen(e.Cond).(*ast.BinaryExpr)
				if !ok {
					return false
				}
				x, ok := ast.Unparen(be.X).(*ast.Ident)
				if !ok || info.ObjectOf(x) != o {
					return false
				}
				tv, has := info.Types[be.Y]
				if !has || tv.Value == nil {
					return false
				}
				v, exact := constant.Int64Val(constant.ToInt(tv.Value))
				if !exact {
					return false
				}
				switch {
				case be.Op == token.LSS && e.Pol && v <= 128, be.Op == token.LEQ && e.Pol && v <= 127:
					return true
				case be.Op == token.GEQ && !e.Pol && v <= 128, be.Op == token.GTR && !e.Pol && v <= 127:
					return true
				case be.Op == token.EQL && e.Pol && v < 128:
					return true
				}
				return false
			})
			r.Check(under, rule, key, c.Pos(), id.Name+" is known to be below utf8.RuneSelf on every path to the conversion",
				fmt.Sprintf("the rune %s is narrowed to a byte on a path where it may be at or above utf8.RuneSelf: %s", id.Name, consequence))
			return true
		})
	}
	if n == 0 {
		r.Notef("%s: no rune is narrowed to a byte in %s.%s's call tree on this tree", rule, rel, root)
	}
}
