package main

import (
	"fmt"
	"go/ast"
	"go/constant"
	"go/token"
	"go/types"
	"sort"
)

func init() {
	register(&Property{
		ID:  "C07",
		Run: runC07,
		Decided: "every lookahead past the current rune makes the bytes it inspects available, or reaches end of input, independently of how Read chunked them: " +
			"a forward dataflow over the lexer keeps how many bytes after the read position are known to be present-or-EOF; every direct index of the read buffer, every `are there bytes left` " +
			"test whose negative answer is acted upon, and every open-ended forward slice must be covered by that fact (lazy refill on the absent edge, or a refill loop for unbounded lookahead) (R07a); " +
			"fill() keeps the bytes a reader returns together with an error (R07b).",
		NotDecided:  "equality of whole trees and positions under chunking; that the refill logic of fill() preserves unread bytes (read once); bounds safety of the buffer accesses (a C06 question).",
		Assumptions: []string{"fill() returns 0 only at end of input or on a read error, otherwise appends at least one byte after the unread bytes and resets bsp to 0 (read in the source; R07b checks one clause of it)"},
		Controls:    c07Controls,
	})
}

const availInf = 1 << 20

// avail: number of bytes at bs[bsp:] known to be present, or availInf once end
// of input is established. Join is min.
type availFact int

type r07 struct {
	info     *types.Info
	bsField  *types.Var
	bspField *types.Var
	fillFn   *types.Func
	peekFn   *types.Func
	peek2Fn  *types.Func
	decls    map[*types.Func]*ast.FuncDecl
	moves    map[*types.Func]bool // functions that may change bsp / bs (transitively)
	depth    int
}

func (a *r07) isBsp(e ast.Expr) bool {
	e = ast.Unparen(e)
	// int(p.bsp), uint(p.bsp)
	if c, ok := e.(*ast.CallExpr); ok && len(c.Args) == 1 {
		if tv, ok := a.info.Types[c.Fun]; ok && tv.IsType() {
			return a.isBsp(c.Args[0])
		}
	}
	return selectorField(a.info, e) == a.bspField && a.bspField != nil
}

// bspPlus recognises p.bsp, p.bsp+c, int(p.bsp+c) and returns c.
func (a *r07) bspPlus(e ast.Expr) (int, bool) {
	e = ast.Unparen(e)
	if c, ok := e.(*ast.CallExpr); ok && len(c.Args) == 1 {
		if tv, ok := a.info.Types[c.Fun]; ok && tv.IsType() {
			return a.bspPlus(c.Args[0])
		}
	}
	if a.isBsp(e) {
		return 0, true
	}
	if be, ok := e.(*ast.BinaryExpr); ok && be.Op == token.ADD {
		if base, okb := a.bspPlus(be.X); okb {
			if tv := a.info.Types[be.Y]; tv.Value != nil && tv.Value.Kind() == constant.Int {
				v, _ := constant.Int64Val(tv.Value)
				return base + int(v), true
			}
		}
	}
	// a local holding the read position plus a constant (next := int(p.bsp) + 1), defined once
	if id, ok := e.(*ast.Ident); ok {
		if obj, isVar := a.info.ObjectOf(id).(*types.Var); isVar && !obj.IsField() && a.depth < 4 {
			for _, fd := range a.decls {
				if fd.Body != nil && fd.Body.Pos() <= obj.Pos() && obj.Pos() <= fd.Body.End() {
					if def := singleDef(a.info, fd, obj); def != nil {
						a.depth++
						c, okc := a.bspPlus(def)
						a.depth--
						return c, okc
					}
				}
			}
		}
	}
	return 0, false
}

// isLenBs recognises len(p.bs), uint(len(p.bs)).
func (a *r07) isLenBs(e ast.Expr) bool {
	e = ast.Unparen(e)
	c, ok := e.(*ast.CallExpr)
	if !ok || len(c.Args) != 1 {
		return false
	}
	if tv, ok := a.info.Types[c.Fun]; ok && tv.IsType() {
		return a.isLenBs(c.Args[0])
	}
	if isBuiltinCall(a.info, c, "len") {
		return selectorField(a.info, c.Args[0]) == a.bsField
	}
	return false
}

// presenceTest recognises comparisons between p.bsp+c and len(p.bs) and
// returns the need (c+1) and which polarity of the condition means "present".
func (a *r07) presenceTest(e ast.Expr) (need int, presentWhen bool, ok bool) {
	be, isBin := ast.Unparen(e).(*ast.BinaryExpr)
	if !isBin {
		return 0, false, false
	}
	if c, okc := a.bspPlus(be.X); okc && a.isLenBs(be.Y) {
		switch be.Op {
		case token.LSS:
			return c + 1, true, true
		case token.GEQ:
			return c + 1, false, true
		}
	}
	if c, okc := a.bspPlus(be.Y); okc && a.isLenBs(be.X) {
		switch be.Op {
		case token.GTR:
			return c + 1, true, true
		case token.LEQ:
			return c + 1, false, true
		}
	}
	return 0, false, false
}

func (a *r07) computeMoves() {
	a.moves = map[*types.Func]bool{}
	for fo, fd := range a.decls {
		ast.Inspect(fd.Body, func(n ast.Node) bool {
			switch x := n.(type) {
			case *ast.AssignStmt:
				for _, l := range x.Lhs {
					if f := selectorField(a.info, l); f != nil && (f == a.bspField || f == a.bsField) {
						a.moves[fo] = true
					}
				}
			case *ast.IncDecStmt:
				if f := selectorField(a.info, x.X); f != nil && f == a.bspField {
					a.moves[fo] = true
				}
			}
			return true
		})
	}
	for changed := true; changed; {
		changed = false
		for fo, fd := range a.decls {
			if a.moves[fo] {
				continue
			}
			ast.Inspect(fd.Body, func(n ast.Node) bool {
				if c, ok := n.(*ast.CallExpr); ok {
					if callee := calleeOf(a.info, c); callee != nil && a.moves[callee] {
						a.moves[fo] = true
					}
				}
				return !a.moves[fo]
			})
			if a.moves[fo] {
				changed = true
			}
		}
	}
}

func (a *r07) node(f availFact, n ast.Node) availFact {
	switch n.(type) {
	case *ast.DeferStmt, *ast.GoStmt:
		return f
	}
	for _, c := range nodeCalls(n) {
		callee := calleeOf(a.info, c)
		switch {
		case callee == nil:
		case callee == a.fillFn:
			if f < availInf {
				f = min(f+1, 2)
			}
		case callee == a.peekFn:
			if f < 1 {
				f = 1
			}
		case callee == a.peek2Fn:
			if f < availInf {
				f = min(f+1, 2)
			}
		case a.moves[callee]:
			f = 0
		}
	}
	consume := func(k int) {
		if f >= availInf {
			return
		}
		if k < 0 || int(f) < k {
			f = 0
		} else {
			f -= availFact(k)
		}
	}
	switch x := n.(type) {
	case *ast.IncDecStmt:
		if a.isBsp(x.X) {
			if x.Tok == token.INC {
				consume(1)
			} else {
				f = 0
			}
		}
	case *ast.AssignStmt:
		for i, l := range x.Lhs {
			if selectorField(a.info, l) == a.bsField {
				f = 0
			}
			if !a.isBsp(l) {
				continue
			}
			switch x.Tok {
			case token.ADD_ASSIGN:
				k := -1
				if i < len(x.Rhs) {
					if tv := a.info.Types[x.Rhs[i]]; tv.Value != nil && tv.Value.Kind() == constant.Int {
						v, _ := constant.Int64Val(tv.Value)
						k = int(v)
					}
				}
				consume(k)
			default:
				f = 0
			}
		}
	}
	return f
}

func (a *r07) edge(f availFact, e *FEdge) availFact {
	if e.Cond == nil || e.Tag != nil || e.TypeCase {
		return f
	}
	if need, presentWhen, ok := a.presenceTest(e.Cond); ok {
		if e.Pol == presentWhen && int(f) < need {
			return availFact(need)
		}
		return f
	}
	// p.fill() == 0 / p.fill() > 0
	if be, ok := ast.Unparen(e.Cond).(*ast.BinaryExpr); ok {
		if c, ok := ast.Unparen(be.X).(*ast.CallExpr); ok && calleeOf(a.info, c) == a.fillFn {
			if tv := a.info.Types[be.Y]; tv.Value != nil && tv.Value.ExactString() == "0" {
				eof := (be.Op == token.EQL && e.Pol) || (be.Op == token.GTR && !e.Pol) || (be.Op == token.NEQ && !e.Pol) || (be.Op == token.LEQ && e.Pol)
				if eof {
					return availInf
				}
			}
		}
	}
	return f
}

func (a *r07) flow(fd *ast.FuncDecl, entry availFact) (*FGraph, *flowResult[availFact]) {
	g := NewFGraph(a.info, fd.Body, nil)
	res := runForward(g, flowSpec[availFact]{
		Init:  entry,
		Join:  func(x, y availFact) availFact { return min(x, y) },
		Equal: func(x, y availFact) bool { return x == y },
		Node:  a.node,
		Edge:  a.edge,
	})
	return g, res
}

func runC07(p *Prog, r *Result) {
	pkg := p.Pkg("syntax")
	if pkg == nil {
		r.Fatalf("package syntax not loaded")
		return
	}
	info := pkg.TypesInfo
	r.Rule("R07a", "lookahead availability: buffer indexes, acted-upon presence tests and forward slices of Parser.bs are covered by a refill (or EOF) independent of chunking", 12)
	r.Rule("R07b", "fill(): on every path where the reader returned n != 0 bytes, the buffer is extended by those n bytes (also when an error came with them)", 1)

	a := &r07{info: info, decls: map[*types.Func]*ast.FuncDecl{}}
	parserT := lookupType(pkg, "Parser")
	if parserT == nil {
		r.Fatalf("anchor syntax.Parser not found")
		return
	}
	st := parserT.Underlying().(*types.Struct)
	for i := 0; i < st.NumFields(); i++ {
		switch st.Field(i).Name() {
		case "bs":
			a.bsField = st.Field(i)
		case "bsp":
			a.bspField = st.Field(i)
		}
	}
	a.fillFn, a.peekFn, a.peek2Fn = lookupFunc(pkg, "Parser.fill"), lookupFunc(pkg, "Parser.peek"), lookupFunc(pkg, "Parser.peekTwo")
	if a.bsField == nil || a.bspField == nil || a.fillFn == nil || a.peekFn == nil || a.peek2Fn == nil {
		r.Fatalf("anchors Parser.bs / bsp / fill / peek / peekTwo not all found")
		return
	}
	for _, f := range pkg.Syntax {
		for _, d := range f.Decls {
			if fd, ok := d.(*ast.FuncDecl); ok && fd.Body != nil {
				if fo, ok := info.Defs[fd.Name].(*types.Func); ok {
					a.decls[fo] = fd
				}
			}
		}
	}
	a.computeMoves()
	r.Rule("R07d", "fill() advances the offset base by the cursor, once per call, before the cursor is reset (shared with C10 R10d): positions do not depend on where reads end", 1)
	checkOffsetBase(p, r, p.Pkg("syntax"), "R07d")
	r.Rule("R07f", "rune() moves the cursor one past the buffer whenever it answers the end-of-input sentinel, whether or not the buffer is empty: end positions do not depend on whether the last bytes arrived together with io.EOF", 1)
	checkEOFCursor(p, r, p.Pkg("syntax"), "R07f")
	r.Rule("R07g", "a multi-byte rune cut by the end of a read is completed whatever its length: the refill on rune()'s decoding path is decided by utf8.FullRune, or by a length that can reach utf8.UTFMax", 1)
	checkPartialRuneCompleted(p, r, p.Pkg("syntax"), "R07g")
	r.Rule("R07h", "the literal being read never shares storage with the read buffer, which fill() slides and overwrites: every store to litBs is nil, a slice of litBuf/litBs or an append onto one", 10)
	checkLiteralOwnsItsBytes(p, r, p.Pkg("syntax"), "R07h")
	r.Rule("R07e", "a field fill() increments on an empty read and compares with a limit is set back to zero when a read returns bytes (shared with C08)", 0)
	if n := checkRetryCounterReset(p, r, p.Pkg("syntax"), "R07e"); n == 0 {
		r.Notef("R07e: fill() keeps no count of empty reads on this tree (it retries forever on a reader that returns (0, nil)); the rule is armed by a control")
	}
	r.Rule("R07c", "a copy of the read position taken before a call that may refill the buffer is not used after it", 0)
	checkStaleCursorCopies(p, r, a, "R07c")

	var fos []*types.Func
	for fo := range a.decls {
		fos = append(fos, fo)
	}
	sort.Slice(fos, func(i, j int) bool { return fos[i].Pos() < fos[j].Pos() })

	// entry facts of peekTwo per call site
	type caller struct {
		fo    *types.Func
		call  *ast.CallExpr
		avail availFact
	}
	var peek2Callers []caller

	analyse := func(fo *types.Func, entry availFact, attribute string) {
		fd := a.decls[fo]
		g, res := a.flow(fd, entry)
		fkey := funcObjKey(fo)
		if attribute != "" {
			fkey = attribute
		}
		live := g.Live()
		for _, b := range g.Blocks {
			if !live[b] {
				continue
			}
			for i, n := range b.Nodes {
				f, ok := res.At(b, i)
				if !ok {
					continue
				}
				// calls of peekTwo: record the fact for the callee analysis
				if attribute == "" {
					for _, c := range nodeCalls(n) {
						if calleeOf(info, c) == a.peek2Fn {
							peek2Callers = append(peek2Callers, caller{fo, c, f})
						}
					}
				}
				// K4: presence tests appear as condition nodes
				if e, isExpr := n.(ast.Expr); isExpr {
					if need, presentWhen, isTest := a.presenceTest(e); isTest {
						key := fmt.Sprintf("%s#presence test %s", fkey, exprString(e))
						switch {
						case int(f) >= need:
							r.OK("R07a", key, e.Pos(), fmt.Sprintf("at least %d byte(s) already known present-or-EOF here", need))
						default:
							// the absent edge must go straight to fill() and that must be enough
							var absent *FEdge
							for _, ed := range b.Succs {
								if ed.Cond == e && ed.Pol != presentWhen {
									absent = ed
								}
							}
							okFill := false
							if absent != nil && len(absent.To.Nodes) > 0 {
								first := absent.To.Nodes[0]
								for _, c := range nodeCalls(first) {
									if calleeOf(info, c) == a.fillFn {
										okFill = true
									}
								}
							}
							enough := int(f)+1 >= need
							switch {
							case okFill && enough:
								r.OK("R07a", key, e.Pos(), "absent edge refills first (lazy fill), which is enough for this lookahead")
							case okFill && onFillCycle(g, b, info, a.fillFn):
								r.OK("R07a", key, e.Pos(), "absent edge refills and the test is repeated (refill loop) until enough bytes or end of input")
							case okFill:
								r.Bad("R07a", key, e.Pos(), fmt.Sprintf("needs %d bytes of lookahead but only %d known present and a single fill() follows: with a reader delivering one byte at a time the answer differs from the answer on a full buffer", need, int(f)))
							default:
								r.Bad("R07a", key, e.Pos(), fmt.Sprintf("the `no more bytes buffered` answer is acted upon without a refill (only %d byte(s) known present-or-EOF, %d needed): the result depends on where the reader split the input", int(f), need))
							}
						}
					}
				}
				// K1 / K2: indexes and slices of p.bs inside this node
				inspectNoLit(n, func(x ast.Node) bool {
					switch y := x.(type) {
					case *ast.IndexExpr:
						if selectorField(info, y.X) != a.bsField {
							return true
						}
						if c, ok := a.bspPlus(y.Index); ok {
							key := fmt.Sprintf("%s#index bs[bsp+%d]", fkey, c)
							r.Check(int(f) >= c+1, "R07a", key, y.Pos(), fmt.Sprintf("%d byte(s) known present-or-EOF", int(min(f, 9))),
								fmt.Sprintf("reads byte %d after the read position with only %d known present-or-EOF", c, int(f)))
						}
					case *ast.SliceExpr:
						if selectorField(info, y.X) != a.bsField {
							return true
						}
						if y.High != nil {
							// bounded: p.bs[x:p.bsp] looks backwards; p.bs[p.bsp:p.bsp+w] after a decode is covered by the decode
							if a.isBsp(y.High) {
								return true
							}
							if be, ok := ast.Unparen(y.High).(*ast.BinaryExpr); ok && be.Op == token.ADD && a.isBsp(be.X) {
								key := fmt.Sprintf("%s#slice bs[bsp:bsp+%s]", fkey, exprString(be.Y))
								r.Check(f >= availInf || onFillCycle(g, b, info, a.fillFn) || f >= 1, "R07a", key, y.Pos(), "bounded slice after the rune was decoded from available bytes", "bounded forward slice without established availability")
								return true
							}
							return true
						}
						key := fmt.Sprintf("%s#forward slice %s", fkey, exprString(y))
						switch {
						case f >= availInf:
							r.OK("R07a", key, y.Pos(), "end of input established")
						case onFillCycle(g, b, info, a.fillFn):
							r.OK("R07a", key, y.Pos(), "inside a loop that refills until enough bytes or end of input")
						default:
							r.Bad("R07a", key, y.Pos(), "scans forward over whatever happens to be buffered (no refill loop around it): a short read changes what it sees")
						}
					}
					return true
				})
			}
		}
	}
	for _, fo := range fos {
		if fo == a.fillFn || fo == a.peek2Fn {
			continue
		}
		// only functions that touch the buffer or call peekTwo matter
		touches := false
		ast.Inspect(a.decls[fo].Body, func(n ast.Node) bool {
			switch x := n.(type) {
			case *ast.SelectorExpr:
				if selectorField(info, x) == a.bsField {
					touches = true
				}
			case *ast.CallExpr:
				if calleeOf(info, x) == a.peek2Fn {
					touches = true
				}
			}
			return true
		})
		if touches {
			analyse(fo, 0, "")
		}
	}
	sort.Slice(peek2Callers, func(i, j int) bool { return peek2Callers[i].call.Pos() < peek2Callers[j].call.Pos() })
	for _, c := range peek2Callers {
		analyse(a.peek2Fn, c.avail, fmt.Sprintf("syntax.(Parser).peekTwo called from %s", funcObjKey(c.fo)))
	}
	if len(peek2Callers) == 0 {
		r.Notef("R07a: peekTwo has no callers")
	}

	// ---- R07b
	fd := a.decls[a.fillFn]
	g := NewFGraph(info, fd.Body, nil)
	var nObj types.Object
	reads := findCalls(g, func(c *ast.CallExpr) bool {
		fn := calleeOf(info, c)
		return fn != nil && fn.Name() == "Read" && fn.Pkg() != nil && fn.Pkg().Path() == "io"
	})
	if len(reads) != 1 {
		r.Undecided("R07b", "syntax.(Parser).fill#Read", fd.Pos(), fmt.Sprintf("%d io.Reader.Read calls in fill (expected one)", len(reads)))
		return
	}
	if as, ok := reads[0].blk.Nodes[reads[0].idx].(*ast.AssignStmt); ok && len(as.Lhs) == 2 {
		nObj = identObj(info, as.Lhs[0])
	}
	if nObj == nil {
		r.Undecided("R07b", "syntax.(Parser).fill#Read", fd.Pos(), "the byte count returned by Read is not assigned to a variable")
		return
	}
	extends := func(n ast.Node) bool {
		as, ok := n.(*ast.AssignStmt)
		if !ok || len(as.Lhs) != 1 || len(as.Rhs) != 1 || selectorField(info, as.Lhs[0]) != a.bsField {
			return false
		}
		sl, ok := ast.Unparen(as.Rhs[0]).(*ast.SliceExpr)
		if !ok || sl.High == nil {
			return false
		}
		uses := false
		ast.Inspect(sl.High, func(m ast.Node) bool {
			if id, ok := m.(*ast.Ident); ok && info.Uses[id] == nObj {
				uses = true
			}
			return true
		})
		return uses
	}
	// every path from the Read to the exit on which n != 0 passes `p.bs = p.readBuf[:left+n]`
	ok, _ := g.MustPass(reads[0].blk, reads[0].idx, g.Exit, extends, func(e *FEdge) bool {
		// skip edges that imply n == 0
		if e.Cond == nil {
			return false
		}
		be, isBin := ast.Unparen(e.Cond).(*ast.BinaryExpr)
		if !isBin || identObj(info, be.X) != nObj {
			return false
		}
		tv := info.Types[be.Y]
		if tv.Value == nil || tv.Value.ExactString() != "0" {
			return false
		}
		return (be.Op == token.EQL && e.Pol) || (be.Op == token.NEQ && !e.Pol) || (be.Op == token.GTR && !e.Pol) || (be.Op == token.LEQ && e.Pol)
	})
	// n must not be reassigned between
	r.Check(ok && countAssigns(info, fd, nObj) <= 2, "R07b", "syntax.(Parser).fill#bytes returned with an error are kept", reads[0].call.Pos(),
		"only the n == 0 edges bypass `p.bs = p.readBuf[:left+n]`", "some path drops the n > 0 bytes a Read returned (for example together with io.EOF): readers that return data and EOF in one call lose their last chunk")
}

// onFillCycle: block b lies on a cycle of g that contains a call of fill().
func onFillCycle(g *FGraph, b *FBlock, info *types.Info, fillFn *types.Func) bool {
	from := g.Reachable(b, nil)
	for blk := range from {
		if blk == b && len(from) == 1 {
			continue
		}
		hasFill := false
		for _, n := range blk.Nodes {
			for _, c := range nodeCalls(n) {
				if calleeOf(info, c) == fillFn {
					hasFill = true
				}
			}
		}
		if !hasFill {
			continue
		}
		// blk reachable from b; is b reachable from blk through a proper path?
		for _, e := range blk.Succs {
			if e.To == b || g.Reachable(e.To, nil)[b] {
				// and b must reach blk through at least one edge (already: blk in from, blk != b or self loop)
				if blk != b {
					return true
				}
			}
		}
	}
	return false
}

var c07Controls = []Control{
	{Name: "literal-aliases-the-read-buffer", Rule: "R07h", WantKey: "newLit#store 3 to litBs", File: "syntax/lexer.go",
		Mutate: ctlReplaceAnywhere("p.litBs = append(p.litBuf[:0], p.bs[p.bsp-uint(p.w):p.bsp]...)", "p.litBs = p.bs[p.bsp-uint(p.w) : p.bsp]")},
	{Name: "cut-rune-completed-up-to-three-bytes", Rule: "R07g", WantKey: "rune#a rune cut by the end of a read is completed", File: "syntax/lexer.go",
		Mutate: ctlChain(ctlReplaceAnywhere("\tif p.r == utf8.RuneError && !utf8.FullRune(p.bs[p.bsp:]) {\n", "\tif p.r == utf8.RuneError && w == 1 && len(p.bs)-int(p.bsp) < seqLen(p.bs[p.bsp]) {\n"),
			ctlAppendDecl("func seqLen(first byte) int {\n\tswitch {\n\tcase first&0xe0 == 0xc0:\n\t\treturn 2\n\tcase first&0xf0 == 0xe0:\n\t\treturn 3\n\t}\n\treturn 1\n}\n"))},
	{Name: "eof-cursor-only-when-buffer-empty", Rule: "R07f", WantKey: "rune#the end-of-input cursor does not depend", File: "syntax/lexer.go",
		Mutate: ctlReplaceAnywhere("\t\tp.bsp = uint(len(p.bs)) + 1\n\t\tp.r = runeEOF\n", "\t\tif len(p.bs) == 0 {\n\t\t\tp.bsp = 1\n\t\t}\n\t\tp.r = runeEOF\n")},
	{Name: "empty-read-count-never-reset", Rule: "R07e", WantKey: "fill#emptyReads counts consecutive empty reads", File: "syntax/lexer.go",
		Mutate: ctlChain(ctlReplaceAnywhere("\t\tif err == nil {\n\t\t\tgoto readAgain\n\t\t}\n", "\t\tif err == nil {\n\t\t\tif fillStats.emptyReads++; fillStats.emptyReads < 100 {\n\t\t\t\tgoto readAgain\n\t\t\t}\n\t\t\terr = io.ErrNoProgress\n\t\t\tp.readErr = err\n\t\t}\n"),
			ctlAppendDecl("var fillStats struct{ emptyReads int }\n")),
	},
	{Name: "offset-base-counts-read-ahead-bytes", Rule: "R07d", WantKey: "fill#offs += bsp", File: "syntax/lexer.go",
		Mutate: ctlReplaceAnywhere("\tp.offs += int64(p.bsp)\n\tleft := len(p.bs) - int(p.bsp)\n", "\tp.offs += int64(len(p.bs))\n\tleft := len(p.bs) - int(p.bsp)\n")},
	{Name: "cursor-restored-after-a-peek", Rule: "R07c", WantKey: "copy of the read position in cr", File: "syntax/lexer.go",
		Mutate: ctlReplaceAnywhere("\t\t\t} else if p1, p2 := p.peekTwo(); p1 == '\\r' && p2 == '\\n' { // \\\\\\r\\n turns into \\\\\\n\n\t\t\t\tp.col++\n\t\t\t\tp.bsp += 2\n\t\t\t\tp.w, p.r = 2, escNewl\n\t\t\t\treturn escNewl\n\t\t\t}", "\t\t\t} else if p.peek() == '\\r' {\n\t\t\t\tcr := p.bsp\n\t\t\t\tp.bsp++\n\t\t\t\tif p.peek() == '\\n' {\n\t\t\t\t\tp.col++\n\t\t\t\t\tp.bsp++\n\t\t\t\t\tp.w, p.r = 2, escNewl\n\t\t\t\t\treturn escNewl\n\t\t\t\t}\n\t\t\t\tp.bsp = cr\n\t\t\t}")},
	{Name: "hdoc-tab-skip-looks-at-buffer-only", Rule: "R07a", WantKey: "advanceLitHdoc", File: "syntax/lexer.go",
		Mutate: ctlReplace("Parser.advanceLitHdoc", "p.quote == hdocBodyTabs && p.peek() == '\\t'", "p.quote == hdocBodyTabs && int(p.bsp) < len(p.bs) && p.bs[p.bsp] == '\\t'", 0)},
	{Name: "decode-single-refill", Rule: "R07a", WantKey: "rune#forward slice", File: "syntax/lexer.go",
		Mutate: ctlChain(ctlReplace("Parser.rune", "if p.fill() > 0 {\n\t\t\tgoto decodeRune\n\t\t}", "if p.fill() > 0 {\n\t\t\tp.r, w = utf8.DecodeRune(p.bs[p.bsp:])\n\t\t}", 0),
			ctlReplaceAnywhere("decodeRune:\n", ""))},
	{Name: "peek-without-fill", Rule: "R07a", WantKey: "peek#presence test", File: "syntax/lexer.go",
		Mutate: ctlReplace("Parser.peek", "if int(p.bsp) >= len(p.bs) {\n\t\tp.fill()\n\t}", "", 0)},
	{Name: "fill-drops-bytes-with-error", Rule: "R07b", WantKey: "fill#bytes returned", File: "syntax/lexer.go",
		Mutate: ctlReplace("Parser.fill", "n == 0", "n == 0 || err != nil", 0)},
}
