package main

import (
	"go/ast"
	"go/types"
)

// R32d: what a function starts on a sync.WaitGroup it waits for on every path out. A return between wg.Go (or
// wg.Add + go) and wg.Wait leaves the goroutine running on the shared writers and Runner copies after the caller —
// ultimately Run — has returned.
func checkWaitGroupJoined(p *Prog, r *Result, rule string) {
	pkg := p.Pkg("interp")
	info := pkg.TypesInfo
	isWG := func(e ast.Expr) (types.Object, bool) {
		id, ok := ast.Unparen(e).(*ast.Ident)
		if !ok {
			return nil, false
		}
		o := info.ObjectOf(id)
		if o == nil {
			return nil, false
		}
		n := namedOf(derefType(o.Type()))
		return o, n != nil && n.Obj().Pkg() != nil && n.Obj().Pkg().Path() == "sync" && n.Obj().Name() == "WaitGroup"
	}
	n := 0
	for _, fd := range p.AllFuncDecls("interp") {
		var g *FGraph
		inspectNoLit(fd.Body, func(nd ast.Node) bool {
			call, ok := nd.(*ast.CallExpr)
			if !ok {
				return true
			}
			sel, ok := ast.Unparen(call.Fun).(*ast.SelectorExpr)
			if !ok || (sel.Sel.Name != "Go" && sel.Sel.Name != "Add") {
				return true
			}
			wg, ok := isWG(sel.X)
			if !ok {
				return true
			}
			n++
			if g == nil {
				g = NewFGraph(info, fd.Body, nil)
			}
			key := funcKey("interp", fd) + "#" + wg.Name() + "." + sel.Sel.Name + " is waited for on every path"
			blk := blockContaining(g, call)
			idx := -1
			if blk != nil {
				for i, x := range blk.Nodes {
					if x.Pos() <= call.Pos() && call.End() <= x.End() {
						idx = i
					}
				}
			}
			if blk == nil || idx < 0 {
				r.Undecided(rule, key, call.Pos(), "call not found in the flow graph")
				return true
			}
			ok2, _ := g.MustPass(blk, idx, g.Exit, func(x ast.Node) bool {
				for _, c := range nodeCalls(x) {
					if s2, ok := ast.Unparen(c.Fun).(*ast.SelectorExpr); ok && s2.Sel.Name == "Wait" {
						if o, ok := isWG(s2.X); ok && o == wg {
							return true
						}
					}
				}
				if ds, ok := x.(*ast.DeferStmt); ok {
					if s2, ok := ast.Unparen(ds.Call.Fun).(*ast.SelectorExpr); ok && s2.Sel.Name == "Wait" {
						if o, ok := isWG(s2.X); ok && o == wg {
							return true
						}
					}
				}
				return false
			}, nil)
			r.Check(ok2, rule, key, call.Pos(), "every path to a return passes "+wg.Name()+".Wait()",
				"some path returns without waiting for what was started on the WaitGroup: the goroutine keeps running — writing to the shared output and using its Runner — after the statement, and possibly Run itself, has returned")
			return true
		})
	}
	if n == 0 {
		r.Notef("%s: package interp starts nothing on a sync.WaitGroup", rule)
	}
}
