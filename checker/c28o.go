package main

import (
	"fmt"
	"go/ast"
	"go/types"
	"strings"

	"golang.org/x/tools/go/packages"
)

// R28o: interp.HandlerCtx panics when the context it is given carries no HandlerContext ("no HandlerContext in ctx"),
// and the handler authors are told to call it. So every call the interpreter makes through one of the Runner's handler
// fields (exec, call, open, stat, readDir) passes a context built on the spot by Runner.handlerCtx — or, in code that
// is itself a handler, the very context from which HandlerCtx was just taken. The pinned tree does so at every site.
func checkHandlersGetHandlerCtx(p *Prog, r *Result, pkg *packages.Package, rel, rule string) int {
	info := pkg.TypesInfo
	runnerT := lookupType(pkg, "Runner")
	mk := lookupFunc(pkg, "Runner.handlerCtx")
	get := lookupFunc(pkg, "HandlerCtx")
	if runnerT == nil || mk == nil || get == nil {
		r.Fatalf("anchors interp.Runner / Runner.handlerCtx / HandlerCtx not found")
		return 0
	}
	n := 0
	for _, fd := range p.AllFuncDecls(rel) {
		if fd.Body == nil || strings.HasSuffix(p.Position(fd.Pos()), "_test.go") {
			continue
		}
		seen := map[string]int{}
		ast.Inspect(fd.Body, func(m ast.Node) bool {
			c, ok := m.(*ast.CallExpr)
			if !ok || len(c.Args) == 0 {
				return true
			}
			se, ok := ast.Unparen(c.Fun).(*ast.SelectorExpr)
			if !ok {
				return true
			}
			fv := selectorField(info, se)
			if fv == nil || !strings.HasSuffix(fv.Name(), "Handler") {
				return true
			}
			if namedOf(derefType(info.TypeOf(se.X))) != runnerT {
				return true
			}
			if _, isFunc := fv.Type().Underlying().(*types.Signature); !isFunc {
				return true
			}
			if t := info.TypeOf(c.Args[0]); t == nil || t.String() != "context.Context" {
				return true
			}
			n++
			key := fmt.Sprintf("%s#%s is given a handler context", funcKey(rel, fd), exprString(c.Fun))
			seen[key]++
			if seen[key] > 1 {
				key += fmt.Sprintf("#%d", seen[key])
			}
			arg := ast.Unparen(c.Args[0])
			how := ""
			if ac, ok := arg.(*ast.CallExpr); ok {
				if callee := calleeOf(info, ac); callee != nil && callee.Origin() == mk {
					how = "the context is built by Runner.handlerCtx at the call"
				}
			}
			if id, ok := arg.(*ast.Ident); ok && how == "" {
				// a local defined from handlerCtx, or the context HandlerCtx was just taken from
				if def := singleDef(info, fd, info.ObjectOf(id)); def != nil {
					if dc, ok := ast.Unparen(def).(*ast.CallExpr); ok {
						if callee := calleeOf(info, dc); callee != nil && callee.Origin() == mk {
							how = "the context is a local built by Runner.handlerCtx"
						}
					}
				}
				if how == "" {
					ast.Inspect(fd.Body, func(k ast.Node) bool {
						if gc, ok := k.(*ast.CallExpr); ok && len(gc.Args) == 1 {
							if callee := calleeOf(info, gc); callee != nil && callee.Origin() == get {
								if gid, ok := ast.Unparen(gc.Args[0]).(*ast.Ident); ok && info.ObjectOf(gid) == info.ObjectOf(id) {
									how = "the context is the one HandlerCtx was taken from in this function"
								}
							}
						}
						return true
					})
				}
			}
			r.Check(how != "", rule, key, c.Pos(), how,
				fmt.Sprintf("the handler is called with %s, which is not a context built by Runner.handlerCtx: a handler that calls interp.HandlerCtx on it — as the documentation tells handler authors to — panics with \"no HandlerContext in ctx\"", exprString(arg)))
			return true
		})
	}
	return n
}
