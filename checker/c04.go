package main

import (
	"fmt"
	"go/ast"
	"go/token"
	"go/types"
	"sort"
	"strings"
)

func init() {
	register(&Property{
		ID:  "C04",
		Run: runC04,
		Decided: "Simplify reports true exactly when it changed the tree: every store into a node, every replaced slice element and every replaced return value in the simplifier is dominated by " +
			"(or shares its block with) `modified = true`, and every `modified = true` is followed on every path by such a change (R04a); every node type the simplifier constructs has a case in " +
			"every printer switch over the interfaces it implements, so the result still prints (R04b); a rewrite that throws a node away has looked at every meaning-carrying field of it: each field " +
			"of the discarded node is kept, a position, a comment list, or read in a condition guarding the rewrite (R04c); string builders shared across loop iterations are reset on every path back " +
			"to the loop head (R04d). Test operators whose right-hand side the interpreter evaluates as a pattern are protected from the operand rewrites (R04e).",
		NotDecided:  "that each rewrite preserves meaning (quoting, arithmetic and test semantics are value-level); the order in which visit normalises and then decides (e.g. `=` to `==` before the unquoting decision).",
		Assumptions: []string{"the simplifier changes trees only through field stores, element stores and replaced return values in syntax/simplify.go (methods of *simplifier, enumerated)"},
		Controls:    c04Controls,
	})
}

func runC04(p *Prog, r *Result) {
	si, err := newSyntaxInfo(p)
	if err != nil {
		r.Fatalf("%v", err)
		return
	}
	pkg := si.pkg
	info := pkg.TypesInfo
	r.Rule("R04a", "modified-flag pairing in the simplifier: no change without the flag, no flag without a change", 25)
	r.Rule("R04b", "node types constructed by the simplifier have a case in every printer type switch over an interface they implement", 2)
	r.Rule("R04c", "a rewrite that discards a node tests or keeps every non-position, non-comment field of it", 12)
	r.Rule("R04e", "every test operator whose right-hand side the interpreter evaluates as a pattern is protected from the simplifier's operand rewrites (listed, or normalised to a listed operator before the switch)", 3)
	checkPatternOperatorAgreement(p, r, "R04e")
	r.Rule("R04f", "the `$name` to `name` inlining is never applied to an array index or to an arithmetic node inside one", 5)
	checkIndexNotInlined(p, r, si, "R04f")
	r.Rule("R04g", "every piece of syntax the lexer reads in a state where a single quote is an ordinary character is marked by the simplifier, so that nothing inside it is re-quoted with single quotes", 2)
	checkQuoteContextsMarked(p, r, si, "R04g")
	r.Rule("R04h", "an expansion is taken out of its double quotes only after a predicate that distinguishes quoting nodes has looked inside it", 1)
	checkUnquoteLooksInside(p, r, si, "R04h")
	r.Rule("R04i", "a subshell's parentheses are removed only from a place whose statements the interpreter runs on a copy of the shell (the places are read off package interp, per operator)", 2)
	checkSubshellUnwrapContexts(p, r, si, "R04i")
	r.Rule("R04k", "the simplifier stores none of a statement's execution attributes (Negated, Background, Coprocess, Disown, Redirs); zero stores on the pinned tree, armed by a control", 0)
	if n := checkStatementFlagsUntouched(p, r, si, "R04k"); n == 0 {
		r.Notef("R04k: no function of simplify.go stores a bool field or the redirections of a Stmt")
	}
	r.Rule("R04l", "the inside of a parenthesised test is taken only at the root of a test clause, or by a function that looks at whether it is an &&/|| chain", 1)
	checkTestParensUnwrappedAtRoot(p, r, si, "R04l")
	r.Rule("R04j", "the parameter expansions the parser accepts as an arithmetic assignment target and the one the `$name` inlining rewrites exclude each other (predicate disjointness: isArithName against ParamExp.simple)", 1)
	checkInliningAvoidsTargets(p, r, si, "R04j")
	r.Rule("R04d", "string builders used across loop iterations in the simplifier are reset on every path back to the loop head", 0)

	simpT := lookupType(pkg, "simplifier")
	if simpT == nil {
		r.Fatalf("anchor syntax.simplifier not found")
		return
	}
	var modF *types.Var
	st := simpT.Underlying().(*types.Struct)
	for i := 0; i < st.NumFields(); i++ {
		if b, ok := st.Field(i).Type().Underlying().(*types.Basic); ok && b.Kind() == types.Bool {
			modF = st.Field(i)
		}
	}
	if modF == nil {
		r.Fatalf("simplifier has no boolean field (modified)")
		return
	}
	var methods []*ast.FuncDecl
	methodObj := map[*types.Func]bool{}
	for _, fd := range p.AllFuncDecls("syntax") {
		if recvTypeName(fd) == "simplifier" {
			methods = append(methods, fd)
			if fo, ok := info.Defs[fd.Name].(*types.Func); ok {
				methodObj[fo] = true
			}
		}
	}
	sort.Slice(methods, func(i, j int) bool { return methods[i].Pos() < methods[j].Pos() })
	if len(methods) < 5 {
		r.Fatalf("only %d methods of simplifier found", len(methods))
		return
	}
	isNodeExpr := func(e ast.Expr) bool {
		t := info.TypeOf(e)
		if t == nil {
			return false
		}
		if n := namedOf(t); n != nil && n.Obj().Pkg() == pkg.Types {
			if si.isNode[n.Obj()] {
				return true
			}
			// helper structs of nodes (Slice, Replace, Expansion)
			if _, ok := n.Underlying().(*types.Struct); ok && n != simpT {
				return true
			}
		}
		return false
	}
	isModStore := func(n ast.Node) bool {
		as, ok := n.(*ast.AssignStmt)
		if !ok {
			return false
		}
		for i, l := range as.Lhs {
			if selectorField(info, l) == modF && i < len(as.Rhs) && exprString(as.Rhs[i]) == "true" {
				return true
			}
		}
		return false
	}

	// ---- R04a
	for _, fd := range methods {
		fk := funcKey("syntax", fd)
		g := NewFGraph(info, fd.Body, nil)
		dom := g.Dominators()
		params := map[types.Object]bool{}
		for _, f := range fd.Type.Params.List {
			for _, nm := range f.Names {
				params[info.Defs[nm]] = true
			}
		}
		// is the statement the identity idiom `X.F = s.method(X.F)`?
		identityIdiom := func(as *ast.AssignStmt, i int) bool {
			if i >= len(as.Rhs) {
				return false
			}
			c, ok := ast.Unparen(as.Rhs[i]).(*ast.CallExpr)
			if !ok || !methodObj[calleeOf(info, c)] || len(c.Args) != 1 {
				return false
			}
			return exprString(c.Args[0]) == exprString(as.Lhs[i])
		}
		type site struct {
			n    ast.Node
			blk  *FBlock
			idx  int
			what string
		}
		var changes, mods []site
		for _, b := range g.Blocks {
			for i, n := range b.Nodes {
				if isModStore(n) {
					mods = append(mods, site{n, b, i, "modified = true"})
				}
				switch x := n.(type) {
				case *ast.AssignStmt:
					for li, l := range x.Lhs {
						l = ast.Unparen(l)
						switch y := l.(type) {
						case *ast.SelectorExpr:
							if selectorField(info, y) != nil && selectorField(info, y) != modF && isNodeExpr(y.X) && !identityIdiom(x, li) {
								changes = append(changes, site{n, b, i, "store to " + exprString(y)})
							}
						case *ast.IndexExpr:
							if id, ok := ast.Unparen(y.X).(*ast.Ident); ok && params[info.ObjectOf(id)] {
								changes = append(changes, site{n, b, i, "element store " + exprString(y)})
							}
						case *ast.Ident:
							if params[info.ObjectOf(y)] && x.Tok == token.ASSIGN && !identityIdiom(x, li) {
								changes = append(changes, site{n, b, i, "parameter " + y.Name + " replaced"})
							}
						}
					}
				case *ast.ReturnStmt:
					for _, res := range x.Results {
						if id, ok := ast.Unparen(res).(*ast.Ident); ok && params[info.ObjectOf(id)] {
							continue // hands back what it was given (possibly replaced above, which is a change of its own)
						}
						// hands its own argument on to another method of the simplifier, which pairs its changes with the flag itself
						if c, ok := ast.Unparen(res).(*ast.CallExpr); ok && methodObj[calleeOf(info, c)] && len(c.Args) == 1 {
							if id, ok := ast.Unparen(c.Args[0]).(*ast.Ident); ok && params[info.ObjectOf(id)] {
								continue
							}
						}
						if fd.Type.Results != nil && len(fd.Type.Results.List) > 0 {
							changes = append(changes, site{n, b, i, "returns " + exprString(res) + " instead of the argument"})
						}
					}
				}
			}
		}
		// `r := s.method(a); if r != a { … }`: every method pairs returning something other than its argument with the
		// flag (this very rule), so inside that branch the flag has been set by the callee
		resultDiffers := func(e *FEdge) bool {
			if e.Cond == nil || e.Tag != nil || e.TypeCase {
				return false
			}
			be, ok := ast.Unparen(e.Cond).(*ast.BinaryExpr)
			if !ok || !((be.Op == token.NEQ && e.Pol) || (be.Op == token.EQL && !e.Pol)) {
				return false
			}
			for _, pair := range [][2]ast.Expr{{be.X, be.Y}, {be.Y, be.X}} {
				id, ok := stripConv(info, pair[0]).(*ast.Ident)
				if !ok {
					continue
				}
				def := singleDef(info, fd, info.ObjectOf(id))
				if def == nil {
					continue
				}
				c, ok := ast.Unparen(def).(*ast.CallExpr)
				if !ok || !methodObj[calleeOf(info, c)] || len(c.Args) != 1 {
					continue
				}
				if exprString(stripConv(info, c.Args[0])) == exprString(stripConv(info, pair[1])) {
					return true
				}
			}
			return false
		}
		for _, c := range changes {
			ok := false
			for _, m := range mods {
				if m.blk == c.blk || (dom[c.blk][m.blk]) {
					ok = true
				}
			}
			how := "dominated by (or in the same block as) modified = true"
			if !ok && underEdges(g, c.blk, resultDiffers) {
				ok = true
				how = "only reached when a simplifier method returned something other than its argument, which that method pairs with modified = true"
			}
			r.Check(ok, "R04a", fmt.Sprintf("%s#change: %s", fk, c.what), c.n.Pos(), how,
				"the tree is changed here and no `modified = true` dominates it: Simplify can return false although it changed the tree")
		}
		for _, m := range mods {
			isChange := func(n ast.Node) bool {
				for _, c := range changes {
					if c.n == n {
						return true
					}
				}
				return false
			}
			ok := false
			for _, n := range m.blk.Nodes {
				if isChange(n) {
					ok = true
				}
			}
			if !ok {
				ok, _ = g.MustPass(m.blk, m.idx, g.Exit, isChange, nil)
			}
			r.Check(ok, "R04a", fk+"#modified = true", m.n.Pos(), "a change of the tree follows on every path (or shares the block)",
				"`modified = true` is set and some path returns without changing the tree: Simplify can return true for an unchanged tree")
		}
	}

	// ---- R04b
	g := buildRefGraph(p)
	printFn := lookupFunc(pkg, "Printer.Print")
	reach := g.reachable(printFn)
	constructed := map[*types.Named]token.Pos{}
	for _, fd := range methods {
		ast.Inspect(fd.Body, func(n ast.Node) bool {
			if cl, ok := n.(*ast.CompositeLit); ok {
				if nt := namedOf(info.TypeOf(cl)); nt != nil && si.isNode[nt.Obj()] {
					if _, seen := constructed[nt]; !seen {
						constructed[nt] = cl.Pos()
					}
				}
			}
			return true
		})
	}
	var cts []*types.Named
	for t := range constructed {
		cts = append(cts, t)
	}
	sort.Slice(cts, func(i, j int) bool { return cts[i].Obj().Name() < cts[j].Obj().Name() })
	for _, t := range cts {
		nsw, missing := 0, []string{}
		for fo, fd := range g.decl {
			if !reach[fo] || g.pkgOf[fo] != pkg || fd.Body == nil {
				continue
			}
			ast.Inspect(fd.Body, func(n ast.Node) bool {
				ts, ok := n.(*ast.TypeSwitchStmt)
				if !ok {
					return true
				}
				tag := typeSwitchTag(info, ts)
				if tag == nil {
					return true
				}
				ifc, ok := tag.Underlying().(*types.Interface)
				if !ok || !(types.Implements(types.NewPointer(t), ifc) || types.Implements(t, ifc)) {
					return true
				}
				if nt := namedOf(tag); nt == nil || nt.Obj().Pkg() != pkg.Types {
					return true
				}
				sc := typeSwitchCases(info, ts)
				nsw++
				if _, has := sc.Clauses[t.Obj().Name()]; has {
					return true
				}
				hasBenignDefault := false
				for _, c := range ts.Body.List {
					if cc := c.(*ast.CaseClause); cc.List == nil && !clausePanics(info, cc) {
						hasBenignDefault = true
					}
				}
				// a switch that only picks out some types (returns a property) has a default path by falling out
				if !hasBenignDefault && !switchIsExhaustiveKind(info, ts, len(sealed(pkg, namedOf(tag).Obj().Name()))) {
					hasBenignDefault = true
				}
				if !hasBenignDefault {
					missing = append(missing, fd.Name.Name)
				}
				return true
			})
		}
		sort.Strings(missing)
		r.Check(len(missing) == 0 && nsw > 0, "R04b", "syntax."+t.Obj().Name()+"#built by the simplifier, printable", constructed[t],
			fmt.Sprintf("%d printer switches over its interfaces handle it", nsw),
			fmt.Sprintf("the simplifier builds a %s but the printer switch(es) in %s have no case for it", t.Obj().Name(), strings.Join(missing, ", ")))
	}

	// ---- R04c
	for _, fd := range methods {
		if fd.Name.Name == "visit" {
			continue
		}
		fk := funcKey("syntax", fd)
		// locals bound to a type assertion of a node: `par, _ := x.(*ParenArithm)`, `switch y := u.X.(type)`
		type local struct {
			obj types.Object
			t   *types.Named
		}
		var locals []local
		type parentLink struct {
			owner types.Object
			field string
		}
		parents := map[types.Object]parentLink{}
		ownerField := func(e ast.Expr) (types.Object, string) {
			e = ast.Unparen(e)
			if ix, ok := e.(*ast.IndexExpr); ok {
				e = ast.Unparen(ix.X)
			}
			if se, ok := e.(*ast.SelectorExpr); ok {
				if id, ok := ast.Unparen(se.X).(*ast.Ident); ok {
					return info.ObjectOf(id), se.Sel.Name
				}
			}
			return nil, ""
		}
		ast.Inspect(fd.Body, func(n ast.Node) bool {
			switch x := n.(type) {
			case *ast.AssignStmt:
				if len(x.Rhs) == 1 {
					if ta, ok := ast.Unparen(x.Rhs[0]).(*ast.TypeAssertExpr); ok && ta.Type != nil {
						if id, ok := x.Lhs[0].(*ast.Ident); ok {
							if nt := namedOf(info.TypeOf(ta.Type)); nt != nil && si.isNode[nt.Obj()] {
								locals = append(locals, local{info.ObjectOf(id), nt})
								if o, f := ownerField(ta.X); o != nil {
									parents[info.ObjectOf(id)] = parentLink{o, f}
								}
							}
						}
					}
					// st := stmts[0]
					if id, ok := x.Lhs[0].(*ast.Ident); ok && len(x.Lhs) == 1 {
						if nt := namedOf(info.TypeOf(x.Rhs[0])); nt != nil && si.isNode[nt.Obj()] {
							if _, isTA := ast.Unparen(x.Rhs[0]).(*ast.TypeAssertExpr); !isTA {
								if _, isLit := ast.Unparen(x.Rhs[0]).(*ast.UnaryExpr); !isLit {
									locals = append(locals, local{info.ObjectOf(id), nt})
									if o, f := ownerField(x.Rhs[0]); o != nil {
										parents[info.ObjectOf(id)] = parentLink{o, f}
									}
								}
							}
						}
					}
				}
			case *ast.TypeSwitchStmt:
				if as, ok := x.Assign.(*ast.AssignStmt); ok {
					if id, ok := as.Lhs[0].(*ast.Ident); ok {
						_ = id
						for _, c := range x.Body.List {
							cc := c.(*ast.CaseClause)
							if o := info.Implicits[cc]; o != nil {
								if nt := namedOf(o.Type()); nt != nil && si.isNode[nt.Obj()] {
									locals = append(locals, local{o, nt})
									if ta, ok := ast.Unparen(as.Rhs[0]).(*ast.TypeAssertExpr); ok {
										if ow, f := ownerField(ta.X); ow != nil {
											parents[o] = parentLink{ow, f}
										}
									}
								}
							}
						}
					}
				}
			}
			return true
		})
		// fields read in conditions (if/for/switch tags and case expressions), one level into predicate methods
		condReads := map[types.Object]map[string]bool{}
		noteCond := func(e ast.Node) {
			if e == nil {
				return
			}
			ast.Inspect(e, func(n ast.Node) bool {
				switch x := n.(type) {
				case *ast.SelectorExpr:
					if id, ok := ast.Unparen(x.X).(*ast.Ident); ok {
						o := info.ObjectOf(id)
						if condReads[o] == nil {
							condReads[o] = map[string]bool{}
						}
						condReads[o][x.Sel.Name] = true
					}
				case *ast.CallExpr:
					// predicate method on a local: fields its body reads through the receiver
					if se, ok := x.Fun.(*ast.SelectorExpr); ok {
						if id, ok := ast.Unparen(se.X).(*ast.Ident); ok {
							if fn := calleeOf(info, x); fn != nil && fn.Pkg() == pkg.Types {
								if pfd := g.decl[fn]; pfd != nil && pfd.Recv != nil && len(pfd.Recv.List[0].Names) > 0 {
									recv := info.Defs[pfd.Recv.List[0].Names[0]]
									o := info.ObjectOf(id)
									if condReads[o] == nil {
										condReads[o] = map[string]bool{}
									}
									// a field counts as tested by the predicate only when every way of answering true looked at it:
									// it is mentioned by every return statement that is not the constant false, or by a condition
									// on every path to such a return
									for fld := range predicateTests(info, pfd, recv) {
										condReads[o][fld] = true
									}
								}
							}
						}
					}
				}
				return true
			})
		}
		ast.Inspect(fd.Body, func(n ast.Node) bool {
			switch x := n.(type) {
			case *ast.IfStmt:
				noteCond(x.Cond)
			case *ast.ForStmt:
				noteCond(x.Cond)
			case *ast.SwitchStmt:
				noteCond(x.Tag)
			case *ast.CaseClause:
				for _, e := range x.List {
					noteCond(e)
				}
			}
			return true
		})
		// discard sites: a field of the local is kept (returned / assigned onwards) while the local itself is dropped
		type discard struct {
			l    local
			kept string
			pos  token.Pos
		}
		var discards []discard
		seen := map[string]bool{}
		note := func(e ast.Expr, pos token.Pos) {
			se, ok := ast.Unparen(e).(*ast.SelectorExpr)
			if !ok {
				return
			}
			id, ok := ast.Unparen(se.X).(*ast.Ident)
			if !ok {
				return
			}
			for _, l := range locals {
				if l.obj == info.ObjectOf(id) {
					k := l.obj.Name() + "." + se.Sel.Name
					if !seen[k] {
						seen[k] = true
						discards = append(discards, discard{l, se.Sel.Name, pos})
					}
				}
			}
		}
		ast.Inspect(fd.Body, func(n ast.Node) bool {
			switch x := n.(type) {
			case *ast.ReturnStmt:
				for _, res := range x.Results {
					note(res, x.Pos())
					// &Word{Parts: []WordPart{pe.Param}}
					ast.Inspect(res, func(m ast.Node) bool {
						if cl, ok := m.(*ast.CompositeLit); ok {
							for _, el := range cl.Elts {
								if kv, ok := el.(*ast.KeyValueExpr); ok {
									note(kv.Value, x.Pos())
								} else if e, ok := el.(ast.Expr); ok {
									note(e, x.Pos())
								}
							}
						}
						return true
					})
				}
			case *ast.AssignStmt:
				for i, rh := range x.Rhs {
					if i < len(x.Lhs) {
						// x = par.X ; stmts = sub.Stmts ; w.Parts = dq.Parts
						if _, isSel := ast.Unparen(rh).(*ast.SelectorExpr); isSel {
							note(rh, x.Pos())
						}
						// wps[i] = &SglQuoted{…, Dollar: dq.Dollar, …}: the node the values come from is replaced
						// by one of another type; nothing of it is kept as such
						e := ast.Unparen(rh)
						if ue, ok := e.(*ast.UnaryExpr); ok && ue.Op == token.AND {
							e = ast.Unparen(ue.X)
						}
						if cl, ok := e.(*ast.CompositeLit); ok {
							for _, el := range cl.Elts {
								kv, ok := el.(*ast.KeyValueExpr)
								if !ok {
									continue
								}
								if se, ok := ast.Unparen(kv.Value).(*ast.SelectorExpr); ok {
									if id, ok := ast.Unparen(se.X).(*ast.Ident); ok {
										for _, l := range locals {
											if l.obj == info.ObjectOf(id) && l.t != namedOf(info.TypeOf(cl)) {
												k := l.obj.Name() + ".(replaced)"
												if !seen[k] {
													seen[k] = true
													discards = append(discards, discard{l, "", x.Pos()})
												}
											}
										}
									}
								}
							}
						}
					}
				}
			}
			return true
		})
		// a list emptied in place (`loop.Items = nil`): every node this function took out of that list, directly or
		// through further field/index steps, is thrown away with it, and nothing of it is kept
		ast.Inspect(fd.Body, func(n ast.Node) bool {
			as, ok := n.(*ast.AssignStmt)
			if !ok || len(as.Lhs) != len(as.Rhs) {
				return true
			}
			for i, l := range as.Lhs {
				if !isNilIdent(info, as.Rhs[i]) {
					continue
				}
				o, f := ownerField(l)
				if o == nil {
					continue
				}
				// locals whose chain of parents reaches (o, f)
				for _, lc := range locals {
					cur := lc.obj
					reached := false
					for steps := 0; steps < 8; steps++ {
						pl, has := parents[cur]
						if !has {
							break
						}
						if pl.owner == o && pl.field == f {
							reached = true
							break
						}
						cur = pl.owner
					}
					if reached {
						k := lc.obj.Name() + ".(dropped with " + f + ")"
						if !seen[k] {
							seen[k] = true
							discards = append(discards, discard{lc, "", as.Pos()})
						}
					}
				}
			}
			return true
		})
		// the owner of a discarded (or partly kept) node is discarded too when the function returns the inner part
		for i := 0; i < len(discards); i++ {
			d := discards[i]
			if pl, ok := parents[d.l.obj]; ok {
				for _, l := range locals {
					if l.obj == pl.owner {
						k := l.obj.Name() + "." + pl.field
						if !seen[k] && !returnsLocal(info, fd, l.obj) {
							seen[k] = true
							discards = append(discards, discard{l, pl.field, d.pos})
						}
					}
				}
			}
		}
		for _, d := range discards {
			stT, ok := d.l.t.Underlying().(*types.Struct)
			if !ok {
				continue
			}
			// a local whose other fields are written (y.Op = …; return y) is kept, not discarded
			for i := 0; i < stT.NumFields(); i++ {
				f := stT.Field(i)
				nf := si.classify(d.l.t, f)
				key := fmt.Sprintf("%s#drops %s (a %s) keeping .%s: field %s", fk, d.l.obj.Name(), d.l.t.Obj().Name(), d.kept, f.Name())
				if d.kept == "" {
					key = fmt.Sprintf("%s#replaces %s (a %s) by a node of another type: field %s", fk, d.l.obj.Name(), d.l.t.Obj().Name(), f.Name())
				}
				switch {
				case f.Name() == d.kept:
					continue
				case nf.Kind == fkPos:
					continue
				case nf.Kind == fkComments:
					r.OK("R04c", key, d.pos, "comment list (not meaning-carrying for C04; comment conservation under -s is not claimed)")
				case condReads[d.l.obj][f.Name()]:
					r.OK("R04c", key, d.pos, "read in a condition guarding the rewrite")
				case keptElsewhere(info, fd, d.l.obj, f.Name(), d.l.t):
					r.OK("R04c", key, d.pos, "carried over into a replacement node of the same type")
				default:
					why, ok := c04FieldExceptions[d.l.t.Obj().Name()+"."+f.Name()+"@"+fd.Name.Name]
					if !ok {
						why, ok = c04FieldExceptions[d.l.t.Obj().Name()+"."+f.Name()+"@*"]
					}
					if ok {
						r.OK("R04c", key, d.pos, "exception: "+why)
						r.Except(d.l.t.Obj().Name()+"."+f.Name(), why)
						continue
					}
					keeps := "and keeps only its " + d.kept
					if d.kept == "" {
						keeps = "(nothing of it is kept)"
					}
					r.Bad("R04c", key, d.pos, fmt.Sprintf("the rewrite throws the %s away %s, without ever looking at its field %s: a node where that field matters is rewritten as if it did not", d.l.t.Obj().Name(), keeps, f.Name()))
				}
			}
		}
	}

	// ---- R04d
	nBuilders := 0
	for _, fd := range methods {
		ast.Inspect(fd.Body, func(n ast.Node) bool {
			var loopBody *ast.BlockStmt
			var loopNode ast.Stmt
			switch x := n.(type) {
			case *ast.ForStmt:
				loopBody, loopNode = x.Body, x
			case *ast.RangeStmt:
				loopBody, loopNode = x.Body, x
			default:
				return true
			}
			// builders declared outside this loop and written inside it
			used := map[types.Object]bool{}
			ast.Inspect(loopBody, func(m ast.Node) bool {
				c, ok := m.(*ast.CallExpr)
				if !ok {
					return true
				}
				se, ok := c.Fun.(*ast.SelectorExpr)
				if !ok || !strings.HasPrefix(se.Sel.Name, "Write") {
					return true
				}
				id, ok := ast.Unparen(se.X).(*ast.Ident)
				if !ok {
					return true
				}
				o := info.ObjectOf(id)
				if nt := namedOf(o.Type()); nt != nil && (nt.Obj().Name() == "Builder" || nt.Obj().Name() == "Buffer") {
					if !(loopBody.Pos() <= o.Pos() && o.Pos() <= loopBody.End()) {
						used[o] = true
					}
				}
				return true
			})
			for o := range used {
				// is the builder's value consumed inside the loop (String())? then each iteration must start empty
				consumed := false
				ast.Inspect(loopBody, func(m ast.Node) bool {
					if c, ok := m.(*ast.CallExpr); ok {
						if se, ok := c.Fun.(*ast.SelectorExpr); ok && (se.Sel.Name == "String" || se.Sel.Name == "Bytes") {
							if id, ok := ast.Unparen(se.X).(*ast.Ident); ok && info.ObjectOf(id) == o {
								consumed = true
							}
						}
					}
					return true
				})
				if !consumed {
					continue
				}
				nBuilders++
				gg := NewFGraph(info, fd.Body, nil)
				var head *FBlock
				for _, b := range gg.Blocks {
					if b.Stmt == loopNode && (b.Kind == "for.loop" || b.Kind == "range.loop") {
						head = b
					}
				}
				isReset := func(k ast.Node) bool {
					for _, c := range nodeCalls(k) {
						if se, ok := c.Fun.(*ast.SelectorExpr); ok && se.Sel.Name == "Reset" {
							if id, ok := ast.Unparen(se.X).(*ast.Ident); ok && info.ObjectOf(id) == o {
								return true
							}
						}
					}
					return false
				}
				isWrite := func(k ast.Node) bool {
					for _, c := range nodeCalls(k) {
						if se, ok := c.Fun.(*ast.SelectorExpr); ok && strings.HasPrefix(se.Sel.Name, "Write") {
							if id, ok := ast.Unparen(se.X).(*ast.Ident); ok && info.ObjectOf(id) == o {
								return true
							}
						}
					}
					return false
				}
				ok := head != nil
				if ok {
					for _, b := range gg.Blocks {
						for i, k := range b.Nodes {
							if isWrite(k) && reachableFromAvoidingBlock(gg, b, i, head, isReset) {
								ok = false
							}
						}
					}
				}
				r.Check(ok, "R04d", fmt.Sprintf("%s#builder %s shared across iterations", funcKey("syntax", fd), o.Name()), loopNode.Pos(), "reset on every path from a write back to the loop head",
					"the builder is declared outside the loop, written and read inside it, and some path reaches the next iteration without Reset(): text from an abandoned element leaks into the next one")
			}
			return true
		})
	}
	r.Notef("R04d: %d builders shared across loop iterations in the simplifier (each must be reset on every cycle)", nBuilders)
}

// c04FieldExceptions: Type.Field@function -> reason. One line each.
var c04FieldExceptions = map[string]string{
	"DblQuoted.Dollar@unquoteParams": "$\"…\" asks for locale translation of the literal text; the rewrite only fires when the quotes hold a single parameter expansion and no text",
	"ParamExp.Short@*":                  "Short only records whether the braces of ${name} were written; it does not change what is expanded",
	"Word.Parts@inlineSimpleParams":  "the guard len(w.Parts) == 1 and the assertion on w.Parts[0] look at the whole slice; reported as a read of Parts through indexing",
}

// predicateTests: the receiver fields that a boolean method tests on every path that can answer true.
func predicateTests(info *types.Info, fd *ast.FuncDecl, recv types.Object) map[string]bool {
	g := NewFGraph(info, fd.Body, nil)
	mentions := func(n ast.Node) map[string]bool {
		out := map[string]bool{}
		if n == nil {
			return out
		}
		ast.Inspect(n, func(m ast.Node) bool {
			if se, ok := m.(*ast.SelectorExpr); ok {
				if id, ok := ast.Unparen(se.X).(*ast.Ident); ok && info.ObjectOf(id) == recv {
					out[se.Sel.Name] = true
				}
			}
			return true
		})
		return out
	}
	var result map[string]bool
	nRet := 0
	for _, b := range g.Blocks {
		for _, n := range b.Nodes {
			rs, ok := n.(*ast.ReturnStmt)
			if !ok || len(rs.Results) != 1 {
				continue
			}
			if id, ok := ast.Unparen(rs.Results[0]).(*ast.Ident); ok && id.Name == "false" {
				continue
			}
			nRet++
			here := mentions(rs.Results[0])
			// plus fields mentioned by conditions every path to this return passes
			all := map[string]bool{}
			for _, b2 := range g.Blocks {
				for _, e := range b2.Succs {
					for f := range mentions(e.Cond) {
						all[f] = true
					}
				}
			}
			for f := range all {
				if here[f] {
					continue
				}
				if underEdges(g, b, func(e *FEdge) bool { return e.Cond != nil && mentions(e.Cond)[f] }) {
					here[f] = true
				}
			}
			if result == nil {
				result = here
			} else {
				for f := range result {
					if !here[f] {
						delete(result, f)
					}
				}
			}
		}
	}
	if nRet == 0 || result == nil {
		return map[string]bool{}
	}
	return result
}

// keptElsewhere: the function also stores l.field into a literal of the same node type that it returns. A field of
// the same name on another node type does not count: `Dollar` on a DblQuoted ($"…", locale translation) and on a
// SglQuoted ($'…', escape sequences) mean different things, so carrying it across is not preservation.
func keptElsewhere(info *types.Info, fd *ast.FuncDecl, o types.Object, field string, owner *types.Named) bool {
	hit := false
	ast.Inspect(fd.Body, func(n ast.Node) bool {
		cl, ok := n.(*ast.CompositeLit)
		if !ok || namedOf(info.TypeOf(cl)) != owner {
			return true
		}
		for _, el := range cl.Elts {
			kv, ok := el.(*ast.KeyValueExpr)
			if !ok {
				continue
			}
			if se, ok := ast.Unparen(kv.Value).(*ast.SelectorExpr); ok && se.Sel.Name == field {
				if id, ok := ast.Unparen(se.X).(*ast.Ident); ok && info.ObjectOf(id) == o {
					hit = true
				}
			}
		}
		return true
	})
	return hit
}

// switchIsExhaustiveKind: a type switch meant to handle every implementor (it has a panicking default, or
// no default and more than half of the implementors as cases) as opposed to one that picks out a few types.
func switchIsExhaustiveKind(info *types.Info, ts *ast.TypeSwitchStmt, implementors int) bool {
	n := 0
	for _, c := range ts.Body.List {
		cc := c.(*ast.CaseClause)
		if cc.List == nil {
			return clausePanics(info, cc)
		}
		n += len(cc.List)
	}
	return implementors > 0 && 2*n >= implementors
}

// reachableFromAvoidingBlock: is the head block reachable from just after (b,i) without passing a stop node?
func reachableFromAvoidingBlock(g *FGraph, b *FBlock, i int, head *FBlock, stop func(ast.Node) bool) bool {
	seen := map[*FBlock]bool{}
	var walk func(x *FBlock, from int) bool
	walk = func(x *FBlock, from int) bool {
		for k := from; k < len(x.Nodes); k++ {
			if stop(x.Nodes[k]) {
				return false
			}
		}
		for _, e := range x.Succs {
			if e.To == head {
				return true
			}
			if !seen[e.To] {
				seen[e.To] = true
				if walk(e.To, 0) {
					return true
				}
			}
		}
		return false
	}
	return walk(b, i+1)
}

var c04Controls = []Control{
	{Name: "parentheses-dropped-under-a-negation", Rule: "R04l", WantKey: "removeNegateTest#test parentheses", File: "syntax/simplify.go",
		Mutate: ctlReplaceAnywhere("\tcase *BinaryTest:\n\t\tswitch y.Op {\n\t\tcase TsMatch:", "\tcase *ParenTest:\n\t\tswitch y.X.(type) {\n\t\tcase *UnaryTest, *BinaryTest:\n\t\t\ts.modified = true\n\t\t\treturn s.removeNegateTest(&UnaryTest{OpPos: u.OpPos, Op: TsNot, X: y.X})\n\t\t}\n\tcase *BinaryTest:\n\t\tswitch y.Op {\n\t\tcase TsMatch:")},
	{Name: "negation-of-a-test-merged-into-its-operator", Rule: "R04k", WantKey: "mergeNegated#stores Stmt.Negated", File: "syntax/simplify.go",
		Mutate: ctlChain(ctlReplaceAnywhere("\tcase *TestClause:\n", "\tcase *Stmt:\n\t\ts.mergeNegated(node)\n\tcase *TestClause:\n"),
			ctlAppendDecl("func (s *simplifier) mergeNegated(st *Stmt) {\n\ttc, _ := st.Cmd.(*TestClause)\n\tif tc == nil || !st.Negated {\n\t\treturn\n\t}\n\tnot := &UnaryTest{OpPos: st.Position, Op: TsNot, X: tc.X}\n\tif x := s.removeNegateTest(not); x != TestExpr(not) {\n\t\ttc.X = x\n\t\tst.Negated = false\n\t}\n}\n"))},
	{Name: "dollar-name-accepted-as-an-assignment-target", Rule: "R04j", WantKey: "isArithName#a ParamExp accepted as an assignment target", File: "syntax/parser_arithm.go",
		Mutate: ctlReplaceAnywhere("\t\treturn wp.nakedIndex()\n", "\t\treturn wp.nakedIndex() || (wp.simple() && ValidName(wp.Param.Value))\n")},
	{Name: "last-pipeline-element-loses-its-parentheses", Rule: "R04i", WantKey: "visit#inlineOne(BinaryCmd.Y)", File: "syntax/simplify.go",
		Mutate: ctlChain(ctlReplaceAnywhere("\tcase *CmdSubst:\n\t\tnode.Stmts = s.inlineSubshell(node.Stmts)\n", "\tcase *BinaryCmd:\n\t\tif node.Op == Pipe || node.Op == PipeAll {\n\t\t\tnode.X = s.inlineOne(node.X)\n\t\t\tnode.Y = s.inlineOne(node.Y)\n\t\t}\n\tcase *CmdSubst:\n\t\tnode.Stmts = s.inlineSubshell(node.Stmts)\n"),
			ctlAppendDecl("func (s *simplifier) inlineOne(st *Stmt) *Stmt {\n\tif st.Negated || st.Background || st.Coprocess || st.Disown || len(st.Redirs) > 0 {\n\t\treturn st\n\t}\n\tsub, _ := st.Cmd.(*Subshell)\n\tif sub == nil || len(sub.Stmts) != 1 || len(sub.Last) > 0 {\n\t\treturn st\n\t}\n\tinner := sub.Stmts[0]\n\tif inner.Negated || inner.Background || inner.Coprocess || inner.Disown {\n\t\treturn st\n\t}\n\tif _, ok := inner.Cmd.(*BinaryCmd); ok {\n\t\treturn st\n\t}\n\ts.modified = true\n\treturn inner\n}\n"))},
	{Name: "unquote-without-looking-inside", Rule: "R04h", WantKey: "unquoteParams#w.Parts = dq.Parts looks inside", File: "syntax/simplify.go",
		Mutate: ctlReplaceAnywhere("\tif !ok || quoteSensitive(pe) {\n", "\tif !ok || pe == nil {\n")},
	{Name: "heredoc-body-not-marked", Rule: "R04g", WantKey: "words inside Redirect.Hdoc are not re-quoted", File: "syntax/simplify.go",
		Mutate: ctlReplaceAnywhere("\t\t\ts.markDblQuoted(node.Hdoc)\n", "\t\t\t_ = node.Hdoc\n")},
	{Name: "binary-expression-inside-an-index-inlined", Rule: "R04f", WantKey: "visit#BinaryArithm: inlining #1 only outside an index", File: "syntax/simplify.go",
		Mutate: ctlReplaceAnywhere("\tcase *BinaryArithm:\n\t\tif !s.inIndex[node] {\n\t\t\tnode.X = s.inlineSimpleParams(node.X)\n\t\t\tnode.Y = s.inlineSimpleParams(node.Y)\n\t\t}\n", "\tcase *BinaryArithm:\n\t\tnode.X = s.inlineSimpleParams(node.X)\n\t\tnode.Y = s.inlineSimpleParams(node.Y)\n")},
	{Name: "array-element-index-inlined", Rule: "R04f", WantKey: "visit#ArrayElem.Index is marked and never inlined", File: "syntax/simplify.go",
		Mutate: ctlReplaceAnywhere("\tcase *ArrayElem:\n\t\ts.markIndex(node.Index) // same as above.\n", "\tcase *ArrayElem:\n\t\tnode.Index = s.inlineSimpleParams(s.removeParensArithm(node.Index))\n")},
	{Name: "match-short-normalised-after-the-switch", Rule: "R04e", WantKey: "TsMatchShort protected", File: "syntax/simplify.go",
		Mutate: ctlChain(
			ctlReplaceAnywhere("\t\tif node.Op == TsMatchShort {\n\t\t\ts.modified = true\n\t\t\tnode.Op = TsMatch\n\t\t}\n\t\tswitch node.Op {", "\t\tswitch node.Op {"),
			ctlReplaceAnywhere("\t\tnode.Y = s.removeNegateTest(node.Y)\n\tcase *UnaryTest:", "\t\tnode.Y = s.removeNegateTest(node.Y)\n\t\tif node.Op == TsMatchShort {\n\t\t\ts.modified = true\n\t\t\tnode.Op = TsMatch\n\t\t}\n\tcase *UnaryTest:"))},
	{Name: "simple-predicate-short-cut", Rule: "R04c", WantKey: "inlineSimpleParams#drops pe", File: "syntax/nodes.go",
		Mutate: ctlReplaceAnywhere("func (p *ParamExp) simple() bool {\n", "func (p *ParamExp) simple() bool {\n\tif p.Short {\n\t\treturn true\n\t}\n")},
	{Name: "dollar-string-requoted", Rule: "R04c", WantKey: "simplifyWord#replaces dq", File: "syntax/simplify.go",
		Mutate: ctlReplace("simplifier.simplifyWord", "dq == nil || dq.Dollar || len(dq.Parts) != 1", "dq == nil || len(dq.Parts) != 1", 0)},
	{Name: "printer-loses-single-quote-case", Rule: "R04b", WantKey: "SglQuoted#built by the simplifier", File: "syntax/printer.go",
		Mutate: ctlReplaceAnywhere("\tcase *SglQuoted:\n\t\tif wp.Dollar {\n\t\t\tp.w.WriteByte('$')\n\t\t}\n\t\tp.w.WriteByte('\\'')\n\t\tp.writeLit(wp.Value)\n\t\tp.w.WriteByte('\\'')\n\t\tp.advanceLine(wp.End().Line())\n", "")},
	{Name: "silent-paren-removal", Rule: "R04a", WantKey: "removeParensTest#change", File: "syntax/simplify.go",
		Mutate: ctlReplaceAnywhere("\t\tpar, _ := x.(*ParenTest)\n\t\tif par == nil {\n\t\t\treturn x\n\t\t}\n\t\ts.modified = true\n", "\t\tpar, _ := x.(*ParenTest)\n\t\tif par == nil {\n\t\t\treturn x\n\t\t}\n")},
	{Name: "modified-without-change", Rule: "R04a", WantKey: "simplifyWord#modified = true", File: "syntax/simplify.go",
		Mutate: ctlReplaceAnywhere("\t\tnewVal := sb.String()\n\t\tif newVal == lit.Value {\n\t\t\tbreak\n\t\t}\n\t\ts.modified = true\n", "\t\tnewVal := sb.String()\n\t\ts.modified = true\n\t\tif newVal == lit.Value {\n\t\t\tbreak\n\t\t}\n")},
	{Name: "subshell-inlined-despite-negation", Rule: "R04c", WantKey: "field Negated", File: "syntax/simplify.go",
		Mutate: ctlReplace("simplifier.inlineSubshell", "st.Negated || st.Background || st.Coprocess || st.Disown ||\n\t\t\tlen(st.Redirs) > 0", "st.Background || st.Coprocess || st.Disown || len(st.Redirs) > 0", 0)},
	{Name: "builder-hoisted-out-of-loop", Rule: "R04d", WantKey: "simplifyWord#builder sb", File: "syntax/simplify.go",
		Mutate: ctlChain(ctlReplaceAnywhere("\t\tvar sb strings.Builder\n", ""),
			ctlReplaceAnywhere("func (s *simplifier) simplifyWord(wps []WordPart) []WordPart {\n", "func (s *simplifier) simplifyWord(wps []WordPart) []WordPart {\n\tvar sb strings.Builder\n"),
			ctlReplaceAnywhere("\t\tnewVal := sb.String()\n", "\t\tnewVal := sb.String()\n\t\tsb.Reset()\n"))},
}
