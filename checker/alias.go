package main

import (
	"fmt"
	"go/ast"
	"go/types"

	"golang.org/x/tools/go/packages"
)

// checkTruncationAliasing: a slice-typed struct field that is truncated in place (x.F = x.F[:k]) while a local that
// was assigned from the same field (or a sub-slice of it) is still used afterwards. Whatever is appended to the field
// next lands in the backing array the local still reads. Clones are fine.
func checkTruncationAliasing(p *Prog, r *Result, pkg *packages.Package, rel, rule string, onlyFields func(*types.Var) bool) int {
	info := pkg.TypesInfo
	n := 0
	for _, fd := range p.AllFuncDecls(rel) {
		type alias struct {
			obj types.Object
			pos ast.Node
			of  string
		}
		var aliases []alias
		ast.Inspect(fd.Body, func(x ast.Node) bool {
			as, ok := x.(*ast.AssignStmt)
			if !ok {
				return true
			}
			for i, rh := range as.Rhs {
				if i >= len(as.Lhs) {
					break
				}
				id, ok := as.Lhs[i].(*ast.Ident)
				if !ok {
					continue
				}
				e := ast.Unparen(rh)
				for {
					if se, ok := e.(*ast.SliceExpr); ok {
						e = ast.Unparen(se.X)
						continue
					}
					break
				}
				of := ""
				if fv := selectorField(info, e); fv != nil {
					if _, isSlice := fv.Type().Underlying().(*types.Slice); isSlice {
						of = exprString(e)
					}
				}
				// every assignment is recorded: a later one from a copy (of == "") ends the aliasing
				if obj := info.ObjectOf(id); obj != nil {
					aliases = append(aliases, alias{obj, as, of})
				}
			}
			return true
		})
		ast.Inspect(fd.Body, func(x ast.Node) bool {
			as, ok := x.(*ast.AssignStmt)
			if !ok || len(as.Lhs) != len(as.Rhs) {
				return true
			}
			for i, l := range as.Lhs {
				fv := selectorField(info, l)
				if fv == nil || (onlyFields != nil && !onlyFields(fv)) {
					continue
				}
				se, ok := ast.Unparen(as.Rhs[i]).(*ast.SliceExpr)
				if !ok || se.Low != nil || exprString(se.X) != exprString(l) {
					continue
				}
				n++
				field := exprString(l)
				// handed to a callback (a call through a function value: yield, a stored handler) earlier in the function:
				// the callee may have kept the slice
				escaped := ""
				ast.Inspect(fd.Body, func(m ast.Node) bool {
					c, ok := m.(*ast.CallExpr)
					if !ok || c.Pos() >= as.Pos() {
						return true
					}
					if calleeOf(info, c) != nil || isBuiltinCallAny(info, c) {
						return true
					}
					if tv, ok := info.Types[c.Fun]; ok && tv.IsType() {
						return true
					}
					for _, a := range c.Args {
						if exprString(ast.Unparen(a)) == field {
							escaped = exprString(c.Fun)
						}
					}
					return true
				})
				if escaped != "" {
					key := fmt.Sprintf("%s#%s truncated in place", funcKey(rel, fd), field)
					r.Bad(rule, key, as.Pos(), fmt.Sprintf("%s is truncated in place after it was handed to %s(…): whoever received it may have kept it, and what is appended next overwrites the elements it holds", field, escaped))
					continue
				}
				live := ""
				last := map[types.Object]alias{} // the last assignment of each local before the truncation, in source order
				for _, a := range aliases {
					if a.pos.Pos() < as.Pos() {
						if prev, ok := last[a.obj]; !ok || prev.pos.Pos() < a.pos.Pos() {
							last[a.obj] = a
						}
					}
				}
				for _, a := range last {
					if a.of != field {
						continue
					}
					ast.Inspect(fd.Body, func(m ast.Node) bool {
						if id, ok := m.(*ast.Ident); ok && id.Pos() > as.End() && info.ObjectOf(id) == a.obj {
							live = a.obj.Name()
						}
						return true
					})
				}
				key := fmt.Sprintf("%s#%s truncated in place", funcKey(rel, fd), field)
				r.Check(live == "", rule, key, as.Pos(), "no local saved from this field is used after the truncation",
					fmt.Sprintf("%s is truncated in place while `%s`, saved from it, is still used: what is appended to the field next overwrites the elements `%s` is about to read", field, live, live))
			}
			return true
		})
	}
	return n
}


func isBuiltinCallAny(info *types.Info, c *ast.CallExpr) bool {
	id, ok := ast.Unparen(c.Fun).(*ast.Ident)
	if !ok {
		return false
	}
	_, isB := info.Uses[id].(*types.Builtin)
	return isB
}
