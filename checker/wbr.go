package main

import (
	"fmt"
	"go/ast"
	"go/token"
	"go/types"
	"sort"

	"golang.org/x/tools/go/packages"
)

// Interprocedural "written before read" for one struct field, from a set of entry points.
//
//   mustWrite(g):     every path from g's entry to a normal return passes a store to the field, or a call of a function
//                     with mustWrite (least fixpoint, so recursion never proves itself).
//   mayReadFirst(g):  some path from g's entry reaches a read of the field — or a call of a function with mayReadFirst —
//                     without first passing such a write (least fixpoint).
//
// The field is written before read iff no entry point has mayReadFirst. Within one graph node the order is: direct
// reads, then calls, then the node's own store (an assignment evaluates its right-hand side first). Function literals
// that are returned (iterators) are analysed as the body of the entry that returns them; other literals are inlined at
// the point where they appear (a closure called later in the same function still sees what was written before it).
// Deferred calls are ignored: they run at exit.
type wbrAnalysis struct {
	info   *types.Info
	field  *types.Var
	decls  map[*types.Func]*ast.FuncDecl
	graphs map[*types.Func]*FGraph
	must   map[*types.Func]bool
	may    map[*types.Func]string // witness
}

func newWBR(p *Prog, pkg *packages.Package, rel string, field *types.Var) *wbrAnalysis {
	a := &wbrAnalysis{info: pkg.TypesInfo, field: field, decls: map[*types.Func]*ast.FuncDecl{}, graphs: map[*types.Func]*FGraph{},
		must: map[*types.Func]bool{}, may: map[*types.Func]string{}}
	for _, fd := range p.AllFuncDecls(rel) {
		if fo, ok := a.info.Defs[fd.Name].(*types.Func); ok && fd.Body != nil {
			a.decls[fo] = fd
		}
	}
	return a
}

func (a *wbrAnalysis) graph(fo *types.Func) *FGraph {
	if g, ok := a.graphs[fo]; ok {
		return g
	}
	fd := a.decls[fo]
	body := fd.Body
	// an entry that only builds and returns an iterator: analyse the iterator's body, after the statements before it
	g := NewFGraph(a.info, body, nil)
	a.graphs[fo] = g
	return g
}

type wbrEvent struct {
	kind string // "read", "write", "call"
	fn   *types.Func
	pos  token.Pos
}

// events of one graph node, in evaluation order
func (a *wbrAnalysis) events(n ast.Node) []wbrEvent {
	var reads, calls, writes []wbrEvent
	if _, ok := n.(*ast.DeferStmt); ok {
		return nil
	}
	lhs := map[ast.Expr]bool{}
	var walk func(x ast.Node)
	walk = func(x ast.Node) {
		ast.Inspect(x, func(m ast.Node) bool {
			switch y := m.(type) {
			case *ast.RangeStmt:
				// only the header belongs to this node
				if y != n {
					return false
				}
				walk(y.X)
				return false
			case *ast.AssignStmt:
				for _, l := range y.Lhs {
					if selectorField(a.info, l) == a.field {
						if y.Tok == token.ASSIGN || y.Tok == token.DEFINE {
							lhs[ast.Unparen(l)] = true
							writes = append(writes, wbrEvent{"write", nil, l.Pos()})
						} else {
							reads = append(reads, wbrEvent{"read", nil, l.Pos()})
							lhs[ast.Unparen(l)] = true
						}
					}
				}
			case *ast.IncDecStmt:
				if selectorField(a.info, y.X) == a.field {
					reads = append(reads, wbrEvent{"read", nil, y.Pos()})
					lhs[ast.Unparen(y.X)] = true
				}
			case *ast.SelectorExpr:
				if !lhs[y] && selectorField(a.info, y) == a.field {
					reads = append(reads, wbrEvent{"read", nil, y.Pos()})
				}
			case *ast.CallExpr:
				if callee := calleeOf(a.info, y); callee != nil {
					if _, ok := a.decls[callee.Origin()]; ok {
						calls = append(calls, wbrEvent{"call", callee.Origin(), y.Pos()})
					}
				}
			}
			return true
		})
	}
	walk(n)
	sort.SliceStable(calls, func(i, j int) bool { return calls[i].pos < calls[j].pos })
	out := append(reads, calls...)
	return append(out, writes...)
}

// scan walks g from its entry; it returns (reaches a normal return without a write, witness of a read-first path)
func (a *wbrAnalysis) scan(fo *types.Func) (exitsUnwritten bool, readFirst string) {
	g := a.graph(fo)
	seen := map[*FBlock]bool{}
	var work []*FBlock
	work = append(work, g.Entry)
	seen[g.Entry] = true
	for len(work) > 0 {
		b := work[len(work)-1]
		work = work[:len(work)-1]
		if b == g.Exit {
			exitsUnwritten = true
			continue
		}
		written := false
	nodes:
		for _, n := range b.Nodes {
			for _, ev := range a.events(n) {
				switch ev.kind {
				case "read":
					if readFirst == "" {
						readFirst = fmt.Sprintf("%s reads it at %s", fo.Name(), a.pos(ev.pos))
					}
				case "call":
					if w, ok := a.may[ev.fn]; ok && readFirst == "" {
						readFirst = fmt.Sprintf("%s calls %s at %s; %s", fo.Name(), ev.fn.Name(), a.pos(ev.pos), w)
					}
					if a.must[ev.fn] {
						written = true
						break nodes
					}
				case "write":
					written = true
					break nodes
				}
			}
		}
		if written {
			continue
		}
		for _, e := range b.Succs {
			if !seen[e.To] {
				seen[e.To] = true
				work = append(work, e.To)
			}
		}
	}
	return
}

var wbrPos func(token.Pos) string

func (a *wbrAnalysis) pos(p token.Pos) string {
	if wbrPos != nil {
		return wbrPos(p)
	}
	return ""
}

func (a *wbrAnalysis) solve() {
	var fns []*types.Func
	for fo := range a.decls {
		fns = append(fns, fo)
	}
	sort.Slice(fns, func(i, j int) bool { return funcObjKey(fns[i]) < funcObjKey(fns[j]) })
	// mustWrite: least fixpoint
	for changed := true; changed; {
		changed = false
		for _, fo := range fns {
			if a.must[fo] {
				continue
			}
			saved := a.may
			a.may = map[*types.Func]string{}
			unwritten, _ := a.scan(fo)
			a.may = saved
			if !unwritten && a.reachesExitAtAll(fo) {
				a.must[fo] = true
				changed = true
			}
		}
	}
	// mayReadFirst: least fixpoint
	for changed := true; changed; {
		changed = false
		for _, fo := range fns {
			if _, ok := a.may[fo]; ok {
				continue
			}
			if _, w := a.scan(fo); w != "" {
				a.may[fo] = w
				changed = true
			}
		}
	}
}

// a function whose every path panics never returns: it does not "always write".
func (a *wbrAnalysis) reachesExitAtAll(fo *types.Func) bool {
	g := a.graph(fo)
	return g.Reachable(g.Entry, nil)[g.Exit]
}

// readFirstWitness returns "" when no entry point can read the field before it is written, else a witness path.
func readFirstWitness(p *Prog, pkg *packages.Package, rel, typeName string, entries []string, fv *types.Var) string {
	wbrPos = p.Position
	a := newWBR(p, pkg, rel, fv)
	a.solve()
	bad := ""
	for _, e := range entries {
		fo := lookupFunc(pkg, typeName+"."+e)
		if fo == nil {
			continue
		}
		if w, ok := a.may[fo]; ok {
			bad = fmt.Sprintf("from %s: %s", e, w)
			break
		}
		// an entry that returns an iterator literal: the literal's body is where the parse happens
		fd := a.decls[fo]
		ast.Inspect(fd.Body, func(n ast.Node) bool {
			rs, ok := n.(*ast.ReturnStmt)
			if !ok || bad != "" {
				return true
			}
			for _, res := range rs.Results {
				if lit, ok := ast.Unparen(res).(*ast.FuncLit); ok {
					g := NewFGraph(a.info, lit.Body, nil)
					tmp := types.NewFunc(token.NoPos, pkg.Types, e+"$iterator", types.NewSignatureType(nil, nil, nil, nil, nil, false))
					a.graphs[tmp] = g
					a.decls[tmp] = fd
					if _, w := a.scan(tmp); w != "" {
						bad = fmt.Sprintf("from the iterator %s returns: %s", e, w)
					}
				}
			}
			return true
		})
	}
	return bad
}

// stateGatedProof tries the typestate form of "written before read": every read of fv happens only while some other
// field of the same struct (the state field, e.g. Parser.quote) equals one constant K — directly under such a test, or
// in a function all of whose call sites are — and every assignment of K to the state field is dominated, in its
// function, by an assignment of a fresh value to fv. Restoring a saved state (`p.quote = old`) is not an entry into K:
// it returns to a state in which fv was written in this use already, because reset() never leaves the state at K.
func stateGatedProof(p *Prog, pkg *packages.Package, rel string, st *types.Named, fv *types.Var, resetFD *ast.FuncDecl) (bool, string) {
	info := pkg.TypesInfo
	sstruct := st.Underlying().(*types.Struct)
	isFieldOf := func(v *types.Var) bool {
		for i := 0; i < sstruct.NumFields(); i++ {
			if sstruct.Field(i) == v {
				return true
			}
		}
		return false
	}
	type gate struct {
		state *types.Var
		k     string
	}
	gateOfEdge := func(e *FEdge) (gate, bool) {
		if e.Tag != nil || e.Cond == nil || !e.Pol {
			return gate{}, false
		}
		b, ok := ast.Unparen(e.Cond).(*ast.BinaryExpr)
		if !ok || b.Op != token.EQL {
			return gate{}, false
		}
		sv := selectorField(info, b.X)
		tv, isConst := info.Types[b.Y]
		if sv == nil || !isFieldOf(sv) || sv == fv || !isConst || tv.Value == nil {
			return gate{}, false
		}
		return gate{sv, tv.Value.ExactString()}, true
	}
	decls := p.AllFuncDecls(rel)
	graphs := map[*ast.FuncDecl]*FGraph{}
	graphOf := func(fd *ast.FuncDecl) *FGraph {
		if g, ok := graphs[fd]; ok {
			return g
		}
		g := NewFGraph(info, fd.Body, nil)
		graphs[fd] = g
		return g
	}
	// candidate gates: those under which some read directly sits
	var readers []struct {
		fd *ast.FuncDecl
		n  ast.Node
	}
	for _, fd := range decls {
		if fd == resetFD {
			continue
		}
		skip := map[ast.Expr]bool{}
		ast.Inspect(fd.Body, func(n ast.Node) bool {
			if as, ok := n.(*ast.AssignStmt); ok && as.Tok == token.ASSIGN {
				for _, l := range as.Lhs {
					skip[ast.Unparen(l)] = true
				}
			}
			return true
		})
		ast.Inspect(fd.Body, func(n ast.Node) bool {
			if se, ok := n.(*ast.SelectorExpr); ok && !skip[se] && selectorField(info, se) == fv {
				readers = append(readers, struct {
					fd *ast.FuncDecl
					n  ast.Node
				}{fd, se})
			}
			return true
		})
	}
	if len(readers) == 0 {
		return false, ""
	}
	gatedAt := func(fd *ast.FuncDecl, n ast.Node, gt gate) bool {
		g := graphOf(fd)
		blk := blockContaining(g, n)
		if blk == nil {
			return false
		}
		return underEdges(g, blk, func(e *FEdge) bool {
			x, ok := gateOfEdge(e)
			return ok && x == gt
		})
	}
	// enumerate candidate gates from the conditions of the functions that read
	cands := map[gate]bool{}
	for _, rd := range readers {
		for _, b := range graphOf(rd.fd).Blocks {
			for _, e := range b.Succs {
				if gt, ok := gateOfEdge(e); ok {
					cands[gt] = true
				}
			}
		}
	}
	// callers
	callSites := func(target *types.Func) (out []struct {
		fd *ast.FuncDecl
		c  *ast.CallExpr
	}) {
		for _, fd := range decls {
			for _, c := range nodeCallsDeep(fd.Body) {
				if calleeOf(info, c) == target {
					out = append(out, struct {
						fd *ast.FuncDecl
						c  *ast.CallExpr
					}{fd, c})
				}
			}
		}
		return
	}
	for gt := range cands {
		okAll := true
		var fnGated func(fd *ast.FuncDecl, depth int) bool
		fnGated = func(fd *ast.FuncDecl, depth int) bool {
			fo, _ := info.Defs[fd.Name].(*types.Func)
			sites := callSites(fo)
			if fo == nil || len(sites) == 0 || depth > 3 {
				return false
			}
			for _, s := range sites {
				if !gatedAt(s.fd, s.c, gt) && !(s.fd != fd && fnGated(s.fd, depth+1)) {
					return false
				}
			}
			return true
		}
		for _, rd := range readers {
			if !gatedAt(rd.fd, rd.n, gt) && !fnGated(rd.fd, 0) {
				okAll = false
				break
			}
		}
		if !okAll {
			continue
		}
		// every entry into the state is dominated by a fresh store of fv
		entries, good := 0, true
		for _, fd := range decls {
			ast.Inspect(fd.Body, func(n ast.Node) bool {
				as, ok := n.(*ast.AssignStmt)
				if !ok || as.Tok != token.ASSIGN || len(as.Lhs) != len(as.Rhs) {
					return true
				}
				for i, l := range as.Lhs {
					if selectorField(info, l) != gt.state {
						continue
					}
					tv, isConst := info.Types[as.Rhs[i]]
					if !isConst || tv.Value == nil || tv.Value.ExactString() != gt.k {
						continue
					}
					entries++
					g := graphOf(fd)
					blk, idx := g.BlockOf(as)
					if blk == nil {
						good = false
						continue
					}
					// a fresh store of fv dominates: removing nodes that store fv makes this statement unreachable
					stores := func(m ast.Node) bool {
						s2, ok := m.(*ast.AssignStmt)
						if !ok || s2.Tok != token.ASSIGN {
							return false
						}
						for _, l2 := range s2.Lhs {
							if selectorField(info, l2) == fv {
								return true
							}
						}
						return false
					}
					dominated := false
					for _, m := range blk.Nodes[:idx] {
						if stores(m) {
							dominated = true
						}
					}
					if !dominated {
						// block-level: every path from entry to blk passes a block with such a store
						withStore := map[*FBlock]bool{}
						for _, b := range g.Blocks {
							for _, m := range b.Nodes {
								if stores(m) {
									withStore[b] = true
								}
							}
						}
						reach := g.Reachable(g.Entry, func(e *FEdge) bool { return !withStore[e.From] })
						dominated = !reach[blk] || withStore[g.Entry] && blk != g.Entry
					}
					if !dominated {
						good = false
					}
				}
				return true
			})
		}
		if entries > 0 && good {
			return true, fmt.Sprintf("every read happens only while %s == %s, and each of the %d assignments of that state is dominated by an assignment of a fresh value to %s", gt.state.Name(), gt.k, entries, fv.Name())
		}
	}
	return false, ""
}
