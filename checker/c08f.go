package main

import (
	"go/ast"
	"go/types"
	"strings"

	"golang.org/x/tools/go/packages"
)

// R08f: what InteractiveSeq accumulates it hands over. In the iterator literal, every path from an append to the
// accumulator to the iterator's exit passes a yield of the accumulator — except paths that leave because the consumer
// stopped, an error was recorded, or the accumulator is tested to be empty. Without this, statements that Parse returns
// (those after the last newline of the input) are parsed and silently dropped.
func checkInteractiveHandsOver(p *Prog, r *Result, pkg *packages.Package, rule string) {
	info := pkg.TypesInfo
	fd := p.FuncDecl("syntax", "Parser.InteractiveSeq")
	if fd == nil {
		r.Fatalf("syntax.(Parser).InteractiveSeq not found")
		return
	}
	var lit *ast.FuncLit
	ast.Inspect(fd.Body, func(n ast.Node) bool {
		if rs, ok := n.(*ast.ReturnStmt); ok && lit == nil {
			for _, res := range rs.Results {
				if l, ok := ast.Unparen(res).(*ast.FuncLit); ok {
					lit = l
				}
			}
		}
		return true
	})
	if lit == nil || len(lit.Type.Params.List) != 1 || len(lit.Type.Params.List[0].Names) != 1 {
		r.Undecided(rule, "syntax.(Parser).InteractiveSeq#iterator literal", fd.Pos(), "InteractiveSeq does not return an iterator literal with one yield parameter")
		return
	}
	yieldObj := info.Defs[lit.Type.Params.List[0].Names[0]]
	g := NewFGraph(info, lit.Body, nil)
	// the accumulator: a slice-typed field that is appended to itself in the literal
	var accField *types.Var
	type site struct {
		blk *FBlock
		idx int
		n   ast.Node
	}
	var appends []site
	for _, b := range g.Blocks {
		for i, n := range b.Nodes {
			as, ok := n.(*ast.AssignStmt)
			if !ok || len(as.Lhs) != 1 || len(as.Rhs) != 1 {
				continue
			}
			fv := selectorField(info, as.Lhs[0])
			call, isCall := ast.Unparen(as.Rhs[0]).(*ast.CallExpr)
			if fv == nil || !isCall || !isBuiltinCall(info, call, "append") || selectorField(info, call.Args[0]) != fv {
				continue
			}
			accField = fv
			appends = append(appends, site{b, i, n})
		}
	}
	if accField == nil {
		r.Undecided(rule, "syntax.(Parser).InteractiveSeq#accumulator", fd.Pos(), "no field is appended to in the iterator: the statements are accumulated somewhere this rule does not see")
		return
	}
	yieldsAcc := func(n ast.Node) bool {
		for _, c := range nodeCalls(n) {
			if id, ok := ast.Unparen(c.Fun).(*ast.Ident); ok && info.ObjectOf(id) == yieldObj {
				for _, a := range c.Args {
					if selectorField(info, a) == accField {
						return true
					}
				}
			}
		}
		return false
	}
	excused := func(e *FEdge) bool {
		if e.Cond == nil {
			return false
		}
		s := exprString(e.Cond)
		switch {
		case strings.Contains(s, "stopped"):
			return e.Pol // the consumer stopped
		case strings.HasSuffix(s, "err == nil"):
			return !e.Pol // an error was recorded
		case strings.HasSuffix(s, "err != nil"):
			return false // handled by the yield that follows; not an excuse by itself
		case strings.Contains(s, "len(") && strings.Contains(s, accField.Name()) && strings.Contains(s, "> 0"):
			return !e.Pol // nothing accumulated
		}
		return false
	}
	for i, a := range appends {
		ok, _ := g.MustPass(a.blk, a.idx, g.Exit, yieldsAcc, excused)
		key := "syntax.(Parser).InteractiveSeq#accumulated statements are yielded"
		if i > 0 {
			key += "#" + string(rune('1'+i))
		}
		r.Check(ok, rule, key, a.n.Pos(), "every path to the end of the iterator yields the accumulator, unless the consumer stopped, an error was recorded or nothing is accumulated",
			"some path from accumulating a statement to the end of the iterator never yields it: statements after the last newline of the input are parsed and dropped, while Parse and StmtsSeq return them")
	}
}
