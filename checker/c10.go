package main

import (
	"fmt"
	"go/ast"
	"go/token"
	"go/types"
	"sort"
	"strings"
)

func init() {
	register(&Property{
		ID:  "C10",
		Run: runC10,
		Decided: "parse errors are built in one place each (ParseError in posErr, LangError in checkLang) and every ParseError carries the Incomplete bit computed as " +
			"`at EOF and Incomplete()` (R10a); the two quantities Incomplete() reads are balanced: the open-node counter is decremented after each increment on every path (R10b) and " +
			"every literal that is started is ended or discarded on every path that does not report an error (R10c); the byte offset that positions are derived from is advanced once per refill (R10d). No parser bookkeeping slice is truncated in place while a saved alias is still read (R10f). Rune-level code that leaves on the end-of-input sentinel hands a token over before anything reports an error, so that error is computed with tok == _EOF (R10g).",
		NotDecided:  "that error positions lie inside the input; that every line-boundary prefix of a valid program is flagged incomplete (known gap, not a structural one: a prefix cut inside a here-document body fails with `unclosed here-document`, which is not marked incomplete).",
		Assumptions: []string{"errors reach the caller only through Parser.err (set in errPass and fill)"},
		Controls:    c10Controls,
	})
}

func runC10(p *Prog, r *Result) {
	pkg := p.Pkg("syntax")
	if pkg == nil {
		r.Fatalf("package syntax not loaded")
		return
	}
	info := pkg.TypesInfo
	r.Rule("R10a", "ParseError is constructed only in posErr with Incomplete = (tok == _EOF && Incomplete()); LangError only in checkLang; p.err is stored only in errPass and fill", 5)
	r.Rule("R10b", "every increment of openNodes/openBquotes/openBquoteDbls is followed by its decrement on every path to the exit", 4)
	r.Rule("R10c", "every newLit() is followed on every path to the function exit by endLit(), litBs = nil, another newLit(), or an error report", 15)
	r.Rule("R10e", "every Parser field is reset between parses or classified (shared with C08 R08a): state that feeds Incomplete or error positions cannot leak from an earlier parse", 40)
	r.Rule("R10f", "parser bookkeeping slices (pending here-documents, stop words, …) are not truncated in place while a local saved from them is still read: a clobbered pending list turns into a spurious `unclosed here-document`", 3)
	r.Rule("R10g", "rune-level code that leaves on the end-of-input sentinel stores p.tok (or calls something that always does) before it returns, so the error that follows is computed with tok == _EOF", 15)
	checkEOFExitsSetToken(p, r, pkg, "R10g", c10EOFExceptions)
	r.Rule("R10i", "every store of the newline token is followed on every path by doHeredocs or the failed pending test: here-document bodies are read inside the statement that opened them, which is what makes a cut inside a body incomplete", 2)
	checkNewlineTokenReadsHeredocs(p, r, pkg, "R10i")
	r.Rule("R10j", "after every postNested the lexer is advanced (or the token in hand is known not to be a newline) before the function returns: the token that follows a nested construct is read in the restored state, where a newline reads the pending here-documents", 12)
	checkRestoreBeforeNextToken(p, r, pkg, "R10j")
	r.Rule("R10k", "every parser-side call of doHeredocs happens inside an open-node window (openNodes > 0), so an unclosed here-document at the end of the input is an incomplete error", 4)
	checkHeredocsReadInsideWindow(p, r, pkg, "R10k")
	r.Rule("R10m", "the position put into a ParseError has been tested not to be the recovered position, or replaced, on every path", 1)
	checkErrorPosSanitised(p, r, pkg, "R10m")
	r.Rule("R10n", "every single-byte index into the read buffer is reached only through a bounds test against len(p.bs) or a refill that produced bytes", 5)
	checkReadBufferIndexGuarded(p, r, pkg, "R10n")
	r.Rule("R10p", "a LangError is never reported just before a ParseError that may be the incomplete one (the first error wins)", 1)
	checkLangErrorDoesNotShadow(p, r, pkg, "R10p")
	r.Rule("R10d", "fill() advances the offset base by the cursor, once per call, before the cursor is reset", 1)

	g := buildRefGraph(p)
	pe, le := lookupType(pkg, "ParseError"), lookupType(pkg, "LangError")
	if pe == nil || le == nil {
		r.Fatalf("anchors ParseError / LangError not found")
		return
	}
	// ---- R10a
	for _, spec := range []struct {
		t     *types.Named
		owner string
	}{{pe, "posErr"}, {le, "checkLang"}} {
		sites := g.constructionSites(spec.t)
		n := 0
		var fos []*types.Func
		for fo := range sites {
			fos = append(fos, fo)
		}
		sort.Slice(fos, func(i, j int) bool { return funcObjKey(fos[i]) < funcObjKey(fos[j]) })
		for _, fo := range fos {
			for _, pos := range sites[fo] {
				n++
				r.Check(fo.Name() == spec.owner && fo.Pkg() == pkg.Types, "R10a", fmt.Sprintf("syntax.%s#constructed in %s", spec.t.Obj().Name(), funcObjKey(fo)), pos,
					"the one construction site", spec.t.Obj().Name()+" is constructed outside "+spec.owner+": that error is built without the common position / Incomplete computation")
			}
		}
		if n == 0 {
			r.Bad("R10a", "syntax."+spec.t.Obj().Name()+"#never constructed", spec.t.Obj().Pos(), "no construction site found")
		}
	}
	// Incomplete: value in the ParseError literal
	if fd := p.FuncDecl("syntax", "Parser.posErr"); fd != nil {
		ok, found := false, false
		ast.Inspect(fd.Body, func(n ast.Node) bool {
			cl, isLit := n.(*ast.CompositeLit)
			if !isLit || namedOf(info.TypeOf(cl)) != pe {
				return true
			}
			for _, el := range cl.Elts {
				kv, isKV := el.(*ast.KeyValueExpr)
				if !isKV {
					continue
				}
				if k, isID := kv.Key.(*ast.Ident); isID && k.Name == "Incomplete" {
					found = true
					var hasEOF, hasInc bool
					for _, a := range conjuncts(kv.Value) {
						if be, isBin := ast.Unparen(a).(*ast.BinaryExpr); isBin && be.Op == token.EQL {
							if fv := selectorField(info, be.X); fv != nil && fv.Name() == "tok" {
								if id, isID := ast.Unparen(be.Y).(*ast.Ident); isID && id.Name == "_EOF" {
									hasEOF = true
								}
							}
						}
						if c, isCall := ast.Unparen(a).(*ast.CallExpr); isCall {
							if fn := calleeOf(info, c); fn != nil && fn.Name() == "Incomplete" {
								hasInc = true
							}
						}
					}
					ok = hasEOF && hasInc
				}
			}
			return true
		})
		r.Check(found && ok, "R10a", "syntax.(Parser).posErr#Incomplete = at EOF && Incomplete()", fd.Pos(), "the ParseError literal sets Incomplete from p.tok == _EOF && p.Incomplete()",
			"the ParseError built in posErr does not set Incomplete from `p.tok == _EOF && p.Incomplete()`: errors on truncated input are not reported as incomplete")
	} else {
		r.Fatalf("anchor Parser.posErr not found")
	}
	// stores to p.err
	parserT := lookupType(pkg, "Parser")
	writes, _ := structFieldWrites(pkg, parserT)
	for fv, ws := range writes {
		if fv.Name() != "err" {
			continue
		}
		for _, w := range ws {
			name := w.fn.Name.Name
			okSite := name == "errPass" || name == "fill" || name == "reset"
			r.Check(okSite, "R10a", "syntax.(Parser)."+name+"#stores p.err", w.pos, "error stored in errPass / fill / reset only",
				"p.err is assigned outside errPass and fill: an error can be recorded without going through the ParseError/LangError constructors")
		}
	}

	// ---- R10b
	checkCountersRule(p, r, pkg, "R10b")
	// ---- R10e
	{
		sub := newResult(r.Prop, r.prog)
		ps, _ := resetSpecs()
		checkResetSpec(p, sub, pkg, ps)
		for _, o := range sub.Obls {
			if o.Rule == "R08a" {
				o.Rule = "R10e"
				r.Obls = append(r.Obls, o)
			}
		}
		r.Fatal = append(r.Fatal, sub.Fatal...)
	}

	// ---- R10f
	{
		parserT := lookupType(pkg, "Parser")
		pst := parserT.Underlying().(*types.Struct)
		isParserField := map[*types.Var]bool{}
		for i := 0; i < pst.NumFields(); i++ {
			isParserField[pst.Field(i)] = true
		}
		// the reader wrapper of InteractiveSeq keeps parser-side bookkeeping too
		if wr := lookupType(pkg, "wrappedReader"); wr != nil {
			if wst, ok := wr.Underlying().(*types.Struct); ok {
				for i := 0; i < wst.NumFields(); i++ {
					isParserField[wst.Field(i)] = true
				}
			}
		}
		checkTruncationAliasing(p, r, pkg, "syntax", "R10f", func(fv *types.Var) bool { return isParserField[fv] })
	}

	// ---- R10c
	fg := newFuncGraphs(pkg)
	errPass := lookupFunc(pkg, "Parser.errPass")
	me := computeMustError(fg, errPass)
	newLit, endLit := lookupFunc(pkg, "Parser.newLit"), lookupFunc(pkg, "Parser.endLit")
	if newLit == nil || endLit == nil {
		r.Fatalf("anchors Parser.newLit / endLit not found")
		return
	}
	var fos []*types.Func
	for fo := range fg.decls {
		fos = append(fos, fo)
	}
	sort.Slice(fos, func(i, j int) bool { return fos[i].Pos() < fos[j].Pos() })
	closes := func(n ast.Node) bool {
		if as, ok := n.(*ast.AssignStmt); ok {
			for i, l := range as.Lhs {
				if fv := selectorField(info, l); fv != nil && fv.Name() == "litBs" && i < len(as.Rhs) && isNilIdent(info, as.Rhs[i]) {
					return true
				}
			}
		}
		for _, c := range nodeCalls(n) {
			fn := calleeOf(info, c)
			if fn == endLit || fn == newLit || (fn != nil && me[fn]) {
				return true
			}
		}
		return false
	}
	// Sites that leave the literal open on purpose, one named function each: at
	// end of input the open literal is exactly what makes Incomplete() true for
	// the error the caller then reports.
	openAtEOF := map[string]string{
		"advanceLitHdoc": "returns with the literal open only at EOF or at a closing backquote inside an unterminated here-document; doHeredocs then reports `unclosed here-document`, which the open literal marks incomplete",
		"quotedHdocWord": "returns nil with the literal open only at EOF inside a quoted here-document body; doHeredocs then reports `unclosed here-document`",
		"wordPart":       "the single-quote arm returns with the literal open only at EOF, after quoteErr or under error recovery",
	}
	for _, fo := range fos {
		if fo == newLit {
			continue
		}
		gph := fg.graph(fo)
		sites := findCalls(gph, func(c *ast.CallExpr) bool { return calleeOf(info, c) == newLit })
		for _, s := range sites {
			key := funcObjKey(fo) + "#newLit"
			if why, ok := openAtEOF[fo.Name()]; ok {
				if okc, _ := gph.MustPass(s.blk, s.idx, gph.Exit, closes, nil); !okc {
					r.OK("R10c", key, s.call.Pos(), "exception: "+why)
					r.Except("syntax.(Parser)."+fo.Name(), why)
					continue
				}
			}
			ok, _ := gph.MustPass(s.blk, s.idx, gph.Exit, closes, nil)
			r.Check(ok, "R10c", key, s.call.Pos(), "every path to the exit ends or discards the literal (or reports an error)",
				"some path returns with the literal buffer still open: Incomplete() stays true although nothing is pending, so interactive use keeps asking for more input")
		}
	}

	// ---- R10d
	checkOffsetBase(p, r, pkg, "R10d")
}

// checkCountersRule is checkCounters reporting under another rule name.
func checkCountersRule(p *Prog, r *Result, pkg interface{ }, rule string) {
	sub := newResult(r.Prop, r.prog)
	checkCounters(p, sub, p.Pkg("syntax"))
	for _, o := range sub.Obls {
		o.Rule = rule
		r.Obls = append(r.Obls, o)
	}
	r.Notes = append(r.Notes, sub.Notes...)
	r.Fatal = append(r.Fatal, sub.Fatal...)
}

var c10Controls = []Control{
	{Name: "yielded-slice-truncated-in-place", Rule: "R10f", WantKey: "InteractiveSeq#w.accumulated truncated", File: "syntax/parser.go",
		Mutate: ctlReplaceAnywhere("\t\t\t\tw.accumulated = nil\n", "\t\t\t\tw.accumulated = w.accumulated[:0]\n")},
	{Name: "newline-token-skips-pending-heredocs", Rule: "R10i", WantKey: "next#p.tok = _Newl", File: "syntax/lexer.go",
		Mutate: ctlReplaceAnywhere("if p.quote != hdocWord && len(p.heredocs) > p.buriedHdocs {", "if p.quote != hdocWord && p.quote != arrayElems && len(p.heredocs) > p.buriedHdocs {")},
	{Name: "test-clause-closer-read-before-restore", Rule: "R10j", WantKey: "testClause#postNested", File: "syntax/parser.go",
		Mutate: ctlReplaceAnywhere("\tp.postNested(old)\n\tif _, ok := p.gotRsrv(\"]]\"); !ok {\n\t\tp.matchingErr(tc.Left, dblLeftBrack, dblRightBrack)\n\t}\n", "\tif _, ok := p.gotRsrv(\"]]\"); !ok {\n\t\tp.matchingErr(tc.Left, dblLeftBrack, dblRightBrack)\n\t}\n\tp.postNested(old)\n")},
	{Name: "let-clause-newline-skips-heredocs", Rule: "R10j", WantKey: "letClause#postNested", File: "syntax/parser.go",
		Mutate: ctlReplaceAnywhere("\tif p.tok == _Newl {\n\t\t// The newline ending the clause was read in the nested state,\n\t\t// which holds off any heredocs which were pending before \"let\".\n\t\tp.doHeredocs()\n\t}\n", "")},
	{Name: "trailing-heredocs-read-outside-window", Rule: "R10k", WantKey: "Parse#doHeredocs inside an open-node window", File: "syntax/parser.go",
		Mutate: ctlReplaceAnywhere("\t\tp.openNodes++\n\t\tp.doHeredocs()\n\t\tp.openNodes--\n\t}\n\treturn p.f, p.err\n", "\t\tp.doHeredocs()\n\t}\n\treturn p.f, p.err\n")},
	{Name: "error-at-recovered-position", Rule: "R10m", WantKey: "posErr#ParseError.Pos is not a recovered position", File: "syntax/parser.go",
		Mutate: ctlReplaceAnywhere("\tif pos.IsRecovered() {\n\t\t// The token this error is about", "\tif pos.IsRecovered() && p.recoverErrorsMax == 0 {\n\t\t// The token this error is about")},
	{Name: "peek-without-bounds-test", Rule: "R10n", WantKey: "advanceLitHdoc#p.bs[p.bsp] is inside the buffer", File: "syntax/lexer.go",
		Mutate: ctlReplaceAnywhere("for p.quote == hdocBodyTabs && p.peek() == '\\t' {", "for p.quote == hdocBodyTabs && p.bs[p.bsp] == '\\t' {")},
	{Name: "hint-before-the-unclosed-quote-error", Rule: "R10p", WantKey: "dblQuoted#p.checkLang then p.quoteErr", File: "syntax/parser.go",
		Mutate: ctlReplaceAnywhere("\t\t\tp.quoteErr(q.Pos(), dblQuote)\n", "\t\t\tp.checkLang(q.Pos(), langBashLike, \"a hint\")\n\t\t\tp.quoteErr(q.Pos(), dblQuote)\n")},
	{Name: "quoted-heredoc-eof-keeps-old-token", Rule: "R10g", WantKey: "quotedHdocWord#end-of-input exit", File: "syntax/lexer.go",
		Mutate: ctlReplaceAnywhere("\t\t\tp.tok = _EOF\n\t\t\treturn nil\n\t\t}\n\t\tfor p.quote == hdocBodyTabs && r == '\\t' {", "\t\t\treturn nil\n\t\t}\n\t\tfor p.quote == hdocBodyTabs && r == '\\t' {")},
	{Name: "parameter-name-eof-keeps-old-token", Rule: "R10g", WantKey: "paramExpParameter#end-of-input exit", File: "syntax/parser.go",
		Mutate: ctlReplaceAnywhere("\t\t\t\tif p.r == runeEOF {\n\t\t\t\t\t// The name may still follow, so the input is incomplete.\n\t\t\t\t\tp.tok = _EOF\n\t\t\t\t}\n", "")},
	{Name: "pending-heredocs-truncated-under-alias", Rule: "R10f", WantKey: "doHeredocs#p.heredocs truncated", File: "syntax/parser.go",
		Mutate: ctlReplaceAnywhere("\thdocs = slices.Clone(hdocs)\n", "")},
	{Name: "second-parseerror-site", Rule: "R10a", WantKey: "ParseError#constructed in", File: "syntax/parser.go",
		Mutate: ctlReplace("Parser.curErr", "p.posErr(p.pos, format, args...)", "p.errPass(ParseError{Filename: p.f.Name, Pos: p.pos, Text: fmt.Sprintf(format, args...)})", 0)},
	{Name: "incomplete-ignores-eof", Rule: "R10a", WantKey: "posErr#Incomplete", File: "syntax/parser.go",
		Mutate: ctlReplace("Parser.posErr", "p.tok == _EOF && p.Incomplete()", "p.tok == _EOF", 0)},
	{Name: "comment-literal-left-open", Rule: "R10c", WantKey: "next#newLit", File: "syntax/lexer.go",
		Mutate: ctlReplaceAnywhere("\t\t\t} else {\n\t\t\t\tp.litBs = nil\n\t\t\t}\n\t\t\t// Read the token after the comment", "\t\t\t}\n\t\t\t// Read the token after the comment")},
	{Name: "offs-in-retry-loop", Rule: "R10d", WantKey: "fill#offs", File: "syntax/lexer.go",
		Mutate: ctlReplaceAnywhere("\tp.offs += int64(p.bsp)\n\tleft := len(p.bs) - int(p.bsp)\n\tcopy(p.readBuf[:left], p.readBuf[p.bsp:])\nreadAgain:\n", "\tleft := len(p.bs) - int(p.bsp)\n\tcopy(p.readBuf[:left], p.readBuf[p.bsp:])\nreadAgain:\n\tp.offs += int64(p.bsp)\n")},
	{Name: "stmts-openNodes-leak", Rule: "R10b", WantKey: "stmts#openNodes++", File: "syntax/parser.go",
		Mutate: ctlReplace("Parser.stmts", "p.openNodes--", "if s != nil {\n\t\t\tp.openNodes--\n\t\t}", 0)},
}

var _ = strings.Join


// c10EOFExceptions: rune-level functions whose end-of-input exits need no token of their own, with the reason.
var c10EOFExceptions = map[string]string{}
