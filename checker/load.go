package main

import (
	"encoding/json"
	"fmt"
	"go/ast"
	"go/token"
	"go/types"
	"os"
	"path/filepath"
	"sort"
	"strings"

	"golang.org/x/tools/go/packages"
	"golang.org/x/tools/go/ssa"
	"golang.org/x/tools/go/ssa/ssautil"
)

const modPath = "mvdan.cc/sh/v3"

// BuildCfg is one build configuration of the analysed repository.
type BuildCfg struct {
	GOOS, GOARCH string
}

func (b BuildCfg) String() string { return b.GOOS + "/" + b.GOARCH }

var defaultCfg = BuildCfg{"linux", "amd64"}

// matrix is the set of build configurations that type-check offline here.
var matrix = []BuildCfg{
	{"linux", "amd64"},
	{"linux", "386"},
	{"darwin", "arm64"},
	{"windows", "amd64"},
	{"js", "wasm"},
	{"freebsd", "amd64"},
}

// Prog is the loaded, type-checked repository.
type Prog struct {
	Repo    string
	Cfg     BuildCfg
	Fset    *token.FileSet
	Pkgs    map[string]*packages.Package // main-module packages by import path
	AllPkgs []*packages.Package          // every package incl. deps
	Roots   []*packages.Package

	ssaProg  *ssa.Program
	ssaPkgs  map[*types.Package]*ssa.Package
	fileOf   map[*token.File]*ast.File
	pkgOfPos map[*token.File]*packages.Package
}

const pkgFloor = 10

func goEnv(cfg BuildCfg) []string {
	env := []string{}
	for _, kv := range os.Environ() {
		k, _, _ := strings.Cut(kv, "=")
		switch k {
		case "GOWORK", "GOFLAGS", "GOPROXY", "GOSUMDB", "GOTOOLCHAIN", "GOOS", "GOARCH", "CGO_ENABLED", "PATH":
			continue
		}
		env = append(env, kv)
	}
	env = append(env,
		"PATH=/opt/veriftools/go1.26.8/bin:"+os.Getenv("PATH"),
		"GOWORK=off", "GOFLAGS=-mod=mod", "GOPROXY=off", "GOSUMDB=off",
		"GOTOOLCHAIN=local", "CGO_ENABLED=0",
		"GOOS="+cfg.GOOS, "GOARCH="+cfg.GOARCH,
	)
	return env
}

// loadRepo loads ./... of the repository with full syntax and types for all
// dependencies. overlay maps absolute file names to replacement contents.
func loadRepo(repo string, cfg BuildCfg, overlay map[string][]byte) (*Prog, error) {
	// go/packages resolves "go" through this process's PATH.
	if !strings.HasPrefix(os.Getenv("PATH"), "/opt/veriftools/go1.26.8/bin:") {
		os.Setenv("PATH", "/opt/veriftools/go1.26.8/bin:"+os.Getenv("PATH"))
	}
	fset := token.NewFileSet()
	pc := &packages.Config{
		Mode:    packages.LoadAllSyntax,
		Dir:     repo,
		Env:     goEnv(cfg),
		Fset:    fset,
		Tests:   false,
		Overlay: overlay,
	}
	roots, err := packages.Load(pc, "./...")
	if err != nil {
		return nil, fmt.Errorf("load: %v", err)
	}
	p := &Prog{Repo: repo, Cfg: cfg, Fset: fset, Pkgs: map[string]*packages.Package{}, Roots: roots,
		fileOf: map[*token.File]*ast.File{}, pkgOfPos: map[*token.File]*packages.Package{}}
	var errs []string
	packages.Visit(roots, nil, func(pkg *packages.Package) {
		p.AllPkgs = append(p.AllPkgs, pkg)
		for _, e := range pkg.Errors {
			errs = append(errs, pkg.PkgPath+": "+e.Error())
		}
		if pkg.PkgPath == modPath || strings.HasPrefix(pkg.PkgPath, modPath+"/") {
			p.Pkgs[pkg.PkgPath] = pkg
			for _, f := range pkg.Syntax {
				tf := fset.File(f.Pos())
				p.fileOf[tf] = f
				p.pkgOfPos[tf] = pkg
			}
		}
	})
	if len(errs) > 0 {
		sort.Strings(errs)
		if len(errs) > 8 {
			errs = errs[:8]
		}
		return nil, fmt.Errorf("type errors: %s", strings.Join(errs, "; "))
	}
	if len(roots) < pkgFloor {
		return nil, fmt.Errorf("only %d packages loaded from %s (floor %d)", len(roots), repo, pkgFloor)
	}
	return p, nil
}

// Pkg returns a main-module package by its path relative to the module root
// ("syntax", "interp", "cmd/shfmt", ...).
func (p *Prog) Pkg(rel string) *packages.Package {
	if rel == "" {
		return p.Pkgs[modPath]
	}
	return p.Pkgs[modPath+"/"+rel]
}

// SSA builds (once) the SSA form of the whole program.
func (p *Prog) SSA() *ssa.Program {
	if p.ssaProg != nil {
		return p.ssaProg
	}
	prog, _ := ssautil.AllPackages(p.Roots, ssa.InstantiateGenerics)
	prog.Build()
	p.ssaProg = prog
	return prog
}

func (p *Prog) SSAPkg(rel string) *ssa.Package {
	pkg := p.Pkg(rel)
	if pkg == nil {
		return nil
	}
	return p.SSA().Package(pkg.Types)
}

// Position renders a position as repo-relative file:line.
func (p *Prog) Position(pos token.Pos) string {
	if !pos.IsValid() {
		return "?"
	}
	ps := p.Fset.Position(pos)
	rel, err := filepath.Rel(p.Repo, ps.Filename)
	if err != nil || strings.HasPrefix(rel, "..") {
		rel = ps.Filename
	}
	return fmt.Sprintf("%s:%d", rel, ps.Line)
}

// FuncDecl finds a function or method declaration: "Walk", "(*Parser).reset",
// "Parser.reset" in the given package.
func (p *Prog) FuncDecl(pkgRel, name string) *ast.FuncDecl {
	pkg := p.Pkg(pkgRel)
	if pkg == nil {
		return nil
	}
	recv := ""
	fn := name
	if i := strings.LastIndex(name, "."); i >= 0 {
		recv = strings.Trim(name[:i], "(*)")
		fn = name[i+1:]
	}
	for _, f := range pkg.Syntax {
		for _, d := range f.Decls {
			fd, ok := d.(*ast.FuncDecl)
			if !ok || fd.Name.Name != fn {
				continue
			}
			if recvTypeName(fd) == recv {
				return fd
			}
		}
	}
	return nil
}

// FuncOrMethodDecl finds a package-level function by name, or — when a refactor turned it into a method — the one
// method of that name in the package.
func (p *Prog) FuncOrMethodDecl(pkgRel, name string) *ast.FuncDecl {
	if fd := p.FuncDecl(pkgRel, name); fd != nil {
		return fd
	}
	pkg := p.Pkg(pkgRel)
	if pkg == nil {
		return nil
	}
	var found []*ast.FuncDecl
	for _, f := range pkg.Syntax {
		for _, d := range f.Decls {
			if fd, ok := d.(*ast.FuncDecl); ok && fd.Name.Name == name && fd.Recv != nil {
				found = append(found, fd)
			}
		}
	}
	if len(found) == 1 {
		return found[0]
	}
	return nil
}

func recvTypeName(fd *ast.FuncDecl) string {
	if fd.Recv == nil || len(fd.Recv.List) == 0 {
		return ""
	}
	t := fd.Recv.List[0].Type
	for {
		switch x := t.(type) {
		case *ast.StarExpr:
			t = x.X
			continue
		case *ast.ParenExpr:
			t = x.X
			continue
		case *ast.IndexExpr:
			t = x.X
			continue
		case *ast.IndexListExpr:
			t = x.X
			continue
		case *ast.Ident:
			return x.Name
		}
		return ""
	}
}

// funcKey names a declaration the way obligations refer to it.
func funcKey(pkgRel string, fd *ast.FuncDecl) string {
	r := recvTypeName(fd)
	if r != "" {
		return pkgRel + ".(" + r + ")." + fd.Name.Name
	}
	return pkgRel + "." + fd.Name.Name
}

// AllFuncDecls returns every function declaration with a body of a package.
func (p *Prog) AllFuncDecls(pkgRel string) []*ast.FuncDecl {
	pkg := p.Pkg(pkgRel)
	if pkg == nil {
		return nil
	}
	var out []*ast.FuncDecl
	for _, f := range pkg.Syntax {
		for _, d := range f.Decls {
			if fd, ok := d.(*ast.FuncDecl); ok && fd.Body != nil {
				out = append(out, fd)
			}
		}
	}
	return out
}

// readOverlay reads an overlay description: JSON object file -> content.
func readOverlay(path string) (map[string][]byte, error) {
	if path == "" {
		return nil, nil
	}
	data, err := os.ReadFile(path)
	if err != nil {
		return nil, err
	}
	var m map[string]string
	if err := json.Unmarshal(data, &m); err != nil {
		return nil, err
	}
	out := map[string][]byte{}
	for k, v := range m {
		out[k] = []byte(v)
	}
	return out, nil
}
