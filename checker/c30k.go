package main

import (
	"fmt"
	"go/ast"
	"go/types"
	"strings"
)

// R30k: the Runner's stdin is the caller's file and Reset carries it over, so whatever a program leaves set on it
// outlives the program. A read deadline armed through context.AfterFunc(ctx, func() { X.SetReadDeadline(<non-zero>) })
// must therefore be cleared again: the function that arms it returns a cleanup literal in which, on the branch where
// the AfterFunc's stop function answered false (the callback ran), every path calls X.SetReadDeadline(time.Time{}).
// An expired deadline left behind makes every later read from the reused Runner's stdin fail at once.
func checkDeadlineCleared(p *Prog, r *Result, rule string) {
	pkg := p.Pkg("interp")
	info := pkg.TypesInfo
	isDeadline := func(c *ast.CallExpr) (recv string, zero bool, ok bool) {
		se, isSel := ast.Unparen(c.Fun).(*ast.SelectorExpr)
		if !isSel || !strings.HasPrefix(se.Sel.Name, "Set") || !strings.HasSuffix(se.Sel.Name, "Deadline") || len(c.Args) != 1 {
			return "", false, false
		}
		if t := info.TypeOf(c.Args[0]); t == nil || t.String() != "time.Time" {
			return "", false, false
		}
		cl, isLit := ast.Unparen(c.Args[0]).(*ast.CompositeLit)
		return exprString(se.X) + "." + se.Sel.Name, isLit && len(cl.Elts) == 0, true
	}
	n := 0
	for _, fd := range p.AllFuncDecls("interp") {
		if fd.Body == nil || strings.HasSuffix(p.Position(fd.Pos()), "_test.go") {
			continue
		}
		// set sites inside a literal handed to context.AfterFunc
		inspectNoLit(fd.Body, func(m ast.Node) bool {
			as, ok := m.(*ast.AssignStmt)
			if !ok || len(as.Rhs) != 1 || len(as.Lhs) != 1 {
				return true
			}
			call, ok := ast.Unparen(as.Rhs[0]).(*ast.CallExpr)
			if !ok {
				return true
			}
			callee := calleeOf(info, call)
			if callee == nil || qualName(callee) != "context.AfterFunc" || len(call.Args) != 2 {
				return true
			}
			lit, ok := ast.Unparen(call.Args[1]).(*ast.FuncLit)
			if !ok {
				return true
			}
			stopID, ok := as.Lhs[0].(*ast.Ident)
			if !ok {
				return true
			}
			stopObj := info.ObjectOf(stopID)
			var sets []string
			ast.Inspect(lit.Body, func(k ast.Node) bool {
				if c, ok := k.(*ast.CallExpr); ok {
					if recv, zero, ok := isDeadline(c); ok && !zero {
						sets = append(sets, recv)
					}
				}
				return true
			})
			for _, recv := range sets {
				n++
				key := fmt.Sprintf("%s#%s armed on cancellation is cleared by the cleanup", funcKey("interp", fd), recv)
				// the cleanup literal the function returns
				var cleanup *ast.FuncLit
				inspectNoLit(fd.Body, func(k ast.Node) bool {
					if rs, ok := k.(*ast.ReturnStmt); ok {
						for _, res := range rs.Results {
							if fl, ok := ast.Unparen(res).(*ast.FuncLit); ok {
								cleanup = fl
							}
						}
					}
					return true
				})
				if cleanup == nil {
					r.Bad(rule, key, as.Pos(), "a deadline is armed on the stdin when the context is cancelled and the function returns no cleanup literal that could clear it: the expired deadline stays on the caller's file, which Reset carries over")
					continue
				}
				g := NewFGraph(info, cleanup.Body, nil)
				clears := func(m ast.Node) bool {
					found := false
					inspectNoLit(m, func(k ast.Node) bool {
						if c, ok := k.(*ast.CallExpr); ok {
							if rv, zero, ok := isDeadline(c); ok && zero && rv == recv {
								found = true
							}
						}
						return true
					})
					return found
				}
				// edges on which stop() answered false
				okAll, sawEdge := true, false
				for _, b := range g.Blocks {
					for _, e := range b.Succs {
						if e.Cond == nil || e.Pol {
							continue
						}
						c, ok := ast.Unparen(e.Cond).(*ast.CallExpr)
						if !ok {
							continue
						}
						id, ok := ast.Unparen(c.Fun).(*ast.Ident)
						if !ok || info.ObjectOf(id) != stopObj {
							continue
						}
						sawEdge = true
						hitHere := false
						for _, nd := range e.To.Nodes {
							if clears(nd) {
								hitHere = true
							}
						}
						if hitHere {
							continue
						}
						if len(e.To.Nodes) == 0 && e.To == g.Exit {
							okAll = false
							continue
						}
						if pass, _ := g.MustPass(e.To, -1, g.Exit, clears, nil); !pass {
							okAll = false
						}
					}
				}
				r.Check(sawEdge && okAll, rule, key, as.Pos(), "the returned cleanup clears it on every path on which the stop function answered false",
					"a deadline is armed on the stdin when the context is cancelled, and the cleanup does not clear it on every path on which the callback ran: the expired deadline stays on the caller's file, Reset carries that file over, and every later read from the reused Runner's stdin fails at once")
			}
			return true
		})
	}
	if n == 0 {
		r.Notef("%s: no deadline is armed through context.AfterFunc", rule)
	}
}

var _ = types.Universe
