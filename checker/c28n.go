package main

import (
	"fmt"
	"go/ast"
	"go/constant"
	"go/token"
	"go/types"
	"strings"
)

// R28n: pattern.Regexp's output goes straight into regexp.MustCompile in expand and interp, so whatever it writes must
// be regular-expression text. Its lexer answers '\x00' at the end of the pattern. A rune taken from the lexer is
// therefore written to the output only when it cannot be that sentinel: a variable assigned from next() has failed
// `c == '\x00'` (or passed `c > k`, or reached a switch clause that does not list it while another does), and a direct
// `WriteRune(sl.next())` is reached only right after peekNext() was compared equal to a non-zero constant, with no
// other read in between. On the pinned tree the closing parenthesis of an extended operator was written that way
// without the test: `*(a` produced "(a\x00*", which does not compile, and `p="*(a"; [[ abc == $p ]]` panicked.
func checkPatternSentinelWrites(p *Prog, r *Result, rule string) {
	pkg := p.Pkg("pattern")
	if pkg == nil {
		r.Fatalf("package pattern not loaded")
		return
	}
	info := pkg.TypesInfo
	next := lookupFunc(pkg, "stringLexer.next")
	peek := lookupFunc(pkg, "stringLexer.peekNext")
	lexT := lookupType(pkg, "stringLexer")
	if next == nil || peek == nil || lexT == nil {
		r.Fatalf("anchors pattern.stringLexer.next / peekNext not found")
		return
	}
	isCallTo := func(e ast.Expr, fn *types.Func) bool {
		c, ok := ast.Unparen(e).(*ast.CallExpr)
		if !ok {
			return false
		}
		callee := calleeOf(info, c)
		return callee != nil && callee.Origin() == fn
	}
	nonZeroConst := func(e ast.Expr) bool {
		tv, ok := info.Types[e]
		if !ok || tv.Value == nil {
			return false
		}
		v := constant.ToInt(tv.Value)
		return v.Kind() == constant.Int && constant.Sign(v) != 0
	}
	zeroConst := func(e ast.Expr) bool {
		tv, ok := info.Types[e]
		if !ok || tv.Value == nil {
			return false
		}
		v := constant.ToInt(tv.Value)
		return v.Kind() == constant.Int && constant.Sign(v) == 0
	}
	type fact struct {
		maybe string // sorted, comma-joined names of variables that may hold the sentinel (by object id)
		peek  bool
	}
	n := 0
	for _, fd := range p.AllFuncDecls("pattern") {
		if fd.Body == nil || strings.HasSuffix(p.Position(fd.Pos()), "_test.go") {
			continue
		}
		reads := false
		ast.Inspect(fd.Body, func(m ast.Node) bool {
			if e, ok := m.(ast.Expr); ok && isCallTo(e, next) {
				reads = true
			}
			return !reads
		})
		if !reads {
			continue
		}
		objs := map[string]types.Object{}
		id := func(o types.Object) string {
			k := fmt.Sprintf("%s@%d", o.Name(), o.Pos())
			objs[k] = o
			return k
		}
		has := func(f fact, o types.Object) bool {
			return o != nil && strings.Contains(","+f.maybe+",", ","+id(o)+",")
		}
		set := func(f fact, o types.Object, v bool) fact {
			if o == nil || has(f, o) == v {
				return f
			}
			parts := []string{}
			if f.maybe != "" {
				parts = strings.Split(f.maybe, ",")
			}
			if v {
				parts = append(parts, id(o))
			} else {
				out := parts[:0]
				for _, x := range parts {
					if x != id(o) {
						out = append(out, x)
					}
				}
				parts = out
			}
			sortStrings(parts)
			f.maybe = strings.Join(parts, ",")
			return f
		}
		identObj := func(e ast.Expr) types.Object {
			if x, ok := ast.Unparen(e).(*ast.Ident); ok {
				return info.ObjectOf(x)
			}
			return nil
		}
		g := NewFGraph(info, fd.Body, nil)
		node := func(f fact, nd ast.Node) fact {
			// any read of the lexer, recursion, or a move of its position ends what the last peek told us
			consumed := false
			inspectNoLit(nd, func(m ast.Node) bool {
				switch x := m.(type) {
				case *ast.CallExpr:
					if callee := calleeOf(info, x); callee != nil {
						if callee.Origin() == next || info.Defs[fd.Name] == callee.Origin() {
							consumed = true
						}
					}
				case *ast.AssignStmt:
					for _, l := range x.Lhs {
						if se, ok := ast.Unparen(l).(*ast.SelectorExpr); ok && namedOf(info.TypeOf(se.X)) == lexT {
							consumed = true
						}
					}
				case *ast.IncDecStmt:
					if se, ok := ast.Unparen(x.X).(*ast.SelectorExpr); ok && namedOf(info.TypeOf(se.X)) == lexT {
						consumed = true
					}
				}
				return true
			})
			if consumed {
				f.peek = false
			}
			if as, ok := nd.(*ast.AssignStmt); ok && len(as.Lhs) == len(as.Rhs) {
				for i, l := range as.Lhs {
					o := identObj(l)
					if o == nil {
						continue
					}
					switch {
					case isCallTo(as.Rhs[i], next):
						f = set(f, o, true)
					case identObj(as.Rhs[i]) != nil:
						f = set(f, o, has(f, identObj(as.Rhs[i])))
					default:
						f = set(f, o, false)
					}
				}
			}
			return f
		}
		edge := func(f fact, e *FEdge) fact {
			if e.TypeCase {
				return f
			}
			if e.Tag != nil {
				// value switch: one edge pair per case expression
				tagObj := identObj(e.Tag)
				tagPeek := isCallTo(e.Tag, peek)
				if e.Cond != nil {
					switch {
					case e.Pol && nonZeroConst(e.Cond):
						if tagObj != nil {
							f = set(f, tagObj, false)
						}
						if tagPeek {
							f.peek = true
						}
					case !e.Pol && zeroConst(e.Cond) && tagObj != nil:
						f = set(f, tagObj, false)
					}
				}
				return f
			}
			if e.Cond == nil {
				return f
			}
			be0, ok := ast.Unparen(e.Cond).(*ast.BinaryExpr)
			if !ok {
				return f
			}
			// the constant may be written on either side
			be := *be0
			if tv, isC := info.Types[be.X]; isC && tv.Value != nil {
				be.X, be.Y = be.Y, be.X
				switch be.Op {
				case token.LSS:
					be.Op = token.GTR
				case token.LEQ:
					be.Op = token.GEQ
				case token.GTR:
					be.Op = token.LSS
				case token.GEQ:
					be.Op = token.LEQ
				}
			}
			if o := identObj(be.X); o != nil {
				switch {
				case zeroConst(be.Y) && ((be.Op == token.EQL && !e.Pol) || (be.Op == token.NEQ && e.Pol)):
					f = set(f, o, false)
				case nonZeroConst(be.Y) && ((be.Op == token.EQL && e.Pol) || (be.Op == token.NEQ && !e.Pol)):
					f = set(f, o, false)
				case (be.Op == token.GTR || be.Op == token.GEQ) && e.Pol && (nonZeroConst(be.Y) || (zeroConst(be.Y) && be.Op == token.GTR)):
					f = set(f, o, false)
				}
			}
			if isCallTo(be.X, peek) && nonZeroConst(be.Y) && ((be.Op == token.EQL && e.Pol) || (be.Op == token.NEQ && !e.Pol)) {
				f.peek = true
			}
			return f
		}
		res := runForward(g, flowSpec[fact]{
			Init: fact{},
			Join: func(a, b fact) fact {
				out := a
				if b.maybe != "" {
					for _, k := range strings.Split(b.maybe, ",") {
						if !strings.Contains(","+out.maybe+",", ","+k+",") {
							parts := []string{k}
							if out.maybe != "" {
								parts = append(strings.Split(out.maybe, ","), k)
							}
							sortStrings(parts)
							out.maybe = strings.Join(parts, ",")
						}
					}
				}
				out.peek = a.peek && b.peek
				return out
			},
			Equal: func(a, b fact) bool { return a == b },
			Node:  node,
			Edge:  edge,
		})
		// sinks: writes into a strings.Builder
		seen := map[string]int{}
		inspectNoLit(fd.Body, func(m ast.Node) bool {
			c, ok := m.(*ast.CallExpr)
			if !ok || len(c.Args) != 1 {
				return true
			}
			callee := calleeOf(info, c)
			if callee == nil || !strings.HasPrefix(qualName(callee), "strings.(Builder).Write") {
				return true
			}
			arg := c.Args[0]
			var direct bool
			var viaVar types.Object
			ast.Inspect(arg, func(k ast.Node) bool {
				if e, ok := k.(ast.Expr); ok && isCallTo(e, next) {
					direct = true
				}
				if x, ok := k.(*ast.Ident); ok {
					if o := info.ObjectOf(x); o != nil {
						if v, isVar := o.(*types.Var); isVar && !v.IsField() {
							if b, ok := v.Type().Underlying().(*types.Basic); ok && b.Kind() == types.Int32 {
								viaVar = o
							}
						}
					}
				}
				return true
			})
			if !direct && viaVar == nil {
				return true
			}
			n++
			key := fmt.Sprintf("%s#writes %s", funcKey("pattern", fd), exprString(arg))
			seen[key]++
			if seen[key] > 1 {
				key += fmt.Sprintf("#%d", seen[key])
			}
			var f fact
			found := false
			if b := blockContaining(g, c); b != nil {
				for i, nd := range b.Nodes {
					if nd.Pos() <= c.Pos() && c.End() <= nd.End() {
						f, found = res.At(b, i)
						break
					}
				}
			}
			if !found {
				r.Undecided(rule, key, c.Pos(), "the write was not found in the function's flow graph")
				return true
			}
			if direct {
				r.Check(f.peek, rule, key, c.Pos(), "the rune was peeked and found equal to a non-zero constant on every path, with no other read since",
					"a rune is taken from the lexer and written to the regular expression without the position having been peeked and compared on every path: at the end of the pattern next() answers '\\x00', which is written in place of the expected character — the result does not compile and regexp.MustCompile panics in expand and interp")
			} else {
				r.Check(!has(f, viaVar), rule, key, c.Pos(), viaVar.Name()+" cannot be the end-of-pattern sentinel on any path to the write",
					viaVar.Name()+" was read from the lexer and may still be the end-of-pattern sentinel '\\x00' when it is written to the regular expression: the result does not compile and regexp.MustCompile panics in expand and interp")
			}
			return true
		})
	}
	if n == 0 {
		r.Bad(rule, "pattern#no write of a lexer rune found", token.NoPos, "the rule no longer sees the writes it is about")
	}
}

func sortStrings(s []string) {
	for i := 1; i < len(s); i++ {
		for j := i; j > 0 && s[j] < s[j-1]; j-- {
			s[j], s[j-1] = s[j-1], s[j]
		}
	}
}
