package main

import (
	"fmt"
	"go/ast"
	"go/token"
)

// R36h: one file that cannot be formatted must not hide the others: `shfmt -l dir`, `-d dir` and `-w dir` agree only if
// each of them looks at every file. filepath.WalkDir stops at the first error its callback returns, so once the
// callback has called formatPath, every return it can still reach returns nil (the error was printed and turned into
// the exit status).
func checkWalkSurvivesFileErrors(p *Prog, r *Result, rule string) int {
	pkg := p.Pkg("cmd/shfmt")
	info := pkg.TypesInfo
	n := 0
	for _, fd := range p.AllFuncDecls("cmd/shfmt") {
		if fd.Body == nil {
			continue
		}
		ast.Inspect(fd.Body, func(m ast.Node) bool {
			c, ok := m.(*ast.CallExpr)
			if !ok || len(c.Args) != 2 {
				return true
			}
			callee := calleeOf(info, c)
			if callee == nil || callee.Pkg() == nil || callee.Pkg().Path() != "path/filepath" || (callee.Name() != "WalkDir" && callee.Name() != "Walk") {
				return true
			}
			fl, ok := ast.Unparen(c.Args[1]).(*ast.FuncLit)
			if !ok {
				return true
			}
			g := NewFGraph(info, fl.Body, nil)
			k := 0
			inspectNoLit(fl.Body, func(q ast.Node) bool {
				fc, ok := q.(*ast.CallExpr)
				if !ok {
					return true
				}
				fcallee := calleeOf(info, fc)
				if fcallee == nil || fcallee.Pkg() != pkg.Types || fcallee.Name() != "formatPath" {
					return true
				}
				k++
				n++
				key := fmt.Sprintf("%s#walk callback: after formatPath call %d every return is nil", funcKey("cmd/shfmt", fd), k)
				blk := blockContaining(g, fc)
				if blk == nil {
					r.Undecided(rule, key, fc.Pos(), "the call was not found in the callback's flow graph")
					return true
				}
				reach := g.Reachable(blk, nil)
				bad := token.NoPos
				for b := range reach {
					for _, nd := range b.Nodes {
						rs, ok := nd.(*ast.ReturnStmt)
						if !ok || len(rs.Results) != 1 {
							continue
						}
						if b == blk && rs.Pos() < fc.Pos() {
							continue
						}
						if !isNilIdent(info, rs.Results[0]) && bad == token.NoPos {
							bad = rs.Pos()
						}
					}
				}
				r.Check(bad == token.NoPos, rule, key, fc.Pos(), "every return reachable after the call returns nil: the walk goes on to the next file",
					fmt.Sprintf("the callback can return something other than nil (at %s) after formatPath was called: WalkDir stops at the first error, so one file that fails hides every file that sorts after it — `shfmt -l dir` lists fewer files than a file-by-file run, and `-w dir` leaves them unformatted", p.Position(bad)))
				return true
			})
			return true
		})
	}
	return n
}
