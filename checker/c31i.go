package main

import (
	"go/ast"
	"go/types"
)

// R31i: "… makes Run return … with an error". A blocked read that the cancellation cuts short fails like any read, and
// its status can be swallowed by the construct around it (`while read …`, `if read …`), so the interpreter cannot rely
// on the status alone: in Run, every path from the execution of the node — and from anything else in Run that can
// run code of the program, such as the exit trap, whose own result is discarded — to a `return nil` consults ctx.Err().
func checkRunReportsCancel(p *Prog, r *Result, rule string) {
	pkg := p.Pkg("interp")
	info := pkg.TypesInfo
	fd := p.FuncDecl("interp", "Runner.Run")
	if fd == nil {
		r.Fatalf("interp.Runner.Run not found")
		return
	}
	var ctxObj types.Object
	for _, f := range fd.Type.Params.List {
		for _, n := range f.Names {
			if o := info.Defs[n]; o != nil && o.Type().String() == "context.Context" {
				ctxObj = o
			}
		}
	}
	if ctxObj == nil {
		r.Undecided(rule, "interp.(Runner).Run#context parameter", fd.Pos(), "Run has no context.Context parameter")
		return
	}
	consults := func(n ast.Node) bool {
		found := false
		inspectNoLit(n, func(x ast.Node) bool {
			if c, ok := x.(*ast.CallExpr); ok {
				if sel, ok := ast.Unparen(c.Fun).(*ast.SelectorExpr); ok && sel.Sel.Name == "Err" {
					if id, ok := ast.Unparen(sel.X).(*ast.Ident); ok && info.ObjectOf(id) == ctxObj {
						found = true
					}
				}
			}
			return true
		})
		return found
	}
	returnsNonNil := func(n ast.Node) bool {
		rs, ok := n.(*ast.ReturnStmt)
		return ok && len(rs.Results) == 1 && !isNilIdent(info, rs.Results[0])
	}
	g := NewFGraph(info, fd.Body, nil)
	// whatever can run code of the program: the statement executors and everything that reaches them (the exit trap)
	execs := map[string]bool{"stmts": true, "stmt": true, "cmd": true}
	rg := buildRefGraph(p)
	var cores []*types.Func
	for _, nm := range []string{"Runner.stmt", "Runner.cmd"} {
		if f := lookupFunc(pkg, nm); f != nil {
			cores = append(cores, f)
		}
	}
	runsCode := func(fn *types.Func) bool {
		if execs[fn.Name()] {
			return true
		}
		reach := rg.reachable(fn.Origin())
		for _, c := range cores {
			if reach[c] {
				return true
			}
		}
		return false
	}
	n := 0
	for _, b := range g.Blocks {
		for i, nd := range b.Nodes {
			for _, c := range nodeCalls(nd) {
				callee := calleeOf(info, c)
				if callee == nil || callee.Type().(*types.Signature).Recv() == nil || !runsCode(callee) {
					continue
				}
				n++
				ok, _ := g.MustPass(b, i, g.Exit, func(x ast.Node) bool { return consults(x) || returnsNonNil(x) }, nil)
				r.Check(ok, rule, "interp.(Runner).Run#after "+callee.Name()+": ctx.Err() before return nil", c.Pos(),
					"every path to `return nil` consults ctx.Err()",
					"after executing the node some path returns nil without looking at ctx.Err(): a program whose last construct swallowed the status of a read or wait that the cancellation cut short makes Run report success")
			}
		}
	}
	if n == 0 {
		r.Undecided(rule, "interp.(Runner).Run#executes the node", fd.Pos(), "no call of stmts/stmt/cmd found in Run")
	}
}
