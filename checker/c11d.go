package main

import (
	"go/ast"
	"go/types"
)

// R11d: error recovery is consulted in one way only. "Enabling RecoverErrors never changes the result on input that
// parses without it" needs every recovery decision to sit where an error would otherwise be reported (R11a judges
// those sites); a branch that tests the recovery limit directly changes what the parser does on valid input as soon
// as the option is on. So the fields recoverErrorsMax / recoveredErrors are read only inside recoverError() — and
// written only there, by the option and by reset().
func checkRecoveryGate(p *Prog, r *Result, rule string) {
	pkg := p.Pkg("syntax")
	info := pkg.TypesInfo
	parserT := lookupType(pkg, "Parser")
	st := parserT.Underlying().(*types.Struct)
	fields := map[*types.Var]bool{}
	for i := 0; i < st.NumFields(); i++ {
		if n := st.Field(i).Name(); n == "recoverErrorsMax" || n == "recoveredErrors" {
			fields[st.Field(i)] = true
		}
	}
	if len(fields) != 2 {
		r.Undecided(rule, "syntax.Parser#recovery counters", parserT.Obj().Pos(), "the fields recoverErrorsMax and recoveredErrors were not both found: recovery is decided by state this rule does not know")
		return
	}
	n := 0
	for _, fd := range p.AllFuncDecls("syntax") {
		isGate := fd.Name.Name == "recoverError" && recvTypeName(fd) == "Parser"
		isReset := fd.Name.Name == "reset" && recvTypeName(fd) == "Parser"
		lhs := map[ast.Expr]bool{}
		ast.Inspect(fd.Body, func(nd ast.Node) bool {
			if as, ok := nd.(*ast.AssignStmt); ok {
				for _, l := range as.Lhs {
					lhs[ast.Unparen(l)] = true
				}
			}
			return true
		})
		seen := map[string]bool{}
		ast.Inspect(fd.Body, func(nd ast.Node) bool {
			sel, ok := nd.(*ast.SelectorExpr)
			if !ok {
				return true
			}
			fv := selectorField(info, sel)
			if fv == nil || !fields[fv] {
				return true
			}
			isWrite := lhs[sel]
			key := funcKey("syntax", fd) + "#" + map[bool]string{true: "writes ", false: "reads "}[isWrite] + fv.Name()
			if seen[key] {
				return true
			}
			seen[key] = true
			n++
			okSite := isGate || (isWrite && (isReset || fd.Recv == nil)) // the option closure lives in a plain function
			r.Check(okSite, rule, key, sel.Pos(), "inside recoverError(), the option or reset()",
				"the recovery limit is consulted outside recoverError(): the parser takes a different branch as soon as RecoverErrors is enabled, also on input that parses without it")
			return true
		})
	}
	if n == 0 {
		r.Undecided(rule, "syntax#recovery counter uses", 0, "no use of the recovery counters found")
	}
}
