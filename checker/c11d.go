package main

import (
	"strings"
	"fmt"
	"go/ast"
	"go/types"
)

// R11d: error recovery is consulted in one way only. "Enabling RecoverErrors never changes the result on input that
// parses without it" needs every recovery decision to sit where an error would otherwise be reported (R11a judges
// those sites); a branch that tests the recovery limit directly changes what the parser does on valid input as soon
// as the option is on. So the fields recoverErrorsMax / recoveredErrors are read only inside recoverError() — and
// written only there, by the option and by reset().
func checkRecoveryGate(p *Prog, r *Result, rule string) {
	pkg := p.Pkg("syntax")
	info := pkg.TypesInfo
	parserT := lookupType(pkg, "Parser")
	st := parserT.Underlying().(*types.Struct)
	fields := map[*types.Var]bool{}
	for i := 0; i < st.NumFields(); i++ {
		if n := st.Field(i).Name(); n == "recoverErrorsMax" || n == "recoveredErrors" {
			fields[st.Field(i)] = true
		}
	}
	if len(fields) != 2 {
		r.Undecided(rule, "syntax.Parser#recovery counters", parserT.Obj().Pos(), "the fields recoverErrorsMax and recoveredErrors were not both found: recovery is decided by state this rule does not know")
		return
	}
	n := 0
	for _, fd := range p.AllFuncDecls("syntax") {
		isGate := fd.Name.Name == "recoverError" && recvTypeName(fd) == "Parser"
		isReset := fd.Name.Name == "reset" && recvTypeName(fd) == "Parser"
		lhs := map[ast.Expr]bool{}
		ast.Inspect(fd.Body, func(nd ast.Node) bool {
			if as, ok := nd.(*ast.AssignStmt); ok {
				for _, l := range as.Lhs {
					lhs[ast.Unparen(l)] = true
				}
			}
			return true
		})
		seen := map[string]bool{}
		ast.Inspect(fd.Body, func(nd ast.Node) bool {
			sel, ok := nd.(*ast.SelectorExpr)
			if !ok {
				return true
			}
			fv := selectorField(info, sel)
			if fv == nil || !fields[fv] {
				return true
			}
			isWrite := lhs[sel]
			key := funcKey("syntax", fd) + "#" + map[bool]string{true: "writes ", false: "reads "}[isWrite] + fv.Name()
			if seen[key] {
				return true
			}
			seen[key] = true
			n++
			okSite := isGate || (isWrite && (isReset || fd.Recv == nil)) // the option closure lives in a plain function
			r.Check(okSite, rule, key, sel.Pos(), "inside recoverError(), the option or reset()",
				"the recovery limit is consulted outside recoverError(): the parser takes a different branch as soon as RecoverErrors is enabled, also on input that parses without it")
			return true
		})
	}
	if n == 0 {
		r.Undecided(rule, "syntax#recovery counter uses", 0, "no use of the recovery counters found")
	}
}

// R11e: an empty command list is an mksh/zsh construct; followStmts is the one place that says so (it reports
// "must be followed by a statement list" in the other variants). On the pinned tree the parser's functions split
// cleanly: those that read the lists of a compound command (if, while, for, select, { }, ( )) call followStmts for every
// list, and those where an empty list is fine everywhere (the file, $( ), <( ), case items) call stmtList. A function
// that reads one of its lists through followStmts and another directly through stmtList lets the empty list into the
// variants that do not have it — for that one branch.
func checkStatementListsAgree(p *Prog, r *Result, rule string) {
	pkg := p.Pkg("syntax")
	info := pkg.TypesInfo
	follow := lookupFunc(pkg, "Parser.followStmts")
	list := lookupFunc(pkg, "Parser.stmtList")
	if follow == nil || list == nil {
		r.Fatalf("anchors Parser.followStmts / Parser.stmtList not found")
		return
	}
	n := 0
	for _, fd := range p.AllFuncDecls("syntax") {
		if fd.Body == nil || strings.HasSuffix(p.Position(fd.Pos()), "_test.go") {
			continue
		}
		if fo, _ := info.Defs[fd.Name].(*types.Func); fo == follow {
			continue
		}
		nFollow := 0
		var direct []*ast.CallExpr
		ast.Inspect(fd.Body, func(m ast.Node) bool {
			if c, ok := m.(*ast.CallExpr); ok {
				if callee := calleeOf(info, c); callee != nil {
					switch callee.Origin() {
					case follow:
						nFollow++
					case list:
						direct = append(direct, c)
					}
				}
			}
			return true
		})
		if nFollow == 0 {
			continue
		}
		n++
		key := funcKey("syntax", fd) + "#every statement list of the construct is read through followStmts"
		if len(direct) == 0 {
			r.OK(rule, key, fd.Pos(), fmt.Sprintf("%d lists, all through followStmts", nFollow))
			continue
		}
		r.Bad(rule, key, direct[0].Pos(), fmt.Sprintf("%s reads %d of its statement lists through followStmts, which rejects an empty list outside mksh and zsh, and %d directly through stmtList, which does not: that branch accepts an empty command list in POSIX and Bash too", fd.Name.Name, nFollow, len(direct)))
	}
	if n == 0 {
		r.Bad(rule, "syntax#no function reads its lists through followStmts", follow.Pos(), "the rule no longer sees the construct it is about")
	}
}
