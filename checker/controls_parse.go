package main

import (
	"go/ast"
	"go/parser"
	"go/token"
)

func parserParseFile(fset *token.FileSet, src []byte) (*ast.File, error) {
	return parser.ParseFile(fset, "ctl.go", src, parser.ParseComments)
}
