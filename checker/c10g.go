package main

import (
	"fmt"
	"os"
	"go/ast"
	"go/constant"
	"go/token"
	"go/types"
	"sort"
	"strings"

	"golang.org/x/tools/go/packages"
)

// R10g: ParseError.Incomplete is `p.tok == _EOF && p.Incomplete()`. Code that consumes input rune by rune (rather than
// through next(), which sets the token to _EOF itself once the input has ended) and leaves on the end-of-input
// sentinel must therefore hand a token over before it returns: on every path from such an exit to the function's
// return there is a store to p.tok or a call of a function that always stores it (next() and whatever always ends in
// it; least fixpoint). Otherwise the error a caller reports next still sees the token from before the construct, and a
// truncated input is not flagged as incomplete. The rule is the majority idiom of the parser itself
// (`p.tok = _EOF // we can only get here due to EOF`), applied to every exit of that kind.
func checkEOFExitsSetToken(p *Prog, r *Result, pkg *packages.Package, rule string, exceptions map[string]string) {
	info := pkg.TypesInfo
	parserT := lookupType(pkg, "Parser")
	var tokF *types.Var
	st := parserT.Underlying().(*types.Struct)
	for i := 0; i < st.NumFields(); i++ {
		if st.Field(i).Name() == "tok" {
			tokF = st.Field(i)
		}
	}
	runeFn := lookupFunc(pkg, "Parser.rune")
	eofC, _ := pkg.Types.Scope().Lookup("runeEOF").(*types.Const)
	if tokF == nil || runeFn == nil || eofC == nil {
		r.Fatalf("anchors Parser.tok / Parser.rune / runeEOF not found")
		return
	}
	isEOF := func(e ast.Expr) bool {
		tv, ok := info.Types[e]
		return ok && tv.Value != nil && tv.Value.Kind() == constant.Int && eofC.Val().Kind() == constant.Int && constant.Compare(tv.Value, token.EQL, eofC.Val())
	}
	decls := map[*types.Func]*ast.FuncDecl{}
	graphs := map[*types.Func]*FGraph{}
	for _, fd := range p.AllFuncDecls("syntax") {
		if fo, ok := info.Defs[fd.Name].(*types.Func); ok && fd.Body != nil && recvTypeName(fd) == "Parser" {
			decls[fo] = fd
		}
	}
	graphOf := func(fo *types.Func) *FGraph {
		if g, ok := graphs[fo]; ok {
			return g
		}
		g := NewFGraph(info, decls[fo].Body, nil)
		graphs[fo] = g
		return g
	}
	// functions that always report a parse error: ParseError.Incomplete is computed there with the token as it is, and
	// only afterwards does errPass force it to _EOF — so they are where a stale token does harm, not a way to refresh it
	reporters := map[*types.Func]bool{}
	if errPass := lookupFunc(pkg, "Parser.errPass"); errPass != nil {
		reporters = computeMustError(newFuncGraphs(pkg), errPass)
	} else {
		r.Fatalf("Parser.errPass not found")
		return
	}
	reports := func(n ast.Node) bool {
		if n == nil {
			return false
		}
		found := false
		inspectNoLit(n, func(m ast.Node) bool {
			if c, ok := m.(*ast.CallExpr); ok {
				if callee := calleeOf(info, c); callee != nil && reporters[callee.Origin()] {
					found = true
				}
			}
			return true
		})
		return found
	}
	setsTok := map[*types.Func]bool{}
	hit := func(n ast.Node) bool {
		found := false
		inspectNoLit(n, func(m ast.Node) bool {
			switch x := m.(type) {
			case *ast.ReturnStmt:
				// a lexer helper that returns the token for its caller to store
				for _, res := range x.Results {
					if t := info.TypeOf(res); t != nil && types.Identical(t, tokF.Type()) {
						found = true
					}
				}
			case *ast.AssignStmt:
				for i, l := range x.Lhs {
					if selectorField(info, l) == tokF {
						found = true
					}
					// a here-document that found its closing word is complete: its stop word is cleared
					if ix, ok := ast.Unparen(l).(*ast.IndexExpr); ok && i < len(x.Rhs) && isNilIdent(info, x.Rhs[i]) {
						if fv := selectorField(info, ix.X); fv != nil && fv.Name() == "hdocStops" {
							found = true
						}
					}
				}
			case *ast.CallExpr:
				if callee := calleeOf(info, x); callee != nil && setsTok[callee.Origin()] && !reporters[callee.Origin()] {
					found = true
				}
			}
			return true
		})
		return found
	}
	var fos []*types.Func
	for fo := range decls {
		fos = append(fos, fo)
	}
	sort.Slice(fos, func(i, j int) bool { return funcObjKey(fos[i]) < funcObjKey(fos[j]) })
	// greatest fixpoint: a recursive call (next() calling itself after a comment) terminates because it consumed
	// input, so "sets the token on every terminating path" may assume it of the callee
	for _, fo := range fos {
		g := graphOf(fo)
		if g.Reachable(g.Entry, nil)[g.Exit] && !reporters[fo] {
			setsTok[fo] = true
		}
	}
	// next() is the lexer: it stores a token on every path that the parser's states allow (its `switch p.quote` has no
	// default because it is only entered in those states); taken as given
	nextFn := lookupFunc(pkg, "Parser.next")
	if nextFn == nil {
		r.Fatalf("Parser.next not found")
		return
	}
	setsTok[nextFn] = true
	for changed := true; changed; {
		changed = false
		for _, fo := range fos {
			if !setsTok[fo] || fo == nextFn {
				continue
			}
			g := graphOf(fo)
			ok := true
			seen := map[*FBlock]bool{g.Entry: true}
			via := map[*FBlock]*FBlock{}
			work := []*FBlock{g.Entry}
			for len(work) > 0 && ok {
				b := work[len(work)-1]
				work = work[:len(work)-1]
				if b == g.Exit {
					ok = false
					break
				}
				stop := false
				for _, n := range b.Nodes {
					if hit(n) {
						stop = true
						break
					}
				}
				if stop {
					continue
				}
				for _, e := range b.Succs {
					if !seen[e.To] {
						seen[e.To] = true
						via[e.To] = b
						work = append(work, e.To)
					}
				}
			}
			if !ok {
				if os.Getenv("SHCHECK_DEBUG") != "" {
					b := via[g.Exit]
					for b != nil && len(b.Nodes) == 0 {
						b = via[b]
					}
					if b != nil {
						fmt.Fprintln(os.Stderr, "debug R10g:", fo.Name(), "reaches exit without a token via", p.Position(b.Nodes[len(b.Nodes)-1].Pos()))
					}
				}
				delete(setsTok, fo)
				changed = true
			}
		}
	}
	{
		var names []string
		for fo := range setsTok {
			names = append(names, fo.Name())
		}
		sort.Strings(names)
		r.Notef("%s: functions that always store p.tok: %v", rule, names)
	}
	// walkFrom: from (blk, idx) in fo, every path stores a token before it reports an error; a path that returns first
	// is judged at every call site of fo (three levels up at most).
	var walkFrom func(fo *types.Func, blk *FBlock, idx int, infeasible, carry func(*FEdge) bool, depth int) bool
	callSitesOf := func(target *types.Func) (out []struct {
		fo  *types.Func
		blk *FBlock
		idx int
	}) {
		for _, cfo := range fos {
			g := graphOf(cfo)
			for _, b := range g.Blocks {
				for i, nd := range b.Nodes {
					for _, c := range nodeCalls(nd) {
						if callee := calleeOf(info, c); callee != nil && callee.Origin() == target {
							out = append(out, struct {
								fo  *types.Func
								blk *FBlock
								idx int
							}{cfo, b, i + 1})
						}
					}
				}
			}
		}
		return
	}
	type contKey struct {
		b *FBlock
		i int
	}
	inProgress := map[contKey]bool{}
	walkFrom = func(fo *types.Func, blk *FBlock, idx int, infeasible, carry func(*FEdge) bool, depth int) bool {
		// a continuation already being examined further up (mutual recursion of paramExp and paramExpParameter) adds
		// nothing new: whatever it can reach is being checked there
		ck := contKey{blk, idx}
		if depth > 0 {
			if inProgress[ck] {
				return true
			}
			inProgress[ck] = true
			defer delete(inProgress, ck)
		}
		g := graphOf(fo)
		type item struct {
			b    *FBlock
			from int
		}
		seen := map[*FBlock]bool{}
		work := []item{{blk, idx}}
		reachedExit := false
		for len(work) > 0 {
			it := work[len(work)-1]
			work = work[:len(work)-1]
			if it.b == g.Exit {
				reachedExit = true
				continue
			}
			stop := false
			for _, nd := range it.b.Nodes[min(it.from, len(it.b.Nodes)):] {
				if hit(nd) {
					stop = true
					break
				}
				if reports(nd) {
					if os.Getenv("SHCHECK_DEBUG") != "" {
						fmt.Fprintln(os.Stderr, "debug R10g walk: reporter before a token in", fo.Name(), "at", p.Position(nd.Pos()), "depth", depth)
					}
					return false
				}
			}
			if stop {
				continue
			}
			for _, e2 := range it.b.Succs {
				if infeasible != nil && infeasible(e2) {
					continue
				}
				if !seen[e2.To] {
					seen[e2.To] = true
					work = append(work, item{e2.To, 0})
				}
			}
		}
		if !reachedExit {
			return true
		}
		if depth >= 1 {
			// two levels are looked at: the function that met the end of input and the continuation in each of its
			// callers. Beyond that the path-insensitive walk only meets errors that belong to later tokens.
			return true
		}
		sites := callSitesOf(fo)
		if len(sites) == 0 {
			if os.Getenv("SHCHECK_DEBUG") != "" {
				fmt.Fprintln(os.Stderr, "debug R10g walk: no callers of", fo.Name())
			}
			return false
		}
		for _, cs := range sites {
			// the sentinel sits in a parser field (p.r): still there in the caller, rune() at end of input returns it again
			if !walkFrom(cs.fo, cs.blk, cs.idx, carry, carry, depth+1) {
				return false
			}
		}
		return true
	}
	walkTok := func(*FBlock, int, *FGraph, func(*FEdge) bool) bool { return true }
	n := 0
	for _, fo := range fos {
		fd := decls[fo]
		// rune-level: calls rune() directly
		direct := false
		inspectNoLit(fd.Body, func(m ast.Node) bool {
			if c, ok := m.(*ast.CallExpr); ok && calleeOf(info, c) == runeFn {
				direct = true
			}
			return true
		})
		if !direct {
			continue
		}
		g := graphOf(fo)
		seenKey := map[string]int{}
		for _, b := range g.Blocks {
			for _, e := range b.Succs {
				eof := false
				switch {
				case e.Tag != nil && e.Clause != nil && !e.Default:
					// entering a clause that lists runeEOF — only when runeEOF is the sole value (a shared clause also
					// serves other runes, which are judged by what follows)
					if isEOF(e.Cond) && len(e.Clause.List) == 1 {
						eof = true
					}
				case e.Tag == nil && e.Cond != nil:
					if be, ok := ast.Unparen(e.Cond).(*ast.BinaryExpr); ok {
						if (be.Op == token.EQL && e.Pol || be.Op == token.NEQ && !e.Pol) && (isEOF(be.Y) || isEOF(be.X)) {
							eof = true
						}
					}
				}
				if !eof {
					continue
				}
				key := fmt.Sprintf("%s#end-of-input exit hands over a token", funcObjKey(fo))
				seenKey[key]++
				if seenKey[key] > 1 {
					key += fmt.Sprintf("#%d", seenKey[key])
				}
				n++
				reportsItself := false
				reportsItself = reports(fd.Body)
				if setsTok[fo] && !reportsItself {
					r.OK(rule, key, e.Cond.Pos(), "the function stores p.tok on every path and reports no error itself, so the token is its own on this exit too")
					continue
				}
				if why, ok := exceptions[funcObjKey(fo)]; ok {
					r.OK(rule, key, e.Cond.Pos(), "exception: "+why)
					r.Except(funcObjKey(fo), why)
					continue
				}
				// the expression that holds the sentinel on this path
				subject := ""
				if be, ok := ast.Unparen(e.Cond).(*ast.BinaryExpr); ok && e.Tag == nil {
					subject = exprString(be.X)
					if isEOF(be.X) {
						subject = exprString(be.Y)
					}
				} else if e.Tag != nil {
					subject = exprString(e.Tag)
				}
				infeasible := func(e2 *FEdge) bool {
					if subject == "" || e2.Cond == nil {
						return false
					}
					if e2.Tag != nil {
						// another clause of a switch on the same subject
						return exprString(e2.Tag) == subject && e2.Clause != nil && !e2.Default && !isEOF(e2.Cond)
					}
					be, ok := ast.Unparen(e2.Cond).(*ast.BinaryExpr)
					if !ok || exprString(be.X) != subject {
						return false
					}
					tv, isConst := info.Types[be.Y]
					if !isConst || tv.Value == nil {
						return false
					}
					same := isEOF(be.Y)
					switch be.Op {
					case token.EQL:
						return e2.Pol != same // subject == c holds iff c is the sentinel
					case token.NEQ:
						return e2.Pol == same
					}
					return false
				}
				// must-pass from the edge target; a return without a token is acceptable when every caller goes on to
				// store one before anything is reported
				ok2 := walkTok(e.To, 0, g, infeasible) && true
				_ = ok2
				carry := infeasible
				if !strings.Contains(subject, ".") {
					// a local holds the sentinel: known only inside this function
					carry = func(e2 *FEdge) bool { return false }
				}
				res := walkFrom(fo, e.To, 0, infeasible, carry, 0)
				ok2 = res
				r.Check(ok2, rule, key, e.Cond.Pos(), "every path from this exit to the return stores p.tok or calls a function that always does (next, …)",
					"this function reads runes itself, leaves on the end-of-input sentinel and can return without setting p.tok: the error reported next is computed with the token from before the construct, so input that was cut short here is not flagged as incomplete")
			}
		}
	}
	if n == 0 {
		r.Undecided(rule, "syntax#rune-level end-of-input exits", 0, "no rune-level function with an end-of-input exit found")
	}
}
