package main

import (
	"fmt"
	"go/ast"
	"go/constant"
	"go/token"
	"go/types"
	"sort"
	"strings"

	"golang.org/x/tools/go/ssa"
)

func init() {
	register(&Property{
		ID:  "C32",
		Run: runC32,
		Decided: "everything the interpreter runs on another goroutine runs on a deep copy: inside every spawned function, each Runner that is written to (field store, or a method that stores " +
			"Runner fields) was obtained from subshell(true) in the spawning function; the parent Runner is only read there (R32a/R32b); a background job's exit status is stored before its " +
			"done channel is closed and is only read after receiving from that channel (R32c); the storage rules of C27 (R27a/R27b) hold, since a shared list or map written by a copy is a race as well as a leak.",
		NotDecided:  "the schedule space itself (no interleavings are explored); races inside user-supplied handlers and writers; loads of parent fields from spawned functions (listed in the evidence: error reporting through the parent's stderr) race only with a concurrent redirect in the parent.",
		Assumptions: []string{"subshell(true) returns a Runner sharing no mutable storage with its parent (R27b)", "go statements and WaitGroup.Go are the only ways package interp starts goroutines (enumerated)"},
		Controls:    c32Controls,
		Matrix:      true,
	})
}

// runnerFieldStores computes, for each function taking a *Runner as first
// parameter (methods), the Runner fields it may store through that parameter,
// directly or through static calls that pass it on.
func runnerFieldStores(fns []*ssa.Function, runnerT *types.Named) map[*ssa.Function]map[string]bool {
	sum := map[*ssa.Function]map[string]bool{}
	isRecv := func(fn *ssa.Function) bool {
		return len(fn.Params) > 0 && namedOf(fn.Params[0].Type()) == runnerT
	}
	// values in fn that are the receiver (param 0 or loads of its spill)
	recvValues := func(fn *ssa.Function) map[ssa.Value]bool {
		out := map[ssa.Value]bool{}
		if !isRecv(fn) {
			return out
		}
		out[fn.Params[0]] = true
		// spilled receiver: alloc + store + loads
		if refs := fn.Params[0].Referrers(); refs != nil {
			for _, ref := range *refs {
				if st, ok := ref.(*ssa.Store); ok && st.Val == fn.Params[0] {
					if alloc, ok := st.Addr.(*ssa.Alloc); ok {
						for _, r2 := range *alloc.Referrers() {
							if ld, ok := r2.(*ssa.UnOp); ok && ld.Op == token.MUL {
								out[ld] = true
							}
						}
					}
				}
			}
		}
		return out
	}
	for _, fn := range fns {
		sum[fn] = map[string]bool{}
	}
	for changed := true; changed; {
		changed = false
		for _, fn := range fns {
			if !isRecv(fn) {
				continue
			}
			rv := recvValues(fn)
			add := func(name string) {
				if !sum[fn][name] {
					sum[fn][name] = true
					changed = true
				}
			}
			for _, b := range fn.Blocks {
				for _, ins := range b.Instrs {
					switch x := ins.(type) {
					case *ssa.Store:
						if fa, ok := x.Addr.(*ssa.FieldAddr); ok && rv[fa.X] {
							add(fieldNameOf(fa))
						}
						// element store into an array/slice field of the receiver
						if ia, ok := x.Addr.(*ssa.IndexAddr); ok {
							if fa, ok := ia.X.(*ssa.FieldAddr); ok && rv[fa.X] {
								add(fieldNameOf(fa) + "[]")
							}
						}
					case *ssa.MapUpdate:
						// r.F[k] = v: the map a field holds is written
						if ld, ok := x.Map.(*ssa.UnOp); ok && ld.Op == token.MUL {
							if fa, ok := ld.X.(*ssa.FieldAddr); ok && rv[fa.X] {
								add(fieldNameOf(fa) + "[map]")
							}
						}
					case *ssa.Call:
						// delete(r.F, k), clear(r.F)
						if bi, ok := x.Common().Value.(*ssa.Builtin); ok && (bi.Name() == "delete" || bi.Name() == "clear") && len(x.Common().Args) > 0 {
							if ld, ok := x.Common().Args[0].(*ssa.UnOp); ok && ld.Op == token.MUL {
								if fa, ok := ld.X.(*ssa.FieldAddr); ok && rv[fa.X] {
									add(fieldNameOf(fa) + "[map]")
								}
							}
							continue
						}
						callee := x.Common().StaticCallee()
						if callee == nil || sum[callee] == nil || len(x.Common().Args) == 0 || !rv[x.Common().Args[0]] {
							continue
						}
						for f := range sum[callee] {
							add(f)
						}
					}
				}
			}
			// closures of fn that capture the receiver: their stores count for fn
			for _, an := range fn.AnonFuncs {
				for f := range closureRecvStores(an, fn, sum) {
					add(f)
				}
			}
		}
	}
	return sum
}

// closureRecvStores: fields of the captured receiver of outer stored inside closure cl.
func closureRecvStores(cl, outer *ssa.Function, sum map[*ssa.Function]map[string]bool) map[string]bool {
	out := map[string]bool{}
	if len(outer.Params) == 0 {
		return out
	}
	isRecvVal := func(v ssa.Value) bool {
		ld, ok := v.(*ssa.UnOp)
		if !ok || ld.Op != token.MUL {
			return false
		}
		fv, ok := ld.X.(*ssa.FreeVar)
		if !ok {
			return false
		}
		cell := freeVarCell(fv)
		if cell == nil {
			return false
		}
		for _, sv := range cellStores(cell) {
			if sv != outer.Params[0] {
				return false
			}
		}
		return true
	}
	for _, b := range cl.Blocks {
		for _, ins := range b.Instrs {
			switch x := ins.(type) {
			case *ssa.Store:
				if fa, ok := x.Addr.(*ssa.FieldAddr); ok && isRecvVal(fa.X) {
					out[fieldNameOf(fa)] = true
				}
			case *ssa.Call:
				callee := x.Common().StaticCallee()
				if callee != nil && sum[callee] != nil && len(x.Common().Args) > 0 && isRecvVal(x.Common().Args[0]) {
					for f := range sum[callee] {
						out[f] = true
					}
				}
			}
		}
	}
	for _, an := range cl.AnonFuncs {
		for f := range closureRecvStores(an, outer, sum) {
			out[f] = true
		}
	}
	return out
}

func runC32(p *Prog, r *Result) {
	r.Rule("R32a", "each goroutine started by package interp runs its statements on a Runner obtained from subshell(true) in the spawning function", 3)
	r.Rule("R32b", "inside spawned functions the parent Runner is never stored to (directly or through a method that stores Runner fields)", 3)
	r.Rule("R32c", "bgProc: *exit is stored before close(done) and nowhere after; every read of *exit follows a receive from the same done channel", 3)
	r.Rule("R32e", "every stream the interpreter installs as a shell's stdout or stderr at run time is safe to share with that shell's background jobs (inherited, an *os.File or pipe, or io.Discard)", 5)
	checkInstalledWritersShared(p, r, "R32e")
	r.Rule("R32d", "what a function starts on a sync.WaitGroup it waits for on every path to its exit", 1)
	checkWaitGroupJoined(p, r, "R32d")
	r.Rule("R27a", "writes to variable storage only through storage created in the same activation (shared with C27: such a write from a background copy is a data race)", 60)
	r.Rule("R27b", "subshell(): every map/slice/pointer field of the new Runner is a fresh copy (shared with C27)", 8)

	prog := p.SSA()
	ipkg := p.Pkg("interp")
	sp := p.SSAPkg("interp")
	if ipkg == nil || sp == nil {
		r.Fatalf("package interp not loaded")
		return
	}
	runnerT := lookupType(ipkg, "Runner")
	if runnerT == nil {
		r.Fatalf("interp.Runner not found")
		return
	}
	fns := moduleFunctions(prog, sp)
	stores := runnerFieldStores(fns, runnerT)
	subshellFn := prog.LookupMethod(types.NewPointer(runnerT), ipkg.Types, "subshell")
	if subshellFn == nil {
		r.Fatalf("anchor (*Runner).subshell not found")
		return
	}

	type spawn struct {
		in   *ssa.Function
		fn   *ssa.Function
		pos  token.Pos
		kind string
	}
	var spawns []spawn
	for _, fn := range fns {
		for _, b := range fn.Blocks {
			for _, ins := range b.Instrs {
				switch x := ins.(type) {
				case *ssa.Go:
					if mc, ok := x.Call.Value.(*ssa.MakeClosure); ok {
						spawns = append(spawns, spawn{fn, mc.Fn.(*ssa.Function), x.Pos(), "go statement"})
					} else if callee := x.Call.StaticCallee(); callee != nil {
						spawns = append(spawns, spawn{fn, callee, x.Pos(), "go statement"})
					} else {
						r.Undecided("R32a", ssaFuncKey(fn)+"#go with dynamic callee", x.Pos(), "cannot resolve the spawned function")
					}
				case *ssa.Call:
					callee := x.Common().StaticCallee()
					if callee != nil && ssaFuncName(callee) == "sync.(WaitGroup).Go" && len(x.Common().Args) == 2 {
						if mc, ok := x.Common().Args[1].(*ssa.MakeClosure); ok {
							spawns = append(spawns, spawn{fn, mc.Fn.(*ssa.Function), x.Pos(), "WaitGroup.Go"})
						} else {
							r.Undecided("R32a", ssaFuncKey(fn)+"#WaitGroup.Go with non-literal", x.Pos(), "cannot resolve the spawned function")
						}
					}
				}
			}
		}
	}
	sort.Slice(spawns, func(i, j int) bool { return spawns[i].pos < spawns[j].pos })

	// classify a *Runner value used inside a spawned closure
	classify := func(v ssa.Value, spawnedIn *ssa.Function) (string, string) {
		var cell *ssa.Alloc
		switch x := v.(type) {
		case *ssa.UnOp:
			if x.Op == token.MUL {
				switch a := x.X.(type) {
				case *ssa.FreeVar:
					cell = freeVarCell(a)
				case *ssa.Alloc:
					cell = a
				}
			}
		case *ssa.Call:
			if x.Common().StaticCallee() == subshellFn {
				return "local copy", "result of subshell() inside the goroutine"
			}
		}
		if cell == nil {
			return "unknown", fmt.Sprintf("%T", v)
		}
		svs := cellStores(cell)
		if len(svs) == 0 {
			return "unknown", "no stores"
		}
		allCopy, allParent := true, true
		for _, sv := range svs {
			isCopy := false
			if call, ok := sv.(*ssa.Call); ok && call.Common().StaticCallee() == subshellFn && len(call.Common().Args) == 2 {
				if c, ok := call.Common().Args[1].(*ssa.Const); ok && c.Value != nil && c.Value.Kind() == constant.Bool && constant.BoolVal(c.Value) {
					isCopy = true
				} else {
					return "shared", "subshell(false): shares the parent's environment overlay"
				}
			}
			if !isCopy {
				allCopy = false
			}
			if _, isParam := sv.(*ssa.Parameter); !isParam {
				allParent = false
			}
		}
		switch {
		case allCopy:
			return "copy", cell.Comment + " = subshell(true)"
		case allParent:
			return "parent", cell.Comment
		}
		return "unknown", "mixed stores to " + cell.Comment
	}

	for _, s := range spawns {
		skey := fmt.Sprintf("%s#%s", ssaFuncKey(s.in), s.kind)
		// all functions that run on the new goroutine: the closure and its nested closures
		var bodies []*ssa.Function
		var collect func(f *ssa.Function)
		collect = func(f *ssa.Function) {
			bodies = append(bodies, f)
			for _, an := range f.AnonFuncs {
				collect(an)
			}
		}
		collect(s.fn)
		usesRunner, copies, parentLoads := false, map[string]bool{}, map[string]bool{}
		for _, body := range bodies {
			for _, b := range body.Blocks {
				for _, ins := range b.Instrs {
					var recv ssa.Value
					what := ""
					var storedFields []string
					switch x := ins.(type) {
					case *ssa.Store:
						if fa, ok := x.Addr.(*ssa.FieldAddr); ok && namedOf(fa.X.Type()) == runnerT {
							recv, what = fa.X, "stores field "+fieldNameOf(fa)
							storedFields = []string{fieldNameOf(fa)}
						}
					case *ssa.MapUpdate:
						if ld, ok := x.Map.(*ssa.UnOp); ok && ld.Op == token.MUL {
							if fa, ok := ld.X.(*ssa.FieldAddr); ok && namedOf(fa.X.Type()) == runnerT {
								recv, what = fa.X, "writes the map in field "+fieldNameOf(fa)
								storedFields = []string{fieldNameOf(fa) + "[map]"}
							}
						}
					case *ssa.Call:
						c := x.Common()
						callee := c.StaticCallee()
						if callee != nil && len(c.Args) > 0 && namedOf(c.Args[0].Type()) == runnerT && callee.Signature.Recv() != nil {
							recv, what = c.Args[0], "calls "+callee.Name()
							for f := range stores[callee] {
								storedFields = append(storedFields, f)
							}
							sort.Strings(storedFields)
						}
					case *ssa.Defer:
						c := x.Common()
						callee := c.StaticCallee()
						if callee != nil && len(c.Args) > 0 && namedOf(c.Args[0].Type()) == runnerT {
							recv, what = c.Args[0], "defers "+callee.Name()
							for f := range stores[callee] {
								storedFields = append(storedFields, f)
							}
						}
					}
					if recv == nil {
						continue
					}
					usesRunner = true
					cls, desc := classify(recv, s.in)
					switch cls {
					case "copy", "local copy":
						copies[desc] = true
					case "parent":
						if len(storedFields) > 0 {
							r.Bad("R32b", skey+"/parent "+what, ins.Pos(), fmt.Sprintf("the spawned function %s on the parent Runner, which stores its fields %v while the parent keeps running: a data race", what, storedFields))
						} else {
							parentLoads[what] = true
						}
					case "shared":
						r.Bad("R32a", skey+"/"+what, ins.Pos(), "the spawned function works on a Runner from "+desc)
					default:
						if len(storedFields) > 0 {
							r.Undecided("R32a", skey+"/"+what, ins.Pos(), "cannot tell which Runner this is ("+desc+")")
						}
					}
				}
			}
		}
		if usesRunner {
			var cs []string
			for c := range copies {
				cs = append(cs, c)
			}
			sort.Strings(cs)
			r.Check(len(cs) > 0, "R32a", skey+"/runs on a copy", s.pos, "Runner used for execution: "+strings.Join(cs, ", "), "the goroutine uses a Runner but none obtained from subshell(true)")
			var pl []string
			for w := range parentLoads {
				pl = append(pl, w)
			}
			sort.Strings(pl)
			if len(pl) > 0 {
				r.OK("R32b", skey+"/parent is only read", s.pos, "parent Runner used for: "+strings.Join(pl, ", ")+" (none of them stores a Runner field)")
				r.Notef("R32b: %s reads the parent Runner from the goroutine (%s): observed, not decided (races only with a concurrent redirect in the parent)", skey, strings.Join(pl, ", "))
			} else {
				r.OK("R32b", skey+"/parent untouched", s.pos, "the parent Runner is not used inside the goroutine")
			}
		} else {
			r.OK("R32a", skey+"/no Runner involved", s.pos, "the goroutine only moves bytes between pipes/files")
		}
	}
	if len(spawns) == 0 {
		r.Notef("R32a: package interp starts no goroutines")
	}

	// ---- R32c (AST)
	info := ipkg.TypesInfo
	bgT := lookupType(ipkg, "bgProc")
	isExitDeref := func(e ast.Expr) (string, bool) {
		st, ok := ast.Unparen(e).(*ast.StarExpr)
		if !ok {
			return "", false
		}
		se, ok := ast.Unparen(st.X).(*ast.SelectorExpr)
		if !ok || se.Sel.Name != "exit" || bgT == nil || namedOf(info.TypeOf(se.X)) != bgT {
			return "", false
		}
		return exprString(se.X), true
	}
	for _, fd := range p.AllFuncDecls("interp") {
		ast.Inspect(fd.Body, func(n ast.Node) bool {
			blk, ok := n.(*ast.BlockStmt)
			if !ok {
				return true
			}
			for i, st := range blk.List {
				// defer close(X.done): deferred calls run in reverse order, after every plain statement
				if ds, ok := st.(*ast.DeferStmt); ok && isBuiltinCall(info, ds.Call, "close") && len(ds.Call.Args) == 1 {
					if se, ok := ast.Unparen(ds.Call.Args[0]).(*ast.SelectorExpr); ok && se.Sel.Name == "done" && bgT != nil && namedOf(info.TypeOf(se.X)) == bgT {
						x := exprString(se.X)
						before, after := false, false
						for j, s2 := range blk.List {
							stores := false
							ast.Inspect(s2, func(q ast.Node) bool {
								if as, ok := q.(*ast.AssignStmt); ok && len(as.Lhs) == 1 {
									if y, ok := isExitDeref(as.Lhs[0]); ok && y == x {
										stores = true
									}
								}
								return true
							})
							if !stores {
								continue
							}
							if _, deferred := s2.(*ast.DeferStmt); deferred && j < i {
								after = true // registered earlier, so it runs after the close
							} else {
								before = true
							}
						}
						r.Check(before && !after, "R32c", "interp."+fd.Name.Name+"#close("+x+".done)", ds.Pos(), "*"+x+".exit is stored by a plain statement or by a deferred function registered after this one, which therefore runs first",
							"the deferred close of the done channel runs before the deferred function that stores the exit status (deferred calls run last-registered-first): `wait` is released and reads a status that is not the job's yet")
						continue
					}
				}
				// close(X.done)
				es, ok := st.(*ast.ExprStmt)
				if !ok {
					continue
				}
				call, ok := es.X.(*ast.CallExpr)
				if !ok || !isBuiltinCall(info, call, "close") || len(call.Args) != 1 {
					continue
				}
				se, ok := ast.Unparen(call.Args[0]).(*ast.SelectorExpr)
				if !ok || se.Sel.Name != "done" || bgT == nil || namedOf(info.TypeOf(se.X)) != bgT {
					continue
				}
				x := exprString(se.X)
				before, after := false, false
				for j, s2 := range blk.List {
					if as, ok := s2.(*ast.AssignStmt); ok && len(as.Lhs) == 1 {
						if y, ok := isExitDeref(as.Lhs[0]); ok && y == x {
							if j < i {
								before = true
							} else {
								after = true
							}
						}
					}
				}
				r.Check(before && !after, "R32c", "interp."+fd.Name.Name+"#close("+x+".done)", call.Pos(), "*"+x+".exit is stored earlier in the same block and not afterwards",
					"the done channel is closed without the exit status having been stored first (or it is stored again afterwards): `wait` can read a status that is not the job's")
			}
			return true
		})
		// reads of *X.exit
		ast.Inspect(fd.Body, func(n ast.Node) bool {
			blk, ok := n.(*ast.BlockStmt)
			if !ok {
				return true
			}
			for i, st := range blk.List {
				as, ok := st.(*ast.AssignStmt)
				if !ok {
					continue
				}
				for _, rhs := range as.Rhs {
					x, ok := isExitDeref(rhs)
					if !ok {
						continue
					}
					recvBefore := false
					for _, s2 := range blk.List[:i] {
						if es, ok := s2.(*ast.ExprStmt); ok {
							if u, ok := ast.Unparen(es.X).(*ast.UnaryExpr); ok && u.Op == token.ARROW {
								if se, ok := ast.Unparen(u.X).(*ast.SelectorExpr); ok && se.Sel.Name == "done" && exprString(se.X) == x {
									recvBefore = true
								}
							}
						}
						// select { case <-X.done: ... } forms are handled by C31's rule; a read after such a select in the same block counts
						if sel, ok := s2.(*ast.SelectStmt); ok {
							ast.Inspect(sel, func(m ast.Node) bool {
								if u, ok := m.(*ast.UnaryExpr); ok && u.Op == token.ARROW {
									if se, ok := ast.Unparen(u.X).(*ast.SelectorExpr); ok && se.Sel.Name == "done" && exprString(se.X) == x {
										recvBefore = true
									}
								}
								return true
							})
						}
					}
					r.Check(recvBefore, "R32c", "interp."+fd.Name.Name+"#reads *"+x+".exit", rhs.Pos(), "after a receive from "+x+".done in the same block",
						"the exit status is read without first receiving from the job's done channel: a data race with the job, and possibly the wrong status")
				}
			}
			return true
		})
	}

	// ---- shared storage rules
	checkOwnership(p, r, "R27a", false)
	sub := newResult(r.Prop, r.prog)
	checkSubshellCopies(p, sub)
	for _, o := range sub.Obls {
		r.Obls = append(r.Obls, o)
	}
	r.Fatal = append(r.Fatal, sub.Fatal...)
}

var c32Controls = []Control{
	{Name: "pipeline-returns-before-wait", Rule: "R32d", WantKey: "wg.Go is waited for", File: "interp/runner.go",
		Mutate: ctlReplaceAnywhere("\t\t\tr.stmt(ctx, cm.Y)\n\t\t\tpr.Close()\n\t\t\twg.Wait()\n", "\t\t\tr.stmt(ctx, cm.Y)\n\t\t\tpr.Close()\n\t\t\tif r.exit.fatalExit {\n\t\t\t\tr.stdin = oldIn\n\t\t\t\treturn\n\t\t\t}\n\t\t\twg.Wait()\n")},
	{Name: "background-on-foreground-subshell", Rule: "R32a", WantKey: "stmt#go statement", File: "interp/runner.go",
		Mutate: ctlReplace("Runner.stmt", "r2 := r.subshell(true)", "r2 := r.subshell(false)", 0)},
	{Name: "pipeline-left-side-on-parent", Rule: "R32b", WantKey: "WaitGroup.Go/parent", File: "interp/runner.go",
		Mutate: ctlReplace("Runner.cmd", "r2.stmt(ctx, cm.X)", "r.stmt(ctx, cm.X)", 0)},
	{Name: "close-before-exit-stored", Rule: "R32c", WantKey: "close(bg.done)", File: "interp/runner.go",
		Mutate: ctlReplace("Runner.stmt", "*bg.exit = r2.exit", "", 0)},
	{Name: "wait-reads-exit-without-receive", Rule: "R32c", WantKey: "reads *bg.exit", File: "interp/builtin.go",
		Mutate: ctlReplaceAnywhere("\t\t\tbg := r.bgProcs[pid-1]\n\t\t\tselect {\n\t\t\tcase <-bg.done:\n\t\t\tcase <-ctx.Done():\n\t\t\t\texit.fatal(ctx.Err())\n\t\t\t\treturn exit\n\t\t\t}\n", "\t\t\tbg := r.bgProcs[pid-1]\n")},
	{Name: "dirstack-clipped", Rule: "R27b", WantKey: "field dirStack", File: "interp/api.go",
		Mutate: ctlReplace("Runner.subshell", "r2.dirStack = append(r2.dirBootstrap[:0], r.dirStack...)", "r2.dirStack = slices.Clip(r.dirStack)", 0)},
}
