package main

import (
	"fmt"
	"go/ast"
	"go/constant"
	"go/token"
	"go/types"
	"sort"
	"strings"

	"golang.org/x/tools/go/packages"
)

// R10j: preNested buries the here-documents that are pending (the lexer's newline arm does not read bodies while
// len(p.heredocs) <= p.buriedHdocs) and postNested digs them up again. The token that *follows* a nested construct
// belongs to the outer state: if it is a newline it must read the pending bodies. So after every postNested call, on
// every path to the function's return, the lexer is advanced (a call that can reach next() or rune(): it reads the
// closing token or what follows it in the restored state) or the token already in hand is known not to be a newline
// (the false branch of `p.tok == _Newl`). Error reports and recovery from an error (the true branch of
// recoverError()) end the obligation. This is the parser's own majority idiom — twelve of fourteen sites did it when the
// rule was written; the two that did not mis-parsed `cat <<EOF | [[ a ]]` and `cat <<EOF | let x=1`.
func checkRestoreBeforeNextToken(p *Prog, r *Result, pkg *packages.Package, rule string) {
	info := pkg.TypesInfo
	post := lookupFunc(pkg, "Parser.postNested")
	next := lookupFunc(pkg, "Parser.next")
	runeFn := lookupFunc(pkg, "Parser.rune")
	recov := lookupFunc(pkg, "Parser.recoverError")
	errPass := lookupFunc(pkg, "Parser.errPass")
	newlC, _ := pkg.Types.Scope().Lookup("_Newl").(*types.Const)
	parserT := lookupType(pkg, "Parser")
	if post == nil || next == nil || runeFn == nil || errPass == nil || newlC == nil || parserT == nil {
		r.Fatalf("anchors Parser.postNested / next / rune / errPass / _Newl not found")
		return
	}
	var tokF *types.Var
	st := parserT.Underlying().(*types.Struct)
	for i := 0; i < st.NumFields(); i++ {
		if st.Field(i).Name() == "tok" {
			tokF = st.Field(i)
		}
	}
	if tokF == nil {
		r.Fatalf("anchor Parser.tok not found")
		return
	}
	fgs := newFuncGraphs(pkg)
	reporters := computeMustError(fgs, errPass)
	var fos []*types.Func
	for fo, fd := range fgs.decls {
		if !strings.HasSuffix(pkg.Fset.Position(fd.Pos()).Filename, "_test.go") {
			fos = append(fos, fo)
		}
	}
	sort.Slice(fos, func(i, j int) bool { return fgs.decls[fos[i]].Pos() < fgs.decls[fos[j]].Pos() })
	// may-advance: least fixpoint over the static call graph
	callees := map[*types.Func][]*types.Func{}
	type callSite struct {
		in   *types.Func
		call *ast.CallExpr
	}
	callSites := map[*types.Func][]callSite{}
	for _, fo := range fos {
		inspectNoLit(fgs.decls[fo].Body, func(n ast.Node) bool {
			if c, ok := n.(*ast.CallExpr); ok {
				if callee := calleeOf(info, c); callee != nil {
					callees[fo] = append(callees[fo], callee.Origin())
					callSites[callee.Origin()] = append(callSites[callee.Origin()], callSite{fo, c})
				}
			}
			return true
		})
	}
	adv := map[*types.Func]bool{next: true, runeFn: true}
	for changed := true; changed; {
		changed = false
		for _, fo := range fos {
			if adv[fo] {
				continue
			}
			for _, c := range callees[fo] {
				if adv[c] {
					adv[fo] = true
					changed = true
					break
				}
			}
		}
	}
	isNewl := func(e ast.Expr) bool {
		tv, ok := info.Types[e]
		return ok && tv.Value != nil && tv.Value.Kind() == constant.Int && types.Identical(tv.Type, newlC.Type()) && constant.Compare(tv.Value, token.EQL, newlC.Val())
	}
	n := 0
	for _, fo := range fos {
		fd := fgs.decls[fo]
		var calls []*ast.CallExpr
		inspectNoLit(fd.Body, func(m ast.Node) bool {
			if c, ok := m.(*ast.CallExpr); ok {
				if callee := calleeOf(info, c); callee != nil && callee.Origin() == post {
					calls = append(calls, c)
				}
			}
			return true
		})
		if len(calls) == 0 {
			continue
		}
		g := fgs.graph(fo)
		recovering := func(e *FEdge) bool {
			if e.Cond == nil || !e.Pol {
				return false
			}
			c, ok := ast.Unparen(e.Cond).(*ast.CallExpr)
			if !ok {
				return false
			}
			callee := calleeOf(info, c)
			return callee != nil && recov != nil && callee.Origin() == recov
		}
		for i, c := range calls {
			n++
			key := fmt.Sprintf("%s#postNested", funcKey("syntax", fd))
			if len(calls) > 1 {
				key = fmt.Sprintf("%s (%d)", key, i+1)
			}
			b, idx := g.BlockOf(c)
			if b == nil {
				r.Undecided(rule, key, c.Pos(), "the call was not found in the function's flow graph")
				continue
			}
			if underEdges(g, b, recovering) {
				r.OK(rule, key, c.Pos(), "reached only while recovering from a syntax error (the true branch of recoverError())")
				continue
			}
			hit := func(m ast.Node) bool {
				found := false
				inspectNoLit(m, func(k ast.Node) bool {
					if cc, ok := k.(*ast.CallExpr); ok && cc != c {
						if callee := calleeOf(info, cc); callee != nil && (adv[callee.Origin()] || reporters[callee.Origin()]) {
							found = true
						}
					}
					return true
				})
				return found
			}
			skip := func(e *FEdge) bool {
				if e.Cond == nil || e.Tag != nil || e.TypeCase {
					return false
				}
				be, ok := ast.Unparen(e.Cond).(*ast.BinaryExpr)
				if !ok || selectorField(info, be.X) != tokF || !isNewl(be.Y) {
					return false
				}
				return (be.Op == token.EQL && !e.Pol) || (be.Op == token.NEQ && e.Pol)
			}
			ok, _ := g.MustPass(b, idx, g.Exit, hit, skip)
			how := "every path from the restore to the return advances the lexer, reports an error, or has tested that the token in hand is not a newline"
			// a deferred restore runs when the function returns: nothing of this function comes after it
			deferred := false
			inspectNoLit(fd.Body, func(m ast.Node) bool {
				if ds, isDefer := m.(*ast.DeferStmt); isDefer && ds.Call == c {
					deferred = true
				}
				return true
			})
			if deferred {
				ok = false
			}
			if !ok && len(callSites[fo]) > 0 {
				// the closing token may be left for the caller: then every caller must read on after the call
				all := true
				var names []string
				for _, cs := range callSites[fo] {
					cg := fgs.graph(cs.in)
					cb, cidx := cg.BlockOf(cs.call)
					if cb == nil {
						all = false
						break
					}
					chit := func(m ast.Node) bool {
						found := false
						inspectNoLit(m, func(k ast.Node) bool {
							if cc, ok := k.(*ast.CallExpr); ok && cc != cs.call {
								if callee := calleeOf(info, cc); callee != nil && (adv[callee.Origin()] || reporters[callee.Origin()]) {
									found = true
								}
							}
							return true
						})
						return found
					}
					if pass, _ := cg.MustPass(cb, cidx, cg.Exit, chit, skip); !pass {
						all = false
						break
					}
					names = append(names, cs.in.Name())
				}
				if all {
					ok = true
					how = "a path returns with the closing token still in hand, and every caller (" + strings.Join(names, ", ") + ") advances the lexer after the call on every path"
				}
			}
			r.Check(ok, rule, key, c.Pos(), how,
				"the nested lexer state is restored and a path returns without reading another token: the token that follows the construct was read while the pending here-documents were still buried, so a newline there does not read their bodies — they are parsed as commands, and an input cut at that newline is reported as `unclosed here-document` that is not incomplete")
		}
	}
	r.Notef("%s: %d postNested sites; %d functions can advance the lexer", rule, n, len(adv))
}
