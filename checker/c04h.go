package main

import (
	"fmt"
	"go/ast"
	"go/types"
)

// R04h: taking an expansion out of its double quotes (`w.Parts = dq.Parts`) changes how the words *inside* the
// expansion are read — in "${a:-'x'}" the single quotes are characters, in ${a:-'x'} they quote. So wherever a
// simplifier method keeps the parts of a *DblQuoted and drops the node, the store is reached only through the failing
// branch of a predicate over the kept expansion that can tell quoting nodes apart (its body names *SglQuoted).
func checkUnquoteLooksInside(p *Prog, r *Result, si *syntaxInfo, rule string) {
	pkg := si.pkg
	info := pkg.TypesInfo
	dqT := lookupType(pkg, "DblQuoted")
	sqT := lookupType(pkg, "SglQuoted")
	if dqT == nil || sqT == nil {
		r.Fatalf("anchors DblQuoted / SglQuoted not found")
		return
	}
	fgs := newFuncGraphs(pkg)
	namesSgl := map[*types.Func]bool{}
	for fo, fd := range fgs.decls {
		ast.Inspect(fd.Body, func(n ast.Node) bool {
			if id, ok := n.(*ast.Ident); ok {
				if tn, ok := info.Uses[id].(*types.TypeName); ok && tn == sqT.Obj() {
					namesSgl[fo] = true
				}
			}
			return true
		})
	}
	n := 0
	for _, fd := range p.AllFuncDecls("syntax") {
		if fd.Body == nil || recvTypeName(fd) != "simplifier" {
			continue
		}
		var g *FGraph
		ast.Inspect(fd.Body, func(m ast.Node) bool {
			as, ok := m.(*ast.AssignStmt)
			if !ok || len(as.Lhs) != len(as.Rhs) {
				return true
			}
			for i, rhs := range as.Rhs {
				se, ok := ast.Unparen(rhs).(*ast.SelectorExpr)
				if !ok || se.Sel.Name != "Parts" {
					continue
				}
				if nt := namedOf(derefType(info.TypeOf(se.X))); nt != dqT {
					continue
				}
				lse, ok := ast.Unparen(as.Lhs[i]).(*ast.SelectorExpr)
				if !ok || lse.Sel.Name != "Parts" {
					continue
				}
				n++
				key := fmt.Sprintf("%s#%s = %s looks inside the expansion first", funcKey("syntax", fd), exprString(as.Lhs[i]), exprString(rhs))
				if g == nil {
					g = NewFGraph(info, fd.Body, nil)
				}
				blk := blockContaining(g, as)
				under := blk != nil && underEdges(g, blk, func(e *FEdge) bool {
					if e.Cond == nil || e.Pol || e.Tag != nil || e.TypeCase {
						return false
					}
					c, ok := ast.Unparen(e.Cond).(*ast.CallExpr)
					if !ok {
						return false
					}
					callee := calleeOf(info, c)
					return callee != nil && namesSgl[callee.Origin()]
				})
				r.Check(under, rule, key, as.Pos(), "reached only when a predicate that distinguishes quoting nodes answered false for the kept expansion",
					"the parts of a double-quoted string are kept and the quotes dropped without a look inside the expansion: in \"${a:-'x'}\" the single quotes are characters, in ${a:-'x'} they quote (likewise escapes and tildes), so the rewritten test compares another string")
			}
			return true
		})
	}
	if n == 0 {
		r.Notef("%s: no simplifier method takes the parts of a DblQuoted out of their quotes", rule)
	}
}
