package main

import (
	"go/ast"
	"go/token"
	"go/types"

	"golang.org/x/tools/go/packages"
)

// R06l: R06h counts "reports an error" as leaving a loop because errPass forces the token to _EOF — but errPass does
// nothing once p.err is set, and fill() stores a read error in p.err *without* touching p.tok ("we don't want to
// overwrite p.tok"). What makes that sound is the epilogue of the two token producers: next() and nextKeepSpaces()
// end with `if p.err != nil { p.tok = _EOF }`. So: if some function stores p.err without storing p.tok, then in each
// token producer every path that falls off the end of the body (rather than through an explicit return) passes a test
// of p.err whose true branch stores p.tok = _EOF (directly or through a helper that is exactly that). Without it a
// read error that arrives mid-token leaves a live token with p.err set: curErr is then a no-op and the parser's
// non-consuming error loops (callExpr, wordIter, caseItems) spin forever.
func checkErrorReachesToken(p *Prog, r *Result, pkg *packages.Package, rule string) {
	info := pkg.TypesInfo
	parserT := lookupType(pkg, "Parser")
	eofC, _ := pkg.Types.Scope().Lookup("_EOF").(*types.Const)
	if parserT == nil || eofC == nil {
		r.Fatalf("anchors Parser / _EOF not found")
		return
	}
	var errF, tokF *types.Var
	st := parserT.Underlying().(*types.Struct)
	for i := 0; i < st.NumFields(); i++ {
		switch st.Field(i).Name() {
		case "err":
			errF = st.Field(i)
		case "tok":
			tokF = st.Field(i)
		}
	}
	if errF == nil || tokF == nil {
		r.Fatalf("anchors Parser.err / Parser.tok not found")
		return
	}
	stores := func(body ast.Node, f *types.Var) bool {
		found := false
		ast.Inspect(body, func(n ast.Node) bool {
			if as, ok := n.(*ast.AssignStmt); ok {
				for _, l := range as.Lhs {
					if selectorField(info, l) == f {
						found = true
					}
				}
			}
			return true
		})
		return found
	}
	// the premise: an error stored without a token
	premise := ""
	for _, fd := range p.AllFuncDecls("syntax") {
		if fd.Body == nil || recvTypeName(fd) != "Parser" || fd.Name.Name == "reset" {
			continue
		}
		if stores(fd.Body, errF) && !stores(fd.Body, tokF) {
			premise = fd.Name.Name
		}
	}
	if premise == "" {
		r.Notef("%s: every store of p.err comes with a store of p.tok: no epilogue is needed", rule)
		return
	}
	isEOFStore := func(n ast.Node) bool {
		found := false
		ast.Inspect(n, func(m ast.Node) bool {
			if as, ok := m.(*ast.AssignStmt); ok && len(as.Lhs) == len(as.Rhs) {
				for i, l := range as.Lhs {
					if selectorField(info, l) == tokF {
						if tv, ok := info.Types[as.Rhs[i]]; ok && tv.Value != nil && tv.Value.ExactString() == eofC.Val().ExactString() && types.Identical(tv.Type, eofC.Type()) {
							found = true
						}
					}
				}
			}
			return true
		})
		return found
	}
	isEpilogueIf := func(n ast.Node) bool {
		is, ok := n.(*ast.IfStmt)
		if !ok || is.Else != nil {
			return false
		}
		be, ok := ast.Unparen(is.Cond).(*ast.BinaryExpr)
		if !ok || be.Op != token.NEQ || selectorField(info, be.X) != errF || !isNilIdent(info, be.Y) {
			return false
		}
		return isEOFStore(is.Body)
	}
	fgs := newFuncGraphs(pkg)
	// a helper whose whole body is the epilogue
	isEpilogueCall := func(n ast.Node) bool {
		found := false
		inspectNoLit(n, func(m ast.Node) bool {
			if c, ok := m.(*ast.CallExpr); ok {
				if callee := calleeOf(info, c); callee != nil {
					if hd := fgs.decls[callee.Origin()]; hd != nil && hd.Body != nil && len(hd.Body.List) == 1 && isEpilogueIf(hd.Body.List[0]) {
						found = true
					}
				}
			}
			return true
		})
		return found
	}
	for _, name := range []string{"next", "nextKeepSpaces"} {
		fd := p.FuncDecl("syntax", "Parser."+name)
		if fd == nil {
			r.Fatalf("anchor Parser.%s not found", name)
			continue
		}
		key := funcKey("syntax", fd) + "#a stored error forces the token to _EOF before falling off the end"
		// the epilogue is a statement of the body: the cond node `p.err != nil` is what the graph holds
		var epi []ast.Node
		ast.Inspect(fd.Body, func(n ast.Node) bool {
			if isEpilogueIf(n) {
				epi = append(epi, n.(*ast.IfStmt).Cond)
			}
			return true
		})
		g := NewFGraph(info, fd.Body, nil)
		hit := func(n ast.Node) bool {
			for _, e := range epi {
				if n == e || (n.Pos() <= e.Pos() && e.End() <= n.End()) {
					return true
				}
			}
			return isEpilogueCall(n)
		}
		skip := func(e *FEdge) bool {
			// leaving through an explicit return statement is not "falling off the end"
			if e.To != g.Exit || len(e.From.Nodes) == 0 {
				return false
			}
			_, isRet := e.From.Nodes[len(e.From.Nodes)-1].(*ast.ReturnStmt)
			return isRet
		}
		ok, _ := g.MustPass(g.Entry, -1, g.Exit, hit, skip)
		r.Check(ok, rule, key, fd.Pos(), premise+"() stores p.err without a token; every fall-through path of "+name+"() passes `if p.err != nil { p.tok = _EOF }`",
			premise+"() stores a read error in p.err without touching p.tok, and "+name+"() can fall off its end without forcing the token to _EOF when p.err is set: a read error (or invalid UTF-8) that arrives mid-token leaves a live token, curErr becomes a no-op, and the parser's error loops that do not consume input spin forever")
	}
}
